(* C12_Spec.v — the declarative specification of the reference server's request checks,
   written from the property text and the protocol documents (Connect: "Connect-Timeout-Ms:
   positive integer as ASCII string of at most 10 digits", milliseconds; gRPC: "TimeoutValue:
   positive integer as ASCII string of at most 8 digits" followed by one TimeoutUnit H M S m u n).
   Nothing here refers to how checks.go computes anything: no ParseInt, no wrap-around, no
   round trips, no content-type dispatch.  The vocabulary (request record, feedback kinds, the
   test matrix `axes`/`actual`, `render`, `with_expect`) is the model's. *)
From V Require Export C12_Model.
Open Scope Z_scope.

(* ---------- 1. the matrix: which aspects of a set-up a request deviates in ---------- *)
Inductive aspect := AVersion | AMethod | AProtocol | ACodec | ACompression | ATls | ACert.

Definition tls_on (t : tlsmode) : bool := match t with Plain => false | _ => true end.

(* e: what the runner announced; a: what the client did.  The client certificate can only be
   judged on a TLS connection that was supposed to be one. *)
Definition deviates (A : aspect) (e a : axes) : Prop :=
  match A with
  | AVersion => a_version e <> a_version a
  | AMethod => a_get e <> a_get a
  | AProtocol => a_protocol e <> a_protocol a
  | ACodec => a_codec e <> a_codec a
  | ACompression => a_compression e <> a_compression a
  | ATls => tls_on (a_tls e) <> tls_on (a_tls a)
  | ACert => tls_on (a_tls e) = true /\ tls_on (a_tls a) = true /\ a_tls e <> a_tls a
  end.

(* the aspect a feedback line is about (None: a line about something else) *)
Definition aspect_of (k : kind) : option aspect :=
  match k with
  | KVersion _ _ => Some AVersion
  | KMethod _ _ => Some AMethod
  | KProtocol _ _ => Some AProtocol
  | KCodec _ _ => Some ACodec
  | KCompression _ _ => Some ACompression
  | KTlsExpected | KPlainExpected => Some ATls
  | KCert _ _ => Some ACert
  | _ => None
  end.

(* the exact lines (one per deviating aspect, in the order the server writes them): each names
   what was announced and what was seen *)
Definition cert_name (t : tlsmode) : bytes := match t with TlsCert => c12_client_cert_name | _ => [] end.
Definition method_name (get : bool) : bytes := if get then bs "GET" else bs "POST".

Definition fb_version (e a : axes) : fb :=
  if Z.eqb (version_num (a_version e)) (version_num (a_version a)) then []
  else [KVersion (version_num (a_version e)) (version_num (a_version a))].
Definition fb_protocol (e a : axes) : fb :=
  if Z.eqb (protocol_num (a_protocol e)) (protocol_num (a_protocol a)) then []
  else [KProtocol (protocol_num (a_protocol e)) (protocol_num (a_protocol a))].
Definition fb_codec (e a : axes) : fb :=
  if Z.eqb (codec_num (a_codec e)) (codec_num (a_codec a)) then []
  else [KCodec (codec_name (a_codec e)) (codec_name (a_codec a))].
Definition fb_compression (e a : axes) : fb :=
  if Z.eqb (compression_num (a_compression e)) (compression_num (a_compression a)) then []
  else [KCompression (compression_name (a_compression e)) (compression_name (a_compression a))].
Definition fb_tls (e a : axes) : fb :=
  match tls_on (a_tls e), tls_on (a_tls a) with
  | true, false => [KTlsExpected]
  | false, true => [KPlainExpected]
  | false, false => []
  | true, true => if bytes_eqb (cert_name (a_tls e)) (cert_name (a_tls a)) then []
                  else [KCert (cert_name (a_tls e)) (cert_name (a_tls a))]
  end.
Definition fb_method (e a : axes) : fb :=
  if Bool.eqb (a_get e) (a_get a) then [] else [KMethod (method_name (a_get e)) (method_name (a_get a))].

Definition expected_feedback (e a : axes) : fb :=
  fb_version e a ++ fb_protocol e a ++ fb_codec e a ++ fb_compression e a ++ fb_tls e a ++ fb_method e a.

(* ---------- 2. histories: how often a test name was seen before ---------- *)
Definition name_of (r : request) : bytes := hd [] (x_name r).
Fixpoint seen_before (name : bytes) (history : list request) : Z :=
  match history with
  | [] => 0
  | r :: h => (if bytes_eqb name (name_of r) then 1 else 0) + seen_before name h
  end.

(* overlapping requests: a history is a list of BEGIN / END events (a request begins when it reaches the
   server, ends when the server is done with it; any number of others may begin and end in between).
   What counts for "repeated request of the same test" is how many requests of that test BEGAN earlier -
   whether or not they have ended. *)
Fixpoint begun_before (name : bytes) (history : list event) : Z :=
  match history with
  | [] => 0
  | EvBegin r :: h => (if bytes_eqb name (name_of r) then 1 else 0) + begun_before name h
  | EvEnd _ :: h => begun_before name h
  end.
(* what is written while an event is processed *)
Definition written (o : ev_out) : fb :=
  match o with OBegin o => feedback_of o | OEnd _ f => f | OIdle => [] end.

(* ---------- 2b. the assembled server and its one deliberate exemption ---------- *)
(* The reference server serves five procedures.  connect-go refuses a bidirectional stream on a request
   that says HTTP/1.x; to test half-duplex bidi over HTTP/1.1 the reference server therefore tells the RPC
   handler of BidiStream - and only that handler - that such a request is HTTP/2.  This is the whole
   exemption: it concerns what the RPC handler is told, NOT what is judged.  The HTTP version of every
   request, BidiStream over HTTP/1.1 included, is judged as it arrived on the wire, so the matrix statements
   (silent iff everything matches, one line per deviating aspect) hold for all five procedures unchanged. *)
Definition handler_version (p : procedure) (wire : Z) : Z :=
  match p with
  | ProcBidiStream => if wire =? 1 then 2 else wire
  | _ => wire
  end.

(* ---------- 3. the timeout grammars ---------- *)
Definition digit (c : N) : Prop := (48 <= c <= 57)%N.
Definition digits (s : bytes) : Prop := s <> [] /\ Forall digit s.

(* decimal value, least significant digit first / as written *)
Fixpoint value_lsf (r : bytes) : Z :=
  match r with [] => 0 | c :: r' => (Z.of_N c - 48) + 10 * value_lsf r' end.
Definition value (s : bytes) : Z := value_lsf (rev s).

Definition max_duration : Z := 2 ^ 63 - 1.            (* time.Duration is an int64 of nanoseconds *)
Definition saturate (ns : Z) : Z := Z.min ns max_duration.

(* Connect: 1 to 10 digits, milliseconds *)
Definition connect_grammar (s : bytes) : Prop := digits s /\ (length s <= 10)%nat.
Definition connect_duration (s : bytes) : Z := saturate (value s * 1000000).

(* gRPC and gRPC-Web: 1 to 8 digits and one unit *)
Definition unit_ns (u : N) : option Z :=
  if (u =? 72)%N then Some 3600000000000        (* H *)
  else if (u =? 77)%N then Some 60000000000     (* M *)
  else if (u =? 83)%N then Some 1000000000      (* S *)
  else if (u =? 109)%N then Some 1000000        (* m *)
  else if (u =? 117)%N then Some 1000           (* u *)
  else if (u =? 110)%N then Some 1              (* n *)
  else None.
Definition grpc_timeout_is (s : bytes) (d : Z) : Prop :=
  exists ds u ns, s = ds ++ [u] /\ digits ds /\ (length ds <= 8)%nat /\ unit_ns u = Some ns /\
                  d = saturate (value ds * ns).
Definition grpc_grammar (s : bytes) : Prop := exists d, grpc_timeout_is s d.

(* per protocol: the header that carries the timeout, whether a value follows the grammar,
   and the duration it stands for *)
Definition timeout_header (p : protocol) (r : request) : list bytes :=
  match p with PConnect => connect_timeout r | _ => grpc_timeout r end.
Definition timeout_is (p : protocol) (s : bytes) (d : Z) : Prop :=
  match p with
  | PConnect => connect_grammar s /\ d = connect_duration s
  | _ => grpc_timeout_is s d
  end.
Definition without_timeout (p : protocol) (r : request) : request :=
  match p with PConnect => set_connect_timeout r [] | _ => set_grpc_timeout r [] end.

(* feedback lines about the timeout header *)
Definition is_timeout_kind (k : kind) : bool :=
  match k with
  | KTimeoutConnectInvalid | KTimeoutConnectLong | KTimeoutGrpcEmpty | KTimeoutGrpcUnit
  | KTimeoutGrpcInvalid | KTimeoutGrpcLong => true
  | _ => false
  end.

(* a request that announces protocol p the way the runner does (strconv.Itoa of the enum) *)
Definition announces (r : request) (p : protocol) : Prop := hd [] (x_protocol r) = dec1 (protocol_num p).

(* ---------- 4. the one thing taken on trust about package time ---------- *)
(* int64(d.Hours()), int64(d.Minutes()), int64(d.Seconds()) are computed in float64; all that
   is assumed of them: within 1 of the truncated quotient, exact on exact multiples. *)
Definition float_quot_ok (fq : Z -> Z -> Z) : Prop :=
  forall t u, 0 < u -> Z.abs (fq t u - Z.quot t u) <= 1 /\ (Z.rem t u = 0 -> fq t u = Z.quot t u).

(* ---------- 5. what the runner tells the reference server about each request ---------- *)
(* From the property text: a request carries "the runner's expectation headers", and they describe the set-up
   of the test that request belongs to.  A batch of test cases shares one server instance; HTTP version and
   protocol are the instance's, codec, compression, stream type and GET/POST are the case's own; TLS and the
   client certificate are as the connection will be (a certificate named by the server; client credentials in
   use).  Nothing here says how the runner builds the headers or when. *)
Definition connection_tls (i : rinst) : tlsmode :=
  match ri_pem i, ri_creds i && ri_use_certs i with
  | false, _ => Plain
  | true, false => Tls
  | true, true => TlsCert
  end.
Definition case_axes (i : rinst) (c : rcase) : axes :=
  {| a_version := rc_version c; a_get := rc_get c; a_protocol := rc_protocol c; a_codec := rc_codec c;
     a_compression := rc_compression c; a_tls := connection_tls i |}.

(* a header list, read as it arrives (names case-insensitive, values of equally named headers concatenated),
   names the test and describes set-up e: one value each, the enum numbers in decimal *)
Definition describes (hs : list header) (name : bytes) (e : axes) : Prop :=
  values_of (bs "x-test-case-name") hs = [name] /\
  values_of (bs "x-expect-http-version") hs = [dec1 (version_num (a_version e))] /\
  values_of (bs "x-expect-http-method") hs = [method_name (a_get e)] /\
  values_of (bs "x-expect-protocol") hs = [dec1 (protocol_num (a_protocol e))] /\
  values_of (bs "x-expect-codec") hs = [dec1 (codec_num (a_codec e))] /\
  values_of (bs "x-expect-compression") hs = [dec1 (compression_num (a_compression e))] /\
  values_of (bs "x-expect-tls") hs = [if tls_on (a_tls e) then bs "true" else bs "false"] /\
  values_of (bs "x-expect-client-cert") hs = match a_tls e with TlsCert => [c12_client_cert_name] | _ => [] end.

(* the fragment: a test's own headers stay out of the reserved names; client certificates are only used on TLS
   instances; GET is a thing of Connect unary calls *)
Definition reserved (n : bytes) : Prop :=
  lower n = bs "x-test-case-name" \/ has_prefix (bs "x-expect-") (lower n) = true.
Definition own_headers_ok (c : rcase) : Prop :=
  (forall h, In h (rc_headers c) -> ~ reserved (fst h)) /\
  (forall raw h, rc_raw c = Some raw -> In h raw -> ~ reserved (fst h)).
Definition certs_need_tls (i : rinst) : Prop := ri_use_certs i = true -> ri_use_tls i = true.
(* (the reference client leaves a GET uncompressed unless its URL grows too long, so the suites run GET cases
   under identity only: for GET the reference client is "the correct client" of the matrix only there) *)
Definition get_ok (c : rcase) : Prop :=
  rc_get c = true -> rc_protocol c = PConnect /\ rc_stream c = StUnary /\ rc_compression c = ZIdentity.

(* ---------- 6. the feedback line (property text: "reports feedback naming the test case"; mechanism:
   per-aspect checks writing `test name: message` to stderr) ---------- *)
(* the line about a message for test `name`: the name's own bytes, whatever they are, then ": ", then the
   message, ended by a newline (not doubled when the message brings its own) *)
Definition ends_with_newline (m : bytes) : bool := (last m 0 =? 10)%N.
Definition feedback_line (name msg : bytes) : bytes :=
  name ++ [58; 32]%N ++ msg ++ (if ends_with_newline msg then [] else [10%N]).
(* names the runner can tell apart on the reading end: it splits a line at the first ": " and trims it, so the
   name must not contain ": " and must not begin with white space (the shipped suites: `Suite Name/case-name`) *)
Definition no_colon_space (name : bytes) : Prop := forall x y, name <> x ++ 58%N :: 32%N :: y.
Definition starts_visibly (name : bytes) : Prop := exists c rest, name = c :: rest /\ is_ascii_space c = false.
