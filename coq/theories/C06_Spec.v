(* C06_Spec.v — the declarative specification of config expansion, written from the
   property text, the comments of config.proto and docs/configuring_and_running_tests.md.
   It never mentions loops or maps: a configuration denotes a *set* of config cases,
   given by a membership predicate. *)
From V Require Export C06_Model.
Open Scope N_scope.

(* ---- 1. defaults (proto comments: "If absent, true/false is assumed", "If empty, ...") ---- *)
Definition flag (dflt : bool) (o : option bool) : bool := match o with Some b => b | None => dflt end.

(* An empty list stands for the documented default list, restricted to the members
   that the other declared features make possible. *)
Definition or_default (given dflt : list N) (possible : N -> bool) : list N :=
  match given with [] => filter possible dflt | _ => given end.

(* HTTP/2 needs TLS or H2C; HTTP/3 needs TLS *)
Definition version_possible (tls h2c : bool) (v : N) : bool :=
  if v =? H2 then tls || h2c else if v =? H3 then tls else true.
(* gRPC needs trailers and HTTP/2 *)
Definition protocol_possible (trailers : bool) (versions : list N) (p : N) : bool :=
  if p =? GRPC then trailers && contains versions H2 else true.
(* full-duplex needs HTTP/2 or HTTP/3; half-duplex needs that or the HTTP/1.1 declaration *)
Definition beyond_http1 (versions : list N) : bool := contains versions H2 || contains versions H3.
Definition stream_possible (half1 : bool) (versions : list N) (s : N) : bool :=
  if s =? FULL then beyond_http1 versions
  else if s =? HALF then beyond_http1 versions || half1
  else true.

Definition defaulted (F : features) : resolved :=
  let h2c := flag true (F_h2c F) in
  let tls := flag true (F_tls F) in
  let trailers := flag true (F_trailers F) in
  let half1 := flag false (F_half1 F) in
  let versions := or_default (F_versions F) [H1; H2] (version_possible tls h2c) in
  mkResolved
    versions
    (or_default (F_protocols F) [CONNECT; GRPC; GRPCWEB] (protocol_possible trailers versions))
    (or_default (F_codecs F) [PROTO; JSON] (fun _ => true))
    (or_default (F_compressions F) [IDENTITY; GZIP] (fun _ => true))
    (or_default (F_streams F) [UNARY; CLIENT_STREAM; SERVER_STREAM; HALF; FULL] (stream_possible half1 versions))
    h2c tls (flag false (F_certs F)) trailers half1 (flag true (F_get F)) (flag true (F_limit F)).

(* ---- 2. a case is internally possible ---- *)
Definition valid_case (f : resolved) (c : case) : Prop :=
  (c_protocol c = GRPC -> c_version c = H2) /\                       (* gRPC only over HTTP/2 *)
  (c_version c = H3 -> c_tls c = true) /\                            (* HTTP/3 only with TLS *)
  (c_version c = H2 -> c_tls c = false -> r_h2c f = true) /\         (* cleartext HTTP/2 only with H2C *)
  (c_certs c = true -> c_tls c = true) /\                            (* client certs only with TLS *)
  (c_stream c = FULL -> c_version c <> H1) /\                        (* no full-duplex over HTTP/1.1 *)
  (c_stream c = HALF -> c_version c = H1 -> r_half1 f = true) /\     (* half-duplex over 1.1 only if declared *)
  (c_get c = true -> c_protocol c = CONNECT /\ r_get f = true).      (* GET only with Connect (and if supported) *)

(* the deprecated CODEC_TEXT is ignored everywhere; parseConfig leaves ConnectVersionMode unset *)
Definition regular (c : case) : Prop := c_codec c <> TEXT /\ c_cvm c = 0.

(* ---- 3. cases implied by the features ---- *)
Definition in_features (f : resolved) (c : case) : Prop :=
  In (c_version c) (r_versions f) /\ In (c_protocol c) (r_protocols f) /\ In (c_codec c) (r_codecs f) /\
  In (c_compression c) (r_compressions f) /\ In (c_stream c) (r_streams f) /\
  (c_tls c = true -> r_tls f = true) /\ (c_certs c = true -> r_certs f = true) /\
  (c_limit c = true -> r_limit f = true) /\
  regular c /\ valid_case f c.

(* ---- 4. cases matching an include/exclude entry: an omitted field ranges over what
        the features support ---- *)
Definition axis_matches (given : N) (supported : list N) (x : N) : Prop :=
  if given =? 0 then In x supported else x = given.
(* absent use_tls etc.: "plaintext, but also TLS if features indicate it is supported" *)
Definition flag_matches (given : option bool) (supported : bool) (x : bool) : Prop :=
  match given with Some b => x = b | None => x = true -> supported = true end.

Definition matches (f : resolved) (e : entry) (c : case) : Prop :=
  axis_matches (e_version e) (r_versions f) (c_version c) /\
  axis_matches (e_protocol e) (r_protocols f) (c_protocol c) /\
  axis_matches (e_codec e) (r_codecs f) (c_codec c) /\
  axis_matches (e_compression e) (r_compressions f) (c_compression c) /\
  axis_matches (e_stream e) (r_streams f) (c_stream c) /\
  flag_matches (e_tls e) (r_tls f) (c_tls c) /\
  flag_matches (e_certs e) (r_certs f) (c_certs c) /\
  flag_matches (e_limit e) (r_limit f) (c_limit c) /\
  regular c /\ valid_case f c.

(* ---- 5. the set a configuration denotes ---- *)
Definition spec_member (cfg : config) (c : case) : Prop :=
  let f := defaulted (cfg_features cfg) in
  (in_features f c \/ exists e, In e (cfg_includes cfg) /\ matches f e c) /\
  ~ (exists e, In e (cfg_excludes cfg) /\ matches f e c).

(* ---- 6. contradictory configurations: something explicitly declared is impossible ---- *)
Definition features_contradictory (F : features) : Prop :=
  let f := defaulted F in
  (* client certificates declared, TLS not supported *)
  (r_certs f = true /\ r_tls f = false) \/
  (* H2C explicitly declared but HTTP/2 is not among the declared versions *)
  (F_h2c F = Some true /\ F_versions F <> [] /\ ~ In H2 (F_versions F)) \/
  (* a declared version, protocol or stream type is impossible with the rest *)
  (exists v, In v (F_versions F) /\ version_possible (r_tls f) (r_h2c f) v = false) \/
  (exists p, In p (F_protocols F) /\ protocol_possible (r_trailers f) (r_versions f) p = false) \/
  (exists s, In s (F_streams F) /\ stream_possible (r_half1 f) (r_versions f) s = false).

(* the versions an entry ranges over, and whether it can be served over TLS at all *)
Definition entry_versions (f : resolved) (e : entry) : list N :=
  if e_version e =? 0 then r_versions f else [e_version e].
Definition entry_tls_possible (f : resolved) (e : entry) : bool :=
  match e_tls e with Some b => b | None => r_tls f end.
Definition all_http1 (l : list N) : Prop := l <> [] /\ forall v, In v l -> v = H1.

Definition entry_contradictory (f : resolved) (e : entry) : Prop :=
  (e_version e = H2 /\ entry_tls_possible f e = false /\ r_h2c f = false) \/
  (e_version e = H3 /\ entry_tls_possible f e = false) \/
  (e_protocol e = GRPC /\ ~ In H2 (entry_versions f e)) \/
  (e_stream e = HALF /\ r_half1 f = false /\ all_http1 (entry_versions f e)) \/
  (e_stream e = FULL /\ all_http1 (entry_versions f e)) \/
  (e_certs e = Some true /\ entry_tls_possible f e = false).

Definition contradictory (cfg : config) : Prop :=
  features_contradictory (cfg_features cfg) \/
  exists e, In e (cfg_includes cfg ++ cfg_excludes cfg) /\
            entry_contradictory (defaulted (cfg_features cfg)) e.
