(* C17_Model.v — executable model of
     internal/raw_http_body.go                       (WriteRawMessageContents, WriteRawStreamContents)
     internal/headers.go                             (AddHeaders, AddTrailers)
     internal/app/referenceserver/raw_response.go    (rawResponder, rawResponseWriter, rawResponseRecorder,
                                                      firstReqCachingStream)
     internal/app/referenceclient/raw_request.go     (rawRequestSender.RoundTrip)
   as the code is after the four C17 repairs (nil-safe message contents, identity compressor
   does not close its destination, canonical trailer keys, IdempotentUnary recognised).
   The compressors are a Section variable; net/http's header map, the ResponseRecorder / server
   commit rules and net/url (Parse, String, RequestURI, escaping, Values) are small models of their own
   (modelled, not verified; compared with the real functions through every c17.request case).
   No proofs here. *)
From V Require Export Base.
Open Scope N_scope.

(* ================= 1. message contents and the two body encoders ================= *)
Inductive mdata := DNone | DBinary (b : bytes) | DText (b : bytes) | DMessage (b : bytes).
Record contents := mk_contents { c_data : mdata; c_comp : N }.
(* a *MessageContents may be nil: option *)
Record item := mk_item { i_flags : N; i_len : option N; i_payload : option contents }.
Inductive body := BNone | BUnary (c : option contents) | BStream (items : list item).

Definition data_bytes (d : mdata) : option bytes :=
  match d with DNone => None | DBinary b | DText b | DMessage b => Some b end.

(* conformancev1.Compression: 0 unspecified, 1 identity, 2 gzip, 3 br, 4 zstd, 5 deflate, 6 snappy *)
Definition comp_known (c : N) : bool := c <=? 6.
Definition comp_identity (c : N) : bool := c <=? 1.

Definition frame_prefix (flags len : N) : bytes := flags :: be32 len.

Section Encoders.
  Variable compress : N -> bytes -> bytes.

  Definition compress_with (c : N) (d : bytes) : bytes :=
    if comp_identity c then d else compress c d.

  (* WriteRawMessageContents: (bytes that reached the writer, error returned?) *)
  Definition write_message (oc : option contents) : bytes * bool :=
    match oc with
    | None => ([], false)
    | Some c =>
      match data_bytes (c_data c) with
      | None => ([], false)
      | Some d => if comp_known (c_comp c) then (compress_with (c_comp c) d, false) else ([], true)
      end
    end.

  (* WriteRawStreamContents.  Explicit length: prefix first, then the message writer straight
     onto the destination.  Otherwise: message into a buffer, its size into the prefix. *)
  Fixpoint write_stream (items : list item) : bytes * bool :=
    match items with
    | [] => ([], false)
    | it :: rest =>
      if 255 <? i_flags it then ([], true)
      else
        let (p, e) := write_message (i_payload it) in
        match i_len it with
        | Some n =>
          if e then (frame_prefix (i_flags it) n ++ p, true)
          else let (r, e') := write_stream rest in (frame_prefix (i_flags it) n ++ p ++ r, e')
        | None =>
          if e then ([], true)
          else let (r, e') := write_stream rest in
               (frame_prefix (i_flags it) (N.of_nat (length p) mod 4294967296) ++ p ++ r, e')
        end
    end.

  Definition write_body (b : body) : bytes * bool :=
    match b with
    | BNone => ([], false)
    | BUnary c => write_message c
    | BStream items => write_stream items
    end.
End Encoders.

(* the reader of such a stream: 5-byte prefix, then exactly the declared number of bytes *)
Definition parse_one (b : bytes) : option (N * N * bytes * bytes) :=
  match b with
  | f :: a :: b1 :: c :: d :: rest =>
    let n := be_decode [a; b1; c; d] 0 in
    if n <=? N.of_nat (length rest)
    then Some (f, n, firstn (N.to_nat n) rest, skipn (N.to_nat n) rest)
    else None
  | _ => None
  end.

Fixpoint parse_loop (fuel : nat) (b : bytes) : list (N * N * bytes) * bytes :=
  match fuel with
  | O => ([], b)
  | S f =>
    match parse_one b with
    | None => ([], b)
    | Some (fl, n, p, rest) => let (es, r) := parse_loop f rest in ((fl, n, p) :: es, r)
    end
  end.
Definition parse_envelopes (b : bytes) : list (N * N * bytes) * bytes := parse_loop (S (length b)) b.

Section Decoders.
  Variable decompress : N -> bytes -> option bytes.
  Definition decompress_with (c : N) (d : bytes) : option bytes :=
    if comp_identity c then Some d else decompress c d.
  Definition decode_payload (oc : option contents) (p : bytes) : option bytes :=
    match oc with
    | None => Some p
    | Some c => match data_bytes (c_data c) with None => Some p | Some _ => decompress_with (c_comp c) p end
    end.
End Decoders.

(* ================= 2. http.Header ================= *)
Record header := mk_header { h_name : bytes; h_vals : list bytes }.
Definition hmap := list (bytes * list bytes).

Definition is_token_char (c : N) : bool :=
  is_digit c || ((65 <=? c) && (c <=? 90)) || ((97 <=? c) && (c <=? 122)) ||
  existsb (N.eqb c) [33; 35; 36; 37; 38; 39; 42; 43; 45; 46; 94; 95; 96; 124; 126].

Fixpoint canon_go (upper : bool) (s : bytes) : bytes :=
  match s with
  | [] => []
  | c :: r =>
    let c' := if upper && (97 <=? c) && (c <=? 122) then c - 32
              else if negb upper && (65 <=? c) && (c <=? 90) then c + 32 else c in
    c' :: canon_go (c =? 45) r
  end.
(* textproto.CanonicalMIMEHeaderKey: a key with a byte outside the token set is left alone *)
Definition canon (s : bytes) : bytes := if forallb is_token_char s then canon_go true s else s.

Fixpoint hm_get (k : bytes) (h : hmap) : option (list bytes) :=
  match h with
  | [] => None
  | (k', vs) :: h' => if bytes_eqb k k' then Some vs else hm_get k h'
  end.
Definition hm_vals (k : bytes) (h : hmap) : list bytes :=
  match hm_get k h with Some vs => vs | None => [] end.
(* h[k] = vs *)
Fixpoint hm_put (k : bytes) (vs : list bytes) (h : hmap) : hmap :=
  match h with
  | [] => [(k, vs)]
  | (k', vs') :: h' => if bytes_eqb k k' then (k, vs) :: h' else (k', vs') :: hm_put k vs h'
  end.
Fixpoint hm_remove (k : bytes) (h : hmap) : hmap :=
  match h with
  | [] => []
  | (k', vs') :: h' => if bytes_eqb k k' then hm_remove k h' else (k', vs') :: hm_remove k h'
  end.
Definition hm_add (k v : bytes) (h : hmap) : hmap :=
  let k' := canon k in hm_put k' (hm_vals k' h ++ [v]) h.
Definition hm_set (k v : bytes) (h : hmap) : hmap := hm_put (canon k) [v] h.
Definition hm_del (k : bytes) (h : hmap) : hmap := hm_remove (canon k) h.

Definition add_header (h : hmap) (hd : header) : hmap :=
  fold_left (fun h v => hm_add (h_name hd) v h) (h_vals hd) h.
Definition add_headers (hs : list header) (h : hmap) : hmap := fold_left add_header hs h.

Definition trailer_prefix : bytes := bs "Trailer:".
(* AddTrailers (repaired): http.TrailerPrefix + canonical name *)
Definition add_trailer (h : hmap) (hd : header) : hmap :=
  fold_left (fun h v => hm_add (trailer_prefix ++ canon (h_name hd)) v h) (h_vals hd) h.
Definition add_trailers (hs : list header) (h : hmap) : hmap := fold_left add_trailer hs h.

(* ================= 3. the inner http.ResponseWriter ================= *)
Record iw := mk_iw { iw_hdr : hmap; iw_sent : option (N * hmap); iw_body : bytes; iw_flushed : bool }.
Definition iw_new (h : hmap) : iw := mk_iw h None [] false.
Definition iw_with_hdr (h : hmap) (w : iw) : iw := mk_iw h (iw_sent w) (iw_body w) (iw_flushed w).

(* None = panic (invalid status code) *)
Definition iw_write_header (c : N) (w : iw) : option iw :=
  match iw_sent w with
  | Some _ => Some w
  | None => if (c <? 100) || (999 <? c) then None
            else Some (mk_iw (iw_hdr w) (Some (c, iw_hdr w)) (iw_body w) (iw_flushed w))
  end.
Definition iw_commit (w : iw) : iw :=
  match iw_sent w with
  | Some _ => w
  | None => mk_iw (iw_hdr w) (Some (200, iw_hdr w)) (iw_body w) (iw_flushed w)
  end.
Definition iw_write (b : bytes) (w : iw) : iw :=
  let w' := iw_commit w in mk_iw (iw_hdr w') (iw_sent w') (iw_body w' ++ b) (iw_flushed w').
Definition iw_flush (w : iw) : iw :=
  let w' := iw_commit w in mk_iw (iw_hdr w') (iw_sent w') (iw_body w') true.

(* ================= 4. rawResponseWriter ================= *)
Record resp := mk_resp { r_status : N; r_headers : list header; r_body : body; r_trailers : list header }.
Record rw := mk_rw { rw_raw : option resp; rw_started : bool; rw_inner : iw }.

Inductive op :=
| OAdd (k v : bytes) | OSet (k v : bytes) | ODel (k : bytes)          (* through Header() *)
| OWriteHeader (c : N) | OWrite (b : bytes) | OFlush
| OSetRaw (r : resp) | OCanSend.

Definition can_send (s : rw) : bool * rw :=
  if rw_started s then (true, s)
  else match rw_raw s with
       | None => (true, mk_rw None true (rw_inner s))
       | Some _ => (false, s)
       end.

Definition with_inner (s : rw) (w : iw) : rw := mk_rw (rw_raw s) (rw_started s) w.
Definition on_hdr (f : hmap -> hmap) (s : rw) : rw := with_inner s (iw_with_hdr (f (iw_hdr (rw_inner s))) (rw_inner s)).

(* one handler action: new state and what the call returned (Write: n; setRawResponse / canSendResponse: 0/1) *)
Definition step (s : rw) (o : op) : option (rw * list Z) :=
  match o with
  | OAdd k v => Some (on_hdr (hm_add k v) s, [])
  | OSet k v => Some (on_hdr (hm_set k v) s, [])
  | ODel k => Some (on_hdr (hm_del k) s, [])
  | OWriteHeader c =>
    let (ok, s') := can_send s in
    if ok then match iw_write_header c (rw_inner s') with
               | Some w => Some (with_inner s' w, [])
               | None => None
               end
    else Some (s', [])
  | OWrite b =>
    let (ok, s') := can_send s in
    Some (if ok then with_inner s' (iw_write b (rw_inner s')) else s', [Z.of_nat (length b)])
  | OFlush =>
    let (ok, s') := can_send s in
    Some (if ok then with_inner s' (iw_flush (rw_inner s')) else s', [])
  | OSetRaw r =>
    if rw_started s then Some (s, [0%Z])
    else Some (mk_rw (Some r) false (rw_inner s), [1%Z])
  | OCanSend => let (ok, s') := can_send s in Some (s', [if ok then 1%Z else 0%Z])
  end.

Fixpoint run_ops (s : rw) (ops : list op) : option (rw * list Z) :=
  match ops with
  | [] => Some (s, [])
  | o :: rest =>
    match step s o with
    | None => None
    | Some (s', r) =>
      match run_ops s' rest with
      | None => None
      | Some (s'', r') => Some (s'', r ++ r')
      end
    end
  end.

Definition date_key : bytes := bs "Date".
Definition trailer_key : bytes := bs "Trailer".

(* rawResponseRecorder: which RPCs' first request is inspected for a raw response *)
Inductive rpc := RUnary | RIdempotent | RClientStream | RServerStream | RBidi.
Definition recognised (k : rpc) : bool :=
  match k with RUnary | RIdempotent | RClientStream | RServerStream | RBidi => true end.

Section Server.
  Variable compress : N -> bytes -> bytes.

  (* what finish() does to the inner writer once a raw response was chosen *)
  Definition emit (snap : hmap) (r : resp) (w : iw) : option iw :=
    let h0 := fold_left (fun h kv => hm_put (fst kv) (snd kv) h) snap [] in
    let h1 := add_headers (r_headers r) h0 in
    let h2 := hm_put date_key [] h1 in
    let h3 := fold_left (fun h t => hm_add trailer_key (h_name t) h) (r_trailers r) h2 in
    let code := if r_status r =? 0 then 200 else r_status r in
    match iw_write_header code (iw_with_hdr h3 w) with
    | None => None
    | Some w1 =>
      let w2 := iw_write (fst (write_body compress (r_body r))) w1 in
      Some (iw_with_hdr (add_trailers (r_trailers r) (iw_hdr w2)) w2)
    end.

  Definition finish (snap : hmap) (s : rw) : option iw :=
    match rw_raw s with
    | None => Some (rw_inner s)
    | Some r => emit snap r (rw_inner s)
    end.

  (* rawResponder around a handler that performs ops; snap = the header map it finds *)
  Definition serve (snap : hmap) (ops : list op) : option (iw * list Z) :=
    match run_ops (mk_rw None false (iw_new snap)) ops with
    | None => None
    | Some (s, res) => match finish snap s with Some w => Some (w, res) | None => None end
    end.

  (* the handler side of one RPC as the inner writer sees it: the interceptor stores the raw
     response before anything else and fails the call; `after` is whatever connect-go then
     does to report that failure.  Without a raw response the normal handler runs (`normal`). *)
  Definition rpc_ops (k : rpc) (raw : option resp) (after normal : list op) : list op :=
    match raw with
    | Some r => if recognised k then OSetRaw r :: after else normal
    | None => normal
    end.
End Server.

(* ================= 4b. rawResponseRecorder.WrapStreamingHandler and firstReqCachingStream ================= *)
(* one Receive on the underlying stream: a message (its request data, and whether its response
   definition carries a raw response) or an error (0 = io.EOF) *)
Inductive recv := RMsg (d : bytes) (raw : bool) | RErr (e : N).
(* the underlying stream: a script of outcomes, then io.EOF for ever *)
Definition under_recv (s : list recv) : recv * list recv :=
  match s with [] => (RErr 0, []) | x :: r => (x, r) end.

(* firstReqCachingStream: the request the interceptor has already received (or the error of that
   Receive), handed out on the first Receive; afterwards the underlying stream *)
Record cstream := mk_cstream { cs_req : option (bytes * bool); cs_err : option N; cs_under : list recv }.
Definition cs_receive (st : cstream) : recv * cstream * nat :=      (* outcome, state, underlying calls made *)
  match cs_err st with
  | Some e => (RErr e, mk_cstream None None (cs_under st), O)
  | None =>
    match cs_req st with
    | Some (d, raw) => (RMsg d raw, mk_cstream None None (cs_under st), O)
    | None => let (x, r) := under_recv (cs_under st) in (x, mk_cstream None None r, 1%nat)
    end
  end.
(* a handler that calls Receive n times: what it saw, and how often the underlying stream was asked *)
Fixpoint cs_handler (n : nat) (st : cstream) : list recv * nat :=
  match n with
  | O => ([], O)
  | S n' => match cs_receive st with
            | (x, st', c) => let (seen, calls) := cs_handler n' st' in (x :: seen, (c + calls)%nat)
            end
  end.
Fixpoint direct_handler (n : nat) (s : list recv) : list recv * nat :=
  match n with
  | O => ([], O)
  | S n' => let (x, r) := under_recv s in let (seen, calls) := direct_handler n' r in (x :: seen, S calls)
  end.
(* the interceptor drains the request stream before a raw response: Receive until the first error *)
Fixpoint drain (s : list recv) : nat :=
  match s with
  | [] => 1%nat
  | RErr _ :: _ => 1%nat
  | RMsg _ _ :: r => S (drain r)
  end.

(* WHandler: the handler ran (what it saw, underlying Receive calls in total);
   WRaw: it did not (underlying calls, raw response stored?, error returned: 1 aborted / 2 normal response already started) *)
Inductive wrapres := WHandler (seen : list recv) (calls : nat) | WRaw (calls : nat) (stored : bool) (ret : N).
(* proc: the procedure is ClientStream, ServerStream or BidiStream (else the interceptor steps aside);
   started: a normal response has already been started on the rawResponseWriter *)
Definition wrap_streaming (proc started : bool) (script : list recv) (n : nat) : wrapres :=
  if negb proc then let (seen, calls) := direct_handler n script in WHandler seen calls
  else
    let (x, r) := under_recv script in
    match x with
    | RMsg d true => if started then WRaw 1 false 2 else WRaw (S (drain r)) true 1
    | RMsg d false => let (seen, calls) := cs_handler n (mk_cstream (Some (d, false)) None r) in WHandler seen (S calls)
    | RErr e => let (seen, calls) := cs_handler n (mk_cstream (Some ([], false)) (Some e) r) in WHandler seen (S calls)
    end.

(* observation of the inner writer, httptest.ResponseRecorder.Result() *)
Definition committed (w : iw) : N * hmap :=
  match iw_sent w with Some p => p | None => (200, iw_hdr w) end.

Definition rec_trailers (sent final : hmap) : hmap :=
  let t1 := fold_left (fun t k => let k' := canon (trim_space k) in
                                  match hm_get k' final with Some vs => hm_put k' vs t | None => t end)
                      (hm_vals trailer_key sent) [] in
  fold_left (fun t kv => if has_prefix trailer_prefix (fst kv)
                         then fold_left (fun t v => hm_add (skipn 8 (fst kv)) v t) (snd kv) t
                         else t) final t1.
(* what a net/http server sends as trailers for a response nobody declared values for *)
Definition wire_trailers (final : hmap) : hmap := rec_trailers [] final.

Definition hm_sorted (h : hmap) : hmap :=
  map (fun k => (k, hm_vals k h)) (sort_bytes (dedup (map fst h))).

(* ================= 5. rawRequestSender.RoundTrip ================= *)
Record encq := mk_encq { e_name : bytes; e_value : option contents; e_b64 : bool }.
Record rawreq := mk_rawreq { q_verb : bytes; q_uri : bytes; q_headers : list header;
                             q_rawq : list header; q_encq : list encq; q_body : body }.
(* the request connect-go built *)
Record origreq := mk_orig { o_method : bytes; o_path : bytes; o_headers : hmap; o_body : bytes }.
(* what is handed to the transport: s_target is req.URL.RequestURI(), the request target both
   net/http (HTTP/1.1 request line) and x/net/http2 (:path) put on the wire; s_query the
   url.Values it was built from (the URI's own query when no parameters are listed) *)
Record sent := mk_sent { s_method : bytes; s_target : bytes; s_query : hmap; s_headers : hmap; s_body : bytes }.

(* base64.URLEncoding (with padding) *)
Definition b64_char (n : N) : N :=
  if n <? 26 then 65 + n else if n <? 52 then 97 + (n - 26) else if n <? 62 then 48 + (n - 52)
  else if n =? 62 then 45 else 95.
Fixpoint b64url (b : bytes) : bytes :=
  match b with
  | [] => []
  | [x] => [b64_char (x / 4); b64_char ((x mod 4) * 16); 61; 61]
  | [x; y] => [b64_char (x / 4); b64_char ((x mod 4) * 16 + y / 16); b64_char ((y mod 16) * 4); 61]
  | x :: y :: z :: r =>
    b64_char (x / 4) :: b64_char ((x mod 4) * 16 + y / 16) :: b64_char ((y mod 16) * 4 + z / 64)
    :: b64_char (z mod 64) :: b64url r
  end.

Fixpoint split_first (sep : N) (s : bytes) : bytes * option bytes :=
  match s with
  | [] => ([], None)
  | c :: r => if c =? sep then ([], Some r)
              else let (a, b) := split_first sep r in (c :: a, b)
  end.

(* ----- net/url (go1.23), for references without scheme and authority ----- *)
Definition in_set (c : N) (l : list N) : bool := existsb (N.eqb c) l.
Definition is_alnum (c : N) : bool :=
  is_digit c || ((65 <=? c) && (c <=? 90)) || ((97 <=? c) && (c <=? 122)).
Definition ishex (c : N) : bool := is_digit c || ((97 <=? c) && (c <=? 102)) || ((65 <=? c) && (c <=? 70)).
Definition unhex (c : N) : N :=
  if is_digit c then c - 48 else if (97 <=? c) && (c <=? 102) then c - 87
  else if (65 <=? c) && (c <=? 70) then c - 55 else 0.
Definition upperhex (n : N) : N := if n <? 10 then 48 + n else 55 + n.
(* stringContainsCTLByte *)
Definition is_ctl (c : N) : bool := (c <? 32) || (c =? 127).

Inductive emode := EPath | EQuery | EFragment.
(* shouldEscape(c, mode) for encodePath / encodeQueryComponent / encodeFragment *)
Definition should_escape (m : emode) (c : N) : bool :=
  if is_alnum c then false
  else if in_set c [45; 95; 46; 126] then false                              (* - _ . ~ *)
  else if in_set c [36; 38; 43; 44; 47; 58; 59; 61; 63; 64]                   (* $ & + , / : ; = ? @ *)
       then match m with EPath => c =? 63 | EQuery => true | EFragment => false end
  else match m with EFragment => negb (in_set c [33; 40; 41; 42]) | _ => true end.   (* ! ( ) * *)

(* escape(s, mode): %XX in upper-case hex, and '+' for a space in a query component.
   A Go byte is < 256; the mod keeps the two digits hex digits for every N. *)
Definition esc_byte (m : emode) (c : N) : bytes :=
  if should_escape m c then
    match m with
    | EQuery => if c =? 32 then [43] else [37; upperhex ((c / 16) mod 16); upperhex (c mod 16)]
    | _ => [37; upperhex ((c / 16) mod 16); upperhex (c mod 16)]
    end
  else [c].
Definition escape (m : emode) (s : bytes) : bytes := flat_map (esc_byte m) s.

(* unescape(s, mode): None = EscapeError ('%' not followed by two hex digits);
   plus = true is encodeQueryComponent ('+' becomes a space) *)
Fixpoint unescape (plus : bool) (s : bytes) : option bytes :=
  match s with
  | [] => Some []
  | c :: r =>
    if c =? 37 then
      match r with
      | a :: b :: r' =>
        if ishex a && ishex b
        then match unescape plus r' with Some t => Some ((unhex a * 16 + unhex b) :: t) | None => None end
        else None
      | _ => None
      end
    else match unescape plus r with
         | Some t => Some ((if plus && (c =? 43) then 32 else c) :: t)
         | None => None
         end
  end.

(* validEncoded(s, mode) *)
Definition valid_char (m : emode) (c : N) : bool :=
  in_set c [33; 36; 38; 39; 40; 41; 42; 43; 44; 59; 61; 58; 64; 91; 93; 37] || negb (should_escape m c).
Definition valid_encoded (m : emode) (s : bytes) : bool := forallb (valid_char m) s.

(* the fields of url.URL that a reference without scheme and authority fills *)
Record url := mk_url { u_path : bytes; u_rawpath : bytes; u_force : bool; u_rawquery : bytes;
                       u_frag : bytes; u_rawfrag : bytes }.

(* url.Parse for a reference that is empty or starts with '/', '?' or '#' and has no authority
   (see uri_class below): cut the fragment, reject control bytes, cut the query - ForceQuery
   ("ends in '?' and has exactly one '?'") is "the first '?' is the last byte" -, setPath,
   setFragment.  None = error. *)
Definition parse_ref (raw : bytes) : option url :=
  let (u, frag) := split_first 35 raw in
  if existsb is_ctl u then None
  else
    let (rest, q) := split_first 63 u in
    let force := match q with Some [] => true | _ => false end in
    let rawq := match q with Some q => q | None => [] end in
    match unescape false rest with
    | None => None
    | Some path =>
      let rawpath := if bytes_eqb (escape EPath path) rest then [] else rest in
      match frag with
      | None | Some [] => Some (mk_url path rawpath force rawq [] [])
      | Some f =>
        match unescape false f with
        | None => None
        | Some fr => Some (mk_url path rawpath force rawq fr (if bytes_eqb (escape EFragment fr) f then [] else f))
        end
      end
    end.

Definition opt_bytes_eqb (o : option bytes) (b : bytes) : bool :=
  match o with Some a => bytes_eqb a b | None => false end.
Definition nonempty (b : bytes) : bool := match b with [] => false | _ => true end.

(* URL.EscapedPath (the Path == "*" case cannot arise: the path is empty or starts with '/') *)
Definition escaped_path (u : url) : bytes :=
  if nonempty (u_rawpath u) && valid_encoded EPath (u_rawpath u)
     && opt_bytes_eqb (unescape false (u_rawpath u)) (u_path u)
  then u_rawpath u else escape EPath (u_path u).
Definition escaped_fragment (u : url) : bytes :=
  if nonempty (u_rawfrag u) && valid_encoded EFragment (u_rawfrag u)
     && opt_bytes_eqb (unescape false (u_rawfrag u)) (u_frag u)
  then u_rawfrag u else escape EFragment (u_frag u).

Definition query_part (u : url) : bytes :=
  if u_force u || nonempty (u_rawquery u) then 63 :: u_rawquery u else [].
(* URL.String without scheme, user, host (the "./" guard for a first segment with a colon
   cannot arise either) *)
Definition url_string (u : url) : bytes :=
  escaped_path u ++ query_part u ++ (if nonempty (u_frag u) then 35 :: escaped_fragment u else []).
(* URL.RequestURI: an empty path is "/" *)
Definition or_slash (p : bytes) : bytes := match p with [] => [47] | _ => p end.
Definition request_uri (u : url) : bytes := or_slash (escaped_path u) ++ query_part u.

(* url.Values as an ordered multimap: vals[k] = append(vals[k], vs...) *)
Definition qm_add (k : bytes) (vs : list bytes) (q : hmap) : hmap := hm_put k (hm_vals k q ++ vs) q.
(* URL.Query = url.ParseQuery with the error dropped: settings with a ';' or a malformed
   escape are skipped, empty settings too; keys and values are query-unescaped *)
Definition parse_query (q : bytes) : hmap :=
  fold_left (fun m seg =>
               if in_set 59 seg then m
               else match seg with
                    | [] => m
                    | _ => let (k, v) := split_first 61 seg in
                           match unescape true k, unescape true (match v with Some v => v | None => [] end) with
                           | Some k', Some v' => qm_add k' [v'] m
                           | _, _ => m
                           end
                    end) (split_on 38 q) [].
(* url.Values.Encode: keys in sorted order, each value as key=value, joined by '&' *)
Definition values_encode (q : hmap) : bytes :=
  join 38 (flat_map (fun k => map (fun v => escape EQuery k ++ 61 :: escape EQuery v) (hm_vals k q))
                    (sort_bytes (dedup (map fst q)))).

(* how "scheme://host" ++ uri is read by http.NewRequest:
   - UOrigin: the URI is empty or starts with '/', '?' or '#': the authority is the host of the
     original request and the URI is path, query and fragment;
   - UGlued: anything else runs into the authority (host, port or userinfo): NewRequest fails or
     the request is for another authority - nothing is sent to the given server;
   - with query parameters listed, a URI starting with exactly two slashes is first read by
     url.Parse as "//authority/path"; that authority syntax is not modelled (UAuthority). *)
Inductive uri_kind := UOrigin | UGlued | UAuthority.
Definition uri_class (uri : bytes) (params : bool) : uri_kind :=
  match uri with
  | [] => UOrigin
  | c :: r =>
    if in_set c [47; 63; 35] then
      if params && has_prefix [47; 47] uri && negb (has_prefix [47; 47; 47] uri) then UAuthority else UOrigin
    else UGlued
  end.

Inductive rr := RSent (s : sent) | RError | RUnmodelled.

Section Client.
  Variable compress : N -> bytes -> bytes.

  Definition enc_value (e : encq) : option bytes :=
    let (b, err) := write_message compress (e_value e) in
    if err then None else Some (if e_b64 e then b64url b else b).

  Fixpoint add_encq (es : list encq) (q : hmap) : option hmap :=
    match es with
    | [] => Some q
    | e :: r => match enc_value e with
                | None => None
                | Some v => add_encq r (qm_add (e_name e) [v] q)
                end
    end.

  Definition has_params (r : rawreq) : bool :=
    match q_rawq r, q_encq r with [], [] => false | _, _ => true end.

  (* the first half of RoundTrip: the URI string handed to NewRequest, with the url.Values it was
     rebuilt from (None when the URI is passed through untouched).  None = error returned. *)
  Definition merged_uri (r : rawreq) : option (bytes * option hmap) :=
    if has_params r then
      match parse_ref (q_uri r) with
      | None => None
      | Some u =>
        let q1 := fold_left (fun m h => qm_add (h_name h) (h_vals h) m) (q_rawq r) (parse_query (u_rawquery u)) in
        match add_encq (q_encq r) q1 with
        | None => None
        | Some q2 =>
          Some (url_string (mk_url (u_path u) (u_rawpath u) (u_force u) (values_encode q2) (u_frag u) (u_rawfrag u)),
                Some q2)
        end
      end
    else Some (q_uri r, None).

  (* RError = RoundTrip returns an error before anything is sent to the given server *)
  Definition raw_request (orig : origreq) (r : rawreq) : rr :=
    match uri_class (q_uri r) (has_params r) with
    | UAuthority => RUnmodelled
    | UGlued => RError
    | UOrigin =>
      match merged_uri r with
      | None => RError
      | Some (uri, vals) =>
        (* http.NewRequestWithContext: method must be a token ("" = GET), the URL must parse *)
        if forallb is_token_char (q_verb r) then
          match parse_ref uri with
          | None => RError
          | Some u2 =>
            RSent (mk_sent (match q_verb r with [] => bs "GET" | v => v end) (request_uri u2)
                           (match vals with Some q => q | None => parse_query (u_rawquery u2) end)
                           (add_headers (q_headers r) []) (fst (write_body compress (q_body r))))
          end
        else RError
      end
    end.
End Client.

(* ================= 6. case decoding / result encoding (extracted glue) ================= *)
(* the compressor oracle of a case: ((comp data cdata) ...) computed by the Go side beforehand *)
Definition table := list (N * bytes * bytes).
Fixpoint tbl_find (t : table) (c : N) (d : bytes) : option bytes :=
  match t with
  | [] => None
  | (c', d', cd) :: t' => if (c =? c') && bytes_eqb d d' then Some cd else tbl_find t' c d
  end.
Definition tbl_compress (t : table) (c : N) (d : bytes) : bytes :=
  match tbl_find t c d with Some cd => cd | None => d end.
Fixpoint tbl_decompress (t : table) (c : N) (cd : bytes) : option bytes :=
  match t with
  | [] => None
  | (c', d', cd') :: t' => if (c =? c') && bytes_eqb cd cd' then Some d' else tbl_decompress t' c cd
  end.

Definition un_table (s : sx) : option table :=
  un_listof (fun e => match e with L [I c; B d; B cd] => Some (Z.to_N c, d, cd) | _ => None end) s.

Definition un_contents (s : sx) : option (option contents) :=
  match s with
  | L [] => Some None
  | L [I k; B d; I c] =>
    let c := Z.to_N c in
    match k with
    | 0%Z => Some (Some (mk_contents DNone c))
    | 1%Z => Some (Some (mk_contents (DBinary d) c))
    | 2%Z => Some (Some (mk_contents (DText d) c))
    | 3%Z => Some (Some (mk_contents (DMessage d) c))
    | _ => None
    end
  | _ => None
  end.
Definition un_item (s : sx) : option item :=
  match s with
  | L [I f; l; c] =>
    do l <- un_opt un_N l; do c <- un_contents c; ret (mk_item (Z.to_N f) l c)
  | _ => None
  end.
Definition un_body (s : sx) : option body :=
  match s with
  | L [I 0%Z] => Some BNone
  | L [I 1%Z; c] => do c <- un_contents c; ret (BUnary c)
  | L [I 2%Z; its] => do its <- un_listof un_item its; ret (BStream its)
  | _ => None
  end.
Definition un_header (s : sx) : option header :=
  match s with
  | L [B n; vs] => do vs <- un_listof un_B vs; ret (mk_header n vs)
  | _ => None
  end.
Definition un_resp (s : sx) : option resp :=
  match s with
  | L [I st; hs; b; ts] =>
    do hs <- un_listof un_header hs; do b <- un_body b; do ts <- un_listof un_header ts;
    ret (mk_resp (Z.to_N st) hs b ts)
  | _ => None
  end.
Definition un_op (s : sx) : option op :=
  match s with
  | L [I 1%Z; B k; B v] => Some (OAdd k v)
  | L [I 2%Z; B k; B v] => Some (OSet k v)
  | L [I 3%Z; B k] => Some (ODel k)
  | L [I 4%Z; I c] => Some (OWriteHeader (Z.to_N c))
  | L [I 5%Z; B b] => Some (OWrite b)
  | L [I 6%Z] => Some OFlush
  | L [I 7%Z; r] => do r <- un_resp r; ret (OSetRaw r)
  | L [I 8%Z] => Some OCanSend
  | _ => None
  end.

(* every (compression, data) pair the encoders will ask the oracle about must be in the table *)
Definition contents_covered (t : table) (oc : option contents) : bool :=
  match oc with
  | None => true
  | Some c => match data_bytes (c_data c) with
              | None => true
              | Some d => comp_identity (c_comp c) || negb (comp_known (c_comp c))
                          || match tbl_find t (c_comp c) d with Some _ => true | None => false end
              end
  end.
Definition body_covered (t : table) (b : body) : bool :=
  match b with
  | BNone => true
  | BUnary c => contents_covered t c
  | BStream its => forallb (fun it => contents_covered t (i_payload it)) its
  end.

Definition sx_hmap (h : hmap) : sx := L (map (fun kv => L [B (fst kv); L (map B (snd kv))]) (hm_sorted h)).
Definition sx_drop (ks : list bytes) (h : hmap) : hmap :=
  filter (fun kv => negb (mem_bytes (fst kv) ks)) h.

(* c17.msg: table contents -> (err #bytes (decoded?)) *)
Definition run_c17_msg (args : list sx) : sx :=
  or_bad (match args with
  | [t; c] =>
    do t <- un_table t; do c <- un_contents c;
    if contents_covered t c then
      let (b, e) := write_message (tbl_compress t) c in
      let dec := match c with
                 | Some c' => match data_bytes (c_data c') with
                              | Some _ => if e then None else decompress_with (tbl_decompress t) (c_comp c') b
                              | None => None
                              end
                 | None => None
                 end in
      ret (L [sx_bool e; B b; sx_opt B dec])
    else None
  | _ => None end).

Definition item_consistent (t : table) (it : item) : bool :=
  match i_payload it with
  | None => false
  | Some c =>
    match i_len it with
    | None => true
    | Some n =>
      (match data_bytes (c_data c) with None => true | Some _ => comp_known (c_comp c) end)
      && (n =? N.of_nat (length (fst (write_message (tbl_compress t) (Some c)))))
    end
  end.

Definition sx_stream_result (t : table) (items : list item) (b : bytes) (e : bool) : sx :=
  let (envs, rest) := parse_envelopes b in
  let dec :=
    if negb e && forallb (item_consistent t) items && (length envs =? length items)%nat
    then L [L (map (fun p => sx_opt B (decode_payload (tbl_decompress t) (i_payload (fst p)) (snd (snd p))))
                   (combine items envs))]
    else L [] in
  L [sx_bool e; B b; L (map (fun x => L [sx_N (fst (fst x)); sx_N (snd (fst x)); B (snd x)]) envs); B rest; dec].

(* c17.stream: table items -> (err #bytes ((flags len #payload)...) #rest ((decoded...))?) *)
Definition run_c17_stream (args : list sx) : sx :=
  or_bad (match args with
  | [t; its] =>
    do t <- un_table t; do its <- un_listof un_item its;
    if body_covered t (BStream its) then
      let (b, e) := write_stream (tbl_compress t) its in ret (sx_stream_result t its b e)
    else None
  | _ => None end).

Definition ops_covered (t : table) (ops : list op) : bool :=
  forallb (fun o => match o with OSetRaw r => body_covered t (r_body r) | _ => true end) ops.

Definition snap_of (hs : list header) : hmap := add_headers hs [].

(* c17.writer: table snapshot ops -> ((results) status (headers) #body (trailers) flushed) *)
Definition run_c17_writer (args : list sx) : sx :=
  match args with
  | [t; snap; ops] =>
    match (do t <- un_table t; do snap <- un_listof un_header snap; do ops <- un_listof un_op ops;
           if ops_covered t ops then ret (t, snap, ops) else None) with
    | None => sx_bad
    | Some (t, snap, ops) =>
      match serve (tbl_compress t) (snap_of snap) ops with
      | None => sx_crash
      | Some (w, res) =>
        let (code, hdrs) := committed w in
        L [L (map I res); sx_N code; sx_hmap hdrs; B (iw_body w);
           sx_hmap (rec_trailers hdrs (iw_hdr w)); sx_bool (iw_flushed w)]
      end
    end
  | _ => sx_bad
  end.

Definition mem_z (z : Z) (l : list Z) : bool := existsb (Z.eqb z) l.
Definition un_rpc (z : Z) : option rpc :=
  match z with
  | 0%Z => Some RUnary | 1%Z | 2%Z => Some RIdempotent | 3%Z => Some RClientStream
  | 4%Z => Some RServerStream | 5%Z => Some RBidi | _ => None
  end.

(* what connect-go does after the interceptor failed the call (a representative; the theorems
   say the result does not depend on it), and a normal handler that sets the marker header *)
Definition live_after : list op :=
  [OSet (bs "Content-Type") (bs "application/json"); OWriteHeader 409; OWrite (bs "{""code"":""aborted""}")].
Definition live_marker : bytes := bs "X-Verif-Handler-Marker".
Definition live_normal : list op :=
  [OSet live_marker (bs "1"); OWriteHeader 200; OWrite (bs "VERIF-HANDLER-BODY")].
(* the reference server's CORS middleware runs before rawResponder *)
Definition live_snapshot : hmap := [(bs "Vary", [bs "Origin"])].

(* what a net/http server can put on the wire at all: 1xx is an interim response (the final status is then 200),
   status codes outside 100..999 make WriteHeader panic; 204 and 304 carry no body and - over HTTP/1.1, which has
   no chunked framing then - no trailers, and for 304 net/http removes Content-Type / Content-Length.  For those
   the property is decidable only when no body bytes, no trailers (and for 304 no such header) are prescribed. *)
Definition bodyless_body (b : body) : bool :=
  match b with BNone | BUnary None | BStream [] => true | _ => false end.
Definition live_observable (r : resp) : bool :=
  let st := r_status r in
  ((st =? 0) || ((200 <=? st) && (st <=? 999))) &&
  (if (st =? 204) || (st =? 304)
   then bodyless_body (r_body r) && match r_trailers r with [] => true | _ => false end &&
        ((st =? 204) || forallb (fun h => negb (mem_bytes (canon (h_name h)) [bs "Content-Type"; bs "Content-Length"])) (r_headers r))
   else true).

(* c17.live: table version rpc (raw?) nreq -> (1) | (0 status (headers) (trailers) #body date) *)
Definition run_c17_live (args : list sx) : sx :=
  match args with
  | [t; I ver; I k; raw; I _] =>
    match (do t <- un_table t; do k <- (if (ver =? 1)%Z || (ver =? 2)%Z then un_rpc k else None); do raw <- un_opt un_resp raw;
           if match raw with Some r => body_covered t (r_body r) && live_observable r | None => true end
           then ret (t, k, raw) else None) with
    | None => sx_bad
    | Some (t, k, raw) =>
      match serve (tbl_compress t) live_snapshot (rpc_ops k raw live_after live_normal) with
      | None => sx_crash
      | Some (w, _) =>
        let (code, hdrs) := committed w in
        match hm_get live_marker hdrs with
        | Some _ => L [I 1%Z]
        | None =>
          L [I 0%Z; sx_N code; sx_hmap (sx_drop [date_key; trailer_key] hdrs);
             sx_hmap (wire_trailers (iw_hdr w)); B (iw_body w);
             sx_bool (match hm_get date_key hdrs with Some [] => false | _ => true end)]
        end
      end
    end
  | _ => sx_bad
  end.

(* c17.cache: table(unused) proc started script n -> (1 (outcomes) calls) | (0 calls stored ret);
   script / outcomes: (0 code) error, (1 #data raw) message *)
Definition un_recv (s : sx) : option recv :=
  match s with
  | L [I 0%Z; I e] => Some (RErr (Z.to_N e))
  | L [I 1%Z; B d; I r] => Some (RMsg d (negb (Z.eqb r 0)))
  | _ => None
  end.
Definition sx_recv (x : recv) : sx :=
  match x with RErr e => L [I 0%Z; sx_N e] | RMsg d r => L [I 1%Z; B d; sx_bool r] end.
Definition run_c17_cache (args : list sx) : sx :=
  or_bad (match args with
  | [_; I proc; I started; script; n] =>
    do script <- un_listof un_recv script; do n <- un_nat n;
    if negb (mem_z proc [0; 3; 4; 5]%Z) || Nat.ltb 8 n then None else
    ret (match wrap_streaming (negb (Z.eqb proc 0)) (negb (Z.eqb started 0)) script n with
         | WHandler seen calls => L [I 1%Z; L (map sx_recv seen); sx_nat calls]
         | WRaw calls stored ret => L [I 0%Z; sx_nat calls; sx_bool stored; sx_N ret]
         end)
  | _ => None end).

Definition un_encq (s : sx) : option encq :=
  match s with
  | L [B n; c; I b] => do c <- un_contents c; ret (mk_encq n c (negb (Z.eqb b 0)))
  | _ => None
  end.
Definition un_rawreq (s : sx) : option rawreq :=
  match s with
  | L [B verb; B uri; hs; rq; eq; b] =>
    do hs <- un_listof un_header hs; do rq <- un_listof un_header rq; do eq <- un_listof un_encq eq;
    do b <- un_body b; ret (mk_rawreq verb uri hs rq eq b)
  | _ => None
  end.

Definition live_orig : origreq :=
  mk_orig (bs "POST") (bs "/orig/path?orig=1")
          [(bs "X-Verif-Orig-Marker", [bs "1"]); (bs "Content-Type", [bs "application/x-verif-orig"])]
          (bs "VERIF-ORIG-BODY").

(* what the recording server can observe: a query string written in the URI goes onto the wire
   as it is when no parameters are listed, so it must not contain a space or a non-ASCII byte
   (the HTTP/1.1 request line would be malformed); CONNECT has its own request-target rules *)
Definition uri_observable (uri : bytes) : bool :=
  match snd (split_first 63 (fst (split_first 35 uri))) with
  | Some q => forallb (fun c => negb (c =? 32) && (c <? 128)) q
  | None => true
  end.

(* c17.request: table version rawrequest -> (err roundtrip) | (0 method target (query) (headers) #body) *)
Definition run_c17_request (args : list sx) : sx :=
  match args with
  | [t; I ver; r] =>
    match (do t <- un_table t; do r <- (if (ver =? 1)%Z || (ver =? 2)%Z then un_rawreq r else None);
           if negb (uri_observable (q_uri r)) || bytes_eqb (q_verb r) (bs "CONNECT") then None else
           if body_covered t (q_body r) && forallb (fun e => contents_covered t (e_value e)) (q_encq r)
           then ret (t, r) else None) with
    | None => sx_bad
    | Some (t, r) =>
      match raw_request (tbl_compress t) live_orig r with
      | RUnmodelled => sx_bad
      | RError => sx_err "roundtrip"
      | RSent s =>
        L [I 0%Z; B (s_method s); B (s_target s);
           sx_hmap (filter (fun kv => match snd kv with [] => false | _ => true end) (hm_sorted (s_query s)));
           sx_hmap (s_headers s); B (s_body s)]
      end
    end
  | _ => sx_bad
  end.

Definition c17_table : list (bytes * (list sx -> sx)) :=
  [ (bs "c17.msg", run_c17_msg);
    (bs "c17.stream", run_c17_stream);
    (bs "c17.writer", run_c17_writer);
    (bs "c17.live", run_c17_live);
    (bs "c17.request", run_c17_request);
    (bs "c17.cache", run_c17_cache) ].
