(* C16_Model.v — executable model of
     internal/tracer/tracer.go   (Tracer: Init, Complete, Await, Clear)
     internal/tracer/builder.go  (builder: add, getAndClearLocked, finish, build)
   One model action = one critical section of the Go code (t.mu / b.mu), so every
   interleaving of goroutines is some list of actions.  No proofs here. *)
From V Require Export Base.
Open Scope N_scope.

(* ====================================================================== *)
(* Tracer                                                                 *)
(* ====================================================================== *)
Definition name := bytes.
(* identity of a completed trace (the harness gives every Complete its own number) *)
Definition trace := N.

(* *traceResult: `s_id` stands for the pointer identity of the result / its done
   channel (fresh on every Init); s_done = (result.done == nil). *)
Record slot := mkSlot { s_id : N; s_done : bool; s_trace : trace }.

(* a goroutine calling Await: not yet called / parked in the select on the done
   channel of slot id / returned &result.trace / returned the "already cleared"
   error / returned ctx.Err() *)
Inductive wstate := NotStarted | Waiting (id : N) | Got (t : trace) | Failed | CtxErr.

Record tracer := mkT {
  slots : name -> option slot;     (* t.traces *)
  next_id : N;                     (* allocation counter: ids below it are in use *)
  waiters : N -> wstate }.

Definition init_tracer : tracer := mkT (fun _ => None) 0 (fun _ => NotStarted).

Inductive action :=
| Init (n : name)
| Complete (n : name) (t : trace)
| AwaitBegin (w : N) (n : name)     (* Await up to and including its critical section *)
| Clear (n : name)
| CtxDone (w : N).                  (* w's context is cancelled / times out *)

Definition upd {A} (f : name -> A) (n : name) (v : A) : name -> A :=
  fun m => if bytes_eqb m n then v else f m.
Definition updw {A} (f : N -> A) (w : N) (v : A) : N -> A :=
  fun x => if x =? w then v else f x.

Definition is_waiting (s : wstate) : bool := match s with Waiting _ => true | _ => false end.

(* close(done): every goroutine selecting on this channel proceeds with the trace *)
Definition wake (id : N) (t : trace) (s : wstate) : wstate :=
  match s with
  | Waiting id' => if id' =? id then Got t else s
  | _ => s
  end.

Definition step (st : tracer) (a : action) : tracer :=
  match a with
  | Init n =>
    mkT (upd st.(slots) n (Some (mkSlot st.(next_id) false 0))) (st.(next_id) + 1) st.(waiters)
  | Clear n =>
    mkT (upd st.(slots) n None) st.(next_id) st.(waiters)
  | Complete n t =>
    match st.(slots) n with
    | None => st                                   (* result == nil *)
    | Some s =>
      if s.(s_done) then st                        (* result.done == nil *)
      else mkT (upd st.(slots) n (Some (mkSlot s.(s_id) true t))) st.(next_id)
               (fun w => wake s.(s_id) t (st.(waiters) w))
    end
  | AwaitBegin w n =>
    if is_waiting (st.(waiters) w) then st         (* the goroutine is parked: it cannot call *)
    else mkT st.(slots) st.(next_id)
           (updw st.(waiters) w
              match st.(slots) n with
              | None => Failed
              | Some s => if s.(s_done) then Got s.(s_trace) else Waiting s.(s_id)
              end)
  | CtxDone w =>
    match st.(waiters) w with
    | Waiting _ => mkT st.(slots) st.(next_id) (updw st.(waiters) w CtxErr)
    | _ => st
    end
  end.

Definition run (h : list action) : tracer := fold_left step h init_tracer.

(* ====================================================================== *)
(* builder                                                                *)
(* ====================================================================== *)
(* errors are small tags; 0 = nil *)
Definition err_canceled : N := 4.

(* what the callers hand to builder.add *)
Inductive bev :=
| EReqData | EReqEnd (e : N) | ERespStart | ERespError (e : N)
| ERespData | ERespEndStream | ERespEnd (e : N) | ECanceled.

(* what ends up in Trace.Events *)
Inductive tev :=
| TReqStart | TReqData (i : N) | TReqEnd (e : N) | TRespStart | TRespError (e : N)
| TRespData (i : N) | TRespEndStream | TRespEnd (e : N) | TCanceled.

Record btrace := mkTr { t_name : bytes; t_events : list tev; t_err : N; t_resp : bool }.
Definition empty_trace : btrace := mkTr [] [] 0 false.

Record builder := mkB {
  b_trace : btrace; b_req : N; b_resp : N;
  b_calls : list btrace }.              (* output: collector.Complete invocations, in order *)

Definition new_builder (nm : bytes) : builder := mkB (mkTr nm [TReqStart] 0 false) 0 0 [].

Inductive bact := Add (e : bev) | Build.

Definition is_nil {A} (l : list A) : bool := match l with [] => true | _ => false end.

Definition finishing (e : bev) : bool :=
  match e with
  | EReqEnd e => negb (e =? 0)
  | ERespError _ | ERespEnd _ | ECanceled => true
  | _ => false
  end.

(* b.finish *)
Definition deliver (t : btrace) (calls : list btrace) : list btrace :=
  if is_nil t.(t_name) then calls else calls ++ [t].

Definition keep_err (old e : N) : N := if old =? 0 then e else old.

Definition bstep (b : builder) (a : bact) : builder :=
  match a with
  | Build => mkB empty_trace b.(b_req) b.(b_resp) (deliver b.(b_trace) b.(b_calls))
  | Add e =>
    let t := b.(b_trace) in
    if is_nil t.(t_name) then b else
    let te := match e with
              | EReqData => TReqData b.(b_req) | EReqEnd x => TReqEnd x | ERespStart => TRespStart
              | ERespError x => TRespError x | ERespData => TRespData b.(b_resp)
              | ERespEndStream => TRespEndStream | ERespEnd x => TRespEnd x | ECanceled => TCanceled
              end in
    let req' := match e with EReqData => b.(b_req) + 1 | _ => b.(b_req) end in
    let resp' := match e with ERespData => b.(b_resp) + 1 | _ => b.(b_resp) end in
    let err' := match e with
                | EReqEnd x | ERespEnd x => keep_err t.(t_err) x
                | ERespError x => x
                | ECanceled => keep_err t.(t_err) err_canceled
                | _ => t.(t_err)
                end in
    let hasr := match e with ERespStart => true | _ => t.(t_resp) end in
    let t' := mkTr t.(t_name) (t.(t_events) ++ [te]) err' hasr in
    if finishing e then mkB empty_trace req' resp' (deliver t' b.(b_calls))
    else mkB t' req' resp' b.(b_calls)
  end.

Definition brun (nm : bytes) (l : list bact) : builder := fold_left bstep l (new_builder nm).

(* ====================================================================== *)
(* case decoding / result encoding (extracted glue)                       *)
(* ====================================================================== *)
Definition un_action (s : sx) : option action :=
  match s with
  | L [I 0%Z; B n] => Some (Init n)
  | L [I 1%Z; B n; I t] => Some (Complete n (Z.to_N t))
  | L [I 2%Z; I w; B n] => Some (AwaitBegin (Z.to_N w) n)
  | L [I 3%Z; B n] => Some (Clear n)
  | L [I 4%Z; I w] => Some (CtxDone (Z.to_N w))
  | _ => None
  end.

Definition sx_wstate (s : wstate) : sx :=
  match s with
  | NotStarted => L [I 0%Z]
  | Waiting _ => L [I 1%Z]
  | Got t => L [I 2%Z; sx_N t]
  | Failed => L [I 3%Z]
  | CtxErr => L [I 4%Z]
  end.

(* what a fresh Await with an already-cancelled context would report *)
Definition sx_slot (o : option slot) : sx :=
  match o with
  | None => L [I 3%Z]
  | Some s => if s.(s_done) then L [I 2%Z; sx_N s.(s_trace)] else L [I 4%Z]
  end.

(* (actions) (waiter ids) (names) -> ((waiter results) (name views)) *)
Definition run_c16_tracer (args : list sx) : sx :=
  or_bad (match args with
  | [acts; ws; ns] =>
    do acts <- un_listof un_action acts; do ws <- un_listof un_N ws; do ns <- un_listof un_B ns;
    let st := run acts in
    ret (L [ L (map (fun w => sx_wstate (st.(waiters) w)) ws);
             L (map (fun n => sx_slot (st.(slots) n)) ns) ])
  | _ => None end).

Definition un_bact (s : sx) : option bact :=
  match s with
  | L [I 0%Z] => Some (Add EReqData)
  | L [I 1%Z; I e] => Some (Add (EReqEnd (Z.to_N e)))
  | L [I 2%Z] => Some (Add ERespStart)
  | L [I 3%Z; I e] => Some (Add (ERespError (Z.to_N e)))
  | L [I 4%Z] => Some (Add ERespData)
  | L [I 5%Z] => Some (Add ERespEndStream)
  | L [I 6%Z; I e] => Some (Add (ERespEnd (Z.to_N e)))
  | L [I 7%Z] => Some (Add ECanceled)
  | L [I 8%Z] => Some Build
  | _ => None
  end.

Definition sx_tev (e : tev) : sx :=
  match e with
  | TReqStart => L [I 9%Z]
  | TReqData i => L [I 0%Z; sx_N i]
  | TReqEnd e => L [I 1%Z; sx_N e]
  | TRespStart => L [I 2%Z]
  | TRespError e => L [I 3%Z; sx_N e]
  | TRespData i => L [I 4%Z; sx_N i]
  | TRespEndStream => L [I 5%Z]
  | TRespEnd e => L [I 6%Z; sx_N e]
  | TCanceled => L [I 7%Z]
  end.

Definition sx_btrace (t : btrace) : sx :=
  L [B t.(t_name); sx_N t.(t_err); sx_bool t.(t_resp); L (map sx_tev t.(t_events))].

(* name client? (actions) -> (collector calls).  `client` only changes Request.Proto,
   which is not a compared observable. *)
Definition run_c16_builder (args : list sx) : sx :=
  or_bad (match args with
  | [B nm; I _; acts] =>
    do acts <- un_listof un_bact acts;
    ret (L (map sx_btrace (brun nm acts).(b_calls)))
  | _ => None end).

(* the scripted (one action per critical section) kinds; C16_Conc.v adds the kinds that
   judge free-running observations and the two-step builder (c16_conc_table); C16_Mw.v adds the call sites and
   the consumers and defines c16_table *)
Definition c16_seq_table : list (bytes * (list sx -> sx)) :=
  [ (bs "c16.tracer", run_c16_tracer);
    (bs "c16.builder", run_c16_builder) ].
