(* C11_PrinterProofs.v — the printer emits whole lines under EVERY schedule: invariant of the
   lock-step model of safePrinter.PrefixPrintf (C11_Printer.v), and what the runner's stderr
   parser (C11_Model.parse_stderr) makes of such a stream. *)
From Coq Require Import Permutation Lia.
From V Require Import C11_Spec C11_Proofs.
Open Scope N_scope.

(* ---------- upd ---------- *)
Lemma nth_upd_same {A} (l : list A) : forall g t x, nth_error l g = Some t -> nth_error (upd g x l) g = Some x.
Proof. induction l as [|y l IH]; intros [|g] t x H; simpl in *; try discriminate; eauto. Qed.

Lemma nth_upd_other {A} (l : list A) : forall g i x, i <> g -> nth_error (upd g x l) i = nth_error l i.
Proof.
  induction l as [|y l IH]; intros [|g] [|i] x H; simpl; try reflexivity; try congruence.
  apply IH. congruence.
Qed.

Lemma todo_upd_same (l : list thread) : forall g t x,
  nth_error l g = Some t -> t_todo x = t_todo t ->
  concat (map t_todo (upd g x l)) = concat (map t_todo l).
Proof.
  induction l as [|y l IH]; intros [|g] t x H E; simpl in *; try discriminate.
  - inversion H; subst. rewrite E. reflexivity.
  - f_equal. eapply IH; eauto.
Qed.

Lemma todo_upd_pop (l : list thread) : forall g t x c rest,
  nth_error l g = Some t -> t_todo t = c :: rest -> t_todo x = rest ->
  Permutation (c :: concat (map t_todo (upd g x l))) (concat (map t_todo l)).
Proof.
  induction l as [|y l IH]; intros [|g] t x c rest H E1 E2; simpl in *; try discriminate.
  - inversion H; subst. rewrite E1. simpl. reflexivity.
  - eapply perm_trans; [apply Permutation_middle|]. apply Permutation_app_head. eapply IH; eauto.
Qed.

(* ---------- the invariant ---------- *)
(* what the holder of the mutex has written of its current line *)
Definition cur (s : prst) : bytes :=
  match ps_lock s with
  | None => []
  | Some g =>
    match nth_error (ps_thr s) g with
    | Some t =>
      match t_todo t with
      | c :: _ =>
        match t_pc t with
        | PPrefixed => pc_prefix c ++ colon_sp
        | PMsged => pc_prefix c ++ colon_sp ++ pc_msg c
        | _ => []
        end
      | [] => []
      end
    | None => []
    end
  end.

Record inv (progs : list (list pcall)) (s : prst) : Prop := mkInv {
  i_out : ps_out s = concat (map line_of (ps_done s)) ++ cur s;
  i_lock : forall i t, nth_error (ps_thr s) i = Some t -> (t_pc t = PIdle <-> ps_lock s <> Some i);
  i_want : forall i t, nth_error (ps_thr s) i = Some t -> t_pc t <> PWant;
  i_perm : Permutation (ps_done s ++ concat (map t_todo (ps_thr s))) (concat progs) }.

Lemma inv_init progs : inv progs (pinit progs).
Proof.
  constructor; simpl.
  - reflexivity.
  - intros i t H. apply nth_error_In, in_map_iff in H. destruct H as (p & <- & _). simpl.
    split; [discriminate|reflexivity].
  - intros i t H. apply nth_error_In, in_map_iff in H. destruct H as (p & <- & _). discriminate.
  - rewrite map_map. simpl. rewrite map_id. reflexivity.
Qed.

Lemma last_indep (l : bytes) : forall d d', l <> [] -> List.last l d = List.last l d'.
Proof.
  induction l as [|x l IH]; intros d d' H; [congruence|]. simpl.
  destruct l as [|y l]; [reflexivity|]. apply IH. discriminate.
Qed.

Lemma last_app_ne (p l : bytes) d : l <> [] -> List.last (p ++ l) d = List.last l d.
Proof.
  intro H. induction p as [|y p IH]; simpl; [reflexivity|].
  destruct (p ++ l) eqn:E; [|exact IH]. destruct p; simpl in E; [congruence|discriminate].
Qed.

Lemma last_after_colon (a m : bytes) : List.last (a ++ colon_sp ++ m) 0 =? 10 = ends_nl m.
Proof.
  unfold ends_nl, colon_sp. destruct m as [|x m].
  - rewrite app_nil_r. rewrite last_app_ne by discriminate. reflexivity.
  - replace (a ++ [58; 32] ++ x :: m) with ((a ++ [58; 32]) ++ x :: m) by (rewrite <- app_assoc; reflexivity).
    rewrite last_app_ne by discriminate. reflexivity.
Qed.

Lemma inv_step progs s g : inv progs s -> inv progs (pstep false s g).
Proof.
  intros I0. pose proof I0 as [Io Il Iw Ip]. unfold pstep.
  destruct (nth_error (ps_thr s) g) as [t|] eqn:Hg; [|exact I0].
  destruct (t_todo t) as [|c rest] eqn:Ht; [exact I0|].
  assert (Hheld : t_pc t <> PIdle -> ps_lock s = Some g).
  { intro N. destruct (ps_lock s) as [h|] eqn:E.
    - destruct (Nat.eq_dec h g) as [->|D]; [reflexivity|].
      exfalso. apply N. apply (Il g t Hg). congruence.
    - exfalso. apply N. apply (Il g t Hg). discriminate. }
  assert (Hcur : forall o d pc,
            cur (mkPS o (Some g) (upd g (mkT pc (c :: rest)) (ps_thr s)) d) =
            match pc with PPrefixed => pc_prefix c ++ colon_sp | PMsged => pc_prefix c ++ colon_sp ++ pc_msg c | _ => [] end).
  { intros o d pc. unfold cur. simpl. rewrite (nth_upd_same _ _ _ _ Hg). reflexivity. }
  destruct (t_pc t) eqn:Epc.
  - (* PIdle: wants the mutex *)
    destruct (ps_lock s) as [h|] eqn:EL; [exact I0|].
    constructor; simpl.
    + rewrite Hcur. rewrite Io. unfold cur. rewrite EL. reflexivity.
    + intros i t' H. destruct (Nat.eq_dec i g) as [->|D].
      * rewrite (nth_upd_same _ _ _ _ Hg) in H. inversion H; subst. simpl. split; [discriminate|intro N; exfalso; apply N; reflexivity].
      * rewrite nth_upd_other in H by exact D. split; [intros _; congruence|].
        intros _. apply (Il i t' H). discriminate.
    + intros i t' H. destruct (Nat.eq_dec i g) as [->|D].
      * rewrite (nth_upd_same _ _ _ _ Hg) in H. inversion H; subst. discriminate.
      * rewrite nth_upd_other in H by exact D. eapply Iw; eauto.
    + rewrite (todo_upd_same _ _ _ _ Hg) by (simpl; symmetry; exact Ht). exact Ip.
  - (* PHeld: writes the prefix *)
    pose proof (Hheld ltac:(discriminate)) as EL.
    constructor; simpl.
    + rewrite EL. rewrite Hcur. rewrite Io. unfold cur. rewrite EL, Hg, Ht, Epc.
      rewrite app_nil_r. reflexivity.
    + rewrite EL. intros i t' H. destruct (Nat.eq_dec i g) as [->|D].
      * rewrite (nth_upd_same _ _ _ _ Hg) in H. inversion H; subst. simpl. split; [discriminate|intro N; exfalso; apply N; reflexivity].
      * rewrite nth_upd_other in H by exact D. rewrite <- EL. apply (Il i t' H).
    + intros i t' H. destruct (Nat.eq_dec i g) as [->|D].
      * rewrite (nth_upd_same _ _ _ _ Hg) in H. inversion H; subst. discriminate.
      * rewrite nth_upd_other in H by exact D. eapply Iw; eauto.
    + rewrite (todo_upd_same _ _ _ _ Hg) by (simpl; symmetry; exact Ht). exact Ip.
  - exfalso. exact (Iw g t Hg Epc).
  - (* PPrefixed: writes the message *)
    pose proof (Hheld ltac:(discriminate)) as EL.
    constructor; simpl.
    + rewrite EL. rewrite Hcur. rewrite Io. unfold cur. rewrite EL, Hg, Ht, Epc.
      rewrite <- !app_assoc. reflexivity.
    + rewrite EL. intros i t' H. destruct (Nat.eq_dec i g) as [->|D].
      * rewrite (nth_upd_same _ _ _ _ Hg) in H. inversion H; subst. simpl. split; [discriminate|intro N; exfalso; apply N; reflexivity].
      * rewrite nth_upd_other in H by exact D. rewrite <- EL. apply (Il i t' H).
    + intros i t' H. destruct (Nat.eq_dec i g) as [->|D].
      * rewrite (nth_upd_same _ _ _ _ Hg) in H. inversion H; subst. discriminate.
      * rewrite nth_upd_other in H by exact D. eapply Iw; eauto.
    + rewrite (todo_upd_same _ _ _ _ Hg) by (simpl; symmetry; exact Ht). exact Ip.
  - (* PMsged: newline if missing, unlock, return *)
    pose proof (Hheld ltac:(discriminate)) as EL.
    assert (Eo : ps_out s = concat (map line_of (ps_done s)) ++ pc_prefix c ++ colon_sp ++ pc_msg c).
    { rewrite Io. unfold cur. rewrite EL, Hg, Ht, Epc. reflexivity. }
    constructor; simpl.
    + unfold cur. simpl. rewrite app_nil_r. rewrite map_app, concat_app. simpl. rewrite app_nil_r.
      assert (EN : (List.last (ps_out s) 0 =? 10) = ends_nl (pc_msg c)).
      { rewrite Eo.
        replace (concat (map line_of (ps_done s)) ++ pc_prefix c ++ colon_sp ++ pc_msg c)
          with ((concat (map line_of (ps_done s)) ++ pc_prefix c) ++ colon_sp ++ pc_msg c) by (rewrite <- app_assoc; reflexivity).
        apply last_after_colon. }
      rewrite EN. rewrite Eo. unfold line_of, nl_if_missing. rewrite <- !app_assoc. reflexivity.
    + intros i t' H. destruct (Nat.eq_dec i g) as [->|D].
      * rewrite (nth_upd_same _ _ _ _ Hg) in H. inversion H; subst. simpl. split; [discriminate|reflexivity].
      * rewrite nth_upd_other in H by exact D. split; [discriminate|]. intros _. apply (Il i t' H). rewrite EL. congruence.
    + intros i t' H. destruct (Nat.eq_dec i g) as [->|D].
      * rewrite (nth_upd_same _ _ _ _ Hg) in H. inversion H; subst. discriminate.
      * rewrite nth_upd_other in H by exact D. eapply Iw; eauto.
    + rewrite <- app_assoc. simpl. eapply perm_trans; [|exact Ip].
      apply Permutation_app_head. eapply todo_upd_pop; eauto.
Qed.

Lemma inv_run progs sched : forall s, inv progs s -> inv progs (prun false sched s).
Proof.
  unfold prun. induction sched as [|g sched IH]; intros s I; simpl; [exact I|].
  apply IH. apply inv_step. exact I.
Qed.

Lemma finished_todo thr :
  forallb (fun t => match t_todo t with [] => true | _ => false end) thr = true ->
  concat (map t_todo thr) = [] /\ forall i t, nth_error thr i = Some t -> t_todo t = [].
Proof.
  induction thr as [|t thr IH]; simpl; intro H.
  - split; [reflexivity|]. intros [|i] t H'; discriminate.
  - apply andb_true_iff in H. destruct H as (H1 & H2). destruct (IH H2) as (E & F).
    destruct (t_todo t) eqn:Et; [|discriminate]. split; [exact E|].
    intros [|i] t' H'; simpl in H'; [inversion H'; subst; exact Et|eauto].
Qed.

(* every call is clean: neither the prefix nor the formatted message contains a newline *)
Definition clean (c : pcall) : Prop := ~ In 10 (pc_prefix c) /\ ~ In 10 (pc_msg c).

Lemma lines_keep_ne s : lines_keep s <> [].
Proof.
  induction s as [|c r IH]; simpl; [discriminate|].
  destruct (c =? 10); [discriminate|]. destruct (lines_keep r); discriminate.
Qed.

Lemma lines_keep_line body : forall rest, ~ In 10 body ->
  lines_keep (body ++ 10 :: rest) = (body ++ [10]) :: lines_keep rest.
Proof.
  induction body as [|c body IH]; intros rest H; simpl.
  - reflexivity.
  - destruct (N.eqb_spec c 10) as [->|N]; [exfalso; apply H; left; reflexivity|].
    rewrite IH by (intro X; apply H; right; exact X). reflexivity.
Qed.

Lemma clean_line c : clean c -> exists body, line_of c = body ++ [10] /\ ~ In 10 body.
Proof.
  intros (Hp & Hm). exists (pc_prefix c ++ colon_sp ++ pc_msg c). split.
  - unfold line_of, nl_if_missing, ends_nl.
    destruct (N.eqb_spec (List.last (pc_msg c) 0) 10) as [E|_].
    + exfalso. apply Hm. destruct (pc_msg c) as [|x m] eqn:Em; [simpl in E; discriminate|].
      rewrite <- E. destruct (@exists_last _ (x :: m) ltac:(discriminate)) as (l' & a & ->).
      rewrite last_last. apply in_or_app. right. left. reflexivity.
    + rewrite <- !app_assoc. reflexivity.
  - intro X. apply in_app_or in X. destruct X as [X|X]; [exact (Hp X)|].
    apply in_app_or in X. destruct X as [X|X]; [|exact (Hm X)].
    simpl in X. destruct X as [X|[X|[]]]; discriminate.
Qed.

Lemma lines_of_calls done : Forall clean done ->
  lines_keep (concat (map line_of done)) = map line_of done ++ [[]].
Proof.
  induction done as [|c done IH]; intro H; simpl; [reflexivity|].
  inversion H as [|? ? Hc Hr]; subst. destruct (clean_line c Hc) as (body & E & Nb).
  rewrite E. rewrite <- app_assoc. simpl. rewrite lines_keep_line by exact Nb. rewrite IH by exact Hr. reflexivity.
Qed.

(* ---------- the theorems ---------- *)
Theorem printer_lines_atomic_proof : forall progs sched,
  let s := prun false sched (pinit progs) in
  pfinished s = true ->
  exists done, Permutation done (concat progs) /\
               ps_out s = concat (map line_of done) /\
               (Forall clean (concat progs) -> lines_keep (ps_out s) = map line_of done ++ [[]]).
Proof.
  intros progs sched s F. pose proof (inv_run progs sched _ (inv_init progs)) as [Io Il Iw Ip].
  fold s in Io, Il, Iw, Ip. unfold pfinished in F. destruct (finished_todo _ F) as (E & T).
  exists (ps_done s). rewrite E, app_nil_r in Ip.
  assert (C : cur s = []).
  { unfold cur. destruct (ps_lock s) as [g|]; [|reflexivity].
    destruct (nth_error (ps_thr s) g) as [t|] eqn:Hg; [|reflexivity]. rewrite (T g t Hg). reflexivity. }
  rewrite C, app_nil_r in Io. split; [exact Ip|]. split; [exact Io|].
  intro Hc. rewrite Io. apply lines_of_calls.
  rewrite Forall_forall in *. intros c Hin. apply Hc. eapply Permutation_in; eauto.
Qed.

(* what the runner's stderr parser makes of the printer's stream: a record for (n, m) iff some
   submitted call's line reads "n: m" with n in the batch; passed through are exactly the lines of
   the submitted calls that are neither blank nor attributed - under every schedule *)
Theorem printer_feedback_attributed_proof : forall progs sched batch,
  let s := prun false sched (pinit progs) in
  pfinished s = true -> Forall clean (concat progs) ->
  (forall n m, In (n, m) (fst (parse_stderr batch (ps_out s))) <->
               exists c, In c (concat progs) /\ side_of batch (line_of c) n m) /\
  (forall l, In l (snd (parse_stderr batch (ps_out s))) <->
             exists c, In c (concat progs) /\ l = line_of c /\ ~ blank l /\ ~ attributed batch l).
Proof.
  intros progs sched batch s F Hc.
  destruct (printer_lines_atomic_proof progs sched F) as (done & P & _ & L). fold s in L.
  specialize (L Hc). unfold parse_stderr. rewrite L.
  destruct (parse_lines_spec batch (map line_of done ++ [[]])) as (P1 & P2 & _).
  assert (In_done : forall l, In l (map line_of done ++ [[]]) <-> (exists c, In c (concat progs) /\ l = line_of c) \/ l = []).
  { intro l. rewrite in_app_iff, in_map_iff. simpl. split.
    - intros [(c & <- & Hin)|[ <- | F0 ]]; [left; exists c; split; [eapply Permutation_in; eauto|reflexivity]|right; reflexivity|destruct F0].
    - intros [(c & Hin & ->)| -> ]; [left; exists c; split; [reflexivity|eapply Permutation_in; [symmetry; exact P|exact Hin]]|right; left; reflexivity]. }
  split.
  - intros n m. rewrite P1. split.
    + intros (l & Hl & C). apply In_done in Hl. destruct Hl as [(c & Hin & ->)| -> ].
      * exists c. split; [exact Hin|]. apply classify_side. exact C.
      * exfalso. unfold classify in C. simpl in C. discriminate.
    + intros (c & Hin & S). exists (line_of c). split; [apply In_done; left; exists c; split; [exact Hin|reflexivity]|].
      apply classify_side. exact S.
  - intro l. rewrite P2. rewrite classify_pass. split.
    + intros (Hl & Nb & Na). apply In_done in Hl. destruct Hl as [(c & Hin & ->)| -> ].
      * exists c. repeat split; assumption.
      * exfalso. apply Nb. reflexivity.
    + intros (c & Hin & -> & Nb & Na). split; [apply In_done; left; exists c; split; [exact Hin|reflexivity]|]. split; assumption.
Qed.

(* ---------- which reader gets which limit ---------- *)
Theorem limits_wired_proof :
  c11_max_server_response < c11_max_client_response /\
  (forall size, asks_for_body RdServerResponse size = false <-> c11_max_server_response < size) /\
  (forall size, asks_for_body RdClientOutput size = false <-> c11_max_client_response < size) /\
  (forall size body tls cs i c, distinct cs -> well_named cs -> nth_error cs i = Some c ->
     c11_max_server_response < size ->
     asks_for_body RdServerResponse size = false /\
     final (c_name c) (r_log (run_batch false (limit_server size body tls) cs)) = Some KSetup /\
     count (c_name c) (r_log (run_batch false (limit_server size body tls) cs)) = 1%nat) /\
  (forall size tls cs i c, distinct cs -> well_named cs -> nth_error cs i = Some c ->
     size <= c11_max_server_response -> (forall c', In c' cs -> c_send c' = true) ->
     final (c_name c) (r_log (run_batch false (limit_server size true tls) cs)) = Some (verdict (c_ans c))).
Proof.
  assert (A : forall r size, asks_for_body r size = false <-> limit_of r < size).
  { intros r size. unfold asks_for_body. rewrite N.leb_gt. reflexivity. }
  split; [apply N.ltb_lt; vm_compute; reflexivity|].
  split; [intro size; apply (A RdServerResponse)|].
  split; [intro size; apply (A RdClientOutput)|].
  split.
  - intros size body tls cs i c D W Hn Hs.
    assert (E : asks_for_body RdServerResponse size = false) by (apply (A RdServerResponse); exact Hs).
    split; [exact E|].
    assert (P : prefault (limit_server size body tls) = true).
    { unfold prefault, limit_server, server_resp. simpl. rewrite E. reflexivity. }
    split.
    + rewrite (outcome_as_specified_proof _ _ i c D W Hn). unfold expected. rewrite P. reflexivity.
    + apply (one_outcome_each_proof (limit_server size body tls) cs (c_name c) D W).
      apply in_map. eapply nth_error_In; eauto.
  - intros size tls cs i c D W Hn Hs Hall.
    rewrite (outcome_as_specified_proof _ _ i c D W Hn). unfold expected.
    assert (E : asks_for_body RdServerResponse size = true) by (unfold asks_for_body; apply N.leb_le; exact Hs).
    assert (P : prefault (limit_server size true tls) = false).
    { unfold prefault, limit_server, server_resp. simpl. rewrite E. simpl. rewrite andb_false_r. reflexivity. }
    rewrite P.
    assert (S : sends_ok cs = length cs).
    { clear -Hall. induction cs as [|c' cs IH]; simpl; [reflexivity|].
      rewrite (Hall c' (or_introl eq_refl)). f_equal. apply IH. intros; apply Hall; right; assumption. }
    unfold fault_point, limit_server. simpl. rewrite S.
    assert (L : (i <? length cs)%nat = true) by (apply Nat.ltb_lt; apply nth_error_Some; congruence).
    rewrite L. reflexivity.
Qed.
