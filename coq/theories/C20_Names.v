(* C20_Names.v — agreement of the name / enum tables of the five places, computed over
   C20_Consts.v, which is REGENERATED from the compiled Go code on every run. *)
From V Require Import C20_Spec C20_Consts.
Open Scope Z_scope.

Definition zlookup (k : Z) (l : list (Z * Z)) : Z := match assoc_z k l with Some a => a | None => -3 end.

(* "(name, algorithm)" as asserted by each place *)
(* 1. the compression package (runner): name constants by the enum value of their identifier;
      GetCompressor / GetDecompressor by enum value; the New* constructors *)
Definition pairs_compression : list (bytes * Z) :=
  flat_map (fun p : Z * bytes => [(snd p, zlookup (fst p) c20_get_compressor);
                                  (snd p, zlookup (fst p) c20_get_decompressor)]) c20_names
  ++ flat_map (fun p : Z * (Z * Z) =>
                 match assoc_z (fst p) c20_names with
                 | Some n => [(n, fst (snd p)); (n, snd (snd p))]
                 | None => [([], -3)]
                 end) c20_constructors.
(* 2. the wire tracer: GetDecompressor(name) lower-cases the name; 0 = brokenDecompressor; the
      empty name (no encoding header) is not a name and stands for identity *)
Definition pairs_tracer : list (bytes * Z) :=
  flat_map (fun p : bytes * Z =>
              match fst p with
              | [] => []
              | _ => if snd p =? 0 then [] else [(lower (fst p), snd p)]
              end) c20_tracer.
(* 3. the reference server's checkCompression: the names accepted for an expected enum value *)
Definition pairs_check : list (bytes * Z) :=
  flat_map (fun p : Z * list bytes => map (fun n => (n, zlookup (fst p) c20_get_decompressor)) (snd p)) c20_server_check.
(* 4. the live reference server: what a body announced as `name` must be compressed with; what a
      response is compressed with when `name` is offered (1 for a name it ignores) *)
Definition pairs_server : list (bytes * Z) :=
  flat_map (fun p : bytes * (Z * Z) =>
              (if fst (snd p) =? 0 then [] else [(fst p, fst (snd p))]) ++
              (if snd (snd p) =? 1 then [] else [(fst p, snd (snd p))])) c20_server_live.
(* 5. the live reference client: the name it announces vs the algorithm of the body and vs the
      requested enum value; the names it offers vs the requested enum value *)
Definition pairs_client : list (bytes * Z) :=
  flat_map (fun p : Z * (bytes * Z * list bytes) =>
              let '(e, (ce, a, acc)) := p in
              match ce with [] => [] | _ => [(ce, a); (ce, zlookup e c20_get_compressor)] end ++
              map (fun n => (n, zlookup e c20_get_decompressor)) acc) c20_client_live.
(* 6. the raw-payload encoders *)
Definition pairs_raw : list (bytes * Z) :=
  flat_map (fun p : Z * Z => match assoc_z (fst p) c20_names with Some n => [(n, snd p)] | None => [] end) c20_raw.

Definition all_pairs : list (bytes * Z) :=
  pairs_compression ++ pairs_tracer ++ pairs_check ++ pairs_server ++ pairs_client ++ pairs_raw.

Definition denotes_okb (p : bytes * Z) : bool :=
  existsb (fun q : Z * bytes => (fst q =? snd p) && bytes_eqb (snd q) (fst p)) iana.

Lemma denotes_okb_sound p : denotes_okb p = true -> denotes_ok p.
Proof.
  unfold denotes_okb, denotes_ok. rewrite existsb_exists. intros ((a, n) & Hin & E). simpl in E.
  apply andb_true_iff in E. destruct E as (E1 & E2). apply Z.eqb_eq in E1. apply bytes_eqb_eq in E2.
  subst. exact Hin.
Qed.

(* every (name, algorithm) pair asserted anywhere is what the registry says — hence any two
   places that know a name agree on its algorithm *)
Lemma names_agree_proof : forall p, In p all_pairs -> denotes_ok p.
Proof.
  assert (H : forallb denotes_okb all_pairs = true) by (vm_compute; reflexivity).
  intros p Hp. apply denotes_okb_sound. rewrite forallb_forall in H. apply H. exact Hp.
Qed.

Lemma names_functional_proof : forall n a b, In (n, a) all_pairs -> In (n, b) all_pairs -> a = b.
Proof.
  intros n a b Ha Hb. apply names_agree_proof in Ha. apply names_agree_proof in Hb.
  unfold denotes_ok, iana in *. simpl in *.
  repeat match goal with H : _ \/ _ |- _ => destruct H as [H|H] end; try contradiction;
    inversion Ha; inversion Hb; subst; try reflexivity; try discriminate.
Qed.

(* every place knows all six names (the client: the five it can be asked to send with) *)
Definition covers (l : list (bytes * Z)) (from : Z) : Prop :=
  forall a n, In (a, n) iana -> from <= a -> In (n, a) l.
Definition coversb (l : list (bytes * Z)) (from : Z) : bool :=
  forallb (fun q : Z * bytes => (fst q <? from) ||
             existsb (fun p : bytes * Z => bytes_eqb (fst p) (snd q) && (snd p =? fst q)) l) iana.
Lemma coversb_sound l from : coversb l from = true -> covers l from.
Proof.
  unfold coversb, covers. rewrite forallb_forall. intros H a n Hin Hle.
  specialize (H (a, n) Hin). simpl in H. apply orb_true_iff in H. destruct H as [H|H].
  - apply Z.ltb_lt in H. exfalso. apply (Z.lt_irrefl a). eapply Z.lt_le_trans; eauto.
  - rewrite existsb_exists in H. destruct H as ((n', a') & Hp & E). simpl in E.
    apply andb_true_iff in E. destruct E as (E1 & E2). apply bytes_eqb_eq in E1. apply Z.eqb_eq in E2.
    subst. exact Hp.
Qed.

Lemma names_covered_proof :
  covers pairs_compression 1 /\ covers pairs_tracer 1 /\ covers pairs_check 1 /\
  covers pairs_server 1 /\ covers pairs_client 2 /\ covers pairs_raw 1.
Proof. repeat split; apply coversb_sound; vm_compute; reflexivity. Qed.

(* the tables written in C20_Model.v (what the differential run compares the code with) are
   the tables the compiled code has *)
Definition model_tables_match : Prop :=
  c20_names = name_consts /\
  (forall e a, In (e, a) c20_get_compressor -> alg_of_enum e = a) /\
  (forall e a, In (e, a) c20_get_decompressor -> alg_of_enum e = a) /\
  (forall e a, In (e, a) c20_raw -> alg_of_enum e = a) /\
  (forall n a, In (n, a) c20_tracer -> tracer_alg n = a) /\
  (forall e ns, In (e, ns) c20_server_check -> ns = match check_expect e with Some n => [n] | None => [] end) /\
  (forall n r, In (n, r) c20_server_live -> server_algs n = r) /\
  (forall e o, In (e, o) c20_client_live -> client_obs e = o).

Definition zz_eqb (p : Z * Z) : bool := alg_of_enum (fst p) =? snd p.
Fixpoint lb_eqb (a b : list bytes) : bool :=
  match a, b with
  | [], [] => true
  | x :: a', y :: b' => bytes_eqb x y && lb_eqb a' b'
  | _, _ => false
  end.
Lemma lb_eqb_eq a b : lb_eqb a b = true -> a = b.
Proof.
  revert b. induction a as [|x a IH]; intros [|y b]; simpl; try discriminate; [reflexivity|].
  intros H. apply andb_true_iff in H. destruct H as (H1 & H2). apply bytes_eqb_eq in H1.
  rewrite (IH b H2), H1. reflexivity.
Qed.

Lemma model_tables_match_proof : model_tables_match.
Proof.
  unfold model_tables_match. split; [vm_compute; reflexivity|].
  assert (ZZ : forall l, forallb zz_eqb l = true -> forall e a, In (e, a) l -> alg_of_enum e = a).
  { intros l H e a Hin. rewrite forallb_forall in H. specialize (H (e, a) Hin). apply Z.eqb_eq in H. exact H. }
  split; [apply ZZ; vm_compute; reflexivity|].
  split; [apply ZZ; vm_compute; reflexivity|].
  split; [apply ZZ; vm_compute; reflexivity|].
  split.
  { assert (H : forallb (fun p : bytes * Z => tracer_alg (fst p) =? snd p) c20_tracer = true) by (vm_compute; reflexivity).
    intros n a Hin. rewrite forallb_forall in H. specialize (H (n, a) Hin). apply Z.eqb_eq in H. exact H. }
  split.
  { assert (H : forallb (fun p : Z * list bytes =>
                 lb_eqb (snd p) match check_expect (fst p) with Some n => [n] | None => [] end) c20_server_check = true)
      by (vm_compute; reflexivity).
    intros e ns Hin. rewrite forallb_forall in H. specialize (H (e, ns) Hin). apply lb_eqb_eq in H. exact H. }
  split.
  { assert (H : forallb (fun p : bytes * (Z * Z) =>
                 (fst (server_algs (fst p)) =? fst (snd p)) && (snd (server_algs (fst p)) =? snd (snd p))) c20_server_live = true)
      by (vm_compute; reflexivity).
    intros n [r q] Hin. rewrite forallb_forall in H. specialize (H (n, (r, q)) Hin). cbn [fst snd] in H.
    apply andb_true_iff in H. destruct H as (H1 & H2). apply Z.eqb_eq in H1. apply Z.eqb_eq in H2.
    destruct (server_algs n). cbn [fst snd] in *. congruence. }
  { assert (H : forallb (fun p : Z * (bytes * Z * list bytes) =>
                 let '(e, (ce, a, acc)) := p in
                 let '(ce', a', acc') := client_obs e in
                 bytes_eqb ce ce' && (a =? a') && lb_eqb acc acc') c20_client_live = true)
      by (vm_compute; reflexivity).
    intros e [[ce a] acc] Hin. rewrite forallb_forall in H. specialize (H (e, (ce, a, acc)) Hin). cbv beta iota in H.
    destruct (client_obs e) as [[ce' a'] acc']. cbv beta iota in H.
    apply andb_true_iff in H. destruct H as (H & H3). apply andb_true_iff in H. destruct H as (H1 & H2).
    apply bytes_eqb_eq in H1. apply Z.eqb_eq in H2. apply lb_eqb_eq in H3. subst. reflexivity. }
Qed.
