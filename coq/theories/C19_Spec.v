(* C19_Spec.v — the declarative specification of C19, written from the property text,
   the comment on TestCase.expand_requests in suite.proto and the protobuf encoding
   documentation; no reference to the structure of the padding loop. *)
From V Require Export C19_Model.
Open Scope Z_scope.

(* Protobuf encoding: a varint carries 7 payload bits per byte, at least one byte. *)
Definition varint_len_spec (n k : Z) : Prop :=
  1 <= k /\ n < 2 ^ (7 * k) /\ (k = 1 \/ 2 ^ (7 * (k - 1)) <= n).

(* A total serialized size T can be reached from a message whose other fields take `base`
   bytes iff some padding length gives exactly T. *)
Definition reachable (base T : Z) : Prop := exists n, 0 <= n /\ msg_size base n = T.

(* "A request marked for expansion is padded so that its serialized size equals the server
   receive limit plus the requested offset exactly ... changing nothing but the padding
   field": the relation between directives, request messages before and after. *)
Inductive expanded (limit : Z) : list (option Z) -> list msg -> list msg -> Prop :=
| ex_done ms : expanded limit [] ms ms
| ex_skip ds m ms ms' :
    expanded limit ds ms ms' -> expanded limit (None :: ds) (m :: ms) (m :: ms')
| ex_pad d ds b n0 n ms ms' :
    0 <= limit + d <= max_uint32 -> 0 <= n -> msg_size b n = limit + d ->
    expanded limit ds ms ms' ->
    expanded limit (Some d :: ds) (Padded b n0 :: ms) (Padded b n :: ms').

Definition same_but_padding (m m' : msg) : Prop :=
  match m, m' with
  | Padded b _, Padded b' _ => b = b'
  | Opaque s, Opaque s' => s = s'
  | _, _ => False
  end.

(* inputs that can occur: sizes and lengths are Go ints *)
Definition go_int_max : Z := 9223372036854775807.
Definition wf_msg (m : msg) : Prop :=
  match m with Padded b n => 0 <= b /\ 0 <= n <= go_int_max | Opaque s => 0 <= s end.

(* "... or the suite is rejected with an error if that size is unreachable": what each
   kind of rejection must be justified by. *)
Definition rejection_justified (limit : Z) (dirs : list (option Z)) (ms : list msg) (e : err_tag) : Prop :=
  match e with
  | ETooMany => (length ms < length dirs)%nat
  | ERange => exists i d, nth_error dirs i = Some (Some d) /\ ~ (0 <= limit + d <= max_uint32)
  | EUnpaddable => exists i d s, nth_error dirs i = Some (Some d) /\ nth_error ms i = Some (Opaque s)
  | EUnreachable => exists i d b n0, nth_error dirs i = Some (Some d) /\ nth_error ms i = Some (Padded b n0) /\
                                     0 <= limit + d <= max_uint32 /\ ~ reachable b (limit + d)
  end.

(* "the reference server accepts a message of exactly the limit and rejects one byte more ...
   measured on the uncompressed size, and the reference client does the same for responses":
   a verdict function is sharp at `limit`.  This is a SPECIFICATION that the live runs of the
   real reference peers (connect-go's WithReadMaxBytes) are compared with on every check;
   nothing is proved about connect-go. *)
Definition sharp_at (limit : Z) (verdict : Z -> bool) : Prop :=
  forall size, verdict size = true <-> size <= limit.

(* The limit is a limit on each MESSAGE: a verdict on streams is sharp per message iff a stream
   is accepted exactly when every one of its messages is within the limit - whatever the number
   of messages and whatever their sizes add up to (the length of the body that carries them). *)
Definition stream_sharp_at (limit : Z) (verdict : list Z -> bool) : Prop :=
  forall sizes, verdict sizes = true <-> (forall s, In s sizes -> s <= limit).

(* where a rejected stream fails: at the first message above the limit *)
Definition fails_at (limit : Z) (sizes : list Z) (i : nat) : Prop :=
  (exists s, nth_error sizes i = Some s /\ limit < s) /\
  (forall j s, (j < i)%nat -> nth_error sizes j = Some s -> s <= limit).

(* "A request marked for expansion is padded ... or the suite is rejected", at the level of a
   suite file: a load that succeeds has expanded EVERY test case as directed (a case without
   directives is unchanged: `expanded limit [] ms ms`) ... *)
Definition suite_loaded (limit : Z) (s : suite) (out : list (list msg)) : Prop :=
  Forall2 (fun tc ms' => expanded limit (t_dirs tc) (t_msgs tc) ms') (s_cases s) out.

(* ... and a load that fails names a test case that carries directives, and either the suite
   allows a codec other than proto (sizes are computed for the proto codec) or the rejection of
   that case is justified as above. *)
Definition load_rejection_justified (limit : Z) (s : suite) (i : nat) (e : load_err) : Prop :=
  exists tc, nth_error (s_cases s) i = Some tc /\ t_dirs tc <> [] /\
    match e with
    | LCodec => s_codecs s <> [codec_proto]
    | LExpand e' => rejection_justified limit (t_dirs tc) (t_msgs tc) e'
    end.

Definition wf_suite (s : suite) : Prop := Forall (fun tc => Forall wf_msg (t_msgs tc)) (s_cases s).

(* two suites that differ only in what the loader has no business looking at *)
Definition same_marking (s s' : suite) : Prop :=
  s_codecs s = s_codecs s' /\
  map (fun tc => (t_dirs tc, t_msgs tc)) (s_cases s) = map (fun tc => (t_dirs tc, t_msgs tc)) (s_cases s').
