(* C16_Proofs.v — proofs for the trace hand-off property.  All statements are about
   ARBITRARY action lists: each action is one critical section of the Go code, so any
   interleaving of goroutines is one such list. *)
From Coq Require Import Lia.
From V Require Import C16_Spec.
Open Scope N_scope.

(* ====================================================================== *)
(* Tracer                                                                 *)
(* ====================================================================== *)
Lemma bytes_eqb_sym a b : bytes_eqb a b = bytes_eqb b a.
Proof. destruct (bytes_eqb_spec a b), (bytes_eqb_spec b a); congruence. Qed.

Lemma run_snoc h a : run (h ++ [a]) = step (run h) a.
Proof. unfold run. rewrite fold_left_app. reflexivity. Qed.

Lemma run_app h post : run (h ++ post) = fold_left step post (run h).
Proof. unfold run. apply fold_left_app. Qed.

Definition mview (st : tracer) (n : name) : view :=
  match st.(slots) n with
  | None => NoSlot
  | Some s => if s.(s_done) then Done s.(s_trace) else Open
  end.

Definition promote (t : trace) (v : view) : view :=
  match v with Open => Done t | x => x end.

Definition view_step (a : action) (n : name) (v : view) : view :=
  match a with
  | Init m => if bytes_eqb m n then Open else v
  | Clear m => if bytes_eqb m n then NoSlot else v
  | Complete m t => if bytes_eqb m n then promote t v else v
  | _ => v
  end.

Lemma lookback_some_not_open r n t : lookback r n (Some t) <> Open.
Proof.
  revert t; induction r as [|a r IH]; intros t; simpl; [discriminate|].
  destruct a; try apply IH.
  - destruct (bytes_eqb n0 n); [discriminate|apply IH].
  - destruct (bytes_eqb n0 n); apply IH.
  - destruct (bytes_eqb n0 n); [discriminate|apply IH].
Qed.

Lemma lookback_later r n t : lookback r n (Some t) = promote t (lookback r n None).
Proof.
  induction r as [|a r IH]; simpl; [reflexivity|].
  destruct a; try exact IH.
  - destruct (bytes_eqb n0 n); [reflexivity|exact IH].
  - destruct (bytes_eqb n0 n); [|exact IH].
    pose proof (lookback_some_not_open r n t0) as H.
    destruct (lookback r n (Some t0)); simpl; congruence.
  - destruct (bytes_eqb n0 n); [reflexivity|exact IH].
Qed.

Lemma view_after_snoc h a n : view_after (h ++ [a]) n = view_step a n (view_after h n).
Proof.
  unfold view_after. rewrite rev_app_distr. simpl.
  destruct a; simpl; try reflexivity.
  destruct (bytes_eqb n0 n); [apply lookback_later|reflexivity].
Qed.

Lemma mview_step st a n : mview (step st a) n = view_step a n (mview st n).
Proof.
  unfold mview. destruct a; simpl.
  - unfold upd. rewrite (bytes_eqb_sym n n0). destruct (bytes_eqb n0 n); reflexivity.
  - destruct (bytes_eqb_spec n0 n) as [->|Hne].
    + destruct (slots st n) as [s|] eqn:E; [|rewrite E; reflexivity].
      destruct (s_done s) eqn:D; simpl.
      * rewrite E, D. reflexivity.
      * unfold upd. rewrite bytes_eqb_refl. reflexivity.
    + destruct (slots st n0) as [s|] eqn:E; [|reflexivity].
      destruct (s_done s) eqn:D; simpl; [reflexivity|].
      unfold upd. destruct (bytes_eqb_spec n n0); [congruence|reflexivity].
  - destruct (is_waiting (waiters st w)); reflexivity.
  - unfold upd. rewrite (bytes_eqb_sym n n0). destruct (bytes_eqb n0 n); reflexivity.
  - destruct (waiters st w); reflexivity.
Qed.

(* the model's slot map always shows what the history specification says *)
Lemma slot_view_proof : forall h n, mview (run h) n = view_after h n.
Proof.
  induction h as [|a h IH] using rev_ind; intros n; [reflexivity|].
  rewrite run_snoc, mview_step, view_after_snoc, IH. reflexivity.
Qed.

(* ---------- invariant: ids are fresh and identify the slot ---------- *)
Record inv (st : tracer) : Prop := {
  inv_lt : forall n s, st.(slots) n = Some s -> s.(s_id) < st.(next_id);
  inv_uniq : forall n1 n2 s1 s2, st.(slots) n1 = Some s1 -> st.(slots) n2 = Some s2 ->
                                 s1.(s_id) = s2.(s_id) -> n1 = n2;
  inv_wait : forall w id, st.(waiters) w = Waiting id -> id < st.(next_id) }.

Lemma inv_init : inv init_tracer.
Proof. split; simpl; intros; discriminate. Qed.

Lemma upd_some {A} (f : name -> option A) n v m x :
  upd f n v m = Some x -> (m = n /\ v = Some x) \/ (m <> n /\ f m = Some x).
Proof.
  unfold upd. destruct (bytes_eqb_spec m n); intros H; [left|right]; auto.
Qed.

Lemma inv_step st a : inv st -> inv (step st a).
Proof.
  intros [Hlt Hun Hw]. destruct a; simpl.
  - split; simpl.
    + intros m s H. apply upd_some in H as [[-> E]|[_ E]].
      * inversion E; subst; simpl. lia.
      * apply Hlt in E. lia.
    + intros n1 n2 s1 s2 H1 H2 E.
      apply upd_some in H1 as [[-> E1]|[N1 E1]]; apply upd_some in H2 as [[-> E2]|[N2 E2]].
      * reflexivity.
      * inversion E1; subst; simpl in E. apply Hlt in E2. lia.
      * inversion E2; subst; simpl in E. apply Hlt in E1. lia.
      * eapply Hun; eauto.
    + intros w id H. apply Hw in H. lia.
  - destruct (slots st n) as [s|] eqn:E; [|split; assumption].
    destruct (s_done s) eqn:D; [split; assumption|].
    split; simpl.
    + intros m s' H. apply upd_some in H as [[-> E']|[_ E']].
      * inversion E'; subst; simpl. eapply Hlt; eauto.
      * eapply Hlt; eauto.
    + intros n1 n2 s1 s2 H1 H2 EQ.
      apply upd_some in H1 as [[-> E1]|[N1 E1]]; apply upd_some in H2 as [[-> E2]|[N2 E2]].
      * reflexivity.
      * inversion E1; subst; simpl in EQ. eapply Hun; eauto.
      * inversion E2; subst; simpl in EQ. eapply Hun; eauto.
      * eapply Hun; eauto.
    + intros w id H. unfold wake in H. destruct (waiters st w) eqn:W; try discriminate.
      destruct (id0 =? s_id s); [discriminate|]. inversion H; subst. eapply Hw; eauto.
  - destruct (is_waiting (waiters st w)); [split; assumption|].
    split; simpl; [assumption|assumption|].
    intros w' id H. unfold updw in H. destruct (w' =? w); [|eapply Hw; eauto].
    destruct (slots st n) as [s|] eqn:E; [|discriminate].
    destruct (s_done s); [discriminate|]. inversion H; subst. eapply Hlt; eauto.
  - split; simpl.
    + intros m s H. apply upd_some in H as [[_ E]|[_ E]]; [discriminate|eapply Hlt; eauto].
    + intros n1 n2 s1 s2 H1 H2 EQ.
      apply upd_some in H1 as [[_ E1]|[_ E1]]; [discriminate|].
      apply upd_some in H2 as [[_ E2]|[_ E2]]; [discriminate|]. eapply Hun; eauto.
    + assumption.
  - destruct (waiters st w) eqn:W; try (split; assumption).
    split; simpl; [assumption|assumption|].
    intros w' id' H. unfold updw in H. destruct (w' =? w); [discriminate|eapply Hw; eauto].
Qed.

Lemma inv_fold post : forall st, inv st -> inv (fold_left step post st).
Proof. induction post as [|a post IH]; simpl; intros st H; [exact H|]. apply IH, inv_step, H. Qed.

Lemma inv_run h : inv (run h).
Proof. apply inv_fold, inv_init. Qed.

(* ---------- waiters ---------- *)
Definition no_begin (w : N) (post : list action) : Prop := forall m, ~ In (AwaitBegin w m) post.

Lemma no_begin_cons w a post : no_begin w (a :: post) ->
  (forall m, a <> AwaitBegin w m) /\ no_begin w post.
Proof.
  intros H; split.
  - intros m E. apply (H m). left; exact E.
  - intros m HI. apply (H m). right; exact HI.
Qed.

(* a resolved (or not yet started) waiter changes only by its own next AwaitBegin *)
Lemma stable_step st a w :
  is_waiting (st.(waiters) w) = false -> (forall m, a <> AwaitBegin w m) ->
  (step st a).(waiters) w = st.(waiters) w.
Proof.
  intros NW NB. destruct a; simpl; try reflexivity.
  - destruct (slots st n) as [s|]; [|reflexivity]. destruct (s_done s); [reflexivity|]. simpl.
    unfold wake. destruct (waiters st w); try reflexivity. discriminate.
  - destruct (is_waiting (waiters st w0)); [reflexivity|]. simpl. unfold updw.
    destruct (N.eqb_spec w w0) as [->|]; [|reflexivity]. exfalso; eapply NB; reflexivity.
  - destruct (waiters st w0) eqn:W; try reflexivity. simpl. unfold updw.
    destruct (N.eqb_spec w w0) as [->|]; [|reflexivity]. rewrite W in NW. discriminate.
Qed.

Lemma stable_fold post : forall st w,
  is_waiting (st.(waiters) w) = false -> no_begin w post ->
  (fold_left step post st).(waiters) w = st.(waiters) w.
Proof.
  induction post as [|a post IH]; simpl; intros st w NW NB; [reflexivity|].
  apply no_begin_cons in NB as [NB1 NB2].
  pose proof (stable_step st a w NW NB1) as E.
  rewrite IH; [exact E| rewrite E; exact NW | exact NB2].
Qed.

Lemma orphaned_fold post : forall st w id,
  inv st -> st.(waiters) w = Waiting id ->
  (forall n s, st.(slots) n = Some s -> s.(s_id) <> id) ->
  no_begin w post ->
  outcome_of ((fold_left step post st).(waiters) w) = Some (orphaned w post).
Proof.
  induction post as [|a post IH]; simpl; intros st w id I W NS NB.
  - rewrite W. reflexivity.
  - apply no_begin_cons in NB as [NB1 NB2].
    pose proof (inv_step st a I) as I'.
    destruct a.
    + (* Init *)
      apply (IH _ w id I'); [exact W| |exact NB2].
      simpl. intros m s H. apply upd_some in H as [[_ E]|[_ E]].
      * inversion E; subst; simpl. apply (inv_wait _ I) in W. lia.
      * eapply NS; eauto.
    + (* Complete *)
      apply (IH _ w id I'); [| |exact NB2].
      * simpl. destruct (slots st n) as [s|] eqn:E; [|exact W].
        destruct (s_done s); [exact W|]. simpl. rewrite W. simpl.
        destruct (N.eqb_spec id (s_id s)) as [EQ|]; [|reflexivity].
        exfalso; eapply NS; eauto.
      * simpl. destruct (slots st n) as [s|] eqn:E; [|exact NS].
        destruct (s_done s); [exact NS|]. simpl.
        intros m s' H. apply upd_some in H as [[_ E']|[_ E']].
        -- inversion E'; subst; simpl. eapply NS; eauto.
        -- eapply NS; eauto.
    + (* AwaitBegin of another waiter *)
      assert (w0 <> w) by (intros ->; eapply NB1; reflexivity).
      apply (IH _ w id I'); [| |exact NB2].
      * simpl. destruct (is_waiting (waiters st w0)); [exact W|]. simpl. unfold updw.
        destruct (N.eqb_spec w w0); [congruence|exact W].
      * simpl. destruct (is_waiting (waiters st w0)); exact NS.
    + (* Clear *)
      apply (IH _ w id I'); [exact W| |exact NB2].
      simpl. intros m s H. apply upd_some in H as [[_ E]|[_ E]]; [discriminate|eapply NS; eauto].
    + (* CtxDone *)
      destruct (N.eqb_spec w0 w) as [->|Hne].
      * assert (E : (step st (CtxDone w)).(waiters) w = CtxErr).
        { simpl. rewrite W. simpl. unfold updw. rewrite N.eqb_refl. reflexivity. }
        rewrite stable_fold; [rewrite E; reflexivity|rewrite E; reflexivity|exact NB2].
      * apply (IH _ w id I'); [| |exact NB2].
        -- simpl. destruct (waiters st w0); try exact W. simpl. unfold updw.
           destruct (N.eqb_spec w w0); [congruence|exact W].
        -- simpl. destruct (waiters st w0); exact NS.
Qed.

Lemma parked_fold post : forall st w n s,
  inv st -> st.(slots) n = Some s -> s.(s_done) = false ->
  st.(waiters) w = Waiting s.(s_id) -> no_begin w post ->
  outcome_of ((fold_left step post st).(waiters) w) = Some (parked n w post).
Proof.
  induction post as [|a post IH]; simpl; intros st w n s I S D W NB.
  - rewrite W. reflexivity.
  - apply no_begin_cons in NB as [NB1 NB2].
    pose proof (inv_step st a I) as I'.
    destruct a.
    + (* Init m *)
      destruct (bytes_eqb_spec n0 n) as [->|Hne].
      * apply (orphaned_fold post _ w (s_id s) I'); [exact W| |exact NB2].
        simpl. intros m s' H. apply upd_some in H as [[_ E]|[Hm E]].
        -- inversion E; subst; simpl. apply (inv_lt _ I) in S. lia.
        -- intros EQ. apply Hm. eapply (inv_uniq _ I); eauto.
      * apply (IH _ w n s I'); [|exact D|exact W|exact NB2].
        simpl. unfold upd. destruct (bytes_eqb_spec n n0); [congruence|exact S].
    + (* Complete m t *)
      destruct (bytes_eqb_spec n0 n) as [->|Hne].
      * assert (E : (step st (Complete n t)).(waiters) w = Got t).
        { simpl. rewrite S, D. simpl. rewrite W. simpl. rewrite N.eqb_refl. reflexivity. }
        rewrite stable_fold; [rewrite E; reflexivity|rewrite E; reflexivity|exact NB2].
      * apply (IH _ w n s I'); [|exact D| |exact NB2].
        -- simpl. destruct (slots st n0) as [s'|]; [|exact S].
           destruct (s_done s'); [exact S|]. simpl. unfold upd.
           destruct (bytes_eqb_spec n n0); [congruence|exact S].
        -- simpl. destruct (slots st n0) as [s'|] eqn:E; [|exact W].
           destruct (s_done s'); [exact W|]. simpl. rewrite W. simpl.
           destruct (N.eqb_spec (s_id s) (s_id s')) as [EQ|]; [|reflexivity].
           exfalso. apply Hne. symmetry. eapply (inv_uniq _ I); eauto.
    + (* AwaitBegin of another waiter *)
      assert (w0 <> w) by (intros ->; eapply NB1; reflexivity).
      apply (IH _ w n s I'); [|exact D| |exact NB2].
      * simpl. destruct (is_waiting (waiters st w0)); exact S.
      * simpl. destruct (is_waiting (waiters st w0)); [exact W|]. simpl. unfold updw.
        destruct (N.eqb_spec w w0); [congruence|exact W].
    + (* Clear m *)
      destruct (bytes_eqb_spec n0 n) as [->|Hne].
      * apply (orphaned_fold post _ w (s_id s) I'); [exact W| |exact NB2].
        simpl. intros m s' H. apply upd_some in H as [[_ E]|[Hm E]]; [discriminate|].
        intros EQ. apply Hm. eapply (inv_uniq _ I); eauto.
      * apply (IH _ w n s I'); [|exact D|exact W|exact NB2].
        simpl. unfold upd. destruct (bytes_eqb_spec n n0); [congruence|exact S].
    + (* CtxDone *)
      destruct (N.eqb_spec w0 w) as [->|Hne].
      * assert (E : (step st (CtxDone w)).(waiters) w = CtxErr).
        { simpl. rewrite W. simpl. unfold updw. rewrite N.eqb_refl. reflexivity. }
        rewrite stable_fold; [rewrite E; reflexivity|rewrite E; reflexivity|exact NB2].
      * apply (IH _ w n s I'); [|exact D| |exact NB2].
        -- simpl. destruct (waiters st w0); exact S.
        -- simpl. destruct (waiters st w0); try exact W. simpl. unfold updw.
           destruct (N.eqb_spec w w0); [congruence|exact W].
Qed.

Lemma first_trace_proof : forall pre post w n,
  is_waiting ((run pre).(waiters) w) = false -> no_begin w post ->
  outcome_of ((run (pre ++ AwaitBegin w n :: post)).(waiters) w)
  = Some (await_outcome pre post w n).
Proof.
  intros pre post w n NW NB. rewrite run_app. cbn [fold_left].
  unfold await_outcome. rewrite <- slot_view_proof. unfold mview.
  pose proof (inv_run pre) as I. set (st := run pre) in *.
  assert (I' : inv (step st (AwaitBegin w n))) by (apply inv_step; exact I).
  destruct (slots st n) as [s|] eqn:S.
  - destruct (s_done s) eqn:D.
    + assert (E : (step st (AwaitBegin w n)).(waiters) w = Got (s_trace s)).
      { simpl. rewrite NW. simpl. unfold updw. rewrite N.eqb_refl, S, D. reflexivity. }
      rewrite stable_fold; [rewrite E; reflexivity|rewrite E; reflexivity|exact NB].
    + apply (parked_fold post _ w n s I'); [|exact D| |exact NB].
      * simpl. rewrite NW. exact S.
      * simpl. rewrite NW. simpl. unfold updw. rewrite N.eqb_refl, S, D. reflexivity.
  - assert (E : (step st (AwaitBegin w n)).(waiters) w = Failed).
    { simpl. rewrite NW. simpl. unfold updw. rewrite N.eqb_refl, S. reflexivity. }
    rewrite stable_fold; [rewrite E; reflexivity|rewrite E; reflexivity|exact NB].
Qed.

Lemma no_effect_proof : forall h n t,
  view_after h n <> Open -> run (h ++ [Complete n t]) = run h.
Proof.
  intros h n t H. rewrite run_snoc. rewrite <- slot_view_proof in H. unfold mview in H.
  simpl. destruct (slots (run h) n) as [s|]; [|reflexivity].
  destruct (s_done s); [reflexivity|congruence].
Qed.

Lemma fail_fast_proof : forall h w n,
  is_waiting ((run h).(waiters) w) = false -> view_after h n = NoSlot ->
  (run (h ++ [AwaitBegin w n])).(waiters) w = Failed.
Proof.
  intros h w n NW H. rewrite run_snoc. rewrite <- slot_view_proof in H. unfold mview in H.
  simpl. rewrite NW. simpl. unfold updw. rewrite N.eqb_refl.
  destruct (slots (run h) n) as [s|]; [|reflexivity]. destruct (s_done s); discriminate.
Qed.

Lemma ctx_bound_proof : forall h w post,
  no_begin w post ->
  is_waiting ((run (h ++ CtxDone w :: post)).(waiters) w) = false.
Proof.
  intros h w post NB. rewrite run_app. cbn [fold_left].
  assert (E : is_waiting ((step (run h) (CtxDone w)).(waiters) w) = false).
  { simpl. destruct (waiters (run h) w) eqn:W; simpl; try (rewrite W; reflexivity).
    unfold updw. rewrite N.eqb_refl. reflexivity. }
  rewrite stable_fold; [exact E|exact E|exact NB].
Qed.

(* ---------- the relational reading of view_after ---------- *)
Lemma lookback_skip r1 : forall r2 n later,
  untouched n r1 -> exists later', lookback (r1 ++ r2) n later = lookback r2 n later'.
Proof.
  induction r1 as [|a r1 IH]; intros r2 n later U; [exists later; reflexivity|].
  assert (U' : untouched n r1) by (intros x Hx; apply U; right; exact Hx).
  assert (Ua : ~ touches n a) by (apply U; left; reflexivity).
  simpl. destruct a; try (apply IH; exact U').
  - destruct (bytes_eqb_spec n0 n) as [->|]; [exfalso; apply Ua; left; reflexivity|apply IH; exact U'].
  - destruct (bytes_eqb_spec n0 n) as [->|]; [exfalso; apply Ua; right; reflexivity|apply IH; exact U'].
Qed.

Lemma lookback_skip_same r1 : forall r2 n later,
  untouched n r1 -> uncompleted n r1 -> lookback (r1 ++ r2) n later = lookback r2 n later.
Proof.
  induction r1 as [|a r1 IH]; intros r2 n later U C; [reflexivity|].
  assert (U' : untouched n r1) by (intros x Hx; apply U; right; exact Hx).
  assert (C' : uncompleted n r1) by (intros t Hx; apply (C t); right; exact Hx).
  assert (Ua : ~ touches n a) by (apply U; left; reflexivity).
  simpl. destruct a; try (apply IH; assumption).
  - destruct (bytes_eqb_spec n0 n) as [->|]; [exfalso; apply Ua; left; reflexivity|apply IH; assumption].
  - destruct (bytes_eqb_spec n0 n) as [->|]; [|apply IH; assumption].
    exfalso. apply (C t). left; reflexivity.
  - destruct (bytes_eqb_spec n0 n) as [->|]; [exfalso; apply Ua; right; reflexivity|apply IH; assumption].
Qed.

Lemma untouched_rev n h : untouched n h -> untouched n (rev h).
Proof. intros U a Ha. apply U. apply in_rev. exact Ha. Qed.
Lemma uncompleted_rev n h : uncompleted n h -> uncompleted n (rev h).
Proof. intros U t Ha. apply (U t). apply in_rev. exact Ha. Qed.

Lemma done_if h n t : first_completed h n t -> view_after h n = Done t.
Proof.
  intros (h1 & h2 & h3 & -> & U2 & C2 & U3). unfold view_after.
  rewrite rev_app_distr. simpl. rewrite rev_app_distr. simpl.
  repeat rewrite <- app_assoc. simpl.
  destruct (lookback_skip (rev h3) (Complete n t :: rev h2 ++ Init n :: rev h1) n None
              (untouched_rev _ _ U3)) as [l' ->].
  simpl. rewrite bytes_eqb_refl.
  rewrite lookback_skip_same by (auto using untouched_rev, uncompleted_rev).
  simpl. rewrite bytes_eqb_refl. reflexivity.
Qed.

Lemma open_if h n : still_open h n -> view_after h n = Open.
Proof.
  intros (h1 & h2 & -> & U2 & C2). unfold view_after.
  rewrite rev_app_distr. simpl. repeat rewrite <- app_assoc. simpl.
  rewrite lookback_skip_same by (auto using untouched_rev, uncompleted_rev).
  simpl. rewrite bytes_eqb_refl. reflexivity.
Qed.

Lemma lookback_no_init r : forall n later, (forall a, In a r -> a <> Init n) -> lookback r n later = NoSlot.
Proof.
  induction r as [|a r IH]; intros n later H; [reflexivity|].
  assert (H' : forall a, In a r -> a <> Init n) by (intros x Hx; apply H; right; exact Hx).
  simpl. destruct a; try (apply IH; exact H').
  - destruct (bytes_eqb_spec n0 n) as [->|]; [|apply IH; exact H'].
    exfalso. apply (H (Init n)); [left|]; reflexivity.
  - destruct (bytes_eqb n0 n); [reflexivity|apply IH; exact H'].
Qed.

Lemma lookback_no_init_app r1 : forall r2 n later,
  (forall a, In a r1 -> a <> Init n) ->
  lookback (r1 ++ Clear n :: r2) n later = NoSlot.
Proof.
  induction r1 as [|a r1 IH]; intros r2 n later H.
  - simpl. rewrite bytes_eqb_refl. reflexivity.
  - assert (H' : forall a, In a r1 -> a <> Init n) by (intros x Hx; apply H; right; exact Hx).
    simpl. destruct a; try (apply IH; exact H').
    + destruct (bytes_eqb_spec n0 n) as [->|]; [|apply IH; exact H'].
      exfalso. apply (H (Init n)); [left|]; reflexivity.
    + destruct (bytes_eqb n0 n); [reflexivity|apply IH; exact H'].
Qed.

Lemma noslot_if h n : never_or_cleared h n -> view_after h n = NoSlot.
Proof.
  unfold view_after. intros [H|(h1 & h2 & -> & H)].
  - apply lookback_no_init. intros a Ha. apply H. apply in_rev. exact Ha.
  - rewrite rev_app_distr. simpl. rewrite <- app_assoc. simpl.
    apply lookback_no_init_app. intros a Ha. apply H. apply in_rev. exact Ha.
Qed.

Lemma untouched_snoc n h a : untouched n h -> ~ touches n a -> untouched n (h ++ [a]).
Proof.
  intros U Ua x Hx. apply in_app_or in Hx as [Hx|[<-|[]]]; [apply U; exact Hx|exact Ua].
Qed.
Lemma uncompleted_snoc n h a : uncompleted n h -> (forall t, a <> Complete n t) -> uncompleted n (h ++ [a]).
Proof.
  intros U Ua t Hx. apply in_app_or in Hx as [Hx|[E|[]]]; [apply (U t); exact Hx|eapply Ua; eauto].
Qed.

(* the three cases, by induction on the history *)
Lemma view_cases h : forall n,
  match view_after h n with
  | NoSlot => never_or_cleared h n
  | Open => still_open h n
  | Done t => first_completed h n t
  end.
Proof.
  induction h as [|a h IH] using rev_ind; intros n.
  - left. intros a [].
  - rewrite view_after_snoc. specialize (IH n).
    assert (KEEP : ~ touches n a -> (forall t, a <> Complete n t) ->
      match view_after h n with
      | NoSlot => never_or_cleared (h ++ [a]) n
      | Open => still_open (h ++ [a]) n
      | Done t => first_completed (h ++ [a]) n t
      end).
    { intros NT NC. destruct (view_after h n).
      - destruct IH as [H|(h1 & h2 & -> & H)].
        + left. intros x Hx. apply in_app_or in Hx as [Hx|[<-|[]]]; [apply H; exact Hx|].
          intros ->. apply NT. left; reflexivity.
        + right. exists h1, (h2 ++ [a]). split; [rewrite <- app_assoc; reflexivity|].
          intros x Hx. apply in_app_or in Hx as [Hx|[<-|[]]]; [apply H; exact Hx|].
          intros ->. apply NT. left; reflexivity.
      - destruct IH as (h1 & h2 & -> & U & C). exists h1, (h2 ++ [a]).
        split; [rewrite <- app_assoc; reflexivity|].
        split; [apply untouched_snoc; assumption|apply uncompleted_snoc; assumption].
      - destruct IH as (h1 & h2 & h3 & -> & U2 & C2 & U3). exists h1, h2, (h3 ++ [a]).
        split; [repeat (rewrite <- app_assoc; simpl); reflexivity|].
        split; [exact U2|]. split; [exact C2|apply untouched_snoc; assumption]. }
    destruct a; simpl.
    + destruct (bytes_eqb_spec n0 n) as [->|Hne].
      * exists h, []. split; [reflexivity|]. split; intros x [].
      * apply KEEP; [intros [E|E]; inversion E; congruence|intros t E; discriminate].
    + destruct (bytes_eqb_spec n0 n) as [->|Hne].
      * destruct (view_after h n); simpl.
        -- destruct IH as [H|(h1 & h2 & -> & H)].
           ++ left. intros x Hx. apply in_app_or in Hx as [Hx|[<-|[]]]; [apply H; exact Hx|discriminate].
           ++ right. exists h1, (h2 ++ [Complete n t]). split; [rewrite <- app_assoc; reflexivity|].
              intros x Hx. apply in_app_or in Hx as [Hx|[<-|[]]]; [apply H; exact Hx|discriminate].
        -- destruct IH as (h1 & h2 & -> & U & C). exists h1, h2, [].
           split; [rewrite <- app_assoc; reflexivity|]. split; [exact U|]. split; [exact C|intros x []].
        -- destruct IH as (h1 & h2 & h3 & -> & U2 & C2 & U3). exists h1, h2, (h3 ++ [Complete n t]).
           split; [repeat (rewrite <- app_assoc; simpl); reflexivity|].
           split; [exact U2|]. split; [exact C2|].
           apply untouched_snoc; [exact U3|intros [E|E]; discriminate].
      * apply KEEP; [intros [E|E]; discriminate|intros t' E; inversion E; congruence].
    + apply KEEP; [intros [E|E]; discriminate|intros t' E; discriminate].
    + destruct (bytes_eqb_spec n0 n) as [->|Hne].
      * right. exists h, []. split; [reflexivity|intros x []].
      * apply KEEP; [intros [E|E]; inversion E; congruence|intros t E; discriminate].
    + apply KEEP; [intros [E|E]; discriminate|intros t' E; discriminate].
Qed.

Lemma view_done_iff_proof : forall h n t, view_after h n = Done t <-> first_completed h n t.
Proof.
  intros h n t; split; [|apply done_if].
  intros E. pose proof (view_cases h n) as H. rewrite E in H. exact H.
Qed.
Lemma view_open_iff_proof : forall h n, view_after h n = Open <-> still_open h n.
Proof.
  intros h n; split; [|apply open_if].
  intros E. pose proof (view_cases h n) as H. rewrite E in H. exact H.
Qed.
Lemma view_noslot_iff_proof : forall h n, view_after h n = NoSlot <-> never_or_cleared h n.
Proof.
  intros h n; split; [|apply noslot_if].
  intros E. pose proof (view_cases h n) as H. rewrite E in H. exact H.
Qed.

Lemma fail_fast_rel_proof : forall h w n,
  is_waiting ((run h).(waiters) w) = false -> never_or_cleared h n ->
  (run (h ++ [AwaitBegin w n])).(waiters) w = Failed.
Proof. intros h w n NW H. apply fail_fast_proof; [exact NW|apply view_noslot_iff_proof; exact H]. Qed.

(* ====================================================================== *)
(* builder                                                                *)
(* ====================================================================== *)
Lemma brun_app nm l1 l2 : brun nm (l1 ++ l2) = fold_left bstep l2 (brun nm l1).
Proof. unfold brun. apply fold_left_app. Qed.

Lemma is_nil_false {A} (l : list A) : l <> [] -> is_nil l = false.
Proof. destruct l; [congruence|reflexivity]. Qed.

Lemma count_app {A} (p : A -> bool) l1 l2 : count p (l1 ++ l2) = count p l1 + count p l2.
Proof. unfold count. rewrite filter_app, app_length. lia. Qed.

(* once the trace has been handed over (name = ""), nothing is delivered any more *)
Lemma dead_fold l : forall b, b.(b_trace).(t_name) = [] ->
  (fold_left bstep l b).(b_calls) = b.(b_calls).
Proof.
  induction l as [|a l IH]; intros b H; [reflexivity|]. simpl.
  destruct a; simpl.
  - rewrite H. simpl. apply IH, H.
  - rewrite IH by reflexivity. simpl. unfold deliver. rewrite H. reflexivity.
Qed.

Definition nonterminal (l : list bact) : Prop := forallb (fun a => negb (terminal a)) l = true.

(* before the first terminal action: events are the numbered adds, nothing delivered *)
Lemma live_fold l : forall b before,
  b.(b_trace).(t_name) <> [] ->
  b.(b_req) = count is_req_data before -> b.(b_resp) = count is_resp_data before ->
  nonterminal l ->
  let b' := fold_left bstep l b in
  b'.(b_trace).(t_name) = b.(b_trace).(t_name) /\
  b'.(b_trace).(t_events) = b.(b_trace).(t_events) ++ numbered before (adds l) /\
  b'.(b_req) = count is_req_data (before ++ adds l) /\
  b'.(b_resp) = count is_resp_data (before ++ adds l) /\
  b'.(b_calls) = b.(b_calls).
Proof.
  induction l as [|a l IH]; intros b before NM RQ RS NT; simpl.
  - rewrite app_nil_r, app_nil_r. auto.
  - unfold nonterminal in NT. simpl in NT. apply andb_true_iff in NT as [Ta NT].
    destruct a as [e|]; [|discriminate]. simpl in Ta. apply negb_true_iff in Ta.
    assert (STEP : exists t', bstep b (Add e) =
              mkB t' (count is_req_data (before ++ [e])) (count is_resp_data (before ++ [e])) b.(b_calls)
              /\ t_name t' = t_name (b_trace b)
              /\ t_events t' = t_events (b_trace b) ++ [recorded before e]).
    { simpl. rewrite (is_nil_false _ NM). rewrite Ta. eexists. split.
      - f_equal; try reflexivity; rewrite count_app, ?RQ, ?RS; unfold count; destruct e; simpl; lia.
      - split; [reflexivity|]. simpl. rewrite RQ, RS. destruct e; reflexivity. }
    destruct STEP as (t' & -> & N' & E').
    specialize (IH (mkB t' (count is_req_data (before ++ [e])) (count is_resp_data (before ++ [e])) (b_calls b))
                   (before ++ [e])).
    simpl in IH. destruct IH as (I1 & I2 & I3 & I4 & I5); [congruence|reflexivity|reflexivity|exact NT|].
    rewrite I1, I2, I3, I4, I5, N', E'. repeat rewrite <- app_assoc. simpl. auto.
Qed.

Lemma recorded_last_req before e :
  recorded before e = match e with
                      | EReqData => TReqData (count is_req_data before)
                      | ERespData => TRespData (count is_resp_data before)
                      | _ => recorded [] e end.
Proof. destruct e; reflexivity. Qed.

(* any list either has no terminal action or splits at the first one *)
Lemma split_terminal l :
  (nonterminal l /\ existsb terminal l = false /\ cut l = l) \/
  (exists l1 a l2, l = l1 ++ a :: l2 /\ nonterminal l1 /\ terminal a = true /\
                   cut l = l1 ++ [a] /\ existsb terminal l = true).
Proof.
  induction l as [|a l IH]; [left; repeat split|].
  destruct (terminal a) eqn:T.
  - right. exists [], a, l. simpl. rewrite T. repeat split; auto.
  - destruct IH as [(N & E & C)|(l1 & x & l2 & -> & N & Tx & C & E)].
    + left. unfold nonterminal in *. simpl. rewrite T, C, E. repeat split; auto.
    + right. exists (a :: l1), x, l2. unfold nonterminal in *. simpl. rewrite T, C, E. simpl. repeat split; auto.
Qed.

Lemma numbered_app before l1 l2 :
  numbered before (l1 ++ l2) = numbered before l1 ++ numbered (before ++ l1) l2.
Proof.
  revert before; induction l1 as [|e l1 IH]; intros before; simpl.
  - rewrite app_nil_r. reflexivity.
  - rewrite IH, <- app_assoc. reflexivity.
Qed.

Lemma adds_app l1 l2 : adds (l1 ++ l2) = adds l1 ++ adds l2.
Proof. unfold adds. apply flat_map_app. Qed.

(* the one delivery, when there is one *)
Lemma delivered nm l : nm <> [] -> existsb terminal l = true ->
  exists t, (brun nm l).(b_calls) = [t] /\ t.(t_name) = nm /\
            t.(t_events) = TReqStart :: numbered [] (adds (cut l)).
Proof.
  intros NM EX. destruct (split_terminal l) as [(_ & E & _)|(l1 & a & l2 & -> & N & Ta & C & _)]; [congruence|].
  rewrite C. rewrite brun_app. simpl fold_left.
  pose proof (live_fold l1 (new_builder nm) [] NM eq_refl eq_refl N) as (I1 & I2 & I3 & I4 & I5).
  fold (brun nm l1) in *. simpl in I1, I2, I3, I4, I5.
  destruct a as [e|].
  - simpl in Ta. rewrite dead_fold.
    + simpl. rewrite I1, (is_nil_false _ NM), Ta. simpl. unfold deliver. simpl.
      rewrite (is_nil_false _ NM), I5. simpl. eexists. split; [reflexivity|]. simpl.
      split; [reflexivity|]. rewrite I2, adds_app, numbered_app. simpl.
      rewrite I3, I4. destruct e; reflexivity.
    + simpl. rewrite I1, (is_nil_false _ NM), Ta. reflexivity.
  - rewrite dead_fold by reflexivity. simpl. unfold deliver. rewrite I1, (is_nil_false _ NM), I5.
    simpl. eexists. split; [reflexivity|]. split; [exact I1|].
    rewrite I2, adds_app. simpl. rewrite app_nil_r. reflexivity.
Qed.

Lemma not_delivered nm l : nm = [] \/ existsb terminal l = false -> (brun nm l).(b_calls) = [].
Proof.
  intros [->|E].
  - unfold brun. rewrite dead_fold; reflexivity.
  - destruct nm as [|c nm]; [unfold brun; rewrite dead_fold; reflexivity|].
    destruct (split_terminal l) as [(N & _ & _)|(l1 & a & l2 & _ & _ & _ & _ & E')]; [|congruence].
    pose proof (live_fold l (new_builder (c :: nm)) [] ltac:(discriminate) eq_refl eq_refl N) as (_ & _ & _ & _ & I5).
    exact I5.
Qed.

Lemma once_per_op_proof : forall nm l,
  (length (brun nm l).(b_calls) <= 1)%nat /\
  (length (brun nm l).(b_calls) = 1%nat <-> nm <> [] /\ existsb terminal l = true).
Proof.
  intros nm l. destruct nm as [|c nm].
  - rewrite not_delivered by (left; reflexivity). simpl. split; [lia|]. split; [discriminate|intros [H _]; congruence].
  - destruct (existsb terminal l) eqn:E.
    + destruct (delivered (c :: nm) l ltac:(discriminate) E) as (t & -> & _). simpl.
      split; [lia|]. split; [intros _; split; [discriminate|reflexivity]|reflexivity].
    + rewrite not_delivered by (right; exact E). simpl. split; [lia|].
      split; [discriminate|intros [_ H]; discriminate].
Qed.

Lemma cut_terminal l : existsb terminal (cut l) = existsb terminal l.
Proof.
  induction l as [|a l IH]; [reflexivity|]. simpl. destruct (terminal a) eqn:T; simpl; rewrite T; [reflexivity|exact IH].
Qed.
Lemma cut_cut l : cut (cut l) = cut l.
Proof.
  induction l as [|a l IH]; [reflexivity|]. simpl. destruct (terminal a) eqn:T; simpl; rewrite T; [reflexivity|].
  rewrite IH. reflexivity.
Qed.

(* what is delivered is decided by the actions up to the first terminal one;
   nothing after it changes the delivered trace *)
Lemma frozen_proof : forall nm l,
  (brun nm l).(b_calls) = (brun nm (cut l)).(b_calls) /\
  (forall t, In t (brun nm l).(b_calls) ->
     t.(t_name) = nm /\ t.(t_events) = TReqStart :: numbered [] (adds (cut l))).
Proof.
  intros nm l. destruct nm as [|c nm].
  - rewrite !not_delivered by (left; reflexivity). split; [reflexivity|intros t []].
  - destruct (existsb terminal l) eqn:E.
    + destruct (delivered (c :: nm) l ltac:(discriminate) E) as (t & C1 & N1 & E1).
      pose proof E as E'. rewrite <- cut_terminal in E'.
      destruct (delivered (c :: nm) (cut l) ltac:(discriminate) E') as (t' & C2 & N2 & E2).
      rewrite cut_cut in E2.
      (* both deliveries are the same record: same run up to the cut *)
      assert (brun (c :: nm) l = fold_left bstep (skipn (length (cut l)) l) (brun (c :: nm) (cut l)) ).
      { rewrite <- brun_app. f_equal.
        clear. induction l as [|a l IH]; [reflexivity|]. simpl. destruct (terminal a); simpl; [reflexivity|].
        f_equal. exact IH. }
      split.
      * rewrite H. rewrite dead_fold; [reflexivity|].
        destruct (split_terminal l) as [(_ & X & _)|(l1 & a & l2 & -> & N & Ta & C & _)]; [congruence|].
        rewrite C, brun_app. simpl.
        pose proof (live_fold l1 (new_builder (c :: nm)) [] ltac:(discriminate) eq_refl eq_refl N) as (I1 & _).
        fold (brun (c :: nm) l1) in I1. simpl in I1.
        destruct a as [e|]; simpl in *; [|reflexivity].
        rewrite I1. simpl. rewrite Ta. reflexivity.
      * rewrite C1. intros x [<-|[]]. auto.
    + rewrite !not_delivered by (right; rewrite ?cut_terminal; exact E). split; [reflexivity|intros t []].
Qed.

(* data events are numbered 0,1,2,... per direction *)
Lemma req_indices_numbered evs : forall before,
  req_indices (numbered before evs) =
  map N.of_nat (seq (length (filter is_req_data before)) (length (filter is_req_data evs))).
Proof.
  induction evs as [|e evs IH]; intros before; [reflexivity|].
  simpl. rewrite IH. rewrite filter_app, app_length.
  destruct e; simpl; rewrite ?Nat.add_0_r; try reflexivity.
  unfold count. rewrite Nat.add_1_r. reflexivity.
Qed.

Lemma resp_indices_numbered evs : forall before,
  resp_indices (numbered before evs) =
  map N.of_nat (seq (length (filter is_resp_data before)) (length (filter is_resp_data evs))).
Proof.
  induction evs as [|e evs IH]; intros before; [reflexivity|].
  simpl. rewrite IH. rewrite filter_app, app_length.
  destruct e; simpl; rewrite ?Nat.add_0_r; try reflexivity.
  unfold count. rewrite Nat.add_1_r. reflexivity.
Qed.

Lemma indices_proof : forall nm l t, In t (brun nm l).(b_calls) ->
  req_indices t.(t_events) = upto (length (req_indices t.(t_events))) /\
  resp_indices t.(t_events) = upto (length (resp_indices t.(t_events))).
Proof.
  intros nm l t H. destruct (frozen_proof nm l) as (_ & F). destruct (F t H) as (_ & ->).
  unfold upto. simpl. rewrite req_indices_numbered, resp_indices_numbered.
  rewrite !map_length, !seq_length. simpl. auto.
Qed.
