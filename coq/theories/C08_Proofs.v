(* C08_Proofs.v — the trie matcher equals the glob relation; filter algebra;
   unmatched-pattern detection; flag collection. *)
From Coq Require Import Lia.
From V Require Import C08_Spec.

(* ---------- the permissive form of glob used inside the proofs ---------- *)
Inductive globp : list comp -> list comp -> Prop :=
| gp_nil : globp [] []
| gp_lit c p n : globp p n -> globp (c :: p) (c :: n)
| gp_star p c n : globp p n -> globp (star :: p) (c :: n)
| gp_dstar0 p n : globp p n -> globp (dstar :: p) n
| gp_dstar1 p c n : globp (dstar :: p) n -> globp (dstar :: p) (c :: n).

Lemma star_neq : star <> dstar. Proof. discriminate. Qed.

Lemma comp_dec (a b : comp) : {a = b} + {a <> b}.
Proof. destruct (bytes_eqb_spec a b); [left|right]; assumption. Qed.

Lemma globp_glob p n : globp p n <-> glob p n.
Proof.
  split.
  - induction 1 as [|c p n H IH|p c n H IH|p n H IH|p c n H IH].
    + constructor.
    + destruct (comp_dec c star) as [->|Hs]; [apply g_star; exact IH|].
      destruct (comp_dec c dstar) as [->|Hd]; [apply g_dstar1, g_dstar0; exact IH|].
      apply g_lit; assumption.
    + apply g_star; exact IH.
    + apply g_dstar0; exact IH.
    + apply g_dstar1; exact IH.
  - induction 1; [constructor|apply gp_lit|apply gp_star|apply gp_dstar0|apply gp_dstar1]; assumption.
Qed.

(* ---------- unfolding the nested fixpoints ---------- *)
Definition child_match (ch : list (comp * trie)) (k : comp) (cs : list comp) : option (list comp) :=
  match lookup ch k with Some c => option_map (cons k) (tmatch c cs) | None => None end.

Fixpoint suffix_first (m : list comp -> option (list comp)) (l : list comp) : option (list comp) :=
  match m l with
  | Some p => Some p
  | None => match l with [] => None | _ :: l' => suffix_first m l' end
  end.

Lemma tmatch_unfold present ch cs :
  tmatch (Node present ch) cs =
  match cs with
  | [] => if present then Some [] else child_match ch dstar []
  | first :: rest =>
    match child_match ch first rest with
    | Some p => Some p
    | None =>
      match child_match ch star rest with
      | Some p => Some p
      | None =>
        match lookup ch dstar with
        | None => None
        | Some c => option_map (cons dstar) (suffix_first (tmatch c) cs)
        end
      end
    end
  end.
Proof.
  unfold child_match.
  assert (H : forall l k,
    (fix find (l : list (comp * trie)) (k : comp) : option (list comp -> option (list comp)) :=
      match l with
      | [] => None
      | (k', c) :: l' => if bytes_eqb k k' then Some (tmatch c) else find l' k
      end) l k = option_map tmatch (lookup l k)).
  { induction l as [|[k' c] l IH]; intros k; simpl; [reflexivity|].
    destruct (bytes_eqb k k'); [reflexivity|apply IH]. }
  assert (Lp : forall (m : list comp -> option (list comp)) l,
    (fix loop (l : list comp) : option (list comp) :=
       match m l with
       | Some p => Some p
       | None => match l with [] => None | _ :: l' => loop l' end
       end) l = suffix_first m l).
  { intros m l; induction l as [|x l IHl]; cbn [suffix_first]; [reflexivity|rewrite IHl; reflexivity]. }
  destruct cs as [|first rest]; cbn [tmatch]; rewrite !H.
  - destruct present; [reflexivity|]. destruct (lookup ch dstar); reflexivity.
  - destruct (lookup ch first) as [c1|]; cbn [option_map].
    + destruct (tmatch c1 rest); cbn [option_map]; [reflexivity|].
      destruct (lookup ch star) as [c2|]; cbn [option_map].
      * destruct (tmatch c2 rest); cbn [option_map]; [reflexivity|].
        destruct (lookup ch dstar); cbn [option_map]; rewrite ?Lp; reflexivity.
      * destruct (lookup ch dstar); cbn [option_map]; rewrite ?Lp; reflexivity.
    + destruct (lookup ch star) as [c2|]; cbn [option_map].
      * destruct (tmatch c2 rest); cbn [option_map]; [reflexivity|].
        destruct (lookup ch dstar); cbn [option_map]; rewrite ?Lp; reflexivity.
      * destruct (lookup ch dstar); cbn [option_map]; rewrite ?Lp; reflexivity.
Qed.

Fixpoint upd (c : comp) (f : trie -> trie) (l : list (comp * trie)) : list (comp * trie) :=
  match l with
  | [] => [(c, f empty_trie)]
  | (k, t') :: l' => if bytes_eqb c k then (k, f t') :: l' else (k, t') :: upd c f l'
  end.

Lemma add_unfold c rest p ch : add (c :: rest) (Node p ch) = Node p (upd c (add rest) ch).
Proof.
  cbn [add]. f_equal. induction ch as [|[k t'] l IH]; cbn [upd]; [reflexivity|].
  destruct (bytes_eqb c k); [reflexivity|]. f_equal. exact IH.
Qed.

Lemma add_nil p ch : add [] (Node p ch) = Node true ch.
Proof. reflexivity. Qed.

(* ---------- patterns stored in a trie ---------- *)
Inductive stored : trie -> list comp -> Prop :=
| st_here ch : stored (Node true ch) []
| st_child b ch k c p : lookup ch k = Some c -> stored c p -> stored (Node b ch) (k :: p).

Lemma trie_ind' (P : trie -> Prop) :
  (forall b ch, Forall (fun kc => P (snd kc)) ch -> P (Node b ch)) -> forall t, P t.
Proof.
  intros H. fix IH 1. intros [b ch]. apply H.
  induction ch as [|[k c] ch IHch]; constructor; [apply IH|apply IHch].
Qed.

Lemma lookup_In ch k c : lookup ch k = Some c -> exists k', In (k', c) ch.
Proof.
  induction ch as [|[k' c'] ch IH]; simpl; [discriminate|].
  destruct (bytes_eqb k k'); intros E.
  - inversion E; subst. exists k'; left; reflexivity.
  - destruct (IH E) as [k'' ?]. exists k''; right; assumption.
Qed.

Lemma lookup_upd c f ch k :
  lookup (upd c f ch) k =
  if bytes_eqb k c then Some (f (match lookup ch c with Some t => t | None => empty_trie end))
  else lookup ch k.
Proof.
  induction ch as [|[k' t'] ch IH]; cbn [upd lookup].
  - destruct (bytes_eqb k c); reflexivity.
  - destruct (bytes_eqb_spec c k') as [->|Hne]; cbn [lookup].
    + destruct (bytes_eqb k k'); reflexivity.
    + destruct (bytes_eqb_spec k k') as [->|Hne2].
      * destruct (bytes_eqb_spec k' c) as [->|_]; [congruence|reflexivity].
      * exact IH.
Qed.

Lemma stored_empty p : ~ stored empty_trie p.
Proof. unfold empty_trie. intros H; inversion H; subst. discriminate. Qed.

Lemma stored_add cs : forall t p, stored (add cs t) p <-> p = cs \/ stored t p.
Proof.
  induction cs as [|c rest IH]; intros [b ch] p.
  - rewrite add_nil. split.
    + intros H; inversion H; subst; [left; reflexivity|right; econstructor; eassumption].
    + intros [->|H]; [constructor|]. inversion H; subst; [constructor|econstructor; eassumption].
  - rewrite add_unfold. split.
    + intros H. inversion H as [|b' ch' k c' q Lk Hs]; subst.
      * right; constructor.
      * rewrite lookup_upd in Lk. destruct (bytes_eqb_spec k c) as [->|Hne].
        -- inversion Lk; subst; clear Lk. apply IH in Hs as [->|Hs]; [left; reflexivity|].
           right. destruct (lookup ch c) as [t0|] eqn:E.
           ++ econstructor; eassumption.
           ++ exfalso; eapply stored_empty; eassumption.
        -- right; econstructor; eassumption.
    + intros [->|H].
      * econstructor; [rewrite lookup_upd, bytes_eqb_refl; reflexivity|].
        apply IH; left; reflexivity.
      * inversion H as [|b' ch' k c' q Lk Hs]; subst; [constructor|].
        destruct (bytes_eqb_spec k c) as [->|Hne].
        -- econstructor; [rewrite lookup_upd, bytes_eqb_refl; reflexivity|].
           rewrite Lk. apply IH; right; exact Hs.
        -- econstructor; [|exact Hs]. rewrite lookup_upd.
           destruct (bytes_eqb_spec k c); [congruence|exact Lk].
Qed.

Lemma stored_fold ps : forall t p,
  stored (fold_left add_pattern ps t) p <-> In p (map split_name ps) \/ stored t p.
Proof.
  induction ps as [|q ps IH]; intros t p; cbn [fold_left map In]; [tauto|].
  rewrite IH. unfold add_pattern. rewrite stored_add. intuition.
Qed.

Lemma stored_build ps p : stored (build ps) p <-> In p (map split_name ps).
Proof.
  unfold build. rewrite stored_fold. split; [intros [H|H]; [exact H|]|tauto].
  exfalso; eapply stored_empty; eassumption.
Qed.

(* stored_list enumerates exactly the stored patterns reachable by first-match lookup,
   plus possibly shadowed duplicates; for `unmatched` we only need one direction each. *)
Lemma stored_list_unfold b ch :
  stored_list (Node b ch) =
  (if b then [[]] else []) ++ flat_map (fun kc => map (cons (fst kc)) (stored_list (snd kc))) ch.
Proof.
  cbn [stored_list]. f_equal.
  induction ch as [|[k c] ch IH]; [reflexivity|]. cbn [flat_map fst snd]. rewrite <- IH. reflexivity.
Qed.

Lemma lookup_In_key ch k c : lookup ch k = Some c -> In (k, c) ch.
Proof.
  induction ch as [|[k' c'] ch IH]; simpl; [discriminate|].
  destruct (bytes_eqb_spec k k') as [->|Hne]; intros E.
  - inversion E; subst. left; reflexivity.
  - right; apply IH; exact E.
Qed.

Lemma stored_in_list : forall t p, stored t p -> In p (stored_list t).
Proof.
  induction t as [b ch IH] using trie_ind'. intros p H. rewrite stored_list_unfold.
  inversion H as [|b' ch' k c q Lk Hs]; subst.
  - left; reflexivity.
  - apply in_or_app; right. apply in_flat_map. exists (k, c). split.
    + apply lookup_In_key; exact Lk.
    + cbn [fst snd]. apply in_map. rewrite Forall_forall in IH.
      apply (IH (k, c)); [apply lookup_In_key; exact Lk|exact Hs].
Qed.

(* ---------- suffix_first ---------- *)
Lemma suffix_first_some m l p :
  suffix_first m l = Some p -> exists l1 l2, l = l1 ++ l2 /\ m l2 = Some p.
Proof.
  induction l as [|x l IH]; cbn [suffix_first].
  - destruct (m []) eqn:E; [|discriminate]. intros H; inversion H; subst. exists [], []; auto.
  - destruct (m (x :: l)) eqn:E.
    + intros H; inversion H; subst. exists [], (x :: l); auto.
    + intros H. destruct (IH H) as (l1 & l2 & -> & Hm). exists (x :: l1), l2; auto.
Qed.

Lemma suffix_first_none m l l1 l2 : suffix_first m l = None -> l = l1 ++ l2 -> m l2 = None.
Proof.
  revert l1; induction l as [|x l IH]; intros l1; cbn [suffix_first].
  - destruct (m []) eqn:E; [discriminate|]. intros _ H. symmetry in H.
    apply app_eq_nil in H as [-> ->]. exact E.
  - destruct (m (x :: l)) eqn:E; [discriminate|]. intros H Hl.
    destruct l1 as [|y l1]; simpl in Hl.
    + subst; exact E.
    + inversion Hl; subst. eapply IH; eauto.
Qed.

Lemma globp_dstar_skip p l1 l2 : globp (dstar :: p) l2 -> globp (dstar :: p) (l1 ++ l2).
Proof. induction l1; simpl; intros; [assumption|apply gp_dstar1; auto]. Qed.

(* ---------- soundness: the returned path is a stored pattern that globs the name ---------- *)
Theorem tmatch_sound : forall t cs p, tmatch t cs = Some p -> stored t p /\ globp p cs.
Proof.
  induction t as [b ch IH] using trie_ind'. intros cs p. rewrite tmatch_unfold.
  assert (CH : forall k c, lookup ch k = Some c -> forall cs' q, tmatch c cs' = Some q -> stored c q /\ globp q cs').
  { intros k c Lk. rewrite Forall_forall in IH.
    destruct (lookup_In _ _ _ Lk) as [k' HI]. apply (IH _ HI). }
  assert (CM : forall k cs' q, child_match ch k cs' = Some q ->
             exists c q', lookup ch k = Some c /\ q = k :: q' /\ stored c q' /\ globp q' cs').
  { intros k cs' q. unfold child_match. destruct (lookup ch k) as [c|] eqn:Lk; [|discriminate].
    destruct (tmatch c cs') as [q'|] eqn:E; [|discriminate]. cbn. intros H; inversion H; subst.
    destruct (CH _ _ Lk _ _ E). exists c, q'; auto. }
  destruct cs as [|first rest].
  - destruct b.
    + intros H; inversion H; subst. split; constructor.
    + intros H. destruct (CM _ _ _ H) as (c & q' & Lk & -> & Hs & Hg).
      split; [econstructor; eauto|apply gp_dstar0; exact Hg].
  - destruct (child_match ch first rest) as [q|] eqn:E1.
    { intros H; inversion H; subst. destruct (CM _ _ _ E1) as (c & q' & Lk & -> & Hs & Hg).
      split; [econstructor; eauto|apply gp_lit; exact Hg]. }
    destruct (child_match ch star rest) as [q|] eqn:E2.
    { intros H; inversion H; subst. destruct (CM _ _ _ E2) as (c & q' & Lk & -> & Hs & Hg).
      split; [econstructor; eauto|apply gp_star; exact Hg]. }
    destruct (lookup ch dstar) as [c|] eqn:Lk; [|discriminate].
    destruct (suffix_first (tmatch c) (first :: rest)) as [q|] eqn:E3; [|discriminate].
    cbn. intros H; inversion H; subst.
    apply suffix_first_some in E3 as (l1 & l2 & E & Hm).
    destruct (CH _ _ Lk _ _ Hm) as [Hs Hg].
    split; [econstructor; eauto|]. rewrite E. apply globp_dstar_skip, gp_dstar0, Hg.
Qed.

Lemma globp_dstar_inv p cs : globp (dstar :: p) cs -> exists l1 l2, cs = l1 ++ l2 /\ globp p l2.
Proof.
  remember (dstar :: p) as q eqn:Eq. intros H; revert p Eq.
  induction H as [|c p' n Hg IH|p' c n Hg IH|p' n Hg IH|p' c n Hg IH]; intros p0 Eq; try discriminate.
  - inversion Eq; subst. exists [dstar], n; split; [reflexivity|exact Hg].
  - inversion Eq; subst. exists [], n; split; [reflexivity|exact Hg].
  - inversion Eq; subst. destruct (IH _ eq_refl) as (l1 & l2 & -> & G).
    exists (c :: l1), l2; split; [reflexivity|exact G].
Qed.

(* ---------- completeness: any stored pattern that globs the name makes tmatch succeed ---------- *)
Theorem tmatch_complete : forall p t cs, stored t p -> globp p cs -> tmatch t cs <> None.
Proof.
  induction p as [|k p IH]; intros t cs Hs Hg.
  - inversion Hg; subst. inversion Hs; subst. rewrite tmatch_unfold. discriminate.
  - inversion Hs as [|b ch k' c' p' Lk Hs']; subst. rewrite tmatch_unfold.
    destruct (comp_dec k dstar) as [->|Hnd].
    + destruct (globp_dstar_inv _ _ Hg) as (l1 & l2 & -> & G).
      pose proof (IH _ _ Hs' G) as M.
      destruct (l1 ++ l2) as [|x l] eqn:E.
      * apply app_eq_nil in E as [-> ->]. destruct b; [discriminate|].
        unfold child_match. rewrite Lk. destruct (tmatch c' []); [discriminate|congruence].
      * destruct (child_match ch x l); [discriminate|].
        destruct (child_match ch star l); [discriminate|].
        rewrite Lk. rewrite <- E.
        destruct (suffix_first (tmatch c') (l1 ++ l2)) eqn:SF; [discriminate|].
        exfalso. apply M. eapply suffix_first_none; [exact SF|reflexivity].
    + inversion Hg as [|c q n G|q c n G|q n G|q c n G]; subst; try (exfalso; apply Hnd; reflexivity).
      * pose proof (IH _ _ Hs' G) as M. unfold child_match at 1. rewrite Lk.
        destruct (tmatch c' n); [discriminate|congruence].
      * pose proof (IH _ _ Hs' G) as M. destruct (child_match ch c n); [discriminate|].
        unfold child_match. rewrite Lk. destruct (tmatch c' n); [discriminate|congruence].
Qed.

Theorem tmatch_iff t cs : tmatch t cs <> None <-> exists p, stored t p /\ glob p cs.
Proof.
  split.
  - destruct (tmatch t cs) as [p|] eqn:E; [|congruence]. intros _.
    destruct (tmatch_sound _ _ _ E) as [Hs Hg]. exists p; split; [exact Hs|apply globp_glob; exact Hg].
  - intros (p & Hs & Hg). eapply tmatch_complete; [exact Hs|apply globp_glob; exact Hg].
Qed.

Lemma match_pattern_true t name : match_pattern t name = true <-> tmatch t (split_name name) <> None.
Proof. unfold match_pattern. destruct (tmatch t (split_name name)); split; congruence. Qed.

Theorem trie_match_iff_proof ps name : match_pattern (build ps) name = true <-> some_glob ps name.
Proof.
  rewrite match_pattern_true, tmatch_iff. unfold some_glob, globs. split.
  - intros (p & Hs & Hg). apply stored_build, in_map_iff in Hs as (q & <- & Hq). exists q; auto.
  - intros (q & Hq & Hg). exists (split_name q). split; [|exact Hg].
    apply stored_build, in_map; exact Hq.
Qed.

(* ---------- filter ---------- *)
Theorem accept_iff_proof run skip name :
  accept run skip name = true <-> (run = [] \/ some_glob run name) /\ ~ some_glob skip name.
Proof.
  unfold accept. rewrite andb_true_iff.
  assert (AI : forall A B C D : Prop, (A <-> C) -> (B <-> D) -> (A /\ B <-> C /\ D)) by tauto.
  apply AI.
  - destruct run as [|r run']; [split; auto|]. rewrite trie_match_iff_proof.
    split; [auto|intros [H|H]; [discriminate|exact H]].
  - destruct skip as [|s skip'].
    + split; [intros _ (p & [] & _)|reflexivity].
    + rewrite negb_true_iff, <- not_true_iff_false, trie_match_iff_proof. reflexivity.
Qed.

(* ---------- unmatched patterns ---------- *)
Lemma hits_sound t names p : In p (hits t names) -> exists n, In n names /\ globp p (split_name n).
Proof.
  unfold hits. rewrite in_flat_map. intros (n & Hn & Hp).
  destruct (tmatch t (split_name n)) as [q|] eqn:E; [|destruct Hp].
  destruct Hp as [<-|[]]. exists n; split; [exact Hn|]. apply (tmatch_sound _ _ _ E).
Qed.

Theorem unmatched_sound_proof ps names p :
  In p ps -> (forall n, In n names -> ~ globs p n) ->
  In (path_str (split_name p)) (unmatched (build ps) names).
Proof.
  intros Hp Hno. unfold unmatched. apply sort_bytes_in, dedup_in, in_map, filter_In. split.
  - apply stored_in_list, stored_build, in_map; exact Hp.
  - rewrite negb_true_iff, <- not_true_iff_false, existsb_exists.
    intros (h & Hh & E). apply lbytes_eqb_eq in E; subst h.
    destruct (hits_sound _ _ _ Hh) as (n & Hn & Hg).
    apply (Hno n Hn). apply globp_glob; exact Hg.
Qed.

Lemma has_unmatched_true ps names :
  (exists p, In p ps /\ forall n, In n names -> ~ globs p n) -> has_unmatched ps names = true.
Proof.
  intros (p & Hp & Hno). unfold has_unmatched.
  pose proof (unmatched_sound_proof ps names p Hp Hno) as H.
  destruct (unmatched (build ps) names); [destruct H|reflexivity].
Qed.

Lemma trie_length_pos ps : ps <> [] -> (0 <? trie_length (build ps))%nat = true.
Proof.
  intros NE. destruct ps as [|p ps]; [congruence|].
  assert (H : In (split_name p) (stored_list (build (p :: ps)))).
  { apply stored_in_list, stored_build. left; reflexivity. }
  unfold trie_length. destruct (stored_list (build (p :: ps))); [destruct H|reflexivity].
Qed.

(* run() rejects a run in which some supplied pattern matches no permutation *)
Theorem unmatched_rejected_proof failing flaky run skip names :
  (exists p, In p (failing ++ flaky ++ run ++ skip) /\ forall n, In n names -> ~ globs p n) ->
  run_checks failing flaky run skip names <> None.
Proof.
  intros (p & Hp & Hno). unfold run_checks.
  destruct ((0 <? trie_length (build failing))%nat && has_unmatched failing names) eqn:E1; [discriminate|].
  destruct ((0 <? trie_length (build flaky))%nat && has_unmatched flaky names) eqn:E2; [discriminate|].
  destruct (match run with [] => false | _ => has_unmatched run names end) eqn:E3; [discriminate|].
  destruct (match skip with [] => false | _ => has_unmatched skip names end) eqn:E4; [discriminate|].
  exfalso. rewrite !in_app_iff in Hp. destruct Hp as [Hp|[Hp|[Hp|Hp]]].
  - rewrite trie_length_pos in E1 by (intros ->; destruct Hp).
    rewrite has_unmatched_true in E1 by (exists p; auto). discriminate.
  - rewrite trie_length_pos in E2 by (intros ->; destruct Hp).
    rewrite has_unmatched_true in E2 by (exists p; auto). discriminate.
  - destruct run; [destruct Hp|]. rewrite has_unmatched_true in E3 by (exists p; auto). discriminate.
  - destruct skip; [destruct Hp|]. rewrite has_unmatched_true in E4 by (exists p; auto). discriminate.
Qed.

(* a name matched as both known-failing and known-flaky is rejected *)
Theorem conflict_rejected_proof failing flaky run skip names :
  (exists n, In n names /\ some_glob failing n /\ some_glob flaky n) ->
  run_checks failing flaky run skip names <> None.
Proof.
  intros (n & Hn & Hf & Hk). unfold run_checks.
  destruct ((0 <? trie_length (build failing))%nat && has_unmatched failing names); [discriminate|].
  destruct ((0 <? trie_length (build flaky))%nat && has_unmatched flaky names); [discriminate|].
  destruct (match run with [] => false | _ => has_unmatched run names end); [discriminate|].
  destruct (match skip with [] => false | _ => has_unmatched skip names end); [discriminate|].
  assert (NF : failing <> []) by (destruct Hf as (p & Hp & _); intros ->; destruct Hp).
  assert (NK : flaky <> []) by (destruct Hk as (p & Hp & _); intros ->; destruct Hp).
  rewrite !trie_length_pos by assumption. cbn [andb].
  assert (HC : In n (conflicts failing flaky names)).
  { unfold conflicts. apply filter_In. split; [exact Hn|].
    apply andb_true_iff; split; apply trie_match_iff_proof; assumption. }
  destruct (conflicts failing flaky names); [destruct HC|discriminate].
Qed.

(* and conversely an accepted run has neither defect it could have detected by first hits:
   every accepted configuration is free of conflicts *)
Theorem accepted_no_conflict_proof failing flaky run skip names :
  run_checks failing flaky run skip names = None ->
  forall n, In n names -> ~ (some_glob failing n /\ some_glob flaky n).
Proof.
  intros H n Hn [Hf Hk]. eapply conflict_rejected_proof; [|exact H]. exists n; auto.
Qed.

(* ---------- the validation block works on ALL permutations, the marked gRPC-peer names included ---------- *)
Lemma base_names_in suites su proto cs c :
  In (su, proto, cs) suites -> In c cs -> In (base_name su c) (base_names suites).
Proof.
  intros Hs Hc. unfold base_names. apply in_flat_map. exists (su, proto, cs). split; [exact Hs|].
  cbn. apply in_map; exact Hc.
Qed.

Lemma marked_names_in suites su proto cs c cg sg :
  In (su, proto, cs) suites -> In c cs -> grpc_supported proto cg sg = true ->
  In (marked_name cg sg su c) (marked_names cg sg suites).
Proof.
  intros Hs Hc Hg. unfold marked_names. apply in_flat_map. exists (su, proto, cs). split; [exact Hs|].
  cbn. rewrite Hg. apply in_map; exact Hc.
Qed.

Theorem perm_names_complete_proof suites refc refs su proto cs c :
  In (su, proto, cs) suites -> In c cs ->
  In (base_name su c) (perm_names suites refc refs) /\
  (forall cg sg, (cg = true \/ sg = true) -> (cg = true -> refc = true) -> (sg = true -> refs = true) ->
     grpc_supported proto cg sg = true ->
     In (marked_name cg sg su c) (perm_names suites refc refs)).
Proof.
  intros Hs Hc. unfold perm_names. split.
  - apply in_or_app; left. eapply base_names_in; eauto.
  - intros cg sg Hor Hcg Hsg Hg.
    pose proof (marked_names_in suites su proto cs c cg sg Hs Hc Hg) as HM.
    destruct cg, sg.
    + rewrite (Hcg eq_refl), (Hsg eq_refl). cbn [andb].
      apply in_or_app; right. apply in_or_app; right. apply in_or_app; right. exact HM.
    + rewrite (Hcg eq_refl). apply in_or_app; right. apply in_or_app; left. exact HM.
    + rewrite (Hsg eq_refl). apply in_or_app; right. apply in_or_app; right. apply in_or_app; left. exact HM.
    + destruct Hor; discriminate.
Qed.

Theorem conflict_rejected_all_perms_proof failing flaky run skip suites refc refs :
  (exists n, In n (perm_names suites refc refs) /\ some_glob failing n /\ some_glob flaky n) ->
  run_checks_perms failing flaky run skip suites refc refs <> None.
Proof. unfold run_checks_perms. apply conflict_rejected_proof. Qed.

Theorem unmatched_rejected_all_perms_proof failing flaky run skip suites refc refs :
  (exists p, In p (failing ++ flaky ++ run ++ skip) /\
             forall n, In n (perm_names suites refc refs) -> ~ globs p n) ->
  run_checks_perms failing flaky run skip suites refc refs <> None.
Proof. unfold run_checks_perms. apply unmatched_rejected_proof. Qed.

(* ---------- flag and @file collection ---------- *)
Theorem collect_all_proof args : args_to_patterns args = concat (map expand_arg args).
Proof.
  unfold args_to_patterns.
  assert (H : forall acc, fold_left (fun acc a => acc ++ expand_arg a) args acc = acc ++ concat (map expand_arg args)).
  { induction args as [|a args IH]; intros acc; cbn [fold_left map concat].
    - rewrite app_nil_r; reflexivity.
    - rewrite IH, app_assoc; reflexivity. }
  apply (H []).
Qed.

Lemma trim_space_lin_eq s : trim_space_lin s = trim_space s.
Proof. unfold trim_space_lin, trim_space, trim_right. rewrite !rev_append_rev, !app_nil_r. reflexivity. Qed.

Theorem file_lines_proof data p :
  In p (parse_pattern_file data) <->
  exists line, In line (split_on 10 data) /\ p = trim_space line /\ p <> [] /\ hd 0 p <> 35.
Proof.
  unfold parse_pattern_file. rewrite (map_ext _ _ trim_space_lin_eq). rewrite filter_In, in_map_iff. split.
  - intros [(line & <- & Hl) Hf]. exists line. split; [exact Hl|]. split; [reflexivity|].
    destruct (trim_space line) as [|c r]; [discriminate|]. split; [discriminate|].
    cbn [hd]. rewrite negb_true_iff in Hf. apply N.eqb_neq; exact Hf.
  - intros (line & Hl & -> & NE & Hc). split; [exists line; auto|].
    destruct (trim_space line) as [|c r]; [congruence|]. cbn [hd] in Hc.
    rewrite negb_true_iff. apply N.eqb_neq; exact Hc.
Qed.
