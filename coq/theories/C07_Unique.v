(* C07_Unique.v — "its full name is unique", constructively.
   (1) On well-formed names the full name is an injective function of (suite, config case, test):
       suite names are single well-formed segments and pairwise distinct, test names are clean
       relative paths ("unary/success") and distinct within their suite, the config cases carry
       declared enum numbers.  No duplicate check of the library is used.
   (2) For ANY names: two different (suite, case, test) triples admitted by the directives whose
       full names coincide make newTestCaseLibrary fail — a collision is an error, never a merge.
   (3) The gRPC-peer variants: on well-formed names none of whose segments is a marker, all names
       handed out by allPermutations (unmarked, client-marked, server-marked, both-marked) are
       pairwise distinct. *)
From Coq Require Import Lia Permutation.
From V Require Import C07_Model C07_Spec C07_Proofs C07_Names C07_Join.
Open Scope N_scope.

(* ------------------------------------------------------------------ *)
(* well-formed names                                                    *)
(* ------------------------------------------------------------------ *)
Definition markers : list bytes := [c07_marker_both; c07_marker_client; c07_marker_server].
Definition is_markerb (w : bytes) : bool := mem_bytes w markers.

(* a segment of a well-formed name: non-empty, no "/", not "." or "..", not a gRPC marker *)
Definition name_seg (w : bytes) : Prop := good_seg w /\ ~ In w markers.
Definition name_segb (w : bytes) : bool := good_segb w && negb (is_markerb w).

Lemma name_segb_iff w : name_segb w = true <-> name_seg w.
Proof.
  unfold name_segb, name_seg, is_markerb. rewrite andb_true_iff, negb_true_iff, good_segb_iff.
  destruct (mem_bytes w markers) eqn:E.
  - apply mem_bytes_in in E. intuition congruence.
  - assert (~ In w markers) by (rewrite <- mem_bytes_in; congruence). tauto.
Qed.

Lemma name_seg_not_marker w : name_seg w -> is_markerb w = false.
Proof.
  intros (_ & H). unfold is_markerb. destruct (mem_bytes w markers) eqn:E; [|reflexivity].
  apply mem_bytes_in in E. contradiction.
Qed.

Definition wf_test (t : tcase) : Prop := Forall name_seg (split_on 47 (t_name t)).
Definition wf_suite (s : suite) : Prop :=
  name_seg (s_name s) /\ Forall wf_test (s_cases s) /\ NoDup (map t_name (s_cases s)).

(* the "Axis:value" components, between the suite name and the test name *)
Definition axis_components (s : suite) (c : case) : list bytes :=
  (if axis_fixed (s_versions s) then [] else [axis_component (bs "HTTPVersion:") (dec (c_version c))])
  ++ (if axis_fixed (s_protocols s) then [] else [axis_component (bs "Protocol:") (enum_name c07_protocol_names (c_protocol c))])
  ++ (if axis_fixed (s_codecs s) then [] else [axis_component (bs "Codec:") (enum_name c07_codec_names (c_codec c))])
  ++ (if axis_fixed (s_compressions s) then [] else [axis_component (bs "Compression:") (enum_name c07_compression_names (c_compression c))])
  ++ (if s_tls s then [] else [axis_component (bs "TLS:") (if c_tls c then bs "true" else bs "false")]).

Lemma spec_components_split s c t :
  spec_components s c t = s_name s :: axis_components s c ++ [t_name t].
Proof. unfold spec_components, axis_components. simpl. rewrite <- !app_assoc. reflexivity. Qed.

Lemma axis_components_length s c c' : length (axis_components s c) = length (axis_components s c').
Proof.
  unfold axis_components. rewrite !app_length.
  destruct (axis_fixed (s_versions s)), (axis_fixed (s_protocols s)), (axis_fixed (s_codecs s)),
    (axis_fixed (s_compressions s)), (s_tls s); reflexivity.
Qed.

(* every component the regenerated tables can print is a well-formed segment (by computation) *)
Definition all_segs (label : bytes) (f : N -> bytes) (dom : list N) : bool :=
  forallb (fun n => name_segb (label ++ f n)) dom.

Lemma all_segs_sound label f dom : all_segs label f dom = true ->
  forall n, In n dom -> name_seg (label ++ f n).
Proof. unfold all_segs. rewrite forallb_forall. intros H n Hn. apply name_segb_iff, H, Hn. Qed.

Lemma version_segs : all_segs (bs "HTTPVersion:") dec declared_versions = true.
Proof. vm_compute. reflexivity. Qed.
Lemma protocol_segs : all_segs (bs "Protocol:") (enum_name c07_protocol_names) (declared c07_protocol_names) = true.
Proof. vm_compute. reflexivity. Qed.
Lemma codec_segs : all_segs (bs "Codec:") (enum_name c07_codec_names) (declared c07_codec_names) = true.
Proof. vm_compute. reflexivity. Qed.
Lemma compression_segs : all_segs (bs "Compression:") (enum_name c07_compression_names) (declared c07_compression_names) = true.
Proof. vm_compute. reflexivity. Qed.
Lemma tls_segs (b : bool) : name_seg (bs "TLS:" ++ (if b then bs "true" else bs "false")).
Proof. apply name_segb_iff. destruct b; vm_compute; reflexivity. Qed.

Lemma Forall_opt {A} (P : A -> Prop) (b : bool) x : P x -> Forall P (if b then [] else [x]).
Proof. destruct b; repeat constructor; assumption. Qed.

Lemma axis_components_segs s c : case_declared c -> Forall name_seg (axis_components s c).
Proof.
  intros (Dv & Dp & Dc & Dz). unfold axis_components, axis_component.
  repeat (apply Forall_app; split); apply Forall_opt.
  - apply (all_segs_sound _ _ _ version_segs); exact Dv.
  - apply (all_segs_sound _ _ _ protocol_segs); exact Dp.
  - apply (all_segs_sound _ _ _ codec_segs); exact Dc.
  - apply (all_segs_sound _ _ _ compression_segs); exact Dz.
  - apply tls_segs.
Qed.

Lemma name_segs_good l : Forall name_seg l -> Forall good_seg l.
Proof. intros H. eapply Forall_impl; [|exact H]. intros w Hw; apply Hw. Qed.

Lemma flat_split_good l : Forall good_seg l -> flat_map (split_on 47) l = l.
Proof.
  induction 1 as [|w l Hw _ IH]; [reflexivity|]. simpl.
  rewrite split_on_no_sep by apply Hw. rewrite IH. reflexivity.
Qed.

(* the segments of a full name: suite name, axis components, the segments of the test name *)
Definition name_segments (s : suite) (c : case) (t : tcase) : list bytes :=
  (s_name s :: axis_components s c) ++ split_on 47 (t_name t).

Lemma name_segments_segs s c t : name_seg (s_name s) -> case_declared c -> wf_test t ->
  Forall name_seg (name_segments s c t).
Proof.
  intros Hs Hc Ht. unfold name_segments. apply Forall_app. split; [|exact Ht].
  constructor; [exact Hs|apply axis_components_segs; exact Hc].
Qed.

Lemma spec_name_segments s c t : name_seg (s_name s) -> case_declared c -> wf_test t ->
  spec_name s c t = join 47 (name_segments s c t) /\
  split_on 47 (spec_name s c t) = name_segments s c t.
Proof.
  intros Hs Hc Ht. unfold spec_name. rewrite spec_components_split.
  assert (Hax : Forall good_seg (axis_components s c)) by (apply name_segs_good, axis_components_segs; exact Hc).
  assert (HF : Forall clean_rel (s_name s :: axis_components s c ++ [t_name t])).
  { constructor; [apply clean_rel_good, Hs|]. apply Forall_app. split.
    - eapply Forall_impl; [|exact Hax]. intros w Hw; apply clean_rel_good; exact Hw.
    - constructor; [|constructor]. unfold clean_rel. apply name_segs_good. exact Ht. }
  assert (NE : s_name s :: axis_components s c ++ [t_name t] <> []) by discriminate.
  destruct (path_join_names_proof _ NE HF) as (E1 & E2).
  assert (Efl : flat_map (split_on 47) (s_name s :: axis_components s c ++ [t_name t]) = name_segments s c t).
  { change (s_name s :: axis_components s c ++ [t_name t]) with ((s_name s :: axis_components s c) ++ [t_name t]).
    rewrite flat_map_app. rewrite (flat_split_good (s_name s :: axis_components s c)).
    - simpl. rewrite app_nil_r. reflexivity.
    - constructor; [apply Hs|exact Hax]. }
  split; [|rewrite E2; exact Efl]. rewrite E1, <- Efl. symmetry. apply join_flat.
Qed.

(* the relevant lists of the suite hold declared enum numbers; then every config case the suite
   admits does, whatever the config-case set contains *)
Definition suite_declared (s : suite) : Prop :=
  incl (s_versions s) declared_versions /\ incl (s_protocols s) (declared c07_protocol_names) /\
  incl (s_codecs s) (declared c07_codec_names) /\ incl (s_compressions s) (declared c07_compression_names).

Lemma axis_declared all rel dom v : incl all dom -> incl rel dom -> axis_admits all rel v -> In v dom.
Proof. intros Ha Hr [[_ H]|H]; [apply Ha|apply Hr]; exact H. Qed.

Lemma admitted_case_declared s c : suite_declared s -> admits s c -> case_declared c.
Proof.
  intros (Dv & Dp & Dc & Dz) (Ap & Av & Ac & Az & _).
  destruct all_values_declared as (Ip & Ic & Iz & Iv).
  split; [exact (axis_declared _ _ _ _ Iv Dv Av)|]. split; [exact (axis_declared _ _ _ _ Ip Dp Ap)|].
  split; [exact (axis_declared _ _ _ _ Ic Dc Ac)|exact (axis_declared _ _ _ _ Iz Dz Az)].
Qed.

(* ------------------------------------------------------------------ *)
(* (1) the full name is injective on well-formed names                  *)
(* ------------------------------------------------------------------ *)
Lemma app_eq_length {A} (a a' b b' : list A) :
  length a = length a' -> a ++ b = a' ++ b' -> a = a' /\ b = b'.
Proof.
  revert a'. induction a as [|x a IH]; intros [|x' a'] L E; simpl in *; try discriminate.
  - split; [reflexivity|exact E].
  - injection E as -> E. destruct (IH a' ltac:(lia) E) as (-> & ->). split; reflexivity.
Qed.

Theorem full_name_injective_proof : forall ss, NoDup (map s_name ss) -> Forall wf_suite ss ->
  forall s s' c c' t t', In s ss -> In s' ss -> In t (s_cases s) -> In t' (s_cases s') ->
  admits s c -> admits s' c' -> case_declared c -> case_declared c' ->
  t_stream t = c_stream c -> t_stream t' = c_stream c' ->
  spec_name s c t = spec_name s' c' t' -> s = s' /\ c = c' /\ t = t'.
Proof.
  intros ss ND WF s s' c c' t t' Hs Hs' Ht Ht' A A' D D' Es Es' E.
  rewrite Forall_forall in WF.
  destruct (WF s Hs) as (Ns & Ft & NDt). destruct (WF s' Hs') as (Ns' & Ft' & _).
  rewrite Forall_forall in Ft, Ft'.
  destruct (spec_name_segments s c t Ns D (Ft t Ht)) as (_ & S).
  destruct (spec_name_segments s' c' t' Ns' D' (Ft' t' Ht')) as (_ & S').
  rewrite E, S' in S. unfold name_segments in S. simpl in S. injection S as En S.
  assert (s' = s) by (apply (NoDup_map_inj s_name ss ND); assumption). subst s'.
  destruct (app_eq_length _ _ _ _ (axis_components_length s c' c) S) as (Eax & Ets).
  assert (Etn : t_name t = t_name t').
  { rewrite <- (join_split 47 (t_name t)), <- (join_split 47 (t_name t')), Ets. reflexivity. }
  assert (t = t') by (apply (NoDup_map_inj t_name (s_cases s) NDt); assumption). subst t'.
  split; [reflexivity|]. split; [|reflexivity].
  apply (components_injective_proof s c c' t t A A' D D' Es Es'); [|reflexivity].
  rewrite !spec_components_split, Eax. reflexivity.
Qed.

(* ------------------------------------------------------------------ *)
(* (2) any collision is an error                                        *)
(* ------------------------------------------------------------------ *)
Lemma in_names p l : In p l -> In (p_name p) (names l).
Proof. intros H. unfold names. apply in_map. exact H. Qed.

Lemma NoDup_flat_map_key {A} (f : A -> list perm) l : NoDup (names (flat_map f l)) ->
  forall x y p q, In x l -> In y l -> In p (f x) -> In q (f y) -> p_name p = p_name q -> x = y.
Proof.
  induction l as [|z r IH]; intros ND x y p q Hx Hy Hp Hq E; [destruct Hx|].
  simpl in ND. rewrite names_app in ND. apply NoDup_app_iff in ND. destruct ND as (_ & Nr & Dj).
  assert (cross : forall a b u v, In u (f z) -> In b r -> In v (f b) -> p_name u = p_name v -> a = b).
  { intros a b u v Hu Hb Hv Euv. exfalso. apply (Dj (p_name u)); [apply in_names; exact Hu|].
    rewrite Euv. apply in_names. apply in_flat_map. exists b. split; assumption. }
  destruct Hx as [<-|Hx], Hy as [<-|Hy].
  - reflexivity.
  - eapply cross; eassumption.
  - symmetry. eapply cross; try eassumption. symmetry; exact E.
  - eapply IH; eassumption.
Qed.

Lemma NoDup_flat_map_sub {A} (f : A -> list perm) l x :
  NoDup (names (flat_map f l)) -> In x l -> NoDup (names (f x)).
Proof.
  induction l as [|z r IH]; intros ND Hx; [destruct Hx|].
  simpl in ND. rewrite names_app in ND. apply NoDup_app_iff in ND. destruct ND as (Nz & Nr & _).
  destruct Hx as [<-|Hx]; [exact Nz|apply IH; assumption].
Qed.

Lemma in_case_perms s c t : In t (s_cases s) -> t_stream t = c_stream c -> In (tc_perm s c t) (case_perms s c).
Proof.
  intros Ht E. unfold case_perms. apply in_flat_map. exists t. split; [exact Ht|].
  unfold tc_perms. rewrite (proj2 (N.eqb_eq _ _) E). left; reflexivity.
Qed.

Theorem colliding_names_rejected_proof : forall ss cs mode s s' c c' t t',
  In s ss -> In s' ss -> mode_admits s mode -> mode_admits s' mode ->
  In c cs -> In c' cs -> admits s c -> admits s' c' ->
  In t (s_cases s) -> In t' (s_cases s') -> t_stream t = c_stream c -> t_stream t' = c_stream c' ->
  (s, c, t) <> (s', c', t') ->
  spec_name s c t = spec_name s' c' t' ->
  new_library ss cs mode = Err.
Proof.
  intros ss cs mode s s' c c' t t' Hs Hs' M M' Hc Hc' A A' Ht Ht' Es Es' NE E.
  destruct (new_library ss cs mode) as [L|] eqn:EL; [exfalso|reflexivity].
  apply new_library_ok_iff in EL. destruct EL as (_ & _ & _ & -> & ND & _).
  apply suite_active_iff in M. apply suite_active_iff in M'.
  assert (Hsc : In c (suite_cases s cs)) by (apply in_suite_cases; split; assumption).
  assert (Hsc' : In c' (suite_cases s' cs)) by (apply in_suite_cases; split; assumption).
  pose proof (in_case_perms s c t Ht Es) as P. pose proof (in_case_perms s' c' t' Ht' Es') as P'.
  assert (EN : p_name (tc_perm s c t) = p_name (tc_perm s' c' t')) by (rewrite !tc_perm_name, !full_name_spec; exact E).
  assert (Q : In (tc_perm s c t) (active_perms mode cs s)).
  { unfold active_perms. rewrite M. apply in_flat_map. exists c. split; assumption. }
  assert (Q' : In (tc_perm s' c' t') (active_perms mode cs s')).
  { unfold active_perms. rewrite M'. apply in_flat_map. exists c'. split; assumption. }
  unfold all_perms in ND.
  assert (s = s') by (eapply (NoDup_flat_map_key _ _ ND); eassumption). subst s'.
  pose proof (NoDup_flat_map_sub _ _ _ ND Hs) as ND2. unfold active_perms in ND2. rewrite M in ND2.
  unfold suite_perms in ND2.
  assert (c = c') by (eapply (NoDup_flat_map_key _ _ ND2); eassumption). subst c'.
  pose proof (NoDup_flat_map_sub _ _ _ ND2 Hsc) as ND3. unfold case_perms in ND3.
  assert (t = t').
  { eapply (NoDup_flat_map_key _ _ ND3 t t' (tc_perm s c t) (tc_perm s c t')); try assumption.
    - unfold tc_perms. rewrite (proj2 (N.eqb_eq _ _) Es). left; reflexivity.
    - unfold tc_perms. rewrite (proj2 (N.eqb_eq _ _) Es'). left; reflexivity. }
  subst t'. apply NE. reflexivity.
Qed.

(* ------------------------------------------------------------------ *)
(* (3) names of the gRPC-peer variants                                  *)
(* ------------------------------------------------------------------ *)
(* the name of p is made of well-formed, marker-free segments and ends in the segments of its
   simple name *)
Definition name_wf (p : perm) : Prop := exists pre ts, pre <> [] /\ ts <> [] /\
  Forall name_seg pre /\ Forall name_seg ts /\
  p_name p = join 47 (pre ++ ts) /\ p_simple p = join 47 ts.

Definition tag (n : bytes) : list bytes := filter is_markerb (split_on 47 n).

Lemma filter_none {A} (f : A -> bool) l : Forall (fun x => f x = false) l -> filter f l = [].
Proof. induction 1 as [|x l Hx _ IH]; simpl; [reflexivity|]. rewrite Hx. exact IH. Qed.

Lemma segs_no_marker l : Forall name_seg l -> filter is_markerb l = [].
Proof. intros H. apply filter_none. eapply Forall_impl; [|exact H]. apply name_seg_not_marker. Qed.

Lemma segs_no_sep l : Forall name_seg l -> Forall (no_sep 47) l.
Proof. intros H. apply good_no_sep, name_segs_good, H. Qed.

Lemma marker_seg cl sv : cl || sv = true ->
  good_seg (marker cl sv) /\ is_markerb (marker cl sv) = true.
Proof.
  intros H. split; [apply good_segb_iff|]; destruct cl, sv; try discriminate; vm_compute; reflexivity.
Qed.

Lemma tag_unmarked p : name_wf p -> tag (p_name p) = [].
Proof.
  intros (pre & ts & Np & Nt & Fp & Ft & En & _). unfold tag. rewrite En.
  assert (F : Forall name_seg (pre ++ ts)) by (apply Forall_app; split; assumption).
  rewrite split_join; [apply segs_no_marker; exact F| |apply segs_no_sep; exact F].
  destruct pre; [congruence|discriminate].
Qed.

Lemma renamed_name cl sv p pre ts : pre <> [] -> ts <> [] ->
  p_name p = join 47 (pre ++ ts) -> p_simple p = join 47 ts ->
  p_name (rename cl sv p) = join 47 (pre ++ marker cl sv :: ts).
Proof.
  intros Np Nt En Es.
  assert (E : p_name p = (join 47 pre ++ [47]) ++ p_simple p).
  { rewrite En, Es, join_app by assumption. rewrite <- app_assoc. reflexivity. }
  destruct (marker_name_proof cl sv p _ E) as (R & _). rewrite R, <- marker_spec, Es.
  rewrite join_app by (assumption || discriminate). rewrite (join_cons 47 (marker cl sv) ts Nt).
  rewrite <- !app_assoc. reflexivity.
Qed.

Lemma renamed_segments cl sv p pre ts : cl || sv = true -> pre <> [] -> ts <> [] ->
  Forall name_seg pre -> Forall name_seg ts ->
  p_name p = join 47 (pre ++ ts) -> p_simple p = join 47 ts ->
  split_on 47 (p_name (rename cl sv p)) = pre ++ marker cl sv :: ts.
Proof.
  intros H Np Nt Fp Ft En Es. rewrite (renamed_name cl sv p pre ts Np Nt En Es).
  apply split_join; [destruct pre; [congruence|discriminate]|].
  apply Forall_app. split; [apply segs_no_sep; exact Fp|].
  constructor; [apply (marker_seg cl sv H)|apply segs_no_sep; exact Ft].
Qed.

Lemma tag_marked cl sv p : cl || sv = true -> name_wf p -> tag (p_name (rename cl sv p)) = [marker cl sv].
Proof.
  intros H (pre & ts & Np & Nt & Fp & Ft & En & Es). unfold tag.
  rewrite (renamed_segments cl sv p pre ts H Np Nt Fp Ft En Es).
  rewrite filter_app, (segs_no_marker pre Fp). simpl.
  rewrite (proj2 (marker_seg cl sv H)), (segs_no_marker ts Ft). reflexivity.
Qed.

Lemma split_at_unique {A} (m : A) a : forall a' b b',
  ~ In m a -> ~ In m a' -> a ++ m :: b = a' ++ m :: b' -> a = a' /\ b = b'.
Proof.
  induction a as [|x a IH]; intros [|x' a'] b b' H H' E; simpl in *.
  - injection E as E. split; [reflexivity|exact E].
  - injection E as E _. exfalso. apply H'. left. symmetry; exact E.
  - injection E as E _. exfalso. apply H. left. exact E.
  - injection E as -> E. destruct (IH a' b b') as (-> & ->); [tauto|tauto|exact E|]. split; reflexivity.
Qed.

Lemma marker_not_in_segs cl sv l : cl || sv = true -> Forall name_seg l -> ~ In (marker cl sv) l.
Proof.
  intros H F Hin. rewrite Forall_forall in F. specialize (F _ Hin). apply name_seg_not_marker in F.
  rewrite (proj2 (marker_seg cl sv H)) in F. discriminate.
Qed.

(* two well-formed names that receive the same marker stay different *)
Lemma rename_injective cl sv p q : cl || sv = true -> name_wf p -> name_wf q ->
  p_name (rename cl sv p) = p_name (rename cl sv q) -> p_name p = p_name q.
Proof.
  intros H (pre & ts & Np & Nt & Fp & Ft & En & Es) (pre' & ts' & Np' & Nt' & Fp' & Ft' & En' & Es') E.
  apply (f_equal (split_on 47)) in E.
  rewrite (renamed_segments cl sv p pre ts H Np Nt Fp Ft En Es) in E.
  rewrite (renamed_segments cl sv q pre' ts' H Np' Nt' Fp' Ft' En' Es') in E.
  apply split_at_unique in E; try (apply marker_not_in_segs; assumption).
  destruct E as (-> & ->). rewrite En, En'. reflexivity.
Qed.

Lemma NoDup_map_on {A B C} (f : A -> B) (g : A -> C) l :
  NoDup (map f l) -> (forall x y, In x l -> In y l -> g x = g y -> f x = f y) -> NoDup (map g l).
Proof.
  induction l as [|x l IH]; simpl; intros ND H; [constructor|].
  inversion ND as [|? ? Hx Hn]; subst. constructor.
  - intros Hin. apply in_map_iff in Hin. destruct Hin as (y & E & Hy). apply Hx.
    rewrite (H x y); [apply in_map; exact Hy|left; reflexivity|right; exact Hy|symmetry; exact E].
  - apply IH; [exact Hn|]. intros a b Ha Hb. apply H; right; assumption.
Qed.

Lemma NoDup_names_filter f l : NoDup (names l) -> NoDup (names (filter f l)).
Proof.
  induction l as [|x l IH]; simpl; intros ND; [constructor|].
  inversion ND as [|? ? Hx Hn]; subst. destruct (f x); simpl; [|apply IH; exact Hn].
  constructor; [|apply IH; exact Hn]. intros Hin. apply Hx. unfold names in *.
  apply in_map_iff in Hin. destruct Hin as (y & E & Hy). apply filter_In in Hy.
  rewrite <- E. apply in_map. apply Hy.
Qed.

(* one block of allPermutations: distinct names, all carrying the tag [m] *)
Definition block (tg : list bytes) (X : list perm) : Prop :=
  NoDup (names X) /\ forall q, In q X -> tag (p_name q) = tg.

Lemma block_nil tg : block tg [].
Proof. split; [constructor|intros q []]. Qed.

Lemma block_filter cl sv L : cl || sv = true -> NoDup (names L) -> Forall name_wf L ->
  block [marker cl sv] (grpc_filter cl sv L).
Proof.
  intros H ND WF. rewrite Forall_forall in WF. unfold grpc_filter.
  replace (negb cl && negb sv) with false by (destruct cl, sv; try reflexivity; discriminate).
  split.
  - unfold names. rewrite map_map.
    apply (NoDup_map_on p_name (fun p => p_name (rename cl sv p))).
    + apply NoDup_names_filter. exact ND.
    + intros x y Hx Hy E. apply filter_In in Hx. apply filter_In in Hy.
      apply (rename_injective cl sv x y H); [apply WF, Hx|apply WF, Hy|exact E].
  - intros q Hq. apply in_map_iff in Hq. destruct Hq as (p & <- & Hp). apply filter_In in Hp.
    apply tag_marked; [exact H|apply WF, Hp].
Qed.

Lemma block_app ta tb X Y : ta <> tb -> block ta X -> NoDup (names Y) ->
  (forall q, In q Y -> tag (p_name q) <> ta) -> NoDup (names (X ++ Y)).
Proof.
  intros NE (NX & TX) NY TY. rewrite names_app. apply NoDup_app_iff. repeat split; try assumption.
  intros n Hx Hy. unfold names in Hx, Hy. apply in_map_iff in Hx. apply in_map_iff in Hy.
  destruct Hx as (p & <- & Hp). destruct Hy as (q & E & Hq).
  apply (TY q Hq). rewrite E. apply TX. exact Hp.
Qed.

Lemma markers_distinct :
  marker true false <> marker false true /\ marker true false <> marker true true /\
  marker false true <> marker true true.
Proof. repeat split; vm_compute; discriminate. Qed.

Theorem grpc_names_distinct_proof : forall L, NoDup (map p_name L) -> Forall name_wf L ->
  forall cl sv, NoDup (map p_name (all_permutations cl sv L)).
Proof.
  intros L ND WF cl sv. fold (names L) in ND. fold (names (all_permutations cl sv L)).
  destruct markers_distinct as (Dcs & Dcb & Dsb).
  assert (B0 : block [] L).
  { split; [exact ND|]. rewrite Forall_forall in WF. intros q Hq. apply tag_unmarked, WF, Hq. }
  assert (B1 : block [marker true false] (if cl then grpc_filter true false L else [])).
  { destruct cl; [apply block_filter; auto|apply block_nil]. }
  assert (B2 : block [marker false true] (if sv then grpc_filter false true L else [])).
  { destruct sv; [apply block_filter; auto|apply block_nil]. }
  assert (B3 : block [marker true true] (if cl && sv then grpc_filter true true L else [])).
  { destruct (cl && sv); [apply block_filter; auto|apply block_nil]. }
  unfold all_permutations.
  set (X1 := if cl then _ else _) in *. set (X2 := if sv then _ else _) in *.
  set (X3 := if cl && sv then _ else _) in *.
  assert (N23 : NoDup (names (X2 ++ X3))).
  { apply (block_app [marker false true] [marker true true]); [congruence|exact B2|apply B3|].
    intros q Hq. rewrite (proj2 B3 q Hq). congruence. }
  assert (T23 : forall q, In q (X2 ++ X3) -> tag (p_name q) = [marker false true] \/ tag (p_name q) = [marker true true]).
  { intros q Hq. apply in_app_or in Hq. destruct Hq as [Hq|Hq]; [left; apply B2|right; apply B3]; exact Hq. }
  assert (N123 : NoDup (names (X1 ++ X2 ++ X3))).
  { apply (block_app [marker true false] []); [discriminate|exact B1|exact N23|].
    intros q Hq. destruct (T23 q Hq) as [E|E]; rewrite E; congruence. }
  apply (block_app [] [marker true false]); [discriminate|exact B0|exact N123|].
  intros q Hq. apply in_app_or in Hq. destruct Hq as [Hq|Hq].
  - rewrite (proj2 B1 q Hq). discriminate.
  - destruct (T23 q Hq) as [E|E]; rewrite E; discriminate.
Qed.

(* the names of a library built from well-formed suites are well formed *)
Theorem library_names_wf_proof : forall ss cs mode L, new_library ss cs mode = Ok L ->
  Forall wf_suite ss -> (forall c, In c cs -> case_declared c) -> Forall name_wf L.
Proof.
  intros ss cs mode L H WF DC. apply Forall_forall. intros p Hp.
  apply (perm_iff_proof _ _ _ _ H) in Hp. destruct Hp as (s & t & c & Hs & Ht & Hc & _ & _ & _ & ->).
  rewrite Forall_forall in WF. destruct (WF s Hs) as (Ns & Ft & _). rewrite Forall_forall in Ft.
  specialize (Ft t Ht). specialize (DC c Hc).
  destruct (spec_name_segments s c t Ns DC Ft) as (E & _).
  exists (s_name s :: axis_components s c), (split_on 47 (t_name t)).
  split; [discriminate|]. split; [apply split_on_nonempty|].
  split; [constructor; [exact Ns|apply axis_components_segs; exact DC]|].
  split; [exact Ft|]. split; [exact E|]. simpl. symmetry. apply join_split.
Qed.

Theorem library_grpc_names_distinct_proof : forall ss cs mode L, new_library ss cs mode = Ok L ->
  Forall wf_suite ss -> (forall c, In c cs -> case_declared c) ->
  forall cl sv, NoDup (map p_name (all_permutations cl sv L)).
Proof.
  intros ss cs mode L H WF DC. apply grpc_names_distinct_proof.
  - eapply names_unique_proof; exact H.
  - eapply library_names_wf_proof; eassumption.
Qed.

(* the same two statements with the hypothesis on the suites only (declared relevant values):
   nothing is asked of the config-case set *)
Theorem full_name_injective_suites_proof : forall ss, NoDup (map s_name ss) ->
  Forall wf_suite ss -> Forall suite_declared ss ->
  forall s s' c c' t t', In s ss -> In s' ss -> In t (s_cases s) -> In t' (s_cases s') ->
  admits s c -> admits s' c' -> t_stream t = c_stream c -> t_stream t' = c_stream c' ->
  spec_name s c t = spec_name s' c' t' -> s = s' /\ c = c' /\ t = t'.
Proof.
  intros ss ND WF SD s s' c c' t t' Hs Hs' Ht Ht' A A' Es Es' E. rewrite Forall_forall in SD.
  eapply (full_name_injective_proof ss ND WF s s' c c' t t'); try eassumption;
    eapply admitted_case_declared; try eassumption; apply SD; assumption.
Qed.

Theorem library_grpc_names_distinct_suites_proof : forall ss cs mode L, new_library ss cs mode = Ok L ->
  Forall wf_suite ss -> Forall suite_declared ss ->
  Forall name_wf L /\ forall cl sv, NoDup (map p_name (all_permutations cl sv L)).
Proof.
  intros ss cs mode L H WF SD.
  assert (NW : Forall name_wf L).
  { apply Forall_forall. intros p Hp.
    apply (perm_iff_proof _ _ _ _ H) in Hp. destruct Hp as (s & t & c & Hs & Ht & Hc & _ & Ha & _ & ->).
    rewrite Forall_forall in WF, SD. destruct (WF s Hs) as (Ns & Ft & _). rewrite Forall_forall in Ft.
    specialize (Ft t Ht). pose proof (admitted_case_declared s c (SD s Hs) Ha) as DC.
    destruct (spec_name_segments s c t Ns DC Ft) as (E & _).
    exists (s_name s :: axis_components s c), (split_on 47 (t_name t)).
    split; [discriminate|]. split; [apply split_on_nonempty|].
    split; [constructor; [exact Ns|apply axis_components_segs; exact DC]|].
    split; [exact Ft|]. split; [exact E|]. simpl. symmetry. apply join_split. }
  split; [exact NW|]. apply grpc_names_distinct_proof; [eapply names_unique_proof; exact H|exact NW].
Qed.
