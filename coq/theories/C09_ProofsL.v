(* C09_ProofsL.v — the peers' MAIN LOOPS (referenceclient.run, referenceserver.run): a decoder created
   once per stream and asked for message after message answers exactly the requests sent, for every
   chunking of stdin, in both wire variants; the reference server's single DecodeNext yields the request
   sent; and a decoder that is re-created for every request loses requests in the JSON variant as soon as
   one read delivers more than one of them.  Everything about the loops is derived from the chunking
   theorems of the decoders (decoder_any_sched_proof, json_any_sched_jscan_proof). *)
From Coq Require Import Lia.
From V Require Import C09_Spec C09_Proofs C09_ProofsW C09_ProofsJ C09_ProofsS C09_ProofsC.
Open Scope N_scope.

(* a message a sender can have written: below 2^32 bytes (binary) / a value the scanner recognises (JSON) *)
Definition peer_msg_ok (json : bool) (m : bytes) : Prop := if json then jscan_value m else ok32 m.

(* how the loop ends when stdin stops after j bytes of a frame *)
Definition peer_stop (t : tail_t) (j : nat) : stop :=
  match t with
  | TEOF => if (0 <? j)%nat then StopUnexpected else StopEOF
  | TFail => StopIO
  | TBlock => StopBlocked
  end.

(* ---------- chunking never matters to the loop ---------- *)
Lemma peer_loop_any_chunking_proof : forall json d sch eg sch' eg' t,
  peer_loop jscan json (mk_src d sch eg t) = peer_loop jscan json (mk_src d sch' eg' t).
Proof.
  intros [] d sch eg sch' eg' t; unfold peer_loop.
  - now rewrite !json_any_sched_jscan_proof.
  - now rewrite !decoder_any_sched_proof.
Qed.

(* ... for any scanner that never revises a verdict (the oracle hypothesis on encoding/json) *)
Lemma peer_loop_any_chunking_stable_proof : forall scan, scanner_stable scan ->
  forall json d sch eg sch' eg' t,
  peer_loop scan json (mk_src d sch eg t) = peer_loop scan json (mk_src d sch' eg' t).
Proof.
  intros scan Hst [] d sch eg sch' eg' t; unfold peer_loop.
  - now rewrite !(json_any_sched_proof scan Hst).
  - now rewrite !decoder_any_sched_proof.
Qed.

(* ---------- every request sent is answered, once, in order; then the loop returns nil ---------- *)
Lemma peer_loop_answers_all_oracle_proof : forall scan, scanner_skips_newline scan ->
  forall (json : bool) msgs sch eg,
  Forall (fun m => if json then scanner_ok scan m else ok32 m) msgs ->
  peer_loop scan json (mk_src (peer_wire json msgs) sch eg TEOF) = (msgs, StopEOF).
Proof.
  intros scan Hskip [] msgs sch eg HF; unfold peer_loop, peer_wire.
  - now rewrite (json_roundtrip_any_sched_proof scan Hskip) by exact HF.
  - rewrite decoder_any_sched_proof, expected_whole; [reflexivity|].
    eapply Forall_impl; [|exact HF]. exact fits_none.
Qed.

Lemma peer_msgs_ok_oracle json msgs :
  Forall (peer_msg_ok json) msgs -> Forall (fun m => if json then scanner_ok jscan m else ok32 m) msgs.
Proof.
  intros H. eapply Forall_impl; [|exact H]. intros m Hm. unfold peer_msg_ok in Hm.
  destruct json; [now apply jscan_value_ok|exact Hm].
Qed.

Lemma peer_loop_answers_all_proof : forall json msgs sch eg,
  Forall (peer_msg_ok json) msgs ->
  peer_loop jscan json (mk_src (peer_wire json msgs) sch eg TEOF) = (msgs, StopEOF).
Proof.
  intros json msgs sch eg HF. apply peer_loop_answers_all_oracle_proof; [exact jscan_skips_proof|].
  now apply peer_msgs_ok_oracle.
Qed.

(* ---------- stdin stops inside (or just in front of) a request ---------- *)
Lemma short_stop t j m :
  (j < length (write_msg m))%nat ->
  stop_of_final (short_outcome t (4 <=? j)%nat (if (j <? 4)%nat then j else (j - 4)%nat)
                               (if (j <? 4)%nat then 4 else N.of_nat (length m))) = peer_stop t j.
Proof.
  intros _. unfold short_outcome, peer_stop. destruct t; try reflexivity. cbn [stop_of_final].
  destruct (Nat.ltb_spec j 4) as [H4|H4].
  - replace (4 <=? j)%nat with false by (symmetry; apply Nat.leb_gt; lia). cbn [orb].
    destruct (0 <? j)%nat; reflexivity.
  - replace (4 <=? j)%nat with true by (symmetry; apply Nat.leb_le; lia).
    replace (0 <? j)%nat with true by (symmetry; apply Nat.ltb_lt; lia). reflexivity.
Qed.

Lemma json_end_stop t j : stop_of_jfinal (json_end t j) = peer_stop t j.
Proof. unfold json_end, peer_stop. destruct t; try reflexivity. destruct (0 <? j)%nat; reflexivity. Qed.

Lemma peer_loop_cut_proof : forall json msgs m j sch eg t,
  Forall (peer_msg_ok json) msgs -> peer_msg_ok json m -> (j < length (peer_frame json m))%nat ->
  peer_loop jscan json (mk_src (peer_wire json msgs ++ firstn j (peer_frame json m)) sch eg t) =
  (msgs, peer_stop t j).
Proof.
  intros [] msgs m j sch eg t HF Hm Hj; unfold peer_loop, peer_wire, peer_frame, peer_msg_ok in *.
  - rewrite json_cut_jscan_proof by assumption. cbn [fst snd]. now rewrite json_end_stop.
  - rewrite decoder_any_sched_proof.
    assert (HF' : Forall (fits None) msgs) by (eapply Forall_impl; [|exact HF]; exact fits_none).
    destruct (expected_frames None t msgs (firstn j (write_msg m)) HF') as [f E].
    rewrite E, spec_read_partial by (try apply fits_none; assumption).
    cbn [fst snd]. now rewrite app_nil_r, short_stop.
Qed.

(* ---------- the first DecodeNext of a decoder is the first step of the loop ---------- *)
Lemma peer_first_of_loop scan json s ms st :
  peer_loop scan json s = (ms, st) ->
  match ms with
  | m :: _ => peer_first scan json s = FirstMsg m
  | [] => peer_first scan json s = FirstStop st
  end.
Proof.
  unfold peer_loop, peer_first. destruct json.
  - unfold json_all. cbn [json_all_loop].
    destruct (json_next scan [] s) as [v rest s'| e s'| | |].
    + destruct (json_all_loop scan (length (s_data s)) rest s') as [vs e]. cbn [fst snd].
      intros H. inversion H; subst. reflexivity.
    + cbn [fst snd]. intros H. inversion H; subst. reflexivity.
    + cbn [fst snd]. intros H. inversion H; subst. reflexivity.
    + cbn [fst snd]. intros H. inversion H; subst. reflexivity.
    + cbn [fst snd]. intros H. inversion H; subst. reflexivity.
  - unfold decode_all. cbn [read_all_loop].
    destruct (decode_next s) as [m s'| e s'| p n x|].
    + destruct (read_all_loop (length (s_data s)) decode_next s') as [vs e]. cbn [fst snd].
      intros H. inversion H; subst. reflexivity.
    + cbn [fst snd]. intros H. inversion H; subst. reflexivity.
    + cbn [fst snd]. intros H. inversion H; subst. reflexivity.
    + cbn [fst snd]. intros H. inversion H; subst. reflexivity.
Qed.

(* the reference server: its one request is decoded whatever the chunking and whatever follows it *)
Lemma server_reads_request_proof : forall json m rest sch eg t,
  peer_msg_ok json m ->
  peer_first jscan json (mk_src (peer_frame json m ++ rest) sch eg t) = FirstMsg m.
Proof.
  intros json m rest sch eg t Hm.
  destruct (peer_loop jscan json (mk_src (peer_frame json m ++ rest) sch eg t)) as [ms st] eqn:E.
  pose proof (peer_first_of_loop _ _ _ _ _ E) as H.
  assert (Hhd : exists tl, ms = m :: tl); [|destruct Hhd as [tl ->]; exact H].
  clear H. unfold peer_loop, peer_frame, peer_msg_ok in *. destruct json.
  - rewrite json_any_sched_jscan_proof in E. unfold json_expected in E. cbn [json_spec] in E.
    destruct (jscan_value_ok m Hm) as [Hc _]. rewrite Hc in E.
    destruct (json_spec jscan (length (m ++ rest)) t rest) as [vs e]. cbn [fst snd] in E.
    inversion E. eauto.
  - rewrite decoder_any_sched_proof in E.
    destruct (expected_frames None t [m] rest) as [f E2]; [constructor; [now apply fits_none|constructor]|].
    unfold write_all in E2. cbn [map concat] in E2. rewrite app_nil_r in E2. rewrite E2 in E.
    destruct (spec_read (S f) None t rest) as [vs e]. cbn [fst snd app] in E. inversion E. eauto.
Qed.

(* a truncated request: an error exit (unexpected EOF, or EOF when nothing at all arrived), whatever the
   chunking - never a request, never a wait *)
Lemma server_truncated_request_proof : forall json m j sch eg t,
  peer_msg_ok json m -> (j < length (peer_frame json m))%nat ->
  peer_first jscan json (mk_src (firstn j (peer_frame json m)) sch eg t) = FirstStop (peer_stop t j).
Proof.
  intros json m j sch eg t Hm Hj.
  pose proof (peer_loop_cut_proof json [] m j sch eg t ltac:(constructor) Hm Hj) as E.
  replace (peer_wire json []) with (@nil N) in E by (destruct json; reflexivity). cbn [app] in E.
  exact (peer_first_of_loop _ _ _ _ _ E).
Qed.

(* ---------- NOT the code: a decoder per request ---------- *)
(* binary: the decoder keeps nothing between two calls, so it makes no difference *)
Lemma fresh_decoder_binary_same_proof : forall scan s, peer_loop_fresh scan false s = peer_loop scan false s.
Proof. reflexivity. Qed.

(* JSON: when ONE read delivers the whole stream, the first decoder takes all of it into its buffer,
   returns the first value, and dies with the rest; the next decoder finds stdin at its end.  Only the
   first request is answered, and the loop ends as if all was well - for EVERY stream of one or more
   requests. *)
Lemma src_read_all_at_once d eg t :
  d <> [] -> N.of_nat (length d) < big_buf ->
  src_read big_buf (mk_src d [] eg t) =
  RData d (if eg then tail_err t else None) (mk_src [] [] eg t).
Proof.
  intros Hd Hlen. unfold src_read. cbn [s_data s_sched s_eager s_tail]. change (big_buf =? 0) with false. cbv iota.
  destruct d as [|x d']; [congruence|]. set (d := x :: d') in *.
  unfold cap. replace (big_buf <? N.of_nat (length d)) with false by (symmetry; apply N.ltb_ge; lia).
  rewrite skipn_all, firstn_all. reflexivity.
Qed.

Lemma json_fresh_loop_S scan f s :
  json_fresh_loop scan (S f) s =
  match json_next scan [] s with
  | JVal v _ s' => let (vs, e) := json_fresh_loop scan f s' in (v :: vs, e)
  | JErr e _ => ([], JFErr e)
  | JSyntax => ([], JFSyntax)
  | JBlock => ([], JFBlock)
  | JFuel => ([], JFFuel)
  end.
Proof. reflexivity. Qed.

Lemma json_next_one_read v more :
  jscan_value v -> N.of_nat (length (v ++ more)) < big_buf ->
  json_next jscan [] (mk_src (v ++ more) [] false TEOF) = JVal v more (mk_src [] [] false TEOF).
Proof.
  intros Hv Hlen. destruct (jscan_value_ok v Hv) as [Hc _].
  assert (Hne : v ++ more <> []).
  { destruct v; [|discriminate]. exfalso. unfold jscan_value in Hv. cbn in Hv. discriminate. }
  unfold json_next, read_fuel. cbn [s_sched s_data length Nat.add].
  cbn [json_loop]. change (jscan []) with SNeedMore. cbv iota.
  rewrite src_read_all_at_once by assumption. cbv iota. cbn [app]. now rewrite Hc.
Qed.

Lemma json_next_at_end :
  json_next jscan [] (mk_src [] [] false TEOF) = JErr MEOF (mk_src [] [] false TEOF).
Proof. reflexivity. Qed.

Lemma fresh_decoder_one_read_proof : forall v vs,
  jscan_value v -> N.of_nat (length (json_write_all (v :: vs))) < 4294967296 ->
  peer_loop_fresh jscan true (mk_src (json_write_all (v :: vs)) [] false TEOF) = ([v], StopEOF).
Proof.
  intros v vs Hv Hlen. unfold peer_loop_fresh. cbn [s_data].
  rewrite json_write_all_cons in *.
  destruct (length (v ++ 10 :: json_write_all vs)) as [|n] eqn:El.
  { exfalso. destruct v; [|discriminate]. unfold jscan_value in Hv. cbn in Hv. discriminate. }
  rewrite json_fresh_loop_S, json_next_one_read by (assumption || (rewrite El; exact Hlen)).
  rewrite json_fresh_loop_S, json_next_at_end. reflexivity.
Qed.
