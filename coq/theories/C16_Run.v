(* C16_Run.v — the glue around the trace hand-off.

   (1) internal/app/connectconformance/server_runner.go runTestCasesForServer: the ORDER in
       which the runner touches the Tracer for each test case, as a history of Tracer
       operations (C16_Model.action): the runner's own tracer.Init, and what its peers do
       (the traced HTTP operation's Collector.Complete; the client's response, which makes
       results.go fetchTrace call Await; that goroutine's Clear; its TraceTimeout).  The
       peers may act at ANY point after sendRequest for the test case has STARTED, in
       particular before it returns (clientProcessRunner.sendRequest says so itself).
   (2) internal/tracer/middleware.go TracingRoundTripper: WHICH response body values are
       wrapped in the tracing reader (the reader is what adds ResponseBodyEnd and cancels,
       i.e. what completes the trace): the body value (bytes / an empty body / the
       http.NoBody sentinel net/http substitutes for Content-Length: 0, 204, 304, HEAD) is
       part of the exchange description.
   No proofs here (C16_RunProofs.v). *)
From V Require Export C16_Mw.
Open Scope N_scope.

(* ====================================================================== *)
(* (1) the runner                                                         *)
(* ====================================================================== *)
(* where `tracer.Init(req.TestName)` stands relative to `client.sendRequest(req, ...)` *)
Inductive rorder := InitBeforeSend | InitAfterSend.

(* what the peers of test case i (its position in the batch) do *)
Inductive pev :=
| PComplete (i : nat) (t : trace)   (* a traced HTTP operation of case i hands over trace t *)
| PRespond (i : nat)                (* the response of case i is consumed: whenDone -> setOutcome -> fetchTrace: Await begins *)
| PClear (i : nat)                  (* the fetch goroutine of case i: Clear (its Await has returned) *)
| PTimeout (i : nat).               (* TraceTimeout ends the wait of the fetch goroutine of case i *)

Definition case_of (e : pev) : nat :=
  match e with PComplete i _ | PRespond i | PClear i | PTimeout i => i end.
Definition is_case (i : nat) (e : pev) : bool := Nat.eqb (case_of e) i.

(* the waiter of case i is goroutine number i *)
Definition act (all : list name) (e : pev) : list action :=
  match nth_error all (case_of e) with
  | None => []
  | Some n =>
    match e with
    | PComplete _ t => [Complete n t]
    | PRespond i => [AwaitBegin (N.of_nat i) n]
    | PClear _ => [Clear n]
    | PTimeout i => [CtxDone (N.of_nat i)]
    end
  end.
Definition acts (all : list name) (evs : list pev) : list action := flat_map (act all) evs.

(* A peer schedule: slot k (k < number of cases) = what the peers do WHILE sendRequest of
   case k runs; everything in the remaining slots happens after the last sendRequest
   returned (while the runner waits for the responses). *)
Fixpoint runner_from (o : rorder) (all rest : list name) (sched : list (list pev)) : list action :=
  match rest with
  | [] => acts all (concat sched)
  | n :: r =>
    (match o with InitBeforeSend => [Init n] | InitAfterSend => [] end)
    ++ acts all (hd [] sched)
    ++ (match o with InitBeforeSend => [] | InitAfterSend => [Init n] end)
    ++ runner_from o all r (tl sched)
  end.

Definition runner_history (o : rorder) (names : list name) (sched : list (list pev)) : list action :=
  runner_from o names names sched.

(* ---- which schedules the peers can produce ---- *)
(* causality: nothing of case i happens before sendRequest of case i has started *)
Fixpoint causal_from (k : nat) (sched : list (list pev)) : bool :=
  match sched with
  | [] => true
  | evs :: r => forallb (fun e => Nat.leb (case_of e) k) evs && causal_from (S k) r
  end.

Fixpoint span {A} (p : A -> bool) (l : list A) : list A * list A :=
  match l with
  | [] => ([], [])
  | x :: r => if p x then let (a, b) := span p r in (x :: a, b) else ([], l)
  end.

Definition is_complete (e : pev) : bool := match e with PComplete _ _ => true | _ => false end.
Definition is_complete_or_timeout (e : pev) : bool :=
  match e with PComplete _ _ | PTimeout _ => true | _ => false end.

(* the events of ONE test case: completions; the one response (one fetch goroutine per test
   case); completions and time-outs; the goroutine's Clear, which comes after its Await
   returned (a completion before it, or its time-out); completions *)
Definition case_ok (ei : list pev) : bool :=
  let (c1, r1) := span is_complete ei in
  match r1 with
  | PRespond _ :: r2 =>
    let (c2, r3) := span is_complete_or_timeout r2 in
    match r3 with
    | PClear _ :: c3 => forallb is_complete c3 && negb (is_nil c1 && is_nil c2)
    | _ => false
    end
  | _ => false
  end.

Definition events_of (i : nat) (sched : list (list pev)) : list pev := filter (is_case i) (concat sched).

Definition sched_ok (n : nat) (sched : list (list pev)) : bool :=
  causal_from 0 sched
  && forallb (fun e => Nat.ltb (case_of e) n) (concat sched)
  && forallb (fun i => case_ok (events_of i sched)) (seq 0 n).

(* the first trace completed for case i, unless its waiter's time-out comes first *)
Fixpoint first_done (i : nat) (evs : list pev) : option trace :=
  match evs with
  | [] => None
  | PComplete j t :: r => if Nat.eqb j i then Some t else first_done i r
  | PTimeout j :: r => if Nat.eqb j i then None else first_done i r
  | _ :: r => first_done i r
  end.

(* ====================================================================== *)
(* (2) TracingRoundTripper and the response body value                    *)
(* ====================================================================== *)
Inductive bkind :=
| BData       (* a body value of the transport's own, with or without bytes to come *)
| BEmpty      (* an empty body that is NOT http.NoBody (e.g. what the HTTP/2 transports use) *)
| BNoBody.    (* http.NoBody: HTTP/1.1 Content-Length: 0, 204, 304, HEAD *)

(* `resp.Body = newReader(resp.Header, resp.Body, false, builder, cancel)`: unconditionally *)
Definition wraps_response_body (k : bkind) : bool := true.

Definition kind_body (k : bkind) (b : body) : body :=
  match k with BData => b | _ => mkBody b.(bd_stream) [] 0 end.
Definition with_kind (k : bkind) (y : cexch) : cexch :=
  mkCX y.(c_req) y.(c_treq) y.(c_tfail) (kind_body k y.(c_resp))
       (match k with BData => y.(c_trailers) | _ => [] end) y.(c_ops).

(* the caller's operations on a response body the middleware left alone: the reads and the
   close go straight to the transport's body; only the cancel goroutine reaches the builder *)
Fixpoint raw_ops (canceled : bool) (ops : list cop) : list mwact :=
  match ops with
  | [] => []
  | CCancel :: r => if canceled then raw_ops true r else MAdd ECanceled :: raw_ops true r
  | _ :: r => raw_ops canceled r
  end.

Definition client_script_w (wrap : bkind -> bool) (k : bkind) (y : cexch) : list mwact :=
  if (y.(c_tfail) =? 0) && negb (wrap k)
  then treq_acts y ++ [MCell []; MAdd ERespStart] ++ raw_ops false y.(c_ops)
  else client_script (with_kind k y).

Definition client_script_k : bkind -> cexch -> list mwact := client_script_w wraps_response_body.

Definition is_read (o : cop) : bool := match o with CRead => true | _ => false end.
Definition is_close (o : cop) : bool := match o with CClose => true | _ => false end.
Definition nreads (ops : list cop) : nat := length (filter is_read ops).

(* the exchange is over for the caller: the round trip failed, or the caller closed the
   body, or read it up to its end (EOF or error: one Read more than there are chunks) *)
Definition exchange_over (k : bkind) (y : cexch) : Prop :=
  y.(c_tfail) <> 0 \/ existsb is_close y.(c_ops) = true \/
  (length (kind_body k y.(c_resp)).(bd_chunks) < nreads y.(c_ops))%nat.

(* ====================================================================== *)
(* case decoding / result encoding                                        *)
(* ====================================================================== *)
Definition un_pev (s : sx) : option pev :=
  match s with
  | L [I 0%Z; I i; I t] => Some (PComplete (Z.to_nat i) (Z.to_N t))
  | L [I 1%Z; I i] => Some (PRespond (Z.to_nat i))
  | L [I 2%Z; I i] => Some (PClear (Z.to_nat i))
  | L [I 3%Z; I i] => Some (PTimeout (Z.to_nat i))
  | _ => None
  end.

(* the harness names the test cases "T/c0", "T/c1", ... *)
Definition case_name (i : nat) : name := bs "T/c" ++ [48 + N.of_nat i].

(* n (slots) -> ((what the report holds for each failed test: (0) nothing / (1 t) trace t)
                 (the Tracer's view of each test name afterwards)) *)
Definition run_c16_runner (args : list sx) : sx :=
  or_bad (match args with
  | [I n; sched] =>
    do sched <- un_listof (un_listof un_pev) sched;
    let n := Z.to_nat n in
    if negb (Nat.leb n 9 && sched_ok n sched && Nat.eqb (length sched) (S n)) then None else
    let names := map case_name (seq 0 n) in
    let st := run (runner_history InitBeforeSend names sched) in
    ret (L [ L (map (fun i => match st.(waiters) (N.of_nat i) with
                              | Got t => L [I 1%Z; sx_N t]
                              | _ => L [I 0%Z]
                              end) (seq 0 n));
             L (map (fun m => sx_slot (st.(slots) m)) names) ])
  | _ => None end).

Definition un_bkind (z : Z) : bkind :=
  if (z =? 1)%Z then BEmpty else if (z =? 2)%Z then BNoBody else BData.

(* name kind (request body) treq tfail (response body) (trailers) (consumer ops): a client exchange
   whose transport answers with the given KIND of body value -> as c16.mw *)
Definition run_c16_mwk (args : list sx) : sx :=
  or_bad (match args with
  | [B nm; I k; rq; I treq; I tfail; rs; trl; ops] =>
    do rq <- un_body rq; do rs <- un_body rs; do trl <- un_listof un_kv trl; do ops <- un_listof un_cop ops;
    ret (mw_result nm (client_script_k (un_bkind k) (mkCX rq (Z.to_N treq) (Z.to_N tfail) rs trl ops)))
  | _ => None end).

Definition last_is_resp_end (t : btrace) : bool :=
  match rev t.(t_events) with TRespEnd e :: _ => e =? 0 | _ => false end.

(* a LIVE HTTP/1.1 exchange (net/http transport against a loopback server) whose response has
   no body (variants 0-3: Content-Length 0, 204, 304, HEAD -> http.NoBody) or three bytes
   (variant 4), the caller reading to EOF and closing:
   -> (number of Collector.Complete calls, Err tag of the trace, last event is a clean ResponseBodyEnd) *)
Definition run_c16_mwlive (args : list sx) : sx :=
  or_bad (match args with
  | [B nm; I v] =>
    let k := if (v =? 4)%Z then BData else BNoBody in
    let y := mkCX (mkBody false [7] 0) 1 0 (mkBody false [3] 0) [] [CRead; CRead; CClose] in
    let calls := (mwrun nm (client_script_k k y)).(m_b).(b_calls) in
    ret (match calls with
         | [t] => L [I 1%Z; sx_N t.(t_err); sx_bool (last_is_resp_end t)]
         | _ => L [sx_nat (length calls)]
         end)
  | _ => None end).

Definition c16_table : list (bytes * (list sx -> sx)) :=
  C16_Mw.c16_table ++
  [ (bs "c16.runner", run_c16_runner);
    (bs "c16.mwk", run_c16_mwk);
    (bs "c16.mwlive", run_c16_mwlive) ].
