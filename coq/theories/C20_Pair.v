(* C20_Pair.v - two instances obtained from the same constructor are independent. *)
From V Require Import C20_Model.

Section PairProofs.
  Variables (pst pop pout : Type) (pstep : pst -> pop -> pst * list pout).

  Lemma of_inst_app {X} b (l1 l2 : list (bool * X)) : of_inst b (l1 ++ l2) = of_inst b l1 ++ of_inst b l2.
  Proof. unfold of_inst. rewrite filter_app, map_app. reflexivity. Qed.

  Lemma of_inst_same {X} b (x : list X) : of_inst b (map (pair b) x) = x.
  Proof.
    unfold of_inst. induction x as [|a x IH]; [reflexivity|].
    cbn. rewrite Bool.eqb_reflx. cbn. rewrite IH. reflexivity.
  Qed.

  Lemma of_inst_other {X} b (x : list X) : of_inst b (map (pair (negb b)) x) = [].
  Proof.
    unfold of_inst. induction x as [|a x IH]; [reflexivity|].
    cbn. destruct b; cbn; exact IH.
  Qed.

  (* whatever the other user does in between - ANY operations, ANY interleaving -, what a user sees of its
     instance is what it sees when it runs its operations alone *)
  Lemma instances_independent_proof : forall (h : list (bool * pop)) (sa sb : pst),
    of_inst false (inst_run2 _ _ _ pstep sa sb h) = inst_run1 _ _ _ pstep sa (of_inst false h) /\
    of_inst true (inst_run2 _ _ _ pstep sa sb h) = inst_run1 _ _ _ pstep sb (of_inst true h).
  Proof.
    induction h as [|[[|] o] r IH]; intros sa sb; [split; reflexivity| |].
    - cbn [inst_run2]. destruct (pstep sb o) as [sb' x] eqn:E.
      rewrite !of_inst_app. destruct (IH sa sb') as (A & B). rewrite A, B.
      rewrite (of_inst_same true x), (of_inst_other false x : of_inst false (map (pair true) x) = []).
      split; [reflexivity|].
      change (of_inst true ((true, o) :: r)) with (o :: of_inst true r). cbn [inst_run1]. rewrite E. reflexivity.
    - cbn [inst_run2]. destruct (pstep sa o) as [sa' x] eqn:E.
      rewrite !of_inst_app. destruct (IH sa' sb) as (A & B). rewrite A, B.
      rewrite (of_inst_same false x), (of_inst_other true x : of_inst true (map (pair false) x) = []).
      split; [|reflexivity].
      change (of_inst false ((false, o) :: r)) with (o :: of_inst false r). cbn [inst_run1]. rewrite E. reflexivity.
  Qed.
End PairProofs.

Lemma h_run1_dead k : forall ops, inst_run1 _ _ _ (h_step1 k) None ops = [].
Proof. induction ops as [|op ops IH]; [reflexivity|]. cbn. exact IH. Qed.

(* the total step function run on ONE instance is the history machine of c20.hist / c20.trhist *)
Lemma h_run1_is_h_run k : forall ops st r,
  h_run k st ops = Some r -> houts (inst_run1 _ _ _ (h_step1 k) (Some st) ops) = Some r.
Proof.
  induction ops as [|op ops IH]; intros st r H; cbn in H.
  - injection H as <-. reflexivity.
  - cbn [inst_run1 h_step1]. destruct (h_step k st op) as [[[st' out] crashed]|]; [|discriminate].
    destruct crashed.
    + injection H as <-. rewrite h_run1_dead. reflexivity.
    + destruct (h_run k st' ops) as [t|] eqn:T; [|discriminate]. injection H as <-.
      cbn. rewrite (IH st' t T). reflexivity.
Qed.

(* merging two histories by a schedule loses and invents nothing *)
Lemma merge_sched_projects : forall sched a b h,
  merge_sched sched a b = Some h -> of_inst false h = a /\ of_inst true h = b.
Proof.
  induction sched as [|t sched IH]; intros a b h H; cbn in H.
  - destruct a, b; try discriminate. injection H as <-. split; reflexivity.
  - destruct (t =? 0)%Z.
    + destruct a as [|x a]; [discriminate|]. destruct (merge_sched sched a b) as [m|] eqn:M; [|discriminate].
      injection H as <-. destruct (IH a b m M) as (A & B). split; [|exact B].
      change (of_inst false ((false, x) :: m)) with (x :: of_inst false m). rewrite A. reflexivity.
    + destruct (t =? 1)%Z; [|discriminate].
      destruct b as [|x b]; [discriminate|]. destruct (merge_sched sched a b) as [m|] eqn:M; [|discriminate].
      injection H as <-. destruct (IH a b m M) as (A & B). split; [exact A|].
      change (of_inst true ((true, x) :: m)) with (x :: of_inst true m). rewrite B. reflexivity.
Qed.

(* ... so: for ANY two histories and ANY schedule, each user of a pair of instances gets what its history
   gives on an instance nobody else touches *)
Lemma pair_is_two_single_runs_proof : forall k sched a b h ra rb,
  merge_sched sched a b = Some h -> h_run k (h_init k) a = Some ra -> h_run k (h_init k) b = Some rb ->
  let r := inst_run2 _ _ _ (h_step1 k) (Some (h_init k)) (Some (h_init k)) h in
  houts (of_inst false r) = Some ra /\ houts (of_inst true r) = Some rb.
Proof.
  intros k sched a b h ra rb M A B r.
  destruct (instances_independent_proof _ _ _ (h_step1 k) h (Some (h_init k)) (Some (h_init k))) as (IA & IB).
  destruct (merge_sched_projects _ _ _ _ M) as (PA & PB).
  unfold r. rewrite IA, IB, PA, PB. split; apply h_run1_is_h_run; assumption.
Qed.
