(* C17_ProofsReq.v — the raw request: net/url facts (escape / unescape / validEncoded, Parse of a
   reference, String, RequestURI), the request target, and the theorems about raw_request. *)
From Coq Require Import Lia.
From V Require Import C17_Spec C17_Proofs.
Open Scope N_scope.

(* ================= finite sweeps over ASCII ================= *)
Lemma below_128 (P : N -> bool) :
  forallb P (map N.of_nat (seq 0 128)) = true -> forall c, c < 128 -> P c = true.
Proof.
  intros H c Hc. rewrite forallb_forall in H. apply H. apply in_map_iff.
  exists (N.to_nat c). split; [apply N2Nat.id|]. apply in_seq. lia.
Qed.

Lemma below_16 (P : N -> bool) :
  forallb P (map N.of_nat (seq 0 16)) = true -> forall c, c < 16 -> P c = true.
Proof.
  intros H c Hc. rewrite forallb_forall in H. apply H. apply in_map_iff.
  exists (N.to_nat c). split; [apply N2Nat.id|]. apply in_seq. lia.
Qed.

Lemma upperhex_alnum n : n < 16 -> is_alnum (upperhex n) = true.
Proof. apply (below_16 (fun n => is_alnum (upperhex n))). vm_compute. reflexivity. Qed.
Lemma upperhex_ishex n : n < 16 -> ishex (upperhex n) = true.
Proof. apply (below_16 (fun n => ishex (upperhex n))). vm_compute. reflexivity. Qed.

Lemma mod16_lt n : n mod 16 < 16.
Proof. apply N.mod_lt. discriminate. Qed.

Lemma should_escape_alnum m c : is_alnum c = true -> should_escape m c = false.
Proof. intros H. unfold should_escape. rewrite H. reflexivity. Qed.

Lemma should_escape_37 m : should_escape m 37 = true.
Proof. destruct m; reflexivity. Qed.

Lemma not_escaped_not_37 m c : should_escape m c = false -> (c =? 37) = false.
Proof.
  intros H. destruct (N.eqb_spec c 37) as [->|]; [|reflexivity]. rewrite should_escape_37 in H. discriminate.
Qed.

(* what a character that may stand in an encoded path / query is not *)
Lemma valid_char_facts m c :
  valid_char m c = true -> c <> 35 /\ is_ctl c = false /\ (m = EPath -> c <> 63).
Proof.
  intros H. destruct (N.ltb_spec c 128) as [Hc|Hc].
  - pose proof (below_128
      (fun c => implb (valid_char m c)
                      (negb (c =? 35) && negb (is_ctl c) && match m with EPath => negb (c =? 63) | _ => true end))) as B.
    assert (B' := B ltac:(destruct m; vm_compute; reflexivity) c Hc). cbv beta in B'. rewrite H in B'. cbn [implb] in B'.
    apply Bool.andb_true_iff in B' as [B1 B3]. apply Bool.andb_true_iff in B1 as [B1 B2].
    apply Bool.negb_true_iff in B1, B2. apply N.eqb_neq in B1.
    repeat split; [exact B1|exact B2|]. intros ->. apply Bool.negb_true_iff, N.eqb_neq in B3. exact B3.
  - repeat split; try lia. unfold is_ctl.
    destruct (N.ltb_spec c 32); [lia|]. destruct (N.eqb_spec c 127); [lia|]. reflexivity.
Qed.

(* ================= escape / unescape ================= *)
Lemma esc_byte_cases m c :
  (should_escape m c = false /\ esc_byte m c = [c]) \/
  (esc_byte m c = [37; upperhex ((c / 16) mod 16); upperhex (c mod 16)]) \/
  (m = EQuery /\ esc_byte m c = [43]).
Proof.
  unfold esc_byte. destruct (should_escape m c); [|left; split; reflexivity].
  destruct m; try (right; left; reflexivity).
  destruct (c =? 32); [right; right; split; reflexivity|right; left; reflexivity].
Qed.

Lemma valid_char_37 m : valid_char m 37 = true.
Proof. destruct m; reflexivity. Qed.
Lemma valid_char_43 m : valid_char m 43 = true.
Proof. destruct m; reflexivity. Qed.
Lemma valid_char_alnum m c : is_alnum c = true -> valid_char m c = true.
Proof. intros H. unfold valid_char. rewrite (should_escape_alnum m c H). apply Bool.orb_true_r. Qed.

Lemma esc_byte_valid m c x : In x (esc_byte m c) -> valid_char m x = true.
Proof.
  destruct (esc_byte_cases m c) as [[S ->]|[->|[_ ->]]]; simpl; intros HI.
  - destruct HI as [<-|[]]. unfold valid_char. rewrite S. apply Bool.orb_true_r.
  - destruct HI as [<-|[<-|[<-|[]]]].
    + apply valid_char_37.
    + apply valid_char_alnum, upperhex_alnum, mod16_lt.
    + apply valid_char_alnum, upperhex_alnum, mod16_lt.
  - destruct HI as [<-|[]]. apply valid_char_43.
Qed.

Lemma escape_chars m s x : In x (escape m s) -> valid_char m x = true.
Proof.
  unfold escape. intros HI. apply in_flat_map in HI as (c & _ & HI). exact (esc_byte_valid m c x HI).
Qed.

(* the result of escape is a valid encoding ... *)
Lemma valid_encoded_escape m s : valid_encoded m (escape m s) = true.
Proof. unfold valid_encoded. apply forallb_forall. intros x. apply escape_chars. Qed.

(* ... whose escapes are well-formed *)
Lemma escapes_ok_escape m s : escapes_ok (escape m s) = true.
Proof.
  induction s as [|c s IH]; [reflexivity|].
  unfold escape in *. cbn [flat_map].
  destruct (esc_byte_cases m c) as [[S ->]|[->|[_ ->]]].
  - cbn [app escapes_ok]. rewrite (not_escaped_not_37 m c S). exact IH.
  - cbn [app escapes_ok]. change (37 =? 37) with true. cbv iota.
    rewrite !upperhex_ishex by apply mod16_lt. exact IH.
  - cbn [app escapes_ok]. change (43 =? 37) with false. exact IH.
Qed.

(* unescape fails exactly on a malformed escape *)
Lemma unescape_ok_len plus : forall n s, (length s <= n)%nat ->
  (escapes_ok s = true -> exists t, unescape plus s = Some t) /\
  (escapes_ok s = false -> unescape plus s = None).
Proof.
  induction n as [|n IH]; intros s Hl.
  - destruct s; [|simpl in Hl; lia]. split; [exists []; reflexivity|discriminate].
  - destruct s as [|c r]; [split; [exists []; reflexivity|discriminate]|].
    cbn [escapes_ok unescape]. destruct (c =? 37).
    + destruct r as [|a [|b r']]; try (split; [discriminate|reflexivity]).
      destruct (ishex a && ishex b); [|split; [discriminate|reflexivity]].
      cbn [andb]. destruct (IH r' ltac:(simpl in Hl; lia)) as [I1 I2]. split; intros H.
      * destruct (I1 H) as (t & ->). eexists; reflexivity.
      * rewrite (I2 H). reflexivity.
    + destruct (IH r ltac:(simpl in Hl; lia)) as [I1 I2]. split; intros H.
      * destruct (I1 H) as (t & ->). eexists; reflexivity.
      * rewrite (I2 H). reflexivity.
Qed.

Lemma unescape_some plus s : escapes_ok s = true -> exists t, unescape plus s = Some t.
Proof. exact (proj1 (unescape_ok_len plus (length s) s (le_n _))). Qed.
Lemma unescape_none plus s : escapes_ok s = false -> unescape plus s = None.
Proof. exact (proj2 (unescape_ok_len plus (length s) s (le_n _))). Qed.
Lemma unescape_some_ok plus s t : unescape plus s = Some t -> escapes_ok s = true.
Proof.
  intros H. destruct (escapes_ok s) eqn:E; [reflexivity|]. rewrite (unescape_none plus s E) in H. discriminate.
Qed.

(* ================= splitting ================= *)
Lemma split_first_notin sep a : ~ In sep a -> split_first sep a = (a, None).
Proof.
  induction a as [|c a IH]; intros H; [reflexivity|].
  cbn [split_first]. destruct (N.eqb_spec c sep) as [->|_]; [exfalso; apply H; left; reflexivity|].
  rewrite IH; [reflexivity|]. intros HI; apply H; right; exact HI.
Qed.

Lemma split_first_app sep a b : ~ In sep a -> split_first sep (a ++ sep :: b) = (a, Some b).
Proof.
  induction a as [|c a IH]; intros H.
  - simpl. rewrite N.eqb_refl. reflexivity.
  - cbn [app split_first]. destruct (N.eqb_spec c sep) as [->|_]; [exfalso; apply H; left; reflexivity|].
    rewrite IH; [reflexivity|]. intros HI; apply H; right; exact HI.
Qed.

Lemma valid_encoded_all m s x : valid_encoded m s = true -> In x s -> valid_char m x = true.
Proof. unfold valid_encoded. rewrite forallb_forall. intros H. apply H. Qed.

Lemma no_ctl_valid m s : (forall x, In x s -> valid_char m x = true) -> existsb is_ctl s = false.
Proof.
  intros H. induction s as [|c s IH]; [reflexivity|]. cbn [existsb].
  destruct (valid_char_facts m c (H c (or_introl eq_refl))) as (_ & -> & _). cbn [orb].
  apply IH. intros x Hx. apply H. right. exact Hx.
Qed.

Lemma existsb_app_false {A} (f : A -> bool) a b : existsb f a = false -> existsb f b = false -> existsb f (a ++ b) = false.
Proof. intros Ha Hb. rewrite existsb_app, Ha, Hb. reflexivity. Qed.

(* ================= EscapedPath after setPath ================= *)
(* what setPath stores for the escaped form e, and what EscapedPath then returns *)
Lemma escaped_path_set e t f q fr rf :
  unescape false e = Some t ->
  escaped_path (mk_url t (if bytes_eqb (escape EPath t) e then [] else e) f q fr rf) =
  if valid_encoded EPath e then e else escape EPath t.
Proof.
  intros U. unfold escaped_path. cbn [u_rawpath u_path].
  destruct (bytes_eqb_spec (escape EPath t) e) as [E|NE].
  - cbn [nonempty andb]. subst e. rewrite valid_encoded_escape. reflexivity.
  - assert (nonempty e = true) as ->.
    { destruct e; [|reflexivity]. simpl in U. injection U as <-. exfalso. apply NE. reflexivity. }
    rewrite U. cbn [opt_bytes_eqb andb]. rewrite bytes_eqb_refl, Bool.andb_true_r. reflexivity.
Qed.

Lemma escaped_fragment_ok u : escapes_ok (escaped_fragment u) = true.
Proof.
  unfold escaped_fragment.
  destruct (nonempty (u_rawfrag u) && valid_encoded EFragment (u_rawfrag u)
            && opt_bytes_eqb (unescape false (u_rawfrag u)) (u_frag u)) eqn:E; [|apply escapes_ok_escape].
  apply Bool.andb_true_iff in E as [_ E]. destruct (unescape false (u_rawfrag u)) eqn:U; [|discriminate].
  exact (unescape_some_ok _ _ _ U).
Qed.

(* the escaped path net/url settles on for the path p as written *)
Definition path_esc (p : bytes) : bytes :=
  if valid_encoded EPath p then p
  else match unescape false p with Some t => escape EPath t | None => p end.

Lemma path_esc_valid p :
  escapes_ok p = true -> valid_encoded EPath (path_esc p) = true /\ escapes_ok (path_esc p) = true.
Proof.
  intros H. unfold path_esc. destruct (valid_encoded EPath p) eqn:V; [split; assumption|].
  destruct (unescape_some false p H) as (t & ->). split; [apply valid_encoded_escape|apply escapes_ok_escape].
Qed.

(* ================= url.Parse of a reference ================= *)
(* parse_ref in terms of the parts of the URI *)
Lemma parse_ref_ok uri :
  uri_wellformed uri = true ->
  exists u, parse_ref uri = Some u /\
    escaped_path u = path_esc (uri_path uri) /\
    u_force u = opt_bytes_eqb (uri_rawquery uri) [] /\
    u_rawquery u = (match uri_rawquery uri with Some q => q | None => [] end) /\
    (exists t, unescape false (uri_path uri) = Some t).
Proof.
  unfold uri_wellformed, uri_path, uri_rawquery, uri_frag, uri_nofrag, parse_ref.
  destruct (split_first 35 uri) as [u frag]. cbn [fst snd].
  destruct (split_first 63 u) as [rest q]. cbn [fst snd].
  intros H. apply Bool.andb_true_iff in H as [H Hf]. apply Bool.andb_true_iff in H as [Hc Hp].
  apply Bool.negb_true_iff in Hc. rewrite Hc.
  destruct (unescape_some false rest Hp) as (t & U). rewrite U.
  assert (EP : forall f rq fr rf,
             escaped_path (mk_url t (if bytes_eqb (escape EPath t) rest then [] else rest) f rq fr rf) = path_esc rest).
  { intros. rewrite escaped_path_set by exact U. unfold path_esc. rewrite U. reflexivity. }
  assert (FQ : match q with Some [] => true | _ => false end = opt_bytes_eqb q []).
  { destruct q as [[|? ?]|]; reflexivity. }
  destruct frag as [[|c f]|].
  - eexists. split; [reflexivity|]. cbn [u_force u_rawquery]. repeat split; [apply EP|exact FQ|exists t; reflexivity].
  - destruct (unescape_some false (c :: f) Hf) as (fr & ->).
    eexists. split; [reflexivity|]. cbn [u_force u_rawquery]. repeat split; [apply EP|exact FQ|exists t; reflexivity].
  - eexists. split; [reflexivity|]. cbn [u_force u_rawquery]. repeat split; [apply EP|exact FQ|exists t; reflexivity].
Qed.

Lemma parse_ref_bad uri : uri_wellformed uri = false -> parse_ref uri = None.
Proof.
  unfold uri_wellformed, uri_path, uri_rawquery, uri_frag, uri_nofrag, parse_ref.
  destruct (split_first 35 uri) as [u frag]. cbn [fst snd].
  destruct (split_first 63 u) as [rest q]. cbn [fst snd].
  intros H. destruct (existsb is_ctl u); [reflexivity|]. cbn [negb andb] in H.
  destruct (escapes_ok rest) eqn:Hp.
  - destruct (unescape_some false rest Hp) as (t & ->). cbn [andb] in H.
    destruct frag as [f|]; [|discriminate]. destruct f as [|c f]; [discriminate|].
    rewrite (unescape_none false _ H). reflexivity.
  - rewrite (unescape_none false _ Hp). reflexivity.
Qed.

(* ================= the second Parse: what http.NewRequest reads from URL.String() ================= *)
Lemma request_uri_set e t fr rf :
  valid_encoded EPath e = true -> unescape false e = Some t ->
  forall (oq : option bytes),
  request_uri (mk_url t (if bytes_eqb (escape EPath t) e then [] else e)
                      (match oq with Some [] => true | _ => false end)
                      (match oq with Some q => q | None => [] end) fr rf) =
  or_slash e ++ (match oq with Some q => 63 :: q | None => [] end).
Proof.
  intros V U oq. unfold request_uri. rewrite escaped_path_set by exact U. rewrite V.
  f_equal. unfold query_part. cbn [u_force u_rawquery]. destruct oq as [[|c q']|]; reflexivity.
Qed.

Lemma parse_ref_built e q ef (hasq hasf : bool) :
  valid_encoded EPath e = true -> escapes_ok e = true ->
  (forall x, In x q -> valid_char EQuery x = true) ->
  escapes_ok ef = true ->
  exists u2, parse_ref (e ++ (if hasq then 63 :: q else []) ++ (if hasf then 35 :: ef else [])) = Some u2 /\
             request_uri u2 = or_slash e ++ (if hasq then 63 :: q else []).
Proof.
  intros V Ee Hq Ef.
  set (qp := if hasq then 63 :: q else []).
  assert (Hqp : forall x, In x (e ++ qp) -> x <> 35 /\ is_ctl x = false).
  { intros x HI. apply in_app_or in HI as [HI|HI].
    - destruct (valid_char_facts EPath x (valid_encoded_all _ _ _ V HI)) as (A & B & _). split; assumption.
    - unfold qp in HI. destruct hasq; [|destruct HI]. destruct HI as [<-|HI]; [split; [discriminate|reflexivity]|].
      destruct (valid_char_facts EQuery x (Hq x HI)) as (A & B & _). split; assumption. }
  assert (N35 : ~ In 35 (e ++ qp)) by (intros HI; apply (proj1 (Hqp 35 HI)); reflexivity).
  assert (NC : existsb is_ctl (e ++ qp) = false).
  { destruct (existsb is_ctl (e ++ qp)) eqn:X; [|reflexivity].
    apply existsb_exists in X as (x & HI & HX). rewrite (proj2 (Hqp x HI)) in HX. discriminate. }
  assert (N63 : ~ In 63 e).
  { intros HI. destruct (valid_char_facts EPath 63 (valid_encoded_all _ _ _ V HI)) as (_ & _ & C). apply C; reflexivity. }
  destruct (unescape_some false e Ee) as (t & U).
  assert (S63 : split_first 63 (e ++ qp) = (e, if hasq then Some q else None)).
  { unfold qp. destruct hasq; [apply split_first_app; exact N63|]. rewrite app_nil_r. apply split_first_notin; exact N63. }
  assert (S35 : split_first 35 (e ++ qp ++ (if hasf then 35 :: ef else [])) = (e ++ qp, if hasf then Some ef else None)).
  { rewrite app_assoc. destruct hasf; [apply split_first_app; exact N35|]. rewrite app_nil_r. apply split_first_notin; exact N35. }
  unfold parse_ref. fold qp. rewrite S35, NC, S63, U.
  assert (R := request_uri_set e t).
  destruct hasf; [destruct ef as [|c f]|].
  - eexists. split; [reflexivity|]. refine (eq_trans (R [] [] V U (if hasq then Some q else None)) _). unfold qp. destruct hasq; reflexivity.
  - destruct (unescape_some false (c :: f) Ef) as (fr & ->).
    eexists. split; [reflexivity|]. refine (eq_trans (R _ _ V U (if hasq then Some q else None)) _). unfold qp. destruct hasq; reflexivity.
  - eexists. split; [reflexivity|]. refine (eq_trans (R [] [] V U (if hasq then Some q else None)) _). unfold qp. destruct hasq; reflexivity.
Qed.

(* ================= url.Values.Encode ================= *)
Lemma in_join sep l x : In x (join sep l) -> x = sep \/ exists w, In w l /\ In x w.
Proof.
  induction l as [|w l IH]; [intros []|].
  destruct l as [|w' l'].
  - simpl. intros HI. right. exists w. split; [left; reflexivity|exact HI].
  - rewrite join_cons by discriminate. intros HI. apply in_app_or in HI as [HI|[<-|HI]].
    + right. exists w. split; [left; reflexivity|exact HI].
    + left. reflexivity.
    + destruct (IH HI) as [->|(w0 & Hw & Hx)]; [left; reflexivity|].
      right. exists w0. split; [right; exact Hw|exact Hx].
Qed.

(* the encoded query is made of unreserved characters, '%', '+', '=' and '&' only: whatever the keys and
   values are, they cannot end the query, start a fragment or break the request line *)
Lemma values_encode_chars m x : In x (values_encode m) -> valid_char EQuery x = true.
Proof.
  unfold values_encode. intros HI. apply in_join in HI as [->|(w & Hw & Hx)]; [reflexivity|].
  apply in_flat_map in Hw as (k & _ & Hw). apply in_map_iff in Hw as (v & <- & _).
  apply in_app_or in Hx as [Hx|[<-|Hx]]; [exact (escape_chars _ _ _ Hx)|reflexivity|exact (escape_chars _ _ _ Hx)].
Qed.

(* ================= raw_request ================= *)
Section Request.
  Variable compress : N -> bytes -> bytes.

  Lemma add_encq_vals es : forall q,
    Forall (fun e => contents_ok (e_value e)) es ->
    exists q', add_encq compress es q = Some q' /\
               forall k, hm_vals k q' = hm_vals k q ++ enc_values_of compress k es.
  Proof.
    induction es as [|e es IH]; intros q HF.
    - exists q. split; [reflexivity|]. intros k. simpl. now rewrite app_nil_r.
    - inversion HF as [|? ? He HF']; subst. cbn [add_encq]. unfold enc_value.
      rewrite (message_exact_proof compress _ He).
      destruct (IH (qm_add (e_name e) [if e_b64 e then b64url (payload_of compress (e_value e))
                                       else payload_of compress (e_value e)] q) HF') as (q' & E & V).
      exists q'. split; [exact E|]. intros k. rewrite V, qm_add_vals. unfold enc_values_of. cbn [flat_map].
      unfold enc_text. destruct (bytes_eqb k (e_name e)); [now rewrite <- app_assoc|reflexivity].
  Qed.

  Lemma has_params_false r : has_params r = false -> q_rawq r = [] /\ q_encq r = [].
  Proof. unfold has_params. destruct (q_rawq r), (q_encq r); try discriminate. split; reflexivity. Qed.

  Lemma path_on_wire_esc p : path_on_wire p = or_slash (path_esc p).
  Proof. reflexivity. Qed.

  Lemma request_exact_proof orig r :
    token (q_verb r) -> Forall (fun e => contents_ok (e_value e)) (q_encq r) ->
    uri_class (q_uri r) (has_params r) = UOrigin -> uri_wellformed (q_uri r) = true ->
    exists s, raw_request compress orig r = RSent s /\
      s_method s = match q_verb r with [] => bs "GET" | v => v end /\
      s_body s = fst (write_body compress (q_body r)) /\
      (forall k, hm_vals k (s_headers s) = values_of k (q_headers r)) /\
      (forall k, hm_vals k (s_query s) =
                 hm_vals k (uri_query (q_uri r)) ++ qvalues_of k (q_rawq r) ++ enc_values_of compress k (q_encq r)) /\
      s_target s = path_on_wire (uri_path (q_uri r)) ++
                   query_on_wire (q_uri r) (if has_params r then Some (s_query s) else None).
  Proof.
    intros Tv HF HC WF. unfold raw_request. rewrite HC. unfold merged_uri.
    destruct (parse_ref_ok (q_uri r) WF) as (u & PU & EP & FO & RQ & _).
    unfold token in Tv.
    destruct (has_params r) eqn:HP.
    - rewrite PU.
      destruct (add_encq_vals (q_encq r)
                  (fold_left (fun m h => qm_add (h_name h) (h_vals h) m) (q_rawq r) (parse_query (u_rawquery u))) HF)
        as (q2 & E & V).
      rewrite E, Tv.
      set (enc := values_encode q2).
      assert (ES : url_string (mk_url (u_path u) (u_rawpath u) (u_force u) enc (u_frag u) (u_rawfrag u)) =
                   path_esc (uri_path (q_uri r)) ++ (if u_force u || nonempty enc then 63 :: enc else []) ++
                   (if nonempty (u_frag u) then 35 :: escaped_fragment u else [])).
      { unfold url_string, query_part. cbn [u_force u_rawquery u_frag]. rewrite <- EP. reflexivity. }
      rewrite ES.
      assert (WFp : escapes_ok (uri_path (q_uri r)) = true).
      { unfold uri_wellformed in WF. apply Bool.andb_true_iff in WF as [WF _]. apply Bool.andb_true_iff in WF as [_ WF]. exact WF. }
      destruct (path_esc_valid _ WFp) as (PV & PE).
      destruct (parse_ref_built (path_esc (uri_path (q_uri r))) enc (escaped_fragment u)
                                (u_force u || nonempty enc) (nonempty (u_frag u)) PV PE
                                (values_encode_chars q2) (escaped_fragment_ok u)) as (u2 & P2 & R2).
      rewrite P2. eexists. split; [reflexivity|]. cbn [s_method s_body s_headers s_query s_target].
      repeat split.
      + intros k. rewrite add_headers_vals. reflexivity.
      + intros k. rewrite V, rawq_vals, <- app_assoc. unfold uri_query. rewrite RQ. reflexivity.
      + rewrite R2, path_on_wire_esc. unfold query_on_wire. rewrite FO. reflexivity.
    - rewrite Tv, PU. eexists. split; [reflexivity|]. cbn [s_method s_body s_headers s_query s_target].
      destruct (has_params_false r HP) as (-> & ->).
      repeat split.
      + intros k. rewrite add_headers_vals. reflexivity.
      + intros k. unfold uri_query. rewrite RQ. cbn. rewrite app_nil_r. reflexivity.
      + unfold request_uri. rewrite EP, path_on_wire_esc. f_equal.
        unfold query_part, query_on_wire. rewrite FO, RQ.
        destruct (uri_rawquery (q_uri r)) as [[|c q]|]; reflexivity.
  Qed.

  (* a URI that runs into the authority, a control byte or a malformed escape: nothing is sent to the given server *)
  Lemma request_refused_proof orig r :
    uri_class (q_uri r) (has_params r) = UGlued \/
    (uri_class (q_uri r) (has_params r) = UOrigin /\ uri_wellformed (q_uri r) = false) ->
    raw_request compress orig r = RError.
  Proof.
    intros [HC|[HC WF]]; unfold raw_request; rewrite HC; [reflexivity|].
    unfold merged_uri. destruct (has_params r); rewrite (parse_ref_bad _ WF); [reflexivity|].
    destruct (forallb is_token_char (q_verb r)); reflexivity.
  Qed.

  (* nothing of the request that had been built survives *)
  Lemma request_ignores_orig_proof o1 o2 r : raw_request compress o1 r = raw_request compress o2 r.
  Proof. reflexivity. Qed.
End Request.

(* a path written with path characters and well-formed escapes only goes out byte for byte *)
Lemma path_verbatim_proof p : valid_encoded EPath p = true -> p <> [] -> path_on_wire p = p.
Proof. intros V NE. unfold path_on_wire. rewrite V. destruct p; [congruence|reflexivity]. Qed.

(* ================= re-encoding keeps the meaning ================= *)
Lemma unhex_upperhex n : n < 16 -> unhex (upperhex n) = n.
Proof.
  intros H. apply N.eqb_eq. revert n H. apply (below_16 (fun n => unhex (upperhex n) =? n)). vm_compute. reflexivity.
Qed.

Lemma unescape_escape_path t : Forall (fun c => c < 256) t -> unescape false (escape EPath t) = Some t.
Proof.
  induction 1 as [|c t Hc _ IH]; [reflexivity|].
  unfold escape in *. cbn [flat_map].
  destruct (esc_byte_cases EPath c) as [[S ->]|[->|[? _]]]; [| |discriminate].
  - cbn [app unescape]. rewrite (not_escaped_not_37 _ _ S), IH. reflexivity.
  - cbn [app unescape]. change (37 =? 37) with true. cbv iota.
    rewrite !upperhex_ishex by apply mod16_lt. cbn [andb]. rewrite IH.
    rewrite !unhex_upperhex by apply mod16_lt.
    rewrite (N.mod_small (c / 16) 16) by (apply N.div_lt_upper_bound; [discriminate|exact Hc]).
    do 2 f_equal. rewrite N.mul_comm. symmetry. apply N.div_mod. discriminate.
Qed.

Lemma unescape_bytes : forall n s t, (length s <= n)%nat ->
  Forall (fun c => c < 256) s -> unescape false s = Some t -> Forall (fun c => c < 256) t.
Proof.
  induction n as [|n IH]; intros s t Hl HF U.
  - destruct s; [|simpl in Hl; lia]. injection U as <-. constructor.
  - destruct s as [|c r]; [injection U as <-; constructor|].
    cbn [unescape] in U. inversion HF as [|? ? Hc HF']; subst. destruct (c =? 37).
    + destruct r as [|a [|b r']]; try discriminate.
      destruct (ishex a && ishex b) eqn:HX; [|discriminate].
      destruct (unescape false r') as [t'|] eqn:U'; [|discriminate]. injection U as <-.
      inversion HF' as [|? ? _ HF'']; subst. inversion HF'' as [|? ? _ HF3]; subst.
      constructor; [|apply (IH r' t' ltac:(simpl in Hl; lia) HF3 U')].
      assert (HU : forall x, unhex x < 16).
      { intros x. unfold unhex. destruct (is_digit x) eqn:D.
        - unfold is_digit in D. apply Bool.andb_true_iff in D as [D1 D2]. apply N.leb_le in D1, D2. lia.
        - destruct ((97 <=? x) && (x <=? 102)) eqn:D2.
          + apply Bool.andb_true_iff in D2 as [A B]. apply N.leb_le in A, B. lia.
          + destruct ((65 <=? x) && (x <=? 70)) eqn:D3; [|lia].
            apply Bool.andb_true_iff in D3 as [A B]. apply N.leb_le in A, B. lia. }
      pose proof (HU a). pose proof (HU b). lia.
    + destruct (unescape false r) as [t'|] eqn:U'; [|discriminate]. injection U as <-.
      cbn [andb]. constructor; [exact Hc|apply (IH r t' ltac:(simpl in Hl; lia) HF' U')].
Qed.

Lemma path_meaning_proof p t :
  Forall (fun c => c < 256) p -> unescape false p = Some t -> unescape false (path_on_wire p) = Some (or_slash t).
Proof.
  intros HF U. unfold path_on_wire. rewrite U.
  destruct (valid_encoded EPath p) eqn:V.
  - destruct p; [injection U as <-; reflexivity|]. cbn [or_slash]. rewrite U.
    destruct t; [|reflexivity]. exfalso. cbn [unescape] in U. destruct (n =? 37).
    + destruct p as [|a [|b r]]; try discriminate. destruct (ishex a && ishex b); [|discriminate].
      destruct (unescape false r); discriminate.
    + destruct (unescape false p); discriminate.
  - pose proof (unescape_escape_path t (unescape_bytes _ _ _ (le_n _) HF U)) as R.
    destruct t as [|c t']; [reflexivity|].
    assert (NE : escape EPath (c :: t') <> []).
    { unfold escape. cbn [flat_map]. destruct (esc_byte_cases EPath c) as [[_ ->]|[->|[_ ->]]]; discriminate. }
    destruct (escape EPath (c :: t')) eqn:E; [congruence|]. cbn [or_slash]. exact R.
Qed.
