(* C15_Spec.v — what the property text asks for, stated without reference to how http2.go is coded.

   L2 (bytes -> frames, per direction).  The frames handed to the stream layer must depend on the BYTES
   of the direction only, not on how they were cut into Read/Write calls:
        feeding the chunks one by one  =  feeding their concatenation at once.
   `ft_feed` is the chunk-by-chunk use of the tracer that Read/Write make.

   L1 (the caller's view).  `transparent_res` relates an op to what the caller must get back: exactly the
   inner conn's bytes, count and error.

   L3 (frames -> traces).  A stream's fate may depend only on the frames that concern it: its own
   (same stream id) and GOAWAYs (`concerns`); `completions_of` are the traces a stream's builder handed over. *)
From V Require Export C15_Model.
Open Scope N_scope.

Section L2.
Variable dec : list bytes -> bytes -> option (list field).

Fixpoint ft_feed (st : ftr) (chunks : list bytes) : ftr * list dframe :=
  match chunks with
  | [] => (st, [])
  | c :: r =>
    match ft_trace dec st c with
    | (st1, o1) => match ft_feed st1 r with (st2, o2) => (st2, o1 ++ o2) end
    end
  end.

(* the one-shot parse of a direction's whole byte stream *)
Definition one_shot (isreq : bool) (stream : bytes) : list dframe := snd (ft_trace dec (ft_init isreq) stream).
End L2.

(* L1 *)
Definition transparent_res (o : op) (r : opres) : Prop :=
  match o, r with
  | ORead data e, RRead data' e' => data' = data /\ e' = e
  | OWrite data k e, RWrite given k' e' => given = data /\ k' = k /\ e' = e
  | OClose e, RClose e' => e' = e
  | OTimesUp _, RTimer => True
  | _, _ => False
  end.

(* L3 *)
Definition concerns (s : N) (e : bool * dframe) : bool :=
  match snd e with
  | FGoAway _ _ => true
  | f => match fsid f with Some s' => s' =? s | None => false end
  end.

Definition completions_of (s : N) (acts : list cact) : list btrace :=
  flat_map (fun a => match a with CComplete s' t => if s' =? s then [t] else [] | _ => [] end) acts.

(* all frames of a connection, both directions, in the order they were completed *)
Fixpoint sm_run (client : bool) (st : sm) (fs : list (bool * dframe)) : option (sm * list cact) :=
  match fs with
  | [] => Some (st, [])
  | (isreq, f) :: r =>
    match sm_frame client st isreq f with
    | None => None
    | Some (st1, a1) =>
      match sm_run client st1 r with
      | None => None
      | Some (st2, a2) => Some (st2, a1 ++ a2)
      end
    end
  end.
