(* C15_Spec.v — placeholder, replaced below *)
From V Require Export C15_Model.
