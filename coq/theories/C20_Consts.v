(* C20_Consts.v - REGENERATED on every run from the compiled Go code by TestVerifConsts
   (harness/C20); do not edit. *)
From Coq Require Import ZArith NArith List.
Import ListNotations.
(* internal/compression: name constants; GetCompressor / GetDecompressor per enum value
   (algorithm found by exchanging a probe with the libraries; -1 = error); New* constructors *)
Definition c20_names : list (Z * list N) := [(1%Z, [105%N; 100%N; 101%N; 110%N; 116%N; 105%N; 116%N; 121%N]); (2%Z, [103%N; 122%N; 105%N; 112%N]); (3%Z, [98%N; 114%N]); (4%Z, [122%N; 115%N; 116%N; 100%N]); (5%Z, [100%N; 101%N; 102%N; 108%N; 97%N; 116%N; 101%N]); (6%Z, [115%N; 110%N; 97%N; 112%N; 112%N; 121%N])].
Definition c20_enum_max : Z := 6%Z.
Definition c20_get_compressor : list (Z * Z) := [(-1, -1); (0, 1); (1, 1); (2, 2); (3, 3); (4, 4); (5, 5); (6, 6); (7, -1); (8, -1)]%Z.
Definition c20_get_decompressor : list (Z * Z) := [(-1, -1); (0, 1); (1, 1); (2, 2); (3, 3); (4, 4); (5, 5); (6, 6); (7, -1); (8, -1)]%Z.
Definition c20_constructors : list (Z * (Z * Z)) := [(3, (3, 3)); (4, (4, 4)); (5, (5, 5)); (6, (6, 6))]%Z.
(* internal/tracer GetDecompressor(name): algorithm decoded, 0 = none *)
Definition c20_tracer : list (list N * Z) := [([], (1)%Z); ([105%N; 100%N; 101%N; 110%N; 116%N; 105%N; 116%N; 121%N], (1)%Z); ([103%N; 122%N; 105%N; 112%N], (2)%Z); ([98%N; 114%N], (3)%Z); ([122%N; 115%N; 116%N; 100%N], (4)%Z); ([100%N; 101%N; 102%N; 108%N; 97%N; 116%N; 101%N], (5)%Z); ([115%N; 110%N; 97%N; 112%N; 112%N; 121%N], (6)%Z); ([73%N; 68%N; 69%N; 78%N; 84%N; 73%N; 84%N; 89%N], (1)%Z); ([71%N; 90%N; 73%N; 80%N], (2)%Z); ([66%N; 82%N], (3)%Z); ([90%N; 83%N; 84%N; 68%N], (4)%Z); ([68%N; 69%N; 70%N; 76%N; 65%N; 84%N; 69%N], (5)%Z); ([83%N; 78%N; 65%N; 80%N; 80%N; 89%N], (6)%Z); ([71%N; 122%N; 105%N; 112%N], (2)%Z); ([120%N; 45%N; 103%N; 122%N; 105%N; 112%N], (0)%Z); ([122%N; 108%N; 105%N; 98%N], (0)%Z); ([98%N; 114%N; 111%N; 116%N; 108%N; 105%N], (0)%Z); ([108%N; 122%N; 52%N], (0)%Z)].
(* internal/app/referenceserver checkCompression: per expected enum value, the names it accepts
   (of: the six names, "", GZIP, zlib, brotli) under all four header / query variants *)
Definition c20_server_check : list (Z * list (list N)) := [((-1)%Z, []); ((0)%Z, []); ((1)%Z, [[105%N; 100%N; 101%N; 110%N; 116%N; 105%N; 116%N; 121%N]]); ((2)%Z, [[103%N; 122%N; 105%N; 112%N]]); ((3)%Z, [[98%N; 114%N]]); ((4)%Z, [[122%N; 115%N; 116%N; 100%N]]); ((5)%Z, [[100%N; 101%N; 102%N; 108%N; 97%N; 116%N; 101%N]]); ((6)%Z, [[115%N; 110%N; 97%N; 112%N; 112%N; 121%N]]); ((7)%Z, []); ((8)%Z, [])].
(* the live reference server: per encoding name, the algorithm a request body must be compressed with to be
   accepted (0 none) and the algorithm of the response body when the name is offered *)
Definition c20_server_live : list (list N * (Z * Z)) := [([105%N; 100%N; 101%N; 110%N; 116%N; 105%N; 116%N; 121%N], ((1)%Z, (1)%Z)); ([103%N; 122%N; 105%N; 112%N], ((2)%Z, (2)%Z)); ([98%N; 114%N], ((3)%Z, (3)%Z)); ([122%N; 115%N; 116%N; 100%N], ((4)%Z, (4)%Z)); ([100%N; 101%N; 102%N; 108%N; 97%N; 116%N; 101%N], ((5)%Z, (5)%Z)); ([115%N; 110%N; 97%N; 112%N; 112%N; 121%N], ((6)%Z, (6)%Z)); ([71%N; 90%N; 73%N; 80%N], ((0)%Z, (1)%Z)); ([120%N; 45%N; 103%N; 122%N; 105%N; 112%N], ((0)%Z, (1)%Z)); ([122%N; 108%N; 105%N; 98%N], ((0)%Z, (1)%Z)); ([108%N; 122%N; 52%N], ((0)%Z, (1)%Z))].
(* the live reference client: per requested enum value, the Content-Encoding it announces, the algorithm the
   request body is really compressed with (1 = not compressed), the names offered in Accept-Encoding *)
Definition c20_client_live : list (Z * (list N * Z * list (list N))) := [((0)%Z, ([], (1)%Z, [])); ((1)%Z, ([], (1)%Z, [])); ((2)%Z, ([103%N; 122%N; 105%N; 112%N], (2)%Z, [[103%N; 122%N; 105%N; 112%N]])); ((3)%Z, ([98%N; 114%N], (3)%Z, [[98%N; 114%N]])); ((4)%Z, ([122%N; 115%N; 116%N; 100%N], (4)%Z, [[122%N; 115%N; 116%N; 100%N]])); ((5)%Z, ([100%N; 101%N; 102%N; 108%N; 97%N; 116%N; 101%N], (5)%Z, [[100%N; 101%N; 102%N; 108%N; 97%N; 116%N; 101%N]])); ((6)%Z, ([115%N; 110%N; 97%N; 112%N; 112%N; 121%N], (6)%Z, [[115%N; 110%N; 97%N; 112%N; 112%N; 121%N]])); ((7)%Z, ([], (1)%Z, []))].
(* internal/raw_http_body.go WriteRawMessageContents: algorithm per enum value, -1 = error *)
Definition c20_raw : list (Z * Z) := [(-1, -1); (0, 1); (1, 1); (2, 2); (3, 3); (4, 4); (5, 5); (6, 6); (7, -1); (8, -1)]%Z.
