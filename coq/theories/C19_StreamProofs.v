(* C19_StreamProofs.v — the limit is per message (streams), and the loader's decision which test
   cases get expanded.  Proofs for the second group of theorems of C19_Props.v. *)
From Coq Require Import Lia.
From V Require Import C19_Spec C19_Proofs.
Open Scope Z_scope.

(* ---------- streams ---------- *)
Lemma stream_sharp_proof : forall limit, stream_sharp_at limit (stream_accepts limit).
Proof.
  intros limit sizes. unfold stream_accepts. rewrite forallb_forall.
  split; intros H s Hs; apply (accepts_sharp_proof limit s), H, Hs.
Qed.

Lemma accepts_sharp_full_proof : forall limit,
  sharp_at limit (accepts limit) /\ stream_sharp_at limit (stream_accepts limit).
Proof. intros limit. split; [apply accepts_sharp_proof|apply stream_sharp_proof]. Qed.

Lemma accepts_false limit s : accepts limit s = false <-> limit < s.
Proof. unfold accepts. rewrite Z.leb_gt. reflexivity. Qed.

Lemma first_rejected_sound limit : forall sizes i,
  first_rejected limit sizes = Some i -> fails_at limit sizes i.
Proof.
  induction sizes as [|s rest IH]; cbn; intros i H; [discriminate|].
  destruct (accepts limit s) eqn:A.
  - destruct (first_rejected limit rest) as [k|] eqn:F; cbn in H; [|discriminate].
    injection H as <-. destruct (IH k eq_refl) as ((x & Hx & Lx) & Before).
    split; [exists x; cbn; auto|].
    intros [|j] y Hj Hy; cbn in Hy.
    + injection Hy as <-. apply (accepts_sharp_proof limit s), A.
    + apply (Before j y); [lia|exact Hy].
  - injection H as <-. split; [exists s; split; [reflexivity|apply accepts_false, A]|].
    intros j y Hj. lia.
Qed.

Lemma fails_at_first limit : forall sizes i,
  fails_at limit sizes i -> first_rejected limit sizes = Some i.
Proof.
  induction sizes as [|s rest IH]; intros i ((x & Hx & Lx) & Before).
  - destruct i; discriminate.
  - cbn. destruct i as [|i]; cbn in Hx.
    + injection Hx as ->. apply accepts_false in Lx. rewrite Lx. reflexivity.
    + assert (A : accepts limit s = true).
      { apply (accepts_sharp_proof limit s). apply (Before O s); [lia|reflexivity]. }
      rewrite A. rewrite (IH i); [reflexivity|].
      split; [exists x; auto|]. intros j y Hj Hy. apply (Before (S j) y); [lia|exact Hy].
Qed.

Lemma stream_fails_at_proof : forall limit sizes i,
  first_rejected limit sizes = Some i <-> fails_at limit sizes i.
Proof. intros. split; [apply first_rejected_sound|apply fails_at_first]. Qed.

Lemma first_rejected_none limit : forall sizes,
  first_rejected limit sizes = None <-> stream_accepts limit sizes = true.
Proof.
  induction sizes as [|s rest IH]; cbn; [tauto|].
  destruct (accepts limit s); cbn.
  - rewrite <- IH. destruct (first_rejected limit rest); cbn; split; congruence.
  - split; discriminate.
Qed.

(* a rejected stream is rejected at exactly one well-defined message; an accepted one nowhere *)
Lemma stream_verdict_total_proof : forall limit sizes,
  (stream_accepts limit sizes = true /\ first_rejected limit sizes = None) \/
  (stream_accepts limit sizes = false /\ exists i, first_rejected limit sizes = Some i /\ (i < length sizes)%nat).
Proof.
  intros limit sizes. destruct (first_rejected limit sizes) as [i|] eqn:F.
  - right. split.
    + destruct (stream_accepts limit sizes) eqn:A; [|reflexivity].
      apply first_rejected_none in A. congruence.
    + exists i. split; [reflexivity|].
      apply first_rejected_sound in F. destruct F as ((x & Hx & _) & _).
      apply nth_error_Some. congruence.
  - left. split; [apply first_rejected_none, F|reflexivity].
Qed.

(* ---------- the loader ---------- *)
Lemma l_cons_ok ms r out : l_cons ms r = LOk out -> exists t, r = LOk t /\ out = ms :: t.
Proof. destruct r; cbn; intros H; try discriminate. injection H as <-. eauto. Qed.

Lemma codecs_proto_only_spec cs : codecs_proto_only cs = true <-> cs = [codec_proto].
Proof.
  unfold codecs_proto_only. split.
  - intros H. apply andb_true_iff in H as [Len Has].
    destruct cs as [|c [|c' r]]; [discriminate Has| |discriminate Len].
    unfold existsb in Has. rewrite orb_false_r in Has. apply Z.eqb_eq in Has. subst. reflexivity.
  - intros ->. reflexivity.
Qed.

Lemma length_zero_nil {A} (l : list A) : (length l =? 0)%nat = false <-> l <> [].
Proof. destruct l; cbn; split; intros; congruence. Qed.

Lemma expand_case_nil_dirs limit ms : expand_case limit [] ms = COk ms.
Proof. unfold expand_case. cbn. destruct ms; reflexivity. Qed.

Lemma load_cases_ok limit codecs : forall cs i out,
  Forall (fun tc => Forall wf_msg (t_msgs tc)) cs ->
  load_cases limit codecs i cs = LOk out ->
  Forall2 (fun tc ms' => expanded limit (t_dirs tc) (t_msgs tc) ms') cs out.
Proof.
  induction cs as [|tc rest IH]; cbn; intros i out WF H.
  - injection H as <-. constructor.
  - inversion WF as [|? ? Wtc Wrest]; subst.
    destruct (negb (length (t_dirs tc) =? 0)%nat && negb (codecs_proto_only codecs)); [discriminate|].
    destruct (expand_case limit (t_dirs tc) (t_msgs tc)) as [ms'| |] eqn:E; try discriminate.
    apply l_cons_ok in H as (t & Ht & ->).
    constructor; [apply expand_case_sound_proof; assumption|eapply IH; eassumption].
Qed.

Lemma load_cases_err limit codecs : forall cs i k e,
  Forall (fun tc => Forall wf_msg (t_msgs tc)) cs ->
  load_cases limit codecs i cs = LErr k e ->
  exists j tc, k = (i + j)%nat /\ nth_error cs j = Some tc /\ t_dirs tc <> [] /\
    match e with
    | LCodec => codecs <> [codec_proto]
    | LExpand e' => rejection_justified limit (t_dirs tc) (t_msgs tc) e'
    end.
Proof.
  induction cs as [|tc rest IH]; cbn; intros i k e WF H; [discriminate|].
  inversion WF as [|? ? Wtc Wrest]; subst.
  destruct (negb (length (t_dirs tc) =? 0)%nat && negb (codecs_proto_only codecs)) eqn:C.
  - injection H as <- <-. apply andb_true_iff in C as [D P].
    exists O, tc. repeat split; [lia| |].
    + apply length_zero_nil. apply negb_true_iff, D.
    + intros ->. apply negb_true_iff in P. discriminate.
  - destruct (expand_case limit (t_dirs tc) (t_msgs tc)) as [ms'|e'|] eqn:E.
    + destruct (load_cases limit codecs (S i) rest) as [t|k' e''|] eqn:R; cbn in H; try discriminate.
      injection H as <- <-.
      destruct (IH (S i) k' e'' Wrest R) as (j & tc' & -> & Hn & Hd & He).
      exists (S j), tc'. repeat split; [lia|exact Hn|exact Hd|exact He].
    + injection H as <- <-. exists O, tc. repeat split; [lia| |].
      * intros Nil. rewrite Nil, expand_case_nil_dirs in E. discriminate.
      * apply case_complete_proof; assumption.
    + discriminate.
Qed.

Lemma load_cases_total limit codecs : forall cs i,
  Forall (fun tc => Forall wf_msg (t_msgs tc)) cs -> load_cases limit codecs i cs <> LCrash.
Proof.
  induction cs as [|tc rest IH]; cbn; intros i WF; [discriminate|].
  inversion WF as [|? ? Wtc Wrest]; subst.
  destruct (negb (length (t_dirs tc) =? 0)%nat && negb (codecs_proto_only codecs)); [discriminate|].
  destruct (expand_case limit (t_dirs tc) (t_msgs tc)) eqn:E; try discriminate.
  - specialize (IH (S i) Wrest). destruct (load_cases limit codecs (S i) rest); cbn; congruence.
  - exfalso. eapply case_total_proof; eassumption.
Qed.

Lemma marked_is_expanded_or_rejected_proof : forall limit s,
  wf_suite s ->
  match load_suite limit s with
  | LOk out => suite_loaded limit s out
  | LErr i e => load_rejection_justified limit s i e
  | LCrash => False
  end.
Proof.
  intros limit s WF. unfold load_suite.
  destruct (load_cases limit (s_codecs s) 0 (s_cases s)) as [out|i e|] eqn:R.
  - eapply load_cases_ok; eassumption.
  - destruct (load_cases_err _ _ _ _ _ _ WF R) as (j & tc & -> & Hn & Hd & He).
    exists tc. auto.
  - eapply load_cases_total; eassumption.
Qed.

(* the decision depends on the codecs and on (directives, messages) of the cases only: not on
   relies_on_message_receive_limit, not on the mode, not on the stream types *)
Lemma load_cases_marking limit codecs : forall cs cs' i,
  map (fun tc => (t_dirs tc, t_msgs tc)) cs = map (fun tc => (t_dirs tc, t_msgs tc)) cs' ->
  load_cases limit codecs i cs = load_cases limit codecs i cs'.
Proof.
  induction cs as [|tc rest IH]; intros [|tc' rest'] i H; cbn in H; try discriminate; [reflexivity|].
  injection H as Hd Hm Hr. cbn. rewrite Hd, Hm, (IH rest' (S i) Hr). reflexivity.
Qed.

Lemma load_only_marking_proof : forall limit s s',
  same_marking s s' -> load_suite limit s = load_suite limit s'.
Proof.
  intros limit s s' [Hc Hm]. unfold load_suite. rewrite Hc. apply load_cases_marking, Hm.
Qed.

(* in particular: whatever the flag, the mode and the stream types are set to *)
Lemma load_flag_irrelevant_proof : forall limit flag flag' mode mode' codecs cases,
  load_suite limit {| s_flag := flag; s_mode := mode; s_codecs := codecs; s_cases := cases |} =
  load_suite limit {| s_flag := flag'; s_mode := mode'; s_codecs := codecs; s_cases := cases |}.
Proof. reflexivity. Qed.

(* ---------- the readers installed by the set-up code ---------- *)
Lemma documented_chain_is_stream_accepts limit sizes :
  chain_accepts (documented_chain limit) sizes = stream_accepts limit sizes.
Proof. unfold chain_accepts, documented_chain. cbn. apply andb_true_r. Qed.

Lemma documented_chain_sharp_proof : forall limit,
  stream_sharp_at limit (chain_accepts (documented_chain limit)).
Proof.
  intros limit sizes. rewrite documented_chain_is_stream_accepts. apply stream_sharp_proof.
Qed.

(* any non-empty chain of per-message readers that were all handed the limit is as good *)
Lemma per_message_chain_sharp_proof : forall limit kinds cap,
  kinds <> [] -> Forall (fun k => k = 0) kinds ->
  stream_sharp_at limit (chain_accepts (chain_of kinds limit cap)).
Proof.
  intros limit kinds cap NE All sizes. rewrite <- (stream_sharp_proof limit sizes).
  unfold chain_accepts, chain_of. rewrite forallb_forall. split.
  - intros H. destruct kinds as [|k ks]; [congruence|].
    inversion All; subst. apply (H (PerMessage limit)). cbn. auto.
  - intros H r Hr. apply in_map_iff in Hr. destruct Hr as (k & <- & Hk).
    rewrite Forall_forall in All. rewrite (All k Hk). cbn. exact H.
Qed.

Lemma body_length_repeat s : forall n, body_length (repeat s n) = Z.of_nat n * (envelope_prefix + s).
Proof.
  induction n as [|n IH]; [reflexivity|].
  change (body_length (repeat s (S n))) with (envelope_prefix + s + body_length (repeat s n)).
  rewrite IH. lia.
Qed.

(* a bound on the body is never a bound per message: whatever the cap, some stream whose messages
   are all of exactly the limit is refused *)
Lemma body_cap_not_sharp_proof : forall limit cap rs,
  0 <= limit -> In (PerBody cap) rs -> ~ stream_sharp_at limit (chain_accepts rs).
Proof.
  intros limit cap rs L Hin Sharp.
  remember (S (Z.to_nat (Z.max 0 cap))) as n eqn:En.
  assert (A : chain_accepts rs (repeat limit n) = true).
  { apply Sharp. intros s Hs. apply repeat_spec in Hs. lia. }
  unfold chain_accepts in A. rewrite forallb_forall in A. specialize (A _ Hin).
  change (body_length (repeat limit n) <=? cap = true) in A.
  apply Z.leb_le in A. rewrite body_length_repeat in A. unfold envelope_prefix in A.
  assert (N : Z.of_nat n = Z.max 0 cap + 1) by (rewrite En, Nat2Z.inj_succ, Z2Nat.id; lia).
  rewrite N in A. nia.
Qed.

(* the tables regenerated from the set-up code of both reference peers describe the documented chain *)
Lemma installed_readers_documented_proof : forall limit cap,
  chain_of c19_server_read_limiters limit cap = documented_chain limit /\
  chain_of c19_client_read_limiters limit cap = documented_chain limit.
Proof. intros. split; reflexivity. Qed.

(* ---------- fourth wave: the client's limit whatever the codec; a receive error comes first ---------- *)
Lemma client_limit_any_codec_proof : forall codec limit,
  0 < limit -> client_readers codec limit = documented_chain limit /\
               stream_sharp_at limit (chain_accepts (client_readers codec limit)).
Proof.
  intros codec limit L. unfold client_readers. apply Z.ltb_lt in L. rewrite L. split; [reflexivity|].
  intros sizes. cbn. rewrite Bool.andb_true_r. apply stream_sharp_proof.
Qed.

Lemma receive_error_comes_first_proof : forall limit def sizes,
  (client_stream_handler limit def sizes = OExhausted <-> exists s, In s sizes /\ limit < s) /\
  (client_stream_handler limit def sizes = match def with DefData => OResponse | DefError => ODefinedError end
     <-> forall s, In s sizes -> s <= limit).
Proof.
  intros limit def sizes. unfold client_stream_handler.
  pose proof (first_rejected_none limit sizes) as N.
  pose proof (stream_sharp_proof limit sizes) as S.
  destruct (first_rejected limit sizes) as [i|] eqn:F.
  - assert (A : stream_accepts limit sizes <> true) by (intros A; apply N in A; discriminate).
    pose proof (first_rejected_sound limit sizes i F) as ((x & Hx & Lx) & _).
    apply nth_error_In in Hx.
    split; split; intros H.
    + exists x; auto.
    + reflexivity.
    + destruct def; discriminate.
    + exfalso. apply A, S, H.
  - assert (A : stream_accepts limit sizes = true) by (apply N; reflexivity).
    split; split; intros H.
    + destruct def; discriminate.
    + destruct H as (x & Hx & Lx). pose proof (proj1 S A x Hx). lia.
    + apply S, A.
    + reflexivity.
Qed.

(* ---------- fourth wave: where the padding comes from ---------- *)
Lemma unbounded_source_is_expand_proof : forall left base T n,
  pad_loop_src padding_source left base T n = pad_loop left true base T n.
Proof.
  unfold padding_source. induction left as [|left IH]; intros base T n; cbn.
  - reflexivity.
  - destruct (T - msg_size base n =? 0); [reflexivity|].
    destruct (0 <? T - msg_size base n); [apply IH|].
    destruct (slice_to n (Z.max 0 (n + (T - msg_size base n)))); [apply IH|reflexivity].
Qed.

Lemma pad_loop_src_bound c base T : 0 <= c -> forall left n0 n,
  0 <= n0 -> pad_loop_src (Some c) left base T n0 = POk n ->
  0 <= n <= n0 + Z.of_nat left * c /\ msg_size base n = T.
Proof.
  intros C. induction left as [|left IH]; intros n0 n N0; cbn [pad_loop_src].
  - destruct (Z.eqb_spec (T - msg_size base n0) 0) as [E|E]; [|discriminate].
    intros H; injection H as <-. cbn. lia.
  - destruct (Z.eqb_spec (T - msg_size base n0) 0) as [E|E].
    + intros H; injection H as <-. nia.
    + destruct (Z.ltb_spec 0 (T - msg_size base n0)) as [P|P].
      * intros H. apply IH in H; [|lia]. rewrite Nat2Z.inj_succ. nia.
      * destruct (slice_to n0 (Z.max 0 (n0 + (T - msg_size base n0)))) as [k|] eqn:S; [|discriminate].
        apply slice_to_some in S. destruct S as (-> & S).
        intros H. apply IH in H; [|lia]. rewrite Nat2Z.inj_succ. nia.
Qed.

Lemma bounded_source_rejects_reachable_proof : forall c base n0,
  0 <= c -> 0 <= n0 -> n0 + 3 * c + 11 <= go_int_max ->
  let T := msg_size base (n0 + 3 * c + 11) in
  reachable base T /\ forall n, pad_loop_src (Some c) max_adjust base T n0 <> POk n.
Proof.
  intros c base n0 C N0 B T. split.
  - exists (n0 + 3 * c + 11). split; [lia|reflexivity].
  - intros n H. apply pad_loop_src_bound in H; [|assumption|assumption].
    destruct H as (Hn & E). unfold T in E. apply msg_size_h in E.
    change (Z.of_nat max_adjust) with 3 in Hn.
    assert (Hh : 0 <= h n <= 10).
    { destruct (h_cases n) as [[? ->]|[[? ->]|[[? ->]|[[? ->]|[[? ->]|[[? ->]|[? ?]]]]]]]; lia. }
    pose proof (h_nonneg (n0 + 3 * c + 11)).
    unfold msg_size, h in *. lia.
Qed.

(* ---------- fifth wave: the client's limit is the limit of THE REQUEST, whatever the process served before ---------- *)
Lemma client_process_map codec : forall reqs seen,
  client_process codec seen reqs = map (client_request_accepts codec) reqs.
Proof. induction reqs as [|r rest IH]; intros seen; cbn; [reflexivity|]. rewrite IH. reflexivity. Qed.

Lemma client_limit_is_per_request_proof : forall codec before r after,
  nth_error (client_seq_outcomes codec (before ++ r :: after)) (length before)
  = nth_error (client_seq_outcomes codec [r]) 0.
Proof.
  intros codec before r after. unfold client_seq_outcomes. rewrite !client_process_map.
  rewrite map_app. rewrite nth_error_app2; rewrite map_length; [|lia].
  rewrite Nat.sub_diag. reflexivity.
Qed.

Lemma client_history_irrelevant_proof : forall codec seen1 seen2 reqs,
  client_process codec seen1 reqs = client_process codec seen2 reqs.
Proof. intros. rewrite !client_process_map. reflexivity. Qed.

Lemma client_request_accepts_sharp codec limit size :
  0 < limit -> (client_request_accepts codec (limit, size) = true <-> size <= limit).
Proof.
  intros L. unfold client_request_accepts, client_readers. cbn [fst snd].
  apply Z.ltb_lt in L. rewrite L. cbn. rewrite !Bool.andb_true_r. unfold accepts. apply Z.leb_le.
Qed.

Lemma client_seq_sharp_at_own_limit_proof : forall codec reqs k limit size,
  nth_error reqs k = Some (limit, size) ->
  (0 < limit -> exists b, nth_error (client_seq_outcomes codec reqs) k = Some b /\ (b = true <-> size <= limit)) /\
  (limit <= 0 -> nth_error (client_seq_outcomes codec reqs) k = Some true).
Proof.
  intros codec reqs k limit size H. unfold client_seq_outcomes. rewrite client_process_map.
  rewrite (map_nth_error _ _ _ H). split.
  - intros L. eexists. split; [reflexivity|]. apply client_request_accepts_sharp, L.
  - intros L. f_equal. unfold client_request_accepts, client_readers. cbn [fst snd].
    destruct (Z.ltb_spec 0 limit); [lia|reflexivity].
Qed.
