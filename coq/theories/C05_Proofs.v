(* C05_Proofs.v - placeholder, being written *)
From V Require Export C05_Spec.
