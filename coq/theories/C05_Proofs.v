(* C05_Proofs.v — lemmas and proofs for C05_Props.v *)
From Coq Require Import Lia Permutation.
From V Require Export C05_Spec.
Open Scope N_scope.

(* ====================================================================== *)
(* A. the batches partition the selection                                  *)
(* ====================================================================== *)
Lemma inst_eqb_eq a b : inst_eqb a b = true <-> a = b.
Proof.
  destruct a as [p v t c], b as [p' v' t' c']; unfold inst_eqb; simpl.
  rewrite !andb_true_iff, !N.eqb_eq, !Bool.eqb_true_iff. split.
  - intros [[[-> ->] ->] ->]; reflexivity.
  - intros E; inversion E; auto.
Qed.

Lemma inst_eqb_refl a : inst_eqb a a = true.
Proof. apply inst_eqb_eq; reflexivity. Qed.

Lemma mem_inst_in g l : mem_inst g l = true <-> In g l.
Proof.
  induction l as [|h t IH]; simpl; [split; [discriminate|tauto]|].
  rewrite orb_true_iff, IH, inst_eqb_eq. split; intros [H|H]; auto.
Qed.

Lemma keep_supported c s tc : (c || s = true) -> grpc_keep c s tc = grpc_supported c s tc.
Proof.
  unfold grpc_keep, grpc_supported. intros _.
  destruct (tc_proto tc =? 1); simpl; [rewrite orb_true_r; reflexivity|]. rewrite orb_false_r.
  destruct c; simpl.
  - destruct (tc_proto tc =? 2); simpl; [|reflexivity].
    destruct (tc_proto tc =? 3); simpl.
    + destruct ((tc_ver tc =? 1) || (tc_ver tc =? 2)); simpl; [|reflexivity].
      destruct (tc_codec tc =? 1); simpl; [|reflexivity].
      destruct (tc_comp tc =? 1), (tc_comp tc =? 2); simpl; try reflexivity;
      destruct (tc_tls tc); simpl; try reflexivity;
      destruct (is_some (tc_raw tc)); simpl; try reflexivity;
      destruct s, (tc_rawresp tc); reflexivity.
    + destruct (tc_ver tc =? 2); simpl; [|reflexivity].
      destruct (tc_codec tc =? 1); simpl; [|reflexivity].
      destruct (tc_comp tc =? 1), (tc_comp tc =? 2); simpl; try reflexivity;
      destruct (tc_tls tc); simpl; try reflexivity;
      destruct (is_some (tc_raw tc)); simpl; try reflexivity;
      destruct s, (tc_rawresp tc); reflexivity.
  - destruct (tc_proto tc =? 3); simpl.
    + destruct ((tc_ver tc =? 1) || (tc_ver tc =? 2)); simpl; [|reflexivity].
      destruct (tc_codec tc =? 1); simpl; [|reflexivity].
      destruct (tc_comp tc =? 1), (tc_comp tc =? 2); simpl; try reflexivity;
      destruct (tc_tls tc); simpl; try reflexivity;
      rewrite ?andb_false_r; simpl;
      destruct s, (tc_rawresp tc); reflexivity.
    + destruct (tc_ver tc =? 2); simpl; [|reflexivity].
      destruct (tc_codec tc =? 1); simpl; [|reflexivity].
      destruct (tc_comp tc =? 1), (tc_comp tc =? 2); simpl; try reflexivity;
      destruct (tc_tls tc); simpl; try reflexivity;
      rewrite ?andb_false_r; simpl;
      destruct s, (tc_rawresp tc); reflexivity.
Qed.

Lemma batch_cases_flat lib sel c s g :
  batch_cases lib sel c s g = flat_map (select_one sel c s) (group lib g).
Proof.
  unfold batch_cases, apply_filter, filter_grpc, select_one, variant.
  destruct (negb (p_grpc c) && negb (p_grpc s)) eqn:E.
  - induction (group lib g) as [|tc l IH]; simpl; [reflexivity|].
    rewrite IH. destruct (sel (tc_name tc)); reflexivity.
  - assert (O : p_grpc c || p_grpc s = true) by (destruct (p_grpc c), (p_grpc s); simpl in *; congruence).
    induction (group lib g) as [|tc l IH]; simpl; [reflexivity|].
    rewrite <- keep_supported by exact O.
    destruct (grpc_keep (p_grpc c) (p_grpc s) tc); simpl; [|exact IH].
    match goal with |- context [sel ?x] => destruct (sel x) end; simpl; rewrite IH; reflexivity.
Qed.

Lemma filter_disjoint_app {A} (p q : A -> bool) l :
  (forall x, In x l -> p x = true -> q x = false) ->
  Permutation (filter p l ++ filter q l) (filter (fun x => p x || q x) l).
Proof.
  induction l as [|x l IH]; intros D; simpl; [constructor|].
  assert (D' : forall y, In y l -> p y = true -> q y = false) by (intros; apply D; simpl; auto).
  specialize (IH D'). destruct (p x) eqn:P; simpl.
  - rewrite (D x (or_introl eq_refl) P). constructor. exact IH.
  - destruct (q x); [|exact IH].
    apply Permutation_sym, Permutation_cons_app, Permutation_sym. exact IH.
Qed.

Lemma group_partition_gen lib order :
  NoDup order ->
  Permutation (flat_map (group lib) order) (filter (fun tc => mem_inst (inst_of tc) order) lib).
Proof.
  induction order as [|g order IH]; intros ND; simpl.
  - induction lib; simpl; auto.
  - inversion ND as [|? ? NI ND']; subst.
    eapply Permutation_trans; [apply Permutation_app_head, IH, ND'|].
    unfold group at 1.
    eapply Permutation_trans; [apply filter_disjoint_app|].
    + intros tc _ E. apply inst_eqb_eq in E. subst g.
      destruct (mem_inst (inst_of tc) order) eqn:M; [|reflexivity].
      apply mem_inst_in in M. contradiction.
    + apply Permutation_refl.
Qed.

Lemma filter_all {A} (p : A -> bool) l : (forall x, In x l -> p x = true) -> filter p l = l.
Proof.
  induction l as [|x l IH]; intros H; simpl; [reflexivity|].
  rewrite (H x (or_introl eq_refl)), IH; [reflexivity|]. intros; apply H; simpl; auto.
Qed.

Lemma group_partition lib order :
  NoDup order -> (forall tc, In tc lib -> In (inst_of tc) order) ->
  Permutation (flat_map (group lib) order) lib.
Proof.
  intros ND C. eapply Permutation_trans; [apply group_partition_gen, ND|].
  rewrite filter_all; [apply Permutation_refl|]. intros tc H. apply mem_inst_in, C, H.
Qed.

Lemma flat_map_flat_map {A B C} (f : B -> list C) (g : A -> list B) l :
  flat_map f (flat_map g l) = flat_map (fun x => flat_map f (g x)) l.
Proof. induction l; simpl; [reflexivity|]. rewrite flat_map_app, IHl. reflexivity. Qed.

Lemma phase_inner lib sel order ph c s :
  concat (map b_cases (flat_map (fun g =>
      match batch_cases lib sel c s g with
      | [] => []
      | cs => [mkBatch ph c.(p_ref) s.(p_ref) g cs]
      end) order))
  = flat_map (fun g => batch_cases lib sel c s g) order.
Proof.
  induction order as [|g order IHo]; simpl; [reflexivity|].
  rewrite map_app, concat_app, IHo.
  destruct (batch_cases lib sel c s g); simpl; [reflexivity|]. rewrite app_nil_r. reflexivity.
Qed.

Lemma phase_cases lib sel order servers ph c :
  concat (map b_cases (plan_phase lib sel order servers ph c))
  = flat_map (fun s => flat_map (fun g => batch_cases lib sel c s g) order) servers.
Proof.
  unfold plan_phase. induction servers as [|s servers IH]; simpl; [reflexivity|].
  rewrite map_app, concat_app, IH, phase_inner. reflexivity.
Qed.

Lemma plan_from_cases lib sel order servers clients : forall ph,
  NoDup order -> (forall tc, In tc lib -> In (inst_of tc) order) ->
  Permutation (concat (map b_cases (plan_from lib sel order servers ph clients)))
              (selected lib sel clients servers).
Proof.
  induction clients as [|c clients IH]; intros ph ND C; simpl; [constructor|].
  rewrite map_app, concat_app. apply Permutation_app; [|apply IH; assumption].
  rewrite phase_cases. clear IH.
  induction servers as [|s servers IHs]; simpl; [constructor|].
  apply Permutation_app; [|exact IHs].
  erewrite flat_map_ext; [|intros g; apply batch_cases_flat].
  rewrite <- flat_map_flat_map. apply Permutation_flat_map, group_partition; assumption.
Qed.

Lemma partition_proof lib sel order clients servers :
  NoDup order -> (forall tc, In tc lib -> In (inst_of tc) order) ->
  Permutation (concat (map b_cases (plan lib sel order clients servers)))
              (selected lib sel clients servers).
Proof. apply plan_from_cases. Qed.

(* the two orders run() uses satisfy the hypotheses *)
Lemma instances_from_spec lib : forall seen,
  NoDup (instances_from seen lib) /\
  (forall g, In g (instances_from seen lib) <-> In g (map inst_of lib) /\ ~ In g seen).
Proof.
  induction lib as [|tc lib IH]; intros seen; simpl.
  - split; [constructor|]. intros g; tauto.
  - destruct (mem_inst (inst_of tc) seen) eqn:M.
    + destruct (IH seen) as [ND S]. split; [exact ND|].
      intros g. rewrite S. apply mem_inst_in in M. split; [tauto|].
      intros [[<-|H] N]; [contradiction|tauto].
    + destruct (IH (inst_of tc :: seen)) as [ND S]. split.
      * constructor; [|exact ND]. rewrite S. simpl. tauto.
      * intros g. simpl. rewrite S. simpl.
        assert (NM : ~ In (inst_of tc) seen) by (intros H; apply mem_inst_in in H; congruence).
        split.
        -- intros [<-|[H N]]; [tauto|tauto].
        -- intros [[<-|H] N]; [tauto|].
           destruct (inst_eqb (inst_of tc) g) eqn:E; [apply inst_eqb_eq in E; auto|].
           right. split; [exact H|]. intros [E'|E']; [|contradiction].
           rewrite E', inst_eqb_refl in E. discriminate.
Qed.

Lemma instances_ok_proof lib :
  NoDup (instances lib) /\ forall tc, In tc lib -> In (inst_of tc) (instances lib).
Proof.
  destruct (instances_from_spec lib []) as [ND S]. split; [exact ND|].
  intros tc H. apply S. split; [apply in_map, H|tauto].
Qed.

Lemma insert_inst_perm x l : Permutation (insert_inst x l) (x :: l).
Proof.
  induction l as [|y l IH]; simpl; [constructor; constructor|].
  destruct (inst_less x y); [apply Permutation_refl|].
  eapply Permutation_trans; [apply perm_skip, IH|]. apply perm_swap.
Qed.

Lemma sort_insts_perm l : Permutation (sort_insts l) l.
Proof.
  induction l as [|x l IH]; simpl; [constructor|].
  eapply Permutation_trans; [apply insert_inst_perm|]. constructor. exact IH.
Qed.

Lemma sorted_ok_proof lib :
  NoDup (sort_insts (instances lib)) /\ forall tc, In tc lib -> In (inst_of tc) (sort_insts (instances lib)).
Proof.
  destruct (instances_ok_proof lib) as [ND C]. split.
  - eapply Permutation_NoDup; [apply Permutation_sym, sort_insts_perm|exact ND].
  - intros tc H. eapply Permutation_in; [apply Permutation_sym, sort_insts_perm|]. apply C, H.
Qed.

(* every batch holds only permutations of its own server instance, and is not empty *)
Lemma rename_inst c s tc : inst_of (rename c s tc) = inst_of tc.
Proof. reflexivity. Qed.

Lemma batch_cases_inst lib sel c s g tc : In tc (batch_cases lib sel c s g) -> inst_of tc = g.
Proof.
  unfold batch_cases, apply_filter, filter_grpc, group. intros H.
  apply filter_In in H. destruct H as [H _].
  destruct (negb (p_grpc c) && negb (p_grpc s)).
  - apply filter_In in H. destruct H as [_ E]. apply inst_eqb_eq, E.
  - apply in_map_iff in H. destruct H as (tc0 & <- & H).
    apply filter_In in H. destruct H as [H _]. apply filter_In in H. destruct H as [_ E].
    rewrite rename_inst. apply inst_eqb_eq, E.
Qed.

Lemma plan_phase_match lib sel order servers ph c b :
  In b (plan_phase lib sel order servers ph c) ->
  b.(b_cases) <> [] /\ forall tc, In tc b.(b_cases) -> inst_of tc = b.(b_inst).
Proof.
  unfold plan_phase. intros H. apply in_flat_map in H. destruct H as (s & _ & H).
  apply in_flat_map in H. destruct H as (g & _ & H).
  destruct (batch_cases lib sel c s g) as [|tc0 l] eqn:E; [contradiction|].
  destruct H as [<-|[]]. simpl. split; [discriminate|].
  intros tc H. apply (batch_cases_inst lib sel c s g). rewrite E. exact H.
Qed.

Lemma matching_server_proof lib sel order clients servers b :
  In b (plan lib sel order clients servers) ->
  b.(b_cases) <> [] /\ forall tc, In tc b.(b_cases) -> inst_of tc = b.(b_inst).
Proof.
  unfold plan. generalize 0%nat. induction clients as [|c clients IH]; intros ph H; simpl in H; [contradiction|].
  apply in_app_or in H. destruct H as [H|H]; [eapply plan_phase_match, H|eapply IH, H].
Qed.

(* marked names: prefix ++ simple  becomes  prefix ++ marker ++ "/" ++ simple *)
Lemma strip_prefix_app p s : strip_prefix p (p ++ s) = Some s.
Proof. induction p as [|x p IH]; simpl; [reflexivity|]. rewrite N.eqb_refl. exact IH. Qed.

Lemma marked_name_proof c s tc prefix :
  tc.(tc_name) = prefix ++ tc.(tc_simple) ->
  (rename c s tc).(tc_name) = prefix ++ marker c s ++ 47 :: tc.(tc_simple).
Proof.
  intros E. simpl. unfold add_marker, trim_suffix. rewrite E, rev_app_distr, strip_prefix_app, rev_involutive.
  reflexivity.
Qed.

(* ====================================================================== *)
(* B. request completion                                                  *)
(* ====================================================================== *)
Lemma request_filled_proof a g sref tc :
  let r := complete a g sref tc in
  let nh := (bs "x-test-case-name", [tc.(tc_name)]) in
  r.(r_name) = tc.(tc_name) /\
  r.(r_port) = a.(a_port) /\ r.(r_cert) = a.(a_cert) /\
  r.(r_host) = (if is_empty a.(a_host) then default_host else a.(a_host)) /\ r.(r_host) <> [] /\
  r.(r_creds) = g.(i_certs) /\
  exists extra,
    r.(r_headers) = tc.(tc_headers) ++ nh :: extra /\
    r.(r_raw) = option_map (fun hs => hs ++ nh :: extra) tc.(tc_raw) /\
    (sref = false -> extra = []) /\
    (forall h, In h extra -> has_prefix (bs "x-expect-") (fst h) = true).
Proof.
  simpl. repeat split.
  - destruct (a_host a); simpl; discriminate.
  - exists (if sref then expect_headers a g tc else []). repeat split.
    + intros ->; reflexivity.
    + destruct sref; [|intros h []]. unfold expect_headers. intros h H.
      apply in_app_or in H. destruct H as [H|H].
      * simpl in H. repeat (destruct H as [<-|H]; [vm_compute; reflexivity|]). contradiction.
      * destruct (i_certs g); [|contradiction]. destruct H as [<-|[]]. vm_compute. reflexivity.
Qed.

(* ====================================================================== *)
(* C. the transition system: invariants over arbitrary schedules          *)
(* ====================================================================== *)
Open Scope nat_scope.

Lemma nth_error_upd_eq {A} (l : list A) k x y : nth_error l k = Some y -> nth_error (upd k x l) k = Some x.
Proof. revert k; induction l as [|h t IH]; intros [|k] H; simpl in *; try discriminate; auto. Qed.

Lemma nth_error_upd_neq {A} (l : list A) k j x : j <> k -> nth_error (upd k x l) j = nth_error l j.
Proof.
  revert k j; induction l as [|h t IH]; intros [|k] [|j] H; simpl; auto; try congruence.
Qed.

Lemma length_upd {A} (l : list A) k x : length (upd k x l) = length l.
Proof. revert k; induction l as [|h t IH]; intros [|k]; simpl; auto. Qed.

Lemma map_upd_same {A B} (f : A -> B) l k x y :
  nth_error l k = Some y -> f x = f y -> map f (upd k x l) = map f l.
Proof.
  revert k; induction l as [|h t IH]; intros [|k] H E; simpl in *; try discriminate; auto.
  - inversion H; subst. rewrite E. reflexivity.
  - rewrite (IH k H E). reflexivity.
Qed.

Definition b2n (b : bool) : nat := if b then 1 else 0.
Fixpoint count_if {A} (f : A -> bool) (l : list A) : nat :=
  match l with [] => 0 | x :: t => b2n (f x) + count_if f t end.

Lemma count_upd {A} (f : A -> bool) l k x y :
  nth_error l k = Some y -> count_if f (upd k x l) + b2n (f y) = count_if f l + b2n (f x).
Proof.
  revert k; induction l as [|h t IH]; intros [|k] H; simpl in *; try discriminate.
  - inversion H; subst. lia.
  - specialize (IH k H). lia.
Qed.

Lemma count_le {A} (f g : A -> bool) l : (forall x, f x = true -> g x = true) -> count_if f l <= count_if g l.
Proof.
  intros I. induction l as [|x t IH]; simpl; [lia|].
  specialize (I x). destruct (f x), (g x); simpl; try lia; discriminate (I eq_refl).
Qed.

Lemma count_zero {A} (f : A -> bool) l : (forall x, In x l -> f x = false) -> count_if f l = 0.
Proof.
  induction l as [|x t IH]; intros H; simpl; [reflexivity|].
  rewrite (H x (or_introl eq_refl)), IH; [reflexivity|]. intros; apply H; simpl; auto.
Qed.

(* statuses *)
Definition held (st : status) : bool :=
  match st with Acquired | Spawned | Up _ _ | Failed | Stopped => true | _ => false end.
Definition alive (st : status) : bool := match st with Spawned | Up _ _ => true | _ => false end.
Definition is_pending (st : status) : bool := match st with Pending => true | _ => false end.

Lemma remove_nat_in k j l : In j (remove_nat k l) <-> In j l /\ j <> k.
Proof.
  induction l as [|h t IH]; simpl; [tauto|].
  destruct (Nat.eqb_spec h k) as [->|N]; simpl; rewrite IH; intuition congruence.
Qed.

Lemma remove_nat_nodup k l : NoDup l -> NoDup (remove_nat k l).
Proof.
  induction 1 as [|h t NI ND IH]; simpl; [constructor|].
  destruct (Nat.eqb h k); [exact IH|]. constructor; [|exact IH].
  rewrite remove_nat_in. tauto.
Qed.

Lemma remove_nat_notin k l : ~ In k l -> remove_nat k l = l.
Proof.
  induction l as [|h t IH]; intros N; simpl; [reflexivity|].
  destruct (Nat.eqb_spec h k) as [->|_]; [exfalso; apply N; simpl; auto|].
  rewrite IH; [reflexivity|]. intros H; apply N; simpl; auto.
Qed.

Lemma remove_nat_length k l : NoDup l -> In k l -> S (length (remove_nat k l)) = length l.
Proof.
  induction 1 as [|h t NI ND IH]; intros H; simpl in *; [contradiction|].
  destruct (Nat.eqb_spec h k) as [->|N].
  - rewrite remove_nat_notin by exact NI. reflexivity.
  - destruct H as [H|H]; [congruence|]. simpl. rewrite IH by exact H. reflexivity.
Qed.

(* what a slot's status says about the history *)
Definition slot_ok (tr : list event) (k : nat) (sl : slot) : Prop :=
  let cases := sl.(sl_b).(b_cases) in
  match sl.(sl_st) with
  | Pending | Acquired | Spawned =>
    sent_cases tr k = [] /\ failed_in tr k = false /\ serving tr k = None
  | Up a rest => sent_cases tr k ++ rest = cases /\ failed_in tr k = false /\ serving tr k = Some a
  | Failed => sent_cases tr k = [] /\ failed_in tr k = true /\ serving tr k = None
  | Stopped => sent_cases tr k = cases /\ failed_in tr k = false /\ serving tr k = None
  | Released =>
    ((sent_cases tr k = cases /\ failed_in tr k = false) \/ (sent_cases tr k = [] /\ failed_in tr k = true))
    /\ serving tr k = None
  end.

Record Inv (max : nat) (p : list batch) (s : state) : Prop := mkInv {
  inv_batches : map sl_b s.(slots) = p;
  inv_sem : s.(sem) = count_if (fun sl => held sl.(sl_st)) s.(slots);
  inv_max : s.(sem) <= max;
  inv_pc : forall k sl, nth_error s.(slots) k = Some sl -> (is_pending sl.(sl_st) = true <-> s.(pc) <= k);
  inv_alive_nd : NoDup (alive_list s.(trace));
  inv_alive_in : forall k, In k (alive_list s.(trace)) <->
                           exists sl, nth_error s.(slots) k = Some sl /\ alive sl.(sl_st) = true;
  inv_slots : forall k sl, nth_error s.(slots) k = Some sl -> slot_ok s.(trace) k sl;
  inv_sends : sends_ok p s.(trace);
  inv_bounded : always_bounded max s.(trace) }.

Lemma nth_error_set_st s k st j :
  nth_error (set_st s k st) j =
  if Nat.eqb j k then option_map (fun sl => mkSlot sl.(sl_b) st) (nth_error s.(slots) k)
  else nth_error s.(slots) j.
Proof.
  unfold set_st. destruct (Nat.eqb_spec j k) as [->|N].
  - destruct (nth_error (slots s) k) eqn:E; simpl; [|exact E].
    eapply nth_error_upd_eq, E.
  - destruct (nth_error (slots s) k); [apply nth_error_upd_neq, N|reflexivity].
Qed.

Lemma set_st_batches s k st : map sl_b (set_st s k st) = map sl_b s.(slots).
Proof.
  unfold set_st. destruct (nth_error (slots s) k) eqn:E; [|reflexivity].
  eapply map_upd_same; [exact E|reflexivity].
Qed.

Lemma set_st_count f s k st sl :
  nth_error s.(slots) k = Some sl ->
  count_if (fun x => f x.(sl_st)) (set_st s k st) + b2n (f sl.(sl_st))
  = count_if (fun x => f x.(sl_st)) s.(slots) + b2n (f st).
Proof.
  intros E. unfold set_st. rewrite E.
  apply (count_upd (fun x => f (sl_st x)) _ _ (mkSlot (sl_b sl) st) sl E).
Qed.

Lemma init_inv max p : Inv max p (init_state p).
Proof.
  constructor; simpl.
  - rewrite map_map. simpl. apply map_id.
  - symmetry. apply count_zero. intros x H. apply in_map_iff in H. destruct H as (b & <- & _). reflexivity.
  - lia.
  - intros k sl H. apply nth_error_In, in_map_iff in H. destruct H as (b & <- & _). simpl.
    split; [lia|reflexivity].
  - constructor.
  - intros k. split; [contradiction|]. intros (sl & H & A).
    apply nth_error_In, in_map_iff in H. destruct H as (b & <- & _). discriminate.
  - intros k sl H. apply nth_error_In, in_map_iff in H. destruct H as (b & <- & _).
    unfold slot_ok; simpl. auto.
  - exact Logic.I.
  - exact Logic.I.
Qed.

(* the history functions do not look at events of other batches *)
Ltac eqb_neq j k :=
  let E := fresh "E" in
  destruct (Nat.eqb_spec j k) as [E|E]; [congruence|]; clear E.

Lemma bounded_cons max e tr :
  always_bounded max tr -> length (alive_list (e :: tr)) <= max -> always_bounded max (e :: tr).
Proof. intros A L. split; assumption. Qed.

Lemma bounded_now max tr : always_bounded max tr -> length (alive_list tr) <= max.
Proof. destruct tr; simpl; [lia|]. intros [B _]. exact B. Qed.

(* A generic step of one slot k from status st to st', adding the events evs (newest first)
   that concern only batch k. *)
Section OneSlot.
  Variables (max : nat) (p : list batch) (s : state) (k : nat) (b : batch) (st st' : status).
  Hypothesis I : Inv max p s.
  Hypothesis Hk : nth_error s.(slots) k = Some (mkSlot b st).

  Lemma slot_in_plan : nth_error p k = Some b.
  Proof.
    rewrite <- (inv_batches _ _ _ I). rewrite nth_error_map, Hk. reflexivity.
  Qed.

  Lemma other_slot j sl : j <> k -> nth_error (set_st s k st') j = Some sl -> nth_error s.(slots) j = Some sl.
  Proof.
    intros N H. rewrite nth_error_set_st in H. destruct (Nat.eqb_spec j k); [congruence|exact H].
  Qed.

  Lemma this_slot sl : nth_error (set_st s k st') k = Some sl -> sl = mkSlot b st'.
  Proof.
    intros H. rewrite nth_error_set_st, Nat.eqb_refl, Hk in H. simpl in H. congruence.
  Qed.

  Lemma pc_kept :
    is_pending st = is_pending st' ->
    forall j sl, nth_error (set_st s k st') j = Some sl -> (is_pending sl.(sl_st) = true <-> s.(pc) <= j).
  Proof.
    intros E j sl H. destruct (Nat.eq_dec j k) as [->|N].
    - apply this_slot in H. subst sl. simpl. rewrite <- E.
      apply (inv_pc _ _ _ I k _ Hk).
    - apply (inv_pc _ _ _ I j sl), other_slot; assumption.
  Qed.

  Lemma sem_kept : held st = held st' ->
    s.(sem) = count_if (fun sl => held sl.(sl_st)) (set_st s k st').
  Proof.
    intros E. pose proof (set_st_count held s k st' _ Hk) as C. simpl in C.
    rewrite (inv_sem _ _ _ I), E in *. lia.
  Qed.
End OneSlot.

(* ---- the main preservation lemma ---- *)
Lemma alive_in_set max p s k b st st' :
  Inv max p s -> nth_error s.(slots) k = Some (mkSlot b st) ->
  forall l, NoDup l ->
  (forall j, In j l <-> (j = k /\ alive st' = true) \/ (j <> k /\ In j (alive_list s.(trace)))) ->
  forall j, In j l <-> exists sl, nth_error (set_st s k st') j = Some sl /\ alive sl.(sl_st) = true.
Proof.
  intros I Hk l ND M j. rewrite M. rewrite nth_error_set_st.
  destruct (Nat.eqb_spec j k) as [->|N].
  - rewrite Hk. simpl. split.
    + intros [[_ A]|[N _]]; [|congruence]. eexists; split; [reflexivity|exact A].
    + intros (sl & E & A). inversion E; subst. left. auto.
  - rewrite (inv_alive_in _ _ _ I j). split.
    + intros [[E _]|[_ H]]; [congruence|exact H].
    + intros H. right. auto.
Qed.

Lemma slot_ok_other tr k sl evs :
  slot_ok tr k sl ->
  sent_cases (evs ++ tr) k = sent_cases tr k ->
  failed_in (evs ++ tr) k = failed_in tr k ->
  serving (evs ++ tr) k = serving tr k ->
  slot_ok (evs ++ tr) k sl.
Proof. unfold slot_ok. intros H -> -> ->. exact H. Qed.

Lemma step_inv max p s a s' : Inv max p s -> step_opt max s a = Some s' -> Inv max p s'.
Proof.
  intros I H. destruct a as [|k|k|k a0|k|k|k n|k|k]; simpl in H.
  - (* Acquire *)
    destruct (nth_error (slots s) (pc s)) as [[b st]|] eqn:Hk; [|discriminate].
    match type of H with context [if ?c then _ else _] => destruct c eqn:C end; [|discriminate].
    inversion H; subst; clear H. apply andb_true_iff in C. destruct C as [C _].
    assert (C' : sem s < max) by (revert C; clear; intros C; apply Nat.ltb_lt; exact C). clear C. rename C' into C.
    assert (P : st = Pending).
    { pose proof (proj2 (inv_pc _ _ _ I _ _ Hk) (Nat.le_refl _)) as Q. destruct st; simpl in Q; congruence. }
    subst st.
    constructor; simpl.
    + rewrite set_st_batches. apply (inv_batches _ _ _ I).
    + pose proof (set_st_count held s (pc s) Acquired _ Hk) as Q. simpl in Q.
      rewrite (inv_sem _ _ _ I). lia.
    + lia.
    + intros j sl H. destruct (Nat.eq_dec j (pc s)) as [->|N].
      * apply (this_slot s (pc s) b Pending Acquired Hk) in H. subst sl. simpl. split; [discriminate|lia].
      * apply (other_slot s (pc s) Acquired j sl N) in H.
        rewrite (inv_pc _ _ _ I j sl H). lia.
    + apply (inv_alive_nd _ _ _ I).
    + apply (alive_in_set max p s (pc s) b Pending Acquired I Hk _ (inv_alive_nd _ _ _ I)).
      intros j. simpl. split.
      * intros H. right. split; [|exact H]. intros ->.
        apply (inv_alive_in _ _ _ I) in H. destruct H as (sl & E & A). rewrite Hk in E. inversion E; subst. discriminate.
      * intros [[_ A]|[_ H]]; [discriminate|exact H].
    + intros j sl H. destruct (Nat.eq_dec j (pc s)) as [->|N].
      * apply (this_slot s (pc s) b Pending Acquired Hk) in H. subst sl.
        pose proof (inv_slots _ _ _ I _ _ Hk) as Q. unfold slot_ok in *; simpl in *. exact Q.
      * apply (other_slot s (pc s) Acquired j sl N) in H.
        pose proof (inv_slots _ _ _ I _ _ H) as Q. unfold slot_ok in *; simpl in *. exact Q.
    + split; [exact Logic.I|apply (inv_sends _ _ _ I)].
    + split; [apply bounded_now|]; apply (inv_bounded _ _ _ I).
  - (* Spawn *)
    unfold status_of in H. destruct (nth_error (slots s) k) as [[b st]|] eqn:Hk; simpl in H; [|discriminate].
    destruct st; try discriminate. inversion H; subst; clear H.
    assert (NA : ~ In k (alive_list (trace s))).
    { intros H. apply (inv_alive_in _ _ _ I) in H. destruct H as (sl & E & A). rewrite Hk in E. inversion E; subst. discriminate. }
    assert (ND : NoDup (k :: alive_list (trace s))) by (constructor; [exact NA|apply (inv_alive_nd _ _ _ I)]).
    assert (CNT : S (length (alive_list (trace s))) <= max).
    { (* alive servers are among the held slots, and this one was held without being alive *)
      pose proof (inv_sem _ _ _ I) as SE. pose proof (inv_max _ _ _ I) as MX.
      assert (L : length (k :: alive_list (trace s)) <= count_if (fun sl => held (sl_st sl)) (set_st s k Spawned)).
      { set (sl' := set_st s k Spawned).
        assert (AL : forall j, In j (k :: alive_list (trace s)) -> exists sl, nth_error sl' j = Some sl /\ alive (sl_st sl) = true).
        { intros j. apply (alive_in_set max p s k b Acquired Spawned I Hk _ ND).
          intros j'. simpl. split.
          - intros [<-|H]; [left; auto|]. right. split; [|exact H]. intros ->. contradiction.
          - intros [[-> _]|[_ H]]; auto. }
        clearbody sl'. revert AL ND. generalize (k :: alive_list (trace s)). intros l.
        revert sl'. induction l as [|j l IHl]; intros sl' AL ND; simpl; [lia|].
        inversion ND as [|? ? NI ND']; subst.
        destruct (AL j (or_introl eq_refl)) as (x & E & A).
        (* remove slot j's contribution by overwriting it with a released slot *)
        set (sl'' := upd j (mkSlot (sl_b x) Released) sl').
        assert (C := count_upd (fun sl => held (sl_st sl)) sl' j (mkSlot (sl_b x) Released) x E). simpl in C.
        assert (HX : held (sl_st x) = true) by (destruct (sl_st x); simpl in *; congruence).
        rewrite HX in C. simpl in C.
        specialize (IHl sl''). assert (Q : length l <= count_if (fun sl => held (sl_st sl)) sl'').
        { apply IHl; [|exact ND']. intros i Hi. destruct (AL i (or_intror Hi)) as (y & Ey & Ay).
          exists y. split; [|exact Ay]. unfold sl''. rewrite nth_error_upd_neq; [exact Ey|]. intros ->. contradiction. }
        unfold sl'' in Q. lia. }
      pose proof (set_st_count held s k Spawned _ Hk) as Q. simpl in Q, L. lia. }
    constructor; simpl.
    + rewrite set_st_batches. apply (inv_batches _ _ _ I).
    + apply (sem_kept max p s k b Acquired Spawned I Hk eq_refl).
    + apply (inv_max _ _ _ I).
    + apply (pc_kept max p s k b Acquired Spawned I Hk eq_refl).
    + exact ND.
    + apply (alive_in_set max p s k b Acquired Spawned I Hk _ ND).
      intros j. simpl. split.
      * intros [<-|H]; [left; auto|]. right. split; [|exact H]. intros ->. contradiction.
      * intros [[-> _]|[_ H]]; auto.
    + intros j sl H. destruct (Nat.eq_dec j k) as [->|N].
      * apply (this_slot s k b Acquired Spawned Hk) in H. subst sl.
        pose proof (inv_slots _ _ _ I _ _ Hk) as Q. unfold slot_ok in *; simpl in *. exact Q.
      * apply (other_slot s k Spawned j sl N) in H.
        pose proof (inv_slots _ _ _ I _ _ H) as Q. unfold slot_ok in *; simpl in *. exact Q.
    + split; [exact Logic.I|apply (inv_sends _ _ _ I)].
    + split; [exact CNT|apply (inv_bounded _ _ _ I)].
  - (* SpawnFail *)
    unfold status_of in H. destruct (nth_error (slots s) k) as [[b st]|] eqn:Hk; simpl in H; [|discriminate].
    destruct st; try discriminate. inversion H; subst; clear H.
    constructor; simpl.
    + rewrite set_st_batches. apply (inv_batches _ _ _ I).
    + apply (sem_kept max p s k b Acquired Failed I Hk eq_refl).
    + apply (inv_max _ _ _ I).
    + apply (pc_kept max p s k b Acquired Failed I Hk eq_refl).
    + apply (inv_alive_nd _ _ _ I).
    + apply (alive_in_set max p s k b Acquired Failed I Hk _ (inv_alive_nd _ _ _ I)).
      intros j. split.
      * intros H. right. split; [|exact H]. intros ->.
        apply (inv_alive_in _ _ _ I) in H. destruct H as (sl & E & A). rewrite Hk in E. inversion E; subst. discriminate.
      * intros [[_ A]|[_ H]]; [discriminate|exact H].
    + intros j sl H. destruct (Nat.eq_dec j k) as [->|N].
      * apply (this_slot s k b Acquired Failed Hk) in H. subst sl.
        pose proof (inv_slots _ _ _ I _ _ Hk) as Q. unfold slot_ok in *; simpl in *.
        rewrite Nat.eqb_refl. simpl. tauto.
      * apply (other_slot s k Failed j sl N) in H.
        pose proof (inv_slots _ _ _ I _ _ H) as Q. unfold slot_ok in *; simpl in *.
        destruct (Nat.eqb_spec k j); [congruence|]. exact Q.
    + split; [exact Logic.I|apply (inv_sends _ _ _ I)].
    + split; [apply bounded_now|]; apply (inv_bounded _ _ _ I).
  - (* Ready *)
    destruct (nth_error (slots s) k) as [[b st]|] eqn:Hk; [|discriminate].
    destruct st; try discriminate.
    assert (IA : In k (alive_list (trace s))).
    { apply (inv_alive_in _ _ _ I). eexists; split; [exact Hk|reflexivity]. }
    destruct (i_tls (b_inst b) && is_empty (a_cert a0)); inversion H; subst; clear H.
    + (* TLS without certificate: setup failure, process gone *)
      constructor; simpl.
      * rewrite set_st_batches. apply (inv_batches _ _ _ I).
      * apply (sem_kept max p s k b Spawned Failed I Hk eq_refl).
      * apply (inv_max _ _ _ I).
      * apply (pc_kept max p s k b Spawned Failed I Hk eq_refl).
      * apply remove_nat_nodup, (inv_alive_nd _ _ _ I).
      * apply (alive_in_set max p s k b Spawned Failed I Hk _ (remove_nat_nodup k _ (inv_alive_nd _ _ _ I))).
        intros j. rewrite remove_nat_in. split.
        -- intros [H N]. right. auto.
        -- intros [[_ A]|[N H]]; [discriminate|auto].
      * intros j sl H. destruct (Nat.eq_dec j k) as [->|N].
        -- apply (this_slot s k b Spawned Failed Hk) in H. subst sl.
           pose proof (inv_slots _ _ _ I _ _ Hk) as Q. unfold slot_ok in *; simpl in *.
           rewrite Nat.eqb_refl. simpl. tauto.
        -- apply (other_slot s k Failed j sl N) in H.
           pose proof (inv_slots _ _ _ I _ _ H) as Q. unfold slot_ok in *; simpl in *.
           destruct (Nat.eqb_spec k j); [congruence|]. exact Q.
      * split; [exact Logic.I|]. split; [exact Logic.I|apply (inv_sends _ _ _ I)].
      * pose proof (inv_bounded _ _ _ I) as B. pose proof (bounded_now _ _ B) as L.
      pose proof (remove_nat_length k _ (inv_alive_nd _ _ _ I) IA) as RL.
      repeat split; try exact B; lia.
    + constructor; simpl.
      * rewrite set_st_batches. apply (inv_batches _ _ _ I).
      * apply (sem_kept max p s k b Spawned (Up a0 (b_cases b)) I Hk eq_refl).
      * apply (inv_max _ _ _ I).
      * apply (pc_kept max p s k b Spawned (Up a0 (b_cases b)) I Hk eq_refl).
      * apply (inv_alive_nd _ _ _ I).
      * apply (alive_in_set max p s k b Spawned (Up a0 (b_cases b)) I Hk _ (inv_alive_nd _ _ _ I)).
        intros j. split.
        -- intros H. destruct (Nat.eq_dec j k) as [->|N]; [left; auto|right; auto].
        -- intros [[-> _]|[_ H]]; auto.
      * intros j sl H. destruct (Nat.eq_dec j k) as [->|N].
        -- apply (this_slot s k b Spawned (Up a0 (b_cases b)) Hk) in H. subst sl.
           pose proof (inv_slots _ _ _ I _ _ Hk) as Q. unfold slot_ok in *; simpl in *.
           rewrite Nat.eqb_refl. destruct Q as (Q1 & Q2 & Q3). rewrite Q1. auto.
        -- apply (other_slot s k (Up a0 (b_cases b)) j sl N) in H.
           pose proof (inv_slots _ _ _ I _ _ H) as Q. unfold slot_ok in *; simpl in *.
           destruct (Nat.eqb_spec k j); [congruence|]. exact Q.
      * split; [exact Logic.I|apply (inv_sends _ _ _ I)].
      * split; [apply bounded_now|]; apply (inv_bounded _ _ _ I).
  - (* Die *)
    unfold status_of in H. destruct (nth_error (slots s) k) as [[b st]|] eqn:Hk; simpl in H; [|discriminate].
    destruct st; try discriminate. inversion H; subst; clear H.
    assert (IA : In k (alive_list (trace s))).
    { apply (inv_alive_in _ _ _ I). eexists; split; [exact Hk|reflexivity]. }
    constructor; simpl.
    + rewrite set_st_batches. apply (inv_batches _ _ _ I).
    + apply (sem_kept max p s k b Spawned Failed I Hk eq_refl).
    + apply (inv_max _ _ _ I).
    + apply (pc_kept max p s k b Spawned Failed I Hk eq_refl).
    + apply remove_nat_nodup, (inv_alive_nd _ _ _ I).
    + apply (alive_in_set max p s k b Spawned Failed I Hk _ (remove_nat_nodup k _ (inv_alive_nd _ _ _ I))).
      intros j. rewrite remove_nat_in. split.
      * intros [H N]. right. auto.
      * intros [[_ A]|[N H]]; [discriminate|auto].
    + intros j sl H. destruct (Nat.eq_dec j k) as [->|N].
      * apply (this_slot s k b Spawned Failed Hk) in H. subst sl.
        pose proof (inv_slots _ _ _ I _ _ Hk) as Q. unfold slot_ok in *; simpl in *.
        rewrite Nat.eqb_refl. simpl. tauto.
      * apply (other_slot s k Failed j sl N) in H.
        pose proof (inv_slots _ _ _ I _ _ H) as Q. unfold slot_ok in *; simpl in *.
        destruct (Nat.eqb_spec k j); [congruence|]. exact Q.
    + split; [exact Logic.I|]. split; [exact Logic.I|apply (inv_sends _ _ _ I)].
    + pose proof (inv_bounded _ _ _ I) as B. pose proof (bounded_now _ _ B) as L.
      pose proof (remove_nat_length k _ (inv_alive_nd _ _ _ I) IA) as RL.
      repeat split; try exact B; lia.
  - (* Send *)
    destruct (nth_error (slots s) k) as [[b st]|] eqn:Hk; [|discriminate].
    destruct st as [| | |a0 rest| | |]; try discriminate. destruct rest as [|tc rest]; [discriminate|].
    inversion H; subst; clear H.
    pose proof (inv_slots _ _ _ I _ _ Hk) as Q0. unfold slot_ok in Q0; simpl in Q0. destruct Q0 as (Q1 & Q2 & Q3).
    constructor; simpl.
    + rewrite set_st_batches. apply (inv_batches _ _ _ I).
    + apply (sem_kept max p s k b (Up a0 (tc :: rest)) (Up a0 rest) I Hk eq_refl).
    + apply (inv_max _ _ _ I).
    + apply (pc_kept max p s k b (Up a0 (tc :: rest)) (Up a0 rest) I Hk eq_refl).
    + apply (inv_alive_nd _ _ _ I).
    + apply (alive_in_set max p s k b (Up a0 (tc :: rest)) (Up a0 rest) I Hk _ (inv_alive_nd _ _ _ I)).
      intros j. split.
      * intros H. destruct (Nat.eq_dec j k) as [->|N]; [left; auto|right; auto].
      * intros [[-> _]|[_ H]]; [|exact H].
        apply (inv_alive_in _ _ _ I). eexists; split; [exact Hk|reflexivity].
    + intros j sl H. destruct (Nat.eq_dec j k) as [->|N].
      * apply (this_slot s k b (Up a0 (tc :: rest)) (Up a0 rest) Hk) in H. subst sl.
        unfold slot_ok; simpl. rewrite Nat.eqb_refl. rewrite <- app_assoc. simpl. auto.
      * apply (other_slot s k (Up a0 rest) j sl N) in H.
        pose proof (inv_slots _ _ _ I _ _ H) as Q. unfold slot_ok in *; simpl in *.
        destruct (Nat.eqb_spec k j); [congruence|]. exact Q.
    + split; [|apply (inv_sends _ _ _ I)].
      exists b, a0. split; [apply (slot_in_plan max p s k b _ I Hk)|]. split; [exact Q3|]. split; [|reflexivity].
      rewrite <- Q1. apply in_or_app. right. simpl. auto.
    + split; [apply bounded_now|]; apply (inv_bounded _ _ _ I).
  - (* Answer *)
    destruct (existsb (pair_eqb (k, n)) (outst s)); [|discriminate]. inversion H; subst; clear H.
    constructor; simpl.
    + apply (inv_batches _ _ _ I).
    + apply (inv_sem _ _ _ I).
    + apply (inv_max _ _ _ I).
    + apply (inv_pc _ _ _ I).
    + apply (inv_alive_nd _ _ _ I).
    + apply (inv_alive_in _ _ _ I).
    + intros j sl H. pose proof (inv_slots _ _ _ I _ _ H) as Q. unfold slot_ok in *; simpl in *. exact Q.
    + split; [exact Logic.I|apply (inv_sends _ _ _ I)].
    + split; [apply bounded_now|]; apply (inv_bounded _ _ _ I).
  - (* Stop *)
    unfold status_of in H. destruct (nth_error (slots s) k) as [[b st]|] eqn:Hk; simpl in H; [|discriminate].
    destruct st as [| | |a0 rest| | |]; try discriminate. destruct rest; [|discriminate].
    destruct (has_outst k (outst s)); [discriminate|]. inversion H; subst; clear H.
    assert (IA : In k (alive_list (trace s))).
    { apply (inv_alive_in _ _ _ I). eexists; split; [exact Hk|reflexivity]. }
    constructor; simpl.
    + rewrite set_st_batches. apply (inv_batches _ _ _ I).
    + apply (sem_kept max p s k b (Up a0 []) Stopped I Hk eq_refl).
    + apply (inv_max _ _ _ I).
    + apply (pc_kept max p s k b (Up a0 []) Stopped I Hk eq_refl).
    + apply remove_nat_nodup, (inv_alive_nd _ _ _ I).
    + apply (alive_in_set max p s k b (Up a0 []) Stopped I Hk _ (remove_nat_nodup k _ (inv_alive_nd _ _ _ I))).
      intros j. rewrite remove_nat_in. split.
      * intros [H N]. right. auto.
      * intros [[_ A]|[N H]]; [discriminate|auto].
    + intros j sl H. destruct (Nat.eq_dec j k) as [->|N].
      * apply (this_slot s k b (Up a0 []) Stopped Hk) in H. subst sl.
        pose proof (inv_slots _ _ _ I _ _ Hk) as Q. unfold slot_ok in *; simpl in *.
        rewrite Nat.eqb_refl. rewrite app_nil_r in Q. tauto.
      * apply (other_slot s k Stopped j sl N) in H.
        pose proof (inv_slots _ _ _ I _ _ H) as Q. unfold slot_ok in *; simpl in *.
        destruct (Nat.eqb_spec k j); [congruence|]. exact Q.
    + split; [exact Logic.I|apply (inv_sends _ _ _ I)].
    + pose proof (inv_bounded _ _ _ I) as B. pose proof (bounded_now _ _ B) as L.
      pose proof (remove_nat_length k _ (inv_alive_nd _ _ _ I) IA) as RL.
      repeat split; try exact B; lia.
  - (* Release *)
    unfold status_of in H. destruct (nth_error (slots s) k) as [[b st]|] eqn:Hk; simpl in H; [|discriminate].
    assert (HS : (st = Failed \/ st = Stopped) /\
                 s' = mkSt (set_st s k Released) (pred (sem s)) (pc s) (outst s) (ERel k :: trace s)).
    { destruct st; try discriminate; inversion H; auto. }
    clear H. destruct HS as [HS ->].
    assert (NA : ~ In k (alive_list (trace s))).
    { intros H. apply (inv_alive_in _ _ _ I) in H. destruct H as (sl & E & A). rewrite Hk in E. inversion E; subst.
      destruct HS as [-> | ->]; discriminate. }
    constructor; simpl.
    + rewrite set_st_batches. apply (inv_batches _ _ _ I).
    + pose proof (set_st_count held s k Released _ Hk) as Q. simpl in Q.
      rewrite (inv_sem _ _ _ I). destruct HS as [-> | ->]; simpl in Q; lia.
    + pose proof (inv_max _ _ _ I). lia.
    + apply (pc_kept max p s k b st Released I Hk). destruct HS as [-> | ->]; reflexivity.
    + apply (inv_alive_nd _ _ _ I).
    + apply (alive_in_set max p s k b st Released I Hk _ (inv_alive_nd _ _ _ I)).
      intros j. split.
      * intros H. right. split; [|exact H]. intros ->. contradiction.
      * intros [[_ A]|[_ H]]; [discriminate|exact H].
    + intros j sl H. destruct (Nat.eq_dec j k) as [->|N].
      * apply (this_slot s k b st Released Hk) in H. subst sl.
        pose proof (inv_slots _ _ _ I _ _ Hk) as Q. unfold slot_ok in *; simpl in *.
        destruct HS as [-> | ->]; simpl in Q; tauto.
      * apply (other_slot s k Released j sl N) in H.
        pose proof (inv_slots _ _ _ I _ _ H) as Q. unfold slot_ok in *; simpl in *. exact Q.
    + split; [exact Logic.I|apply (inv_sends _ _ _ I)].
    + split; [apply bounded_now|]; apply (inv_bounded _ _ _ I).
Qed.

Lemma run_from_inv max p acts : forall s, Inv max p s -> Inv max p (run_from max s acts).
Proof.
  induction acts as [|a acts IH]; intros s I; simpl; [exact I|].
  apply IH. unfold step. destruct (step_opt max s a) eqn:E; [eapply step_inv; eassumption|exact I].
Qed.

Lemma run_inv max p acts : Inv max p (run_sched max p acts).
Proof. apply run_from_inv, init_inv. Qed.

(* ---------- the theorems about histories ---------- *)
Lemma bounded_proof max p acts : always_bounded max (run_sched max p acts).(trace).
Proof. apply (inv_bounded _ _ _ (run_inv max p acts)). Qed.

Lemma max_alive_le max tr : always_bounded max tr -> max_alive tr <= max.
Proof.
  induction tr as [|e tr IH]; [simpl; lia|]. intros [B R].
  change (Nat.max (length (alive_list (e :: tr))) (max_alive tr) <= max).
  specialize (IH R). lia.
Qed.

Lemma max_alive_proof max p acts : max_alive (run_sched max p acts).(trace) <= max.
Proof. apply max_alive_le, bounded_proof. Qed.

Lemma send_while_serving_proof max p acts : sends_ok p (run_sched max p acts).(trace).
Proof. apply (inv_sends _ _ _ (run_inv max p acts)). Qed.

Lemma slot_of_batch max p s k b :
  Inv max p s -> nth_error p k = Some b -> exists st, nth_error s.(slots) k = Some (mkSlot b st).
Proof.
  intros I H. rewrite <- (inv_batches _ _ _ I), nth_error_map in H.
  destruct (nth_error (slots s) k) as [[b' st]|]; simpl in H; [|discriminate].
  inversion H; subst. exists st; reflexivity.
Qed.

Lemma terminal_released s k sl : terminal s = true -> nth_error s.(slots) k = Some sl -> sl.(sl_st) = Released.
Proof.
  unfold terminal. intros T H. rewrite forallb_forall in T. specialize (T sl (nth_error_In _ _ H)).
  destruct (sl_st sl); simpl in T; congruence.
Qed.

Lemma exactly_once_proof max p acts k b :
  let s := run_sched max p acts in
  terminal s = true -> nth_error p k = Some b ->
  (sent_cases s.(trace) k = b.(b_cases) /\ failed_in s.(trace) k = false) \/
  (sent_cases s.(trace) k = [] /\ failed_in s.(trace) k = true).
Proof.
  intros s T H. pose proof (run_inv max p acts) as I. fold s in I.
  destruct (slot_of_batch _ _ _ _ _ I H) as (st & E).
  pose proof (terminal_released _ _ _ T E) as R. simpl in R. subst st.
  pose proof (inv_slots _ _ _ I _ _ E) as Q. unfold slot_ok in Q; simpl in Q. tauto.
Qed.

(* at any moment: what has been sent for a batch is a prefix of its permutations, in order (so
   nothing is sent twice and nothing foreign is sent), and nothing is sent for a failed batch *)
Lemma never_twice_proof max p acts k b :
  let s := run_sched max p acts in
  nth_error p k = Some b ->
  (exists rest, sent_cases s.(trace) k ++ rest = b.(b_cases)) /\
  (failed_in s.(trace) k = true -> sent_cases s.(trace) k = []).
Proof.
  intros s H. pose proof (run_inv max p acts) as I. fold s in I.
  destruct (slot_of_batch _ _ _ _ _ I H) as (st & E).
  pose proof (inv_slots _ _ _ I _ _ E) as Q. unfold slot_ok in Q; simpl in Q.
  destruct st; simpl in Q.
  - destruct Q as (-> & -> & _). split; [eexists; reflexivity|discriminate].
  - destruct Q as (-> & -> & _). split; [eexists; reflexivity|discriminate].
  - destruct Q as (-> & -> & _). split; [eexists; reflexivity|discriminate].
  - destruct Q as (Q & -> & _). split; [eexists; exact Q|discriminate].
  - destruct Q as (-> & _ & _). split; [eexists; reflexivity|reflexivity].
  - destruct Q as (-> & -> & _). split; [exists []; apply app_nil_r|discriminate].
  - destruct Q as ([(-> & ->)|(-> & _)] & _).
    + split; [exists []; apply app_nil_r|discriminate].
    + split; [eexists; reflexivity|reflexivity].
Qed.

Lemma all_stopped_proof max p acts :
  let s := run_sched max p acts in terminal s = true -> alive_list s.(trace) = [].
Proof.
  intros s T. pose proof (run_inv max p acts) as I. fold s in I.
  destruct (alive_list (trace s)) as [|k l] eqn:E; [reflexivity|].
  assert (H : In k (alive_list (trace s))) by (rewrite E; simpl; auto).
  apply (inv_alive_in _ _ _ I) in H. destruct H as (sl & H & A).
  rewrite (terminal_released _ _ _ T H) in A. discriminate.
Qed.

(* ---------- termination ---------- *)
Definition sumw (l : list slot) : nat := fold_right (fun sl acc => weight sl + acc) 0 l.
Local Arguments weight : simpl never.

Lemma sumw_upd l k x y : nth_error l k = Some y -> sumw (upd k x l) + weight y = sumw l + weight x.
Proof.
  revert k; induction l as [|h t IH]; intros [|k] H; simpl in *; try discriminate.
  - inversion H; subst. lia.
  - specialize (IH k H). fold (sumw t) in *. fold (sumw (upd k x t)) in *. lia.
Qed.

Lemma sumw_set s k b st st' :
  nth_error s.(slots) k = Some (mkSlot b st) ->
  sumw (set_st s k st') + weight (mkSlot b st) = sumw s.(slots) + weight (mkSlot b st').
Proof. intros E. unfold set_st. rewrite E. apply (sumw_upd _ _ _ _ E). Qed.

Lemma remove_one_length x l : existsb (pair_eqb x) l = true -> S (length (remove_one x l)) = length l.
Proof.
  induction l as [|y t IH]; simpl; [discriminate|].
  destruct (pair_eqb x y); simpl; [reflexivity|]. intros H. rewrite IH by exact H. reflexivity.
Qed.

Lemma measure_decreases_proof max p s a s' :
  Inv max p s -> step_opt max s a = Some s' -> measure s' < measure s.
Proof.
  unfold measure. fold (sumw (slots s)). fold (sumw (slots s')).
  intros I H. destruct a as [|k|k|k a0|k|k|k n|k|k]; simpl in H.
  - destruct (nth_error (slots s) (pc s)) as [[b st]|] eqn:Hk; [|discriminate].
    match type of H with context [if ?c then _ else _] => destruct c eqn:C end; [|discriminate].
    inversion H; subst; clear H; simpl.
    assert (P : st = Pending).
    { pose proof (proj2 (inv_pc _ _ _ I _ _ Hk) (Nat.le_refl _)) as Q. destruct st; simpl in Q; congruence. }
    subst st. pose proof (sumw_set s (pc s) b Pending Acquired Hk) as Q. unfold weight in Q; simpl in Q. lia.
  - unfold status_of in H. destruct (nth_error (slots s) k) as [[b st]|] eqn:Hk; simpl in H; [|discriminate].
    destruct st; try discriminate. inversion H; subst; clear H; simpl.
    pose proof (sumw_set s k b Acquired Spawned Hk) as Q. unfold weight in Q; simpl in Q. lia.
  - unfold status_of in H. destruct (nth_error (slots s) k) as [[b st]|] eqn:Hk; simpl in H; [|discriminate].
    destruct st; try discriminate. inversion H; subst; clear H; simpl.
    pose proof (sumw_set s k b Acquired Failed Hk) as Q. unfold weight in Q; simpl in Q. lia.
  - destruct (nth_error (slots s) k) as [[b st]|] eqn:Hk; [|discriminate].
    destruct st; try discriminate.
    destruct (i_tls (b_inst b) && is_empty (a_cert a0)); inversion H; subst; clear H; simpl.
    + pose proof (sumw_set s k b Spawned Failed Hk) as Q. unfold weight in Q; simpl in Q. lia.
    + pose proof (sumw_set s k b Spawned (Up a0 (b_cases b)) Hk) as Q. unfold weight in Q; simpl in Q. lia.
  - unfold status_of in H. destruct (nth_error (slots s) k) as [[b st]|] eqn:Hk; simpl in H; [|discriminate].
    destruct st; try discriminate. inversion H; subst; clear H; simpl.
    pose proof (sumw_set s k b Spawned Failed Hk) as Q. unfold weight in Q; simpl in Q. lia.
  - destruct (nth_error (slots s) k) as [[b st]|] eqn:Hk; [|discriminate].
    destruct st as [| | |a1 rest| | |]; try discriminate. destruct rest as [|tc rest]; [discriminate|].
    inversion H; subst; clear H; simpl.
    pose proof (sumw_set s k b (Up a1 (tc :: rest)) (Up a1 rest) Hk) as Q. unfold weight in Q; simpl in Q. lia.
  - destruct (existsb (pair_eqb (k, n)) (outst s)) eqn:E; [|discriminate]. inversion H; subst; clear H; simpl.
    pose proof (remove_one_length _ _ E). lia.
  - unfold status_of in H. destruct (nth_error (slots s) k) as [[b st]|] eqn:Hk; simpl in H; [|discriminate].
    destruct st as [| | |a1 rest| | |]; try discriminate. destruct rest; [|discriminate].
    destruct (has_outst k (outst s)); [discriminate|]. inversion H; subst; clear H; simpl.
    pose proof (sumw_set s k b (Up a1 []) Stopped Hk) as Q. unfold weight in Q; simpl in Q. lia.
  - unfold status_of in H. destruct (nth_error (slots s) k) as [[b st]|] eqn:Hk; simpl in H; [|discriminate].
    destruct st; try discriminate; inversion H; subst; clear H; simpl.
    + pose proof (sumw_set s k b Failed Released Hk) as Q. unfold weight in Q; simpl in Q. lia.
    + pose proof (sumw_set s k b Stopped Released Hk) as Q. unfold weight in Q; simpl in Q. lia.
Qed.

(* no schedule, however long, contains more enabled actions than the initial measure *)
Lemma schedule_bound_from max p acts : forall s,
  Inv max p s -> effective max s acts + measure (run_from max s acts) <= measure s.
Proof.
  induction acts as [|a acts IH]; intros s I; simpl; [lia|].
  unfold step. destruct (step_opt max s a) as [s'|] eqn:E.
  - pose proof (measure_decreases_proof _ _ _ _ _ I E). specialize (IH s' (step_inv _ _ _ _ _ I E)). lia.
  - apply IH, I.
Qed.

Lemma schedule_bound_proof max p acts :
  effective max (init_state p) acts + measure (run_sched max p acts) <= measure (init_state p).
Proof. apply (schedule_bound_from max p), init_inv. Qed.

(* ... and a state that is not final always has an enabled action *)
Lemma find_or_none {A} (P : A -> bool) (l : list A) :
  (exists k x, nth_error l k = Some x /\ P x = true) \/ (forall x, In x l -> P x = false).
Proof.
  induction l as [|h t IH]; [right; intros x []|].
  destruct (P h) eqn:E; [left; exists 0, h; auto|].
  destruct IH as [(k & x & H & Q)|N]; [left; exists (S k), x; auto|].
  right. intros x [<-|H]; auto.
Qed.

Lemma forallb_false {A} (f : A -> bool) l : forallb f l = false -> exists x, In x l /\ f x = false.
Proof.
  induction l as [|h t IH]; simpl; [discriminate|].
  destruct (f h) eqn:E; simpl; [|intros _; exists h; auto].
  intros H. destruct (IH H) as (x & I & Q). exists x; auto.
Qed.

Lemma firstn_nth {A} (l : list A) : forall n x, In x (firstn n l) -> exists j, j < n /\ nth_error l j = Some x.
Proof.
  induction l as [|h t IH]; intros [|n] x H; simpl in H; try contradiction.
  destruct H as [<-|H]; [exists 0; split; [lia|reflexivity]|].
  destruct (IH n x H) as (j & L & E). exists (S j); split; [lia|exact E].
Qed.

Definition active (st : status) : bool :=
  match st with Pending | Released => false | _ => true end.

Lemma pair_eqb_refl x : pair_eqb x x = true.
Proof. unfold pair_eqb. rewrite Nat.eqb_refl, bytes_eqb_refl. reflexivity. Qed.

Lemma no_deadlock_proof max p s :
  1 <= max -> Inv max p s -> terminal s = false -> exists a s', step_opt max s a = Some s'.
Proof.
  intros M I T.
  destruct (outst s) as [|[k n] o] eqn:O.
  2:{ exists (Answer k n). simpl. rewrite O. simpl. rewrite pair_eqb_refl. simpl. eexists; reflexivity. }
  destruct (find_or_none (fun sl => active (sl_st sl)) (slots s)) as [(k & [b st] & E & A)|N].
  - simpl in A. destruct st as [| | |a rest| | |]; try discriminate.
    + exists (Spawn k). unfold step_opt, status_of. rewrite E. simpl. eexists; reflexivity.
    + exists (Die k). unfold step_opt, status_of. rewrite E. simpl. eexists; reflexivity.
    + destruct rest as [|tc rest].
      * exists (Stop k). unfold step_opt, status_of. rewrite E, O. simpl. eexists; reflexivity.
      * exists (Send k). unfold step_opt. rewrite E. eexists; reflexivity.
    + exists (Release k). unfold step_opt, status_of. rewrite E. simpl. eexists; reflexivity.
    + exists (Release k). unfold step_opt, status_of. rewrite E. simpl. eexists; reflexivity.
  - (* every slot is Pending or Released *)
    unfold terminal in T. apply forallb_false in T. destruct T as (sl & HI & NR).
    apply In_nth_error in HI. destruct HI as (k & E).
    assert (PK : is_pending (sl_st sl) = true).
    { pose proof (N sl (nth_error_In _ _ E)) as Q. simpl in Q. destruct (sl_st sl); simpl in *; congruence. }
    apply (inv_pc _ _ _ I k sl E) in PK.
    assert (LT : pc s < length (slots s)).
    { assert (k < length (slots s)) by (apply nth_error_Some; congruence). lia. }
    destruct (nth_error (slots s) (pc s)) as [[b st]|] eqn:EP; [|apply nth_error_None in EP; lia].
    exists Acquire. unfold step_opt. rewrite EP.
    assert (S0 : sem s = 0).
    { rewrite (inv_sem _ _ _ I). apply count_zero. intros x Hx. specialize (N x Hx). simpl in N.
      destruct (sl_st x); simpl in *; congruence. }
    assert (PH : phase_ok s b = true).
    { unfold phase_ok. apply forallb_forall. intros x Hx.
      apply firstn_nth in Hx. destruct Hx as (j & L & Ej).
      pose proof (N x (nth_error_In _ _ Ej)) as Q. simpl in Q.
      pose proof (inv_pc _ _ _ I j x Ej) as PC.
      destruct (sl_st x); simpl in *; try congruence; [|apply orb_true_r].
      assert (pc s <= j) by (apply PC; reflexivity). lia. }
    simpl. rewrite PH, S0. destruct max; [lia|]. simpl. eexists; reflexivity.
Qed.

Lemma progress_proof max p acts :
  1 <= max -> let s := run_sched max p acts in
  terminal s = false -> exists a s', step_opt max s a = Some s'.
Proof. intros M s. apply (no_deadlock_proof max p s M), run_inv. Qed.

Lemma measure_step_proof max p acts a s' :
  step_opt max (run_sched max p acts) a = Some s' -> measure s' < measure (run_sched max p acts).
Proof. apply (measure_decreases_proof max p), run_inv. Qed.

(* ---------- the scheduler used for the correspondence runs follows a schedule ---------- *)
Lemma run_from_snoc max s0 acc a :
  run_from max s0 (rev (a :: acc)) = step max (run_from max s0 (rev acc)) a.
Proof. unfold run_from. simpl. rewrite fold_left_app. reflexivity. Qed.

Lemma settle_sched max missing s0 : forall fuel s acc s' acc',
  s = run_from max s0 (rev acc) -> settle fuel max missing s acc = (s', acc') ->
  s' = run_from max s0 (rev acc').
Proof.
  induction fuel as [|f IH]; intros s acc s' acc' E H; simpl in H.
  - inversion H; subst; reflexivity.
  - destruct (internal_action max missing s) as [a|].
    + eapply IH; [|exact H]. rewrite run_from_snoc, <- E. reflexivity.
    + inversion H; subst; reflexivity.
Qed.

Lemma move_sched max ds s0 s acc m :
  s = run_from max s0 (rev acc) ->
  let '(s1, acc1) := match move_action ds s m with
                     | Some a => (step max s a, a :: acc)
                     | None => (s, acc)
                     end in
  s1 = run_from max s0 (rev acc1).
Proof.
  intros E. destruct (move_action ds s m) as [a|]; [|exact E].
  rewrite run_from_snoc, <- E. reflexivity.
Qed.

Lemma play_cons max missing ds s acc m r :
  play max missing ds s acc (m :: r) =
    let '(s1, acc1) := match move_action ds s m with
                       | Some a => (step max s a, a :: acc)
                       | None => (s, acc)
                       end in
    let '(s2, acc2) := settle (S (measure s1)) max missing s1 acc1 in
    let '(s3, acc3, sn) := play max missing ds s2 acc2 r in
    (s3, acc3, snap s2 :: sn).
Proof. reflexivity. Qed.

Lemma drain_S max missing ds f s acc :
  drain (S f) max missing ds s acc =
    match drain_move s with
    | None => (s, acc)
    | Some m =>
      let '(s1, acc1) := match move_action ds s m with
                         | Some a => (step max s a, a :: acc)
                         | None => (s, acc)
                         end in
      let '(s2, acc2) := settle (S (measure s1)) max missing s1 acc1 in
      drain f max missing ds s2 acc2
    end.
Proof. reflexivity. Qed.

Lemma play_sched max missing ds s0 : forall script s acc s' acc' sn,
  s = run_from max s0 (rev acc) -> play max missing ds s acc script = (s', acc', sn) ->
  s' = run_from max s0 (rev acc').
Proof.
  induction script as [|m r IH]; intros s acc s' acc' sn E H.
  - simpl in H. inversion H; subst; reflexivity.
  - rewrite play_cons in H. pose proof (move_sched max ds s0 s acc m E) as M.
    destruct (match move_action ds s m with Some a => (step max s a, a :: acc) | None => (s, acc) end) as [s1 acc1].
    destruct (settle (S (measure s1)) max missing s1 acc1) as [s2 acc2] eqn:S2.
    pose proof (settle_sched max missing s0 _ _ _ _ _ M S2) as E2.
    destruct (play max missing ds s2 acc2 r) as [[s3 acc3] sn3] eqn:P3.
    injection H as <- <- <-. eapply IH; [exact E2|exact P3].
Qed.

Lemma drain_sched max missing ds s0 : forall fuel s acc s' acc',
  s = run_from max s0 (rev acc) -> drain fuel max missing ds s acc = (s', acc') ->
  s' = run_from max s0 (rev acc').
Proof.
  induction fuel as [|f IH]; intros s acc s' acc' E H.
  - simpl in H. inversion H; subst; reflexivity.
  - rewrite drain_S in H. destruct (drain_move s) as [m|]; [|inversion H; subst; reflexivity].
    pose proof (move_sched max ds s0 s acc m E) as M.
    destruct (match move_action ds s m with Some a => (step max s a, a :: acc) | None => (s, acc) end) as [s1 acc1].
    destruct (settle (S (measure s1)) max missing s1 acc1) as [s2 acc2] eqn:S2.
    pose proof (settle_sched max missing s0 _ _ _ _ _ M S2) as E2.
    eapply IH; [exact E2|exact H].
Qed.

Lemma scripted_is_schedule_proof max missing ds p script :
  let '(s, acts, _) := scripted max missing ds p script in s = run_sched max p acts.
Proof.
  unfold scripted, run_sched.
  destruct (settle (S (measure (init_state p))) max missing (init_state p) []) as [s1 acc1] eqn:S1.
  assert (E1 : s1 = run_from max (init_state p) (rev acc1)).
  { eapply settle_sched; [|exact S1]. reflexivity. }
  destruct (play max missing ds s1 acc1 script) as [[s2 acc2] sn] eqn:P2.
  pose proof (play_sched max missing ds _ _ _ _ _ _ _ E1 P2) as E2.
  destruct (drain (S (measure s2)) max missing ds s2 acc2) as [s3 acc3] eqn:D3.
  apply (drain_sched max missing ds _ _ _ _ _ _ E2 D3).
Qed.

(* ---------- client mode: two server kinds, one plan, one semaphore ---------- *)
Lemma both_server_kinds_in_plan_proof lib sel order c g :
  In g order ->
  batch_cases lib sel c (mkPeer true false) g <> [] ->
  batch_cases lib sel c (mkPeer false true) g <> [] ->
  In (mkBatch 0 c.(p_ref) true g (batch_cases lib sel c (mkPeer true false) g))
     (plan lib sel order [c] (peers_of true)) /\
  In (mkBatch 0 c.(p_ref) false g (batch_cases lib sel c (mkPeer false true) g))
     (plan lib sel order [c] (peers_of true)).
Proof.
  intros Hg H1 H2. unfold plan. cbn [plan_from]. rewrite app_nil_r.
  unfold plan_phase, peers_of. cbn [flat_map]. rewrite app_nil_r. split.
  - apply in_or_app; left. apply in_flat_map. exists g. split; [exact Hg|].
    destruct (batch_cases lib sel c (mkPeer true false) g); [congruence|]. cbn. left; reflexivity.
  - apply in_or_app; right. apply in_flat_map. exists g. split; [exact Hg|].
    destruct (batch_cases lib sel c (mkPeer false true) g); [congruence|]. cbn. left; reflexivity.
Qed.

Lemma bounded_across_server_kinds_proof max lib sel order clients acts :
  always_bounded max (run_sched max (plan lib sel order clients (peers_of true)) acts).(trace) /\
  max_alive (run_sched max (plan lib sel order clients (peers_of true)) acts).(trace) <= max.
Proof. split; [apply bounded_proof|apply max_alive_proof]. Qed.
