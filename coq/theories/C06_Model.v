(* C06_Model.v — executable model of internal/app/connectconformance/config.go
     parseConfig, resolveFeatures, computeCasesFromFeatures, resolveCase, contains, only
   over a raw configuration that mirrors proto/connectrpc/conformance/v1/config.proto:
   enum fields are N (0 = *_UNSPECIFIED, CODEC_TEXT = 3 exists), `optional bool`
   fields are option bool.  Go's map[configCase]struct{} is a list here (duplicates
   allowed, membership is what counts; only len == 0 is ever asked of the map).
   No proofs of properties here (one order lemma needed by the Mergesort functor). *)
From V Require Export Base.
From Coq Require Import Orders Mergesort.
Open Scope N_scope.

Inductive res (A : Type) : Type :=
| Ok (a : A)
| Err.
Arguments Ok {A} a.
Arguments Err {A}.

(* enum numbers of config.proto *)
Definition H1 : N := 1.  Definition H2 : N := 2.  Definition H3 : N := 3.
Definition CONNECT : N := 1.  Definition GRPC : N := 2.  Definition GRPCWEB : N := 3.
Definition PROTO : N := 1.  Definition JSON : N := 2.  Definition TEXT : N := 3.
Definition IDENTITY : N := 1.  Definition GZIP : N := 2.
Definition UNARY : N := 1.  Definition CLIENT_STREAM : N := 2.  Definition SERVER_STREAM : N := 3.
Definition HALF : N := 4.  Definition FULL : N := 5.

(* message Features *)
Record features := mkFeatures {
  F_versions : list N; F_protocols : list N; F_codecs : list N;
  F_compressions : list N; F_streams : list N;
  F_h2c : option bool; F_tls : option bool; F_certs : option bool; F_trailers : option bool;
  F_half1 : option bool; F_get : option bool; F_limit : option bool }.

(* type supportedFeatures *)
Record resolved := mkResolved {
  r_versions : list N; r_protocols : list N; r_codecs : list N;
  r_compressions : list N; r_streams : list N;
  r_h2c : bool; r_tls : bool; r_certs : bool; r_trailers : bool;
  r_half1 : bool; r_get : bool; r_limit : bool }.

(* message ConfigCase *)
Record entry := mkEntry {
  e_version : N; e_protocol : N; e_codec : N; e_compression : N; e_stream : N;
  e_tls : option bool; e_certs : option bool; e_limit : option bool }.

(* type configCase (ten fields; parseConfig never sets ConnectVersionMode) *)
Record case := mkCase {
  c_version : N; c_protocol : N; c_codec : N; c_compression : N; c_stream : N;
  c_tls : bool; c_certs : bool; c_get : bool; c_limit : bool; c_cvm : N }.

(* message Config *)
Record config := mkConfig {
  cfg_features : features; cfg_includes : list entry; cfg_excludes : list entry }.

Definition contains (l : list N) (x : N) : bool := existsb (N.eqb x) l.
Definition only (l : list N) (x : N) : bool :=
  match l with [] => false | _ => forallb (N.eqb x) l end.
Definition contains_b (l : list bool) (x : bool) : bool := existsb (Bool.eqb x) l.
Definition is_nil {A} (l : list A) : bool := match l with [] => true | _ => false end.

(* GetXxx() of an optional bool, and "default to true if not provided" *)
Definition getb (o : option bool) : bool := match o with Some b => b | None => false end.
Definition dflt_true (o : option bool) : bool := match o with Some b => b | None => true end.

(* resolveFeatures, statement by statement (the second `len(result.Versions) == 0`
   block of the Go code is kept although it cannot be reached with an empty list). *)
Definition resolve_features (F : features) : res resolved :=
  let h2c := dflt_true (F_h2c F) in
  let tls := dflt_true (F_tls F) in
  let certs := getb (F_certs F) in
  let trailers := dflt_true (F_trailers F) in
  let half1 := getb (F_half1 F) in
  let get := dflt_true (F_get F) in
  let limit := dflt_true (F_limit F) in
  if certs && negb tls then Err else
  let versions1 := if is_nil (F_versions F)
                   then (if tls || h2c then [H1; H2] else [H1]) else F_versions F in
  if negb (is_nil (F_versions F)) && getb (F_h2c F) && negb (contains (F_versions F) H2) then Err else
  let inc3 := contains versions1 H3 in
  if inc3 && negb tls then Err else
  let inc2a := contains versions1 H2 in
  let can2 := h2c || tls in
  if inc2a && negb can2 then Err else
  let inc2 := if is_nil versions1 then (if can2 then true else inc2a) else inc2a in
  let versions := if is_nil versions1 then (if can2 then [H1; H2] else [H1]) else versions1 in
  let incg := contains (F_protocols F) GRPC in
  if incg && negb trailers then Err else
  if incg && negb inc2 then Err else
  let cang := trailers && inc2 in
  let protocols := if is_nil (F_protocols F)
                   then (if cang then [CONNECT; GRPC; GRPCWEB] else [CONNECT; GRPCWEB])
                   else F_protocols F in
  let codecs := if is_nil (F_codecs F) then [PROTO; JSON] else F_codecs F in
  let compressions := if is_nil (F_compressions F) then [IDENTITY; GZIP] else F_compressions F in
  let incfull := contains (F_streams F) FULL in
  let only1 := negb inc2 && negb inc3 in
  if incfull && only1 then Err else
  let inchalf := contains (F_streams F) HALF in
  if inchalf && only1 && negb half1 then Err else
  let streams := if is_nil (F_streams F)
                 then (if only1
                       then (if half1 then [UNARY; CLIENT_STREAM; SERVER_STREAM; HALF]
                             else [UNARY; CLIENT_STREAM; SERVER_STREAM])
                       else [UNARY; CLIENT_STREAM; SERVER_STREAM; HALF; FULL])
                 else F_streams F in
  Ok (mkResolved versions protocols codecs compressions streams h2c tls certs trailers half1 get limit).

(* `if cond { continue }` inside a range loop *)
Definition unless {A} (skip : bool) (l : list A) : list A := if skip then [] else l.

Definition bool_cases (given : list bool) (supported : bool) : list bool :=
  match given with
  | [] => if supported then [false; true] else [false]
  | _ => given
  end.

(* computeCasesFromFeatures: same loop nesting, same `continue` conditions *)
Definition compute_cases (f : resolved) (tls_cases cert_cases limit_cases : list bool) : list case :=
  let tls_cases := bool_cases tls_cases (r_tls f) in
  let cert_cases := bool_cases cert_cases (r_certs f) in
  let limit_cases := bool_cases limit_cases (r_limit f) in
  flat_map (fun version =>
  flat_map (fun tls =>
    unless (negb tls && ((version =? H3) || ((version =? H2) && negb (r_h2c f))))
  (flat_map (fun cert =>
    unless (cert && negb tls)
  (flat_map (fun protocol =>
    unless ((protocol =? GRPC) && negb (version =? H2))
    (let get_cases := if (protocol =? CONNECT) && r_get f then [false; true] else [false] in
  flat_map (fun stream =>
    unless ((stream =? HALF) && (negb (r_half1 f) && (version =? H1)))
   (unless ((stream =? FULL) && (version =? H1))
  (flat_map (fun codec =>
    unless (codec =? TEXT)
  (flat_map (fun compression =>
  flat_map (fun get =>
  map (fun limit =>
    mkCase version protocol codec compression stream tls cert get limit 0)
  limit_cases) get_cases) (r_compressions f))) (r_codecs f)))) (r_streams f)))
  (r_protocols f))) cert_cases)) tls_cases) (r_versions f).

Definition with_lists (f : resolved) (v p c z s : list N) : resolved :=
  mkResolved v p c z s (r_h2c f) (r_tls f) (r_certs f) (r_trailers f) (r_half1 f) (r_get f) (r_limit f).

Definition opt_cases (o : option bool) : list bool := match o with Some b => [b] | None => [] end.

(* resolveCase.  The two client-certificate errors fire only when the entry asks for
   client certificates (use_tls_client_certs: true); see KNOWN_FINDINGS.txt (C06). *)
Definition resolve_case (f : resolved) (e : entry) : res (list case) :=
  let using_tls := match e_tls e with Some b => b | None => r_tls f end in
  if negb (e_version e =? 0) && (e_version e =? H2) && negb using_tls && negb (r_h2c f) then Err else
  if negb (e_version e =? 0) && (e_version e =? H3) && negb using_tls then Err else
  let versions := if e_version e =? 0 then r_versions f else [e_version e] in
  if negb (e_protocol e =? 0) && (e_protocol e =? GRPC) && negb (contains versions H2) then Err else
  let protocols := if e_protocol e =? 0 then r_protocols f else [e_protocol e] in
  let codecs := if e_codec e =? 0 then r_codecs f else [e_codec e] in
  let compressions := if e_compression e =? 0 then r_compressions f else [e_compression e] in
  if negb (e_stream e =? 0) && (e_stream e =? HALF) && negb (r_half1 f) && only versions H1 then Err else
  if negb (e_stream e =? 0) && (e_stream e =? FULL) && only versions H1 then Err else
  let streams := if e_stream e =? 0 then r_streams f else [e_stream e] in
  let tls_cases := opt_cases (e_tls e) in
  if getb (e_certs e) && (match e_tls e with Some false => true | _ => false end) then Err else
  if getb (e_certs e) && negb (contains_b tls_cases true) && negb (r_tls f) then Err else
  Ok (compute_cases (with_lists f versions protocols codecs compressions streams)
        tls_cases (opt_cases (e_certs e)) (opt_cases (e_limit e))).

Definition case_eqb (a b : case) : bool :=
  (c_stream a =? c_stream b) && (c_compression a =? c_compression b) && (c_version a =? c_version b)
  && (c_protocol a =? c_protocol b) && (c_codec a =? c_codec b)
  && Bool.eqb (c_tls a) (c_tls b) && Bool.eqb (c_certs a) (c_certs b)
  && Bool.eqb (c_get a) (c_get b) && Bool.eqb (c_limit a) (c_limit b) && (c_cvm a =? c_cvm b).

Definition mem_case (c : case) (l : list case) : bool := existsb (case_eqb c) l.

(* for include := range resolved { cases[include] = struct{}{} } *)
Fixpoint add_includes (f : resolved) (cases : list case) (es : list entry) : res (list case) :=
  match es with
  | [] => Ok cases
  | e :: es' =>
    match resolve_case f e with
    | Err => Err
    | Ok r => add_includes f (cases ++ r) es'
    end
  end.

(* for exclude := range resolved { delete(cases, exclude) } *)
Fixpoint drop_excludes (f : resolved) (cases : list case) (es : list entry) : res (list case) :=
  match es with
  | [] => Ok cases
  | e :: es' =>
    match resolve_case f e with
    | Err => Err
    | Ok r => drop_excludes f (filter (fun c => negb (mem_case c r)) cases) es'
    end
  end.

(* parseConfig up to, but not including, the `len(cases) == 0` test *)
Definition expand_config (cfg : config) : res (list case) :=
  match resolve_features (cfg_features cfg) with
  | Err => Err
  | Ok f =>
    match add_includes f (compute_cases f [] [] []) (cfg_includes cfg) with
    | Err => Err
    | Ok cases => drop_excludes f cases (cfg_excludes cfg)
    end
  end.

Definition parse_config (cfg : config) : res (list case) :=
  match expand_config cfg with
  | Err => Err
  | Ok [] => Err
  | Ok cases => Ok cases
  end.

(* ---------- case decoding / result encoding (extracted glue) ---------- *)
Definition b2n (b : bool) : N := if b then 1 else 0.

(* injective for enum numbers below 16 (the generator stays below 8) *)
Definition case_key (c : case) : N :=
  ((((((((c_cvm c * 16 + c_version c) * 16 + c_protocol c) * 16 + c_codec c) * 16 + c_compression c) * 16
      + c_stream c) * 2 + b2n (c_tls c)) * 2 + b2n (c_certs c)) * 2 + b2n (c_get c)) * 2 + b2n (c_limit c).

Module NLeb <: TotalLeBool.
  Definition t := N.
  Definition leb := N.leb.
  Theorem leb_total : forall a b, leb a b = true \/ leb b a = true.
  Proof.
    intros a b. unfold leb. destruct (N.leb_spec a b); [left; reflexivity|right].
    apply N.leb_le. apply N.lt_le_incl. assumption.
  Qed.
End NLeb.
Module NSort := Sort NLeb.

Fixpoint uniq_sorted (l : list N) : list N :=
  match l with
  | a :: (b :: _) as t => if a =? b then uniq_sorted t else a :: uniq_sorted t
  | _ => l
  end.

Definition key_bytes (k : N) : bytes :=
  [ N.land (N.shiftr k 24) 255; N.land (N.shiftr k 16) 255; N.land (N.shiftr k 8) 255; N.land k 255 ].

(* the set of cases in canonical form: ascending keys without repetition; printed as
   a byte string, 4 bytes per case *)
Definition case_keys (cs : list case) : list N := uniq_sorted (NSort.sort (map case_key cs)).

(* flags travel as 0 = absent, 1 = false, 2 = true *)
Definition un_flag (s : sx) : option (option bool) :=
  match s with
  | I 0%Z => Some None
  | I 1%Z => Some (Some false)
  | I 2%Z => Some (Some true)
  | _ => None
  end.

Definition un_Ns (s : sx) : option (list N) := un_listof un_N s.

Definition un_features (s : sx) : option features :=
  match s with
  | L [v; p; c; z; st; a1; a2; a3; a4; a5; a6; a7] =>
    do v <- un_Ns v; do p <- un_Ns p; do c <- un_Ns c; do z <- un_Ns z; do st <- un_Ns st;
    do a1 <- un_flag a1; do a2 <- un_flag a2; do a3 <- un_flag a3; do a4 <- un_flag a4;
    do a5 <- un_flag a5; do a6 <- un_flag a6; do a7 <- un_flag a7;
    ret (mkFeatures v p c z st a1 a2 a3 a4 a5 a6 a7)
  | _ => None
  end.

Definition un_entry (s : sx) : option entry :=
  match s with
  | L [v; p; c; z; st; a1; a2; a3] =>
    do v <- un_N v; do p <- un_N p; do c <- un_N c; do z <- un_N z; do st <- un_N st;
    do a1 <- un_flag a1; do a2 <- un_flag a2; do a3 <- un_flag a3;
    ret (mkEntry v p c z st a1 a2 a3)
  | _ => None
  end.

Definition un_config (fe inc exc : sx) : option config :=
  do f <- un_features fe; do i <- un_listof un_entry inc; do x <- un_listof un_entry exc;
  ret (mkConfig f i x).

(* ("c06.parse" id render-options features includes excludes) -> (ok #set) | (err "config") *)
Definition run_c06_parse (args : list sx) : sx :=
  or_bad (match args with
  | [_; fe; inc; exc] =>
    do cfg <- un_config fe inc exc;
    ret (match parse_config cfg with
         | Ok cs => let ks := case_keys cs in L [B (bs "ok"); sx_nat (length ks); B (flat_map key_bytes ks)]
         | Err => sx_err "config"
         end)
  | _ => None end).

(* the dispatch table c06_table is assembled in C06_Load.v (it adds the loader kinds) *)
Definition c06_parse_table : list (bytes * (list sx -> sx)) :=
  [ (bs "c06.parse", run_c06_parse) ].
