(* C08_Spec.v — the declarative specification: glob semantics of test-name
   patterns, written from the property text and docs/configuring_and_running_tests.md.
   Short enough to read in a minute; no reference to the trie. *)
From V Require Export C08_Model.

(* A pattern and a name are lists of components (the text between slashes).
   Component "*" stands for exactly one name component, "**" for zero or more,
   anything else only for itself. *)
Inductive glob : list comp -> list comp -> Prop :=
| g_nil : glob [] []
| g_lit c p n : c <> star -> c <> dstar -> glob p n -> glob (c :: p) (c :: n)
| g_star p c n : glob p n -> glob (star :: p) (c :: n)
| g_dstar0 p n : glob p n -> glob (dstar :: p) n
| g_dstar1 p c n : glob (dstar :: p) n -> glob (dstar :: p) (c :: n).

(* string level *)
Definition globs (pattern name : bytes) : Prop := glob (split_name pattern) (split_name name).
Definition some_glob (patterns : list bytes) (name : bytes) : Prop :=
  exists p, In p patterns /\ globs p name.
