(* C13_CallProofs.v — the glue of C13_Call: (1) every call site of the reference client hands the
   call's trace to the examiners, whatever error code the RPC ended with; (2) the end-stream content
   the examiners read off the trace is the WHOLE payload of the end-stream envelope, whatever its
   length; hence the acceptance / rejection theorems of the examiners carry over to the feedback field
   of the ClientResponseResult. *)
From Coq Require Import Lia.
From V Require Import C13_Consts C13_Model C13_Spec C13_Proofs C13_Proofs4 C13_Call.
Open Scope N_scope.

(* ---------------- prefixes ---------------- *)
Lemma prefix_compat : forall p q s, has_prefix p s = true -> has_prefix q s = true ->
  has_prefix p q = true \/ has_prefix q p = true.
Proof.
  induction p as [|x p IH]; intros q s Hp Hq; [left; reflexivity|].
  destruct q as [|y q]; [right; reflexivity|].
  destruct s as [|z s]; [discriminate|]. simpl in *.
  apply andb_true_iff in Hp. destruct Hp as (E1 & Hp).
  apply andb_true_iff in Hq. destruct Hq as (E2 & Hq).
  apply N.eqb_eq in E1. apply N.eqb_eq in E2. subst.
  rewrite N.eqb_refl. simpl. eauto.
Qed.

Lemma prefix_shorten : forall p q s, has_prefix (p ++ q) s = true -> has_prefix p s = true.
Proof.
  induction p as [|x p IH]; intros q s H; [reflexivity|].
  destruct s as [|z s]; [discriminate|]. simpl in *.
  apply andb_true_iff in H. destruct H as (E & H). rewrite E. simpl. eauto.
Qed.

Lemma prefix_lower : forall p s, has_prefix p s = true -> has_prefix (lower p) (lower s) = true.
Proof.
  induction p as [|x p IH]; intros s H; [reflexivity|].
  destruct s as [|z s]; [discriminate|]. simpl in *.
  apply andb_true_iff in H. destruct H as (E & H). apply N.eqb_eq in E. subst.
  rewrite N.eqb_refl. simpl. apply IH. exact H.
Qed.

Lemma prefix_self : forall s, has_prefix s s = true.
Proof. induction s; simpl; [reflexivity|]. rewrite N.eqb_refl. exact IHs. Qed.

(* a content type with prefix [p] is not [other] unless [p] is a prefix of [other] *)
Lemma prefix_not_eq : forall p s other, has_prefix p s = true -> has_prefix p other = false ->
  bytes_eqb s other = false.
Proof.
  intros p s other H N. destruct (bytes_eqb_spec s other) as [E|]; [|reflexivity].
  subst. congruence.
Qed.

Lemma prefix_excludes : forall p q s, has_prefix p s = true ->
  has_prefix p q = false -> has_prefix q p = false -> has_prefix q s = false.
Proof.
  intros p q s H N1 N2. destruct (has_prefix q s) eqn:E; [|reflexivity].
  destruct (prefix_compat p q s H E); congruence.
Qed.

(* ---------------- the trace of a body of complete envelopes ---------------- *)
Definition no_end_stream (e : envelope) : Prop := is_end_flag (fst e) = false \/ snd e = [].

Lemma first_end_stream_whole_proof : forall pre f payload post,
  Forall no_end_stream pre -> is_end_flag f = true -> payload <> [] ->
  first_end_stream (flat_map env_events (pre ++ (f, payload) :: post)) = Some payload.
Proof.
  induction pre as [|e pre IH]; intros f payload post HF Hf Hp.
  - simpl. rewrite Hf. destruct payload; [congruence|]. reflexivity.
  - inversion HF as [|? ? H1 H2]; subst. simpl.
    destruct H1 as [H1|H1]; rewrite H1; simpl.
    + apply IH; assumption.
    + rewrite andb_false_r. simpl. apply IH; assumption.
Qed.

Lemma no_end_stream_none_proof : forall envs, Forall no_end_stream envs ->
  first_end_stream (flat_map env_events envs) = None.
Proof.
  induction envs as [|e envs IH]; intros HF; [reflexivity|].
  inversion HF as [|? ? H1 H2]; subst. simpl.
  destruct H1 as [H1|H1]; rewrite H1; simpl; [|rewrite andb_false_r; simpl]; auto.
Qed.

Lemma has_data_nonempty : forall e envs, has_data_event (flat_map env_events (e :: envs)) = true.
Proof. reflexivity. Qed.

(* ---------------- the call sites ---------------- *)
Lemma call_is_examination_proof : forall u m ended r,
  call_feedback u true m false ended r =
  match examine_wire u (wire_of_response r) with
  | Crash => Crash
  | Done f => Done (Some (r_status r), f)
  end.
Proof. intros u m ended r. destruct m; reflexivity. Qed.

Lemma call_examined_for_every_code_proof : forall u m r e1 e2,
  call_feedback u true m false e1 r = call_feedback u true m false e2 r.
Proof. intros. rewrite !call_is_examination_proof. reflexivity. Qed.

Lemma call_total_proof : forall u refmode m sf ended r, exists st f,
  call_feedback u refmode m sf ended r = Done (st, f).
Proof.
  intros. unfold call_feedback. destruct (refmode && site_examines m sf ended); [|eauto].
  destruct (examine_wire_total_proof u (wire_of_response r)) as (f & E). rewrite E. eauto.
Qed.

Lemma call_silent_outside_reference_mode_proof : forall u m sf ended r,
  call_feedback u false m sf ended r = Done (None, []).
Proof. reflexivity. Qed.

(* -- unary Connect error: the feedback starts with the examiner's verdict on the body, for every code -- *)
Lemma call_connect_error_proof : forall u m ended r,
  r_ctype r = bs "application/json" -> r_status r <> 200%Z ->
  exists tail, call_feedback u true m false ended r =
               Done (Some (r_status r), examine_connect_error (r_body_json r) ++ tail).
Proof.
  intros u m ended r Hc Hs. rewrite call_is_examination_proof.
  unfold examine_wire, wire_of_response. cbn [w_ctype w_status w_body]. rewrite Hc.
  replace (bytes_eqb (bs "application/json") (bs "application/json")) with true by reflexivity.
  destruct (Z.eqb_spec (r_status r) 200); [congruence|]. cbn [negb andb lift]. eauto.
Qed.

Lemma call_flags_connect_unknown_key_every_code_proof : forall u m ended r ms k v,
  r_ctype r = bs "application/json" -> r_status r <> 200%Z -> r_body_json r = Some (JObj ms) ->
  In (k, v) ms -> k <> bs "code" -> k <> bs "message" -> k <> bs "details" ->
  exists fbs, call_feedback u true m false ended r = Done (Some (r_status r), fbs) /\ fbs <> [].
Proof.
  intros u m ended r ms k v Hc Hs Hb Hin K1 K2 K3.
  destruct (call_connect_error_proof u m ended r Hc Hs) as (tail & E).
  eexists. split; [exact E|]. rewrite Hb.
  pose proof (flags_unknown_key_proof ms k v Hin K1 K2 K3) as F.
  destruct (examine_connect_error (Some (JObj ms))); [congruence|discriminate].
Qed.

(* -- gRPC trailers-only: the status trio of the headers is checked, for every code -- *)
Lemma grpc_not_json : forall ct, has_prefix (bs "application/grpc") ct = true ->
  bytes_eqb ct (bs "application/json") = false.
Proof. intros ct H. eapply prefix_not_eq; [exact H|reflexivity]. Qed.

Lemma grpc_not_connect : forall ct, has_prefix (bs "application/grpc") ct = true ->
  has_prefix (bs "application/connect+") ct = false.
Proof. intros ct H. eapply prefix_excludes; [exact H|reflexivity|reflexivity]. Qed.

Lemma call_grpc_trailers_only_proof : forall u m ended r,
  has_prefix (bs "application/grpc") (r_ctype r) = true ->
  has_prefix (bs "application/grpc-web") (r_ctype r) = false ->
  r_envs r = [] -> r_trailers r = [] ->
  exists fbs, check_grpc_status u (r_headers r) = Done fbs /\
              call_feedback u true m false ended r = Done (Some (r_status r), fbs).
Proof.
  intros u m ended r Hg Hw He Ht. rewrite call_is_examination_proof.
  destruct (check_grpc_status_total_proof u (r_headers r)) as (fbs & E).
  exists fbs. split; [exact E|].
  unfold examine_wire, wire_of_response, is_trailers_only, body_events.
  cbn [w_ctype w_status w_body w_eos w_eos_json w_headers w_trailers w_has_data w_err].
  rewrite (grpc_not_json _ Hg), (grpc_not_connect _ Hg), Hw, Hg, He, Ht.
  replace (flat_map env_events []) with (@nil tevent) by reflexivity.
  set (c1 := negb (bytes_eqb (r_ctype r) (bs "application/grpc"))).
  set (c2 := negb (has_prefix (bs "application/grpc+") (r_ctype r))).
  assert (T : (c1 && c2 && Nat.ltb 0 (@length (bytes * list bytes) []))%bool = false)
    by (destruct c1, c2; reflexivity).
  rewrite T. clear T.
  destruct (is_stream_ctype (r_ctype r)); cbn [first_end_stream has_data_event existsb negb forallb andb];
    rewrite E; unfold lift; rewrite app_nil_r; reflexivity.
Qed.

Lemma call_flags_grpc_bad_message_every_code_proof : forall u m ended r msg tl,
  has_prefix (bs "application/grpc") (r_ctype r) = true ->
  has_prefix (bs "application/grpc-web") (r_ctype r) = false ->
  r_envs r = [] -> r_trailers r = [] ->
  hget (r_headers r) k_message = msg :: tl -> ~ pct_wf msg ->
  exists fbs f, call_feedback u true m false ended r = Done (Some (r_status r), fbs) /\ In f fbs /\
                (f = MsgHex \/ f = MsgRaw \/ f = MsgIncomplete).
Proof.
  intros u m ended r msg tl Hg Hw He Ht Hm Hp.
  destruct (call_grpc_trailers_only_proof u m ended r Hg Hw He Ht) as (fbs & C & E).
  destruct (flags_bad_percent_proof u (r_headers r) msg tl Hm Hp) as (fbs' & f & C' & I & K).
  rewrite C in C'. inversion C'; subst. eauto.
Qed.

(* -- stream protocols: the end-stream content reaches the examiner whole -- *)
Lemma connect_is_stream : forall ct, has_prefix (bs "application/connect+") ct = true ->
  is_stream_ctype ct = true.
Proof.
  intros ct H. unfold is_stream_ctype.
  change (bs "application/connect+") with (bs "application/connect" ++ bs "+") in H.
  apply prefix_shorten in H. apply prefix_lower in H.
  change (lower (bs "application/connect")) with (bs "application/connect") in H. rewrite H. reflexivity.
Qed.

Lemma grpc_web_is_stream : forall ct, has_prefix (bs "application/grpc-web") ct = true ->
  is_stream_ctype ct = true.
Proof.
  intros ct H. unfold is_stream_ctype.
  change (bs "application/grpc-web") with (bs "application/grpc" ++ bs "-web") in H.
  apply prefix_shorten in H. apply prefix_lower in H.
  change (lower (bs "application/grpc")) with (bs "application/grpc") in H. rewrite H. apply orb_true_r.
Qed.

Lemma connect_not_json : forall ct, has_prefix (bs "application/connect+") ct = true ->
  bytes_eqb ct (bs "application/json") = false.
Proof. intros ct H. eapply prefix_not_eq; [exact H|reflexivity]. Qed.

Lemma call_connect_end_stream_proof : forall u m ended r pre f text post,
  has_prefix (bs "application/connect+") (r_ctype r) = true ->
  r_envs r = pre ++ (f, text) :: post -> Forall no_end_stream pre -> is_end_flag f = true -> text <> [] ->
  exists tail, call_feedback u true m false ended r =
               Done (Some (r_status r), examine_connect_end_stream (r_eos_json r) ++ tail) /\
               (r_trailers r = [] -> tail = []).
Proof.
  intros u m ended r pre f text post Hc He Hpre Hf Ht. rewrite call_is_examination_proof.
  unfold examine_wire, wire_of_response, body_events.
  cbn [w_ctype w_status w_body w_eos w_eos_json w_headers w_trailers w_has_data w_err].
  rewrite (connect_not_json _ Hc), Hc, (connect_is_stream _ Hc), He. cbv iota.
  pose proof (first_end_stream_whole_proof pre f text post Hpre Hf Ht) as W. unfold envelope, bytes in *. rewrite W. cbn [andb lift].
  eexists. split; [reflexivity|]. intros T. rewrite T. cbn. rewrite !andb_false_r. reflexivity.
Qed.

Lemma call_connect_end_stream_clean_proof : forall u m ended r pre f text post err trailers,
  has_prefix (bs "application/connect+") (r_ctype r) = true ->
  r_envs r = pre ++ (f, text) :: post -> Forall no_end_stream pre -> is_end_flag f = true -> text <> [] ->
  r_eos_json r = Some (wire_end_stream err trailers) ->
  match err with Some e => wf_wire_error e | None => True end -> Forall wf_field trailers ->
  r_trailers r = [] ->
  call_feedback u true m false ended r = Done (Some (r_status r), []).
Proof.
  intros u m ended r pre f text post err trailers Hc He Hpre Hf Ht Hj We Wt Tr.
  destruct (call_connect_end_stream_proof u m ended r pre f text post Hc He Hpre Hf Ht) as (tail & E & T).
  rewrite E, (T Tr), Hj, (connect_end_stream_clean_proof err trailers We Wt). reflexivity.
Qed.

Lemma grpc_web_not_connect : forall ct, has_prefix (bs "application/grpc-web") ct = true ->
  has_prefix (bs "application/connect+") ct = false.
Proof. intros ct H. eapply prefix_excludes; [exact H|reflexivity|reflexivity]. Qed.

Lemma grpc_web_not_json : forall ct, has_prefix (bs "application/grpc-web") ct = true ->
  bytes_eqb ct (bs "application/json") = false.
Proof. intros ct H. eapply prefix_not_eq; [exact H|reflexivity]. Qed.

Lemma grpc_web_not_grpc_plus : forall ct, has_prefix (bs "application/grpc-web") ct = true ->
  has_prefix (bs "application/grpc+") ct = false.
Proof. intros ct H. eapply prefix_excludes; [exact H|reflexivity|reflexivity]. Qed.

Lemma call_grpc_web_end_stream_clean_proof :
  forall marshal u m ended r pre f post code msg details trailers blk,
  proto_roundtrip marshal u -> 1 <= code <= 16 -> Forall is_byte msg -> wf_meta trailers ->
  grpc_web_end_stream marshal code msg details trailers = Done blk ->
  has_prefix (bs "application/grpc-web") (r_ctype r) = true ->
  r_envs r = pre ++ (f, blk) :: post -> Forall no_end_stream pre -> is_end_flag f = true ->
  r_trailers r = [] ->
  call_feedback u true m false ended r = Done (Some (r_status r), []).
Proof.
  intros marshal u m ended r pre f post code msg details trailers blk RT Hc HB WF HR Hct He Hpre Hf Tr.
  destruct (grpc_web_clean_proof marshal u code msg details trailers RT Hc HB WF) as (blk' & parsed & R & X & S).
  rewrite HR in R. inversion R; subst blk'.
  assert (Hne : blk <> []).
  { intros Z. subst blk. vm_compute in X. inversion X; subst. cbv in S. discriminate. }
  rewrite call_is_examination_proof.
  unfold examine_wire, wire_of_response, body_events.
  cbn [w_ctype w_status w_body w_eos w_eos_json w_headers w_trailers w_has_data w_err].
  rewrite (grpc_web_not_json _ Hct), (grpc_web_not_connect _ Hct), Hct, (grpc_web_is_stream _ Hct), He. cbv iota.
  pose proof (first_end_stream_whole_proof pre f blk post Hpre Hf Hne) as W. unfold envelope, bytes in *. rewrite W. cbn [andb].
  rewrite X. unfold lift. rewrite S. rewrite Tr. cbn. rewrite !andb_false_r. reflexivity.
Qed.
