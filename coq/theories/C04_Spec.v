(* C04_Spec.v — what the property text promises, stated per CASE over the HISTORY of
   results reported for it, with no reference to the outcome map, its keys, sorting,
   the sideband map or the switch inside report().

   "The runner exits successfully exactly when every selected permutation produced an
    outcome and met its expectation: unmarked cases passed, known-failing cases actually
    ran and failed, known-flaky cases did either.  A case that could not be set up or run
    always counts against success even if marked known-failing or flaky, and feedback
    reported by a reference peer turns an otherwise matching result into a failure.
    Every failing case is named in the output and the printed totals account for every
    case exactly once." *)
From V Require Export C04_Model.
Open Scope nat_scope.

(* ---------- the truth table ---------- *)
Inductive marking := Unmarked | KnownFailing | KnownFlaky.

(* what happened to a case, in the property's words *)
Inductive fate :=
| NeverAnswered   (* nothing was ever reported for it *)
| RanPassed       (* a result arrived and matched the expectation *)
| RanFailed       (* a result arrived: assertion failure or client-reported error *)
| SetupFailed     (* server failed to start, a peer died or exited early, no result arrived *)
| NotRun.         (* its request could not even be sent *)

(* Peer feedback about a case is itself evidence that the case ran (the reference peer
   saw its request) and that it went wrong.  So, with feedback, a case did run unless a
   set-up / could-not-run error says otherwise, and it failed. *)
Definition did_not_run (f : fate) (feedback : bool) : bool :=
  match f with
  | SetupFailed | NotRun => true
  | NeverAnswered => negb feedback
  | RanPassed | RanFailed => false
  end.

Definition failed_run (f : fate) (feedback : bool) : bool :=
  match f with
  | RanPassed => feedback
  | _ => true
  end.

(* the case met its expectation *)
Definition met (m : marking) (f : fate) (feedback : bool) : bool :=
  if did_not_run f feedback then false
  else match m with
       | Unmarked => negb (failed_run f feedback)
       | KnownFailing => failed_run f feedback
       | KnownFlaky => true
       end.

(* the line of the summary a case is counted in *)
Definition bucket (m : marking) (f : fate) (feedback : bool) : cls :=
  match f with
  | NotRun => CNotRun
  | SetupFailed => CFailed
  | _ =>
    if did_not_run f feedback then CNotRun
    else if failed_run f feedback
         then match m with Unmarked => CFailed | _ => CExpected end
         else match m with KnownFailing => CFailed | _ => CPassed end
  end.

(* ---------- the result on record for a case after a history ---------- *)
(* Results reported for a case replace earlier ones (the latest wins); marking "the
   remaining cases" (failRemaining) only ever fills in a case that has nothing on record.
   Read with the latest operation first. *)
Fixpoint on_record_rev (rh : list op) (n : name) : option res :=
  match rh with
  | [] => None
  | OSet m r :: rest => if bytes_eqb n m then Some r else on_record_rev rest n
  | OFailed m :: rest => if bytes_eqb n m then Some (Fail false EClient) else on_record_rev rest n
  | OAssert m ok :: rest =>
    if bytes_eqb n m then Some (if ok then Ok else Fail false EAssert) else on_record_rev rest n
  | OFailedToStart ns k :: rest =>
    if mem_bytes n ns then Some (Fail true k) else on_record_rev rest n
  | OFailRemaining ns k :: rest =>
    match on_record_rev rest n with
    | Some r => Some r
    | None => if mem_bytes n ns then Some (Fail true k) else None
    end
  | OSideband _ :: rest => on_record_rev rest n
  end.
Definition on_record (h : list op) (n : name) : option res := on_record_rev (rev h) n.

Definition has_feedback (h : list op) (n : name) : bool :=
  existsb (fun o => match o with OSideband m => bytes_eqb n m | _ => false end) h.

Definition fate_of (r : option res) : fate :=
  match r with
  | None => NeverAnswered
  | Some Ok => RanPassed
  | Some (Fail _ ECouldNotRun) => NotRun
  | Some (Fail true _) => SetupFailed
  | Some (Fail false _) => RanFailed
  end.

Definition case_fate (h : list op) (n : name) : fate := fate_of (on_record h n).

(* the relational reading of on_record (proved equivalent in C04_Props) *)
Definition reports (o : op) (n : name) (r : res) : Prop :=
  match o with
  | OSet m r' => m = n /\ r' = r
  | OFailed m => m = n /\ r = Fail false EClient
  | OAssert m ok => m = n /\ r = (if ok then Ok else Fail false EAssert)
  | OFailedToStart ns k => In n ns /\ r = Fail true k
  | _ => False
  end.
Definition reports_on (o : op) (n : name) : Prop := exists r, reports o n r.
Definition fills (o : op) (n : name) (r : res) : Prop :=
  match o with OFailRemaining ns k => In n ns /\ r = Fail true k | _ => False end.
Definition touches (o : op) (n : name) : Prop := reports_on o n \/ exists r, fills o n r.

(* ---------- markings ---------- *)
(* run() rejects configurations in which a name is both known-failing and known-flaky *)
Inductive marks_agree : bool -> bool -> marking -> Prop :=
| ma_none : marks_agree false false Unmarked
| ma_failing : marks_agree true false KnownFailing
| ma_flaky : marks_agree false true KnownFlaky.

Definition marked_by (c : cfg) (mark : name -> marking) : Prop :=
  forall n, marks_agree (c.(c_kf) n) (c.(c_kfl) n) (mark n).

(* ---------- the selected cases ---------- *)
Definition op_names (o : op) : list name :=
  match o with
  | OSet n _ | OFailed n | OAssert n _ | OSideband n => [n]
  | OFailedToStart ns _ | OFailRemaining ns _ => ns
  end.
Definition mentioned (h : list op) : list name := flat_map op_names h.

(* `sel` lists the selected permutations: distinct names, as many as the runner was told,
   and nothing is ever reported for a name outside it *)
Definition selection (c : cfg) (h : list op) (sel : list name) : Prop :=
  NoDup sel /\ c.(c_total) = length sel /\ incl (mentioned h) sel.

Definition case_met (mark : name -> marking) (h : list op) (n : name) : bool :=
  met (mark n) (case_fate h n) (has_feedback h n).
Definition case_bucket (mark : name -> marking) (h : list op) (n : name) : cls :=
  bucket (mark n) (case_fate h n) (has_feedback h n).

Definition success (mark : name -> marking) (h : list op) (sel : list name) : Prop :=
  forall n, In n sel -> case_met mark h n = true.

Definition count_bucket (mark : name -> marking) (h : list op) (k : cls) (sel : list name) : nat :=
  length (filter (fun n => cls_eqb (case_bucket mark h n) k) sel).

(* ---------- a run as batches: what each case went through ---------- *)
(* Independent of the send loop: positions are counted over the cases of the batches
   whose server started, up to the request at which the client ended. *)
Inductive went :=
| WServerDown                (* its server did not start *)
| WAnswered (r : reply)      (* the client read the request and answered / stayed silent *)
| WNotSent.                  (* the client had ended before the request could be sent *)

Definition went_fate (w : went) : fate :=
  match w with
  | WServerDown => SetupFailed
  | WAnswered RPass => RanPassed
  | WAnswered RSilent => SetupFailed          (* no result arrived *)
  | WAnswered _ => RanFailed
  | WNotSent => NotRun
  end.

(* the client has ended once it has read the request it was to end after *)
Definition ended (ex : option nat) (got : nat) : bool :=
  match ex with Some e => e <=? got | None => false end.

(* the cases of one batch whose server started; `got` = requests the client has read *)
Fixpoint went_cases (ex : option nat) (cs : list rcase) (got : nat) : list (name * went) * nat :=
  match cs with
  | [] => ([], got)
  | c :: cs' =>
    if ended ex got
    then let '(l, g) := went_cases ex cs' got in ((c.(rc_name), WNotSent) :: l, g)
    else let '(l, g) := went_cases ex cs' (S got) in ((c.(rc_name), WAnswered c.(rc_reply)) :: l, g)
  end.

Fixpoint went_list (ex : option nat) (bs : list batch) (got : nat) : list (name * went) :=
  match bs with
  | [] => []
  | b :: rest =>
    if b.(b_server_ok)
    then let '(l, g) := went_cases ex b.(b_cases) got in l ++ went_list ex rest g
    else map (fun c => (c.(rc_name), WServerDown)) b.(b_cases) ++ went_list ex rest got
  end.

Definition scen_went (s : scen) : list (name * went) := went_list s.(s_exit_after) s.(s_batches) 0.

Definition scen_success (mark : name -> marking) (s : scen) : Prop :=
  s.(s_exit_err) = false /\
  forall n w, In (n, w) (scen_went s) -> met (mark n) (went_fate w) false = true.
