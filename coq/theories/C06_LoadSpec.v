(* C06_LoadSpec.v — what "the set of config cases computed from a configuration file" means
   for the loader, written without reference to Run / parseConfig / EnsureFileName:
   the named file has contents (what a reader gets, whatever size a stat call reports),
   contents denote a configuration (no bytes = the empty configuration; otherwise what the
   decoder reads), and the configuration denotes a set (spec_member, C06_Spec.v). *)
From V Require Export C06_Spec C06_Load.
Open Scope N_scope.

Definition substring (p s : bytes) : Prop := exists a b, s = a ++ p ++ b.

(* the bytes of the configuration file: none when no file is named *)
Inductive file_bytes (conf : bytes) (fs : bytes -> fsobj) : bytes -> Prop :=
| fb_none : conf = [] -> file_bytes conf fs []
| fb_file : forall size data, conf <> [] -> fs conf = Node size data -> file_bytes conf fs data.

Definition unreadable (conf : bytes) (fs : bytes -> fsobj) : Prop :=
  conf <> [] /\ (fs conf = Absent \/ fs conf = Directory).

(* the configuration that bytes denote *)
Inductive denotes (decode : bytes -> bytes -> config + bytes) (name data : bytes) : config -> Prop :=
| dn_empty : data = [] -> denotes decode name data empty_config
| dn_doc : forall cfg, data <> [] -> decode name data = inl cfg -> denotes decode name data cfg.

Definition undecodable (decode : bytes -> bytes -> config + bytes) (name data : bytes) : Prop :=
  data <> [] /\ exists msg, decode name data = inr msg.
