From V Require Import C17_Spec.
