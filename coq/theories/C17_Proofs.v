(* C17_Proofs.v — proofs of the C17 theorems. *)
From Coq Require Import Lia.
From V Require Import C17_Spec.
Open Scope N_scope.

(* ================= header maps ================= *)
Lemma hm_get_put k k' vs h :
  hm_get k (hm_put k' vs h) = if bytes_eqb k k' then Some vs else hm_get k h.
Proof.
  induction h as [|[k0 v0] h IH]; simpl.
  - destruct (bytes_eqb k k'); reflexivity.
  - destruct (bytes_eqb_spec k' k0) as [->|N0]; simpl.
    + destruct (bytes_eqb_spec k k0); reflexivity.
    + rewrite IH. destruct (bytes_eqb_spec k k0) as [->|N1]; [|reflexivity].
      destruct (bytes_eqb_spec k0 k'); [congruence|reflexivity].
Qed.

Lemma hm_vals_put k k' vs h :
  hm_vals k (hm_put k' vs h) = if bytes_eqb k k' then vs else hm_vals k h.
Proof. unfold hm_vals. rewrite hm_get_put. destruct (bytes_eqb k k'); reflexivity. Qed.

Lemma hm_vals_add k n v h :
  hm_vals k (hm_add n v h) = if bytes_eqb k (canon n) then hm_vals k h ++ [v] else hm_vals k h.
Proof.
  unfold hm_add. rewrite hm_vals_put. destruct (bytes_eqb_spec k (canon n)) as [->|]; reflexivity.
Qed.

Lemma hm_get_add k n v h :
  hm_get k (hm_add n v h) = if bytes_eqb k (canon n) then Some (hm_vals (canon n) h ++ [v]) else hm_get k h.
Proof. unfold hm_add. cbv zeta. now rewrite hm_get_put. Qed.

Lemma fold_add_vals k n vs h :
  hm_vals k (fold_left (fun h v => hm_add n v h) vs h) =
  if bytes_eqb k (canon n) then hm_vals k h ++ vs else hm_vals k h.
Proof.
  revert h; induction vs as [|v vs IH]; intros h; simpl.
  - destruct (bytes_eqb k (canon n)); [now rewrite app_nil_r|reflexivity].
  - rewrite IH, hm_vals_add. destruct (bytes_eqb k (canon n)); [|reflexivity].
    now rewrite <- app_assoc.
Qed.

Lemma add_headers_vals k hs h :
  hm_vals k (add_headers hs h) = hm_vals k h ++ values_of k hs.
Proof.
  revert h; induction hs as [|hd hs IH]; intros h; simpl.
  - now rewrite app_nil_r.
  - unfold add_headers in *. simpl. rewrite IH. unfold add_header. rewrite fold_add_vals.
    destruct (bytes_eqb k (canon (h_name hd))); [now rewrite <- app_assoc|reflexivity].
Qed.

(* "Trailer:" + anything is left alone by the canonicaliser: the colon is not a token byte *)
Lemma canon_prefixed x : canon (trailer_prefix ++ x) = trailer_prefix ++ x.
Proof. reflexivity. Qed.

Lemma In_canon_go c u s : In c (canon_go u s) -> c = 58 -> In 58 s.
Proof.
  revert u; induction s as [|a s IH]; intros u H E; simpl in *; [exact H|]. subst c.
  destruct H as [H|H]; [|right; exact (IH _ H eq_refl)].
  left.
  destruct (u && (97 <=? a) && (a <=? 122)) eqn:E1.
  - apply andb_true_iff in E1 as [E1 E3]. apply andb_true_iff in E1 as [_ E2].
    apply N.leb_le in E2, E3. lia.
  - destruct (negb u && (65 <=? a) && (a <=? 90)) eqn:E2; [|exact H].
    apply andb_true_iff in E2 as [E2 E4]. apply andb_true_iff in E2 as [_ E3].
    apply N.leb_le in E3, E4. lia.
Qed.

Lemma token_no_colon s : token s -> ~ In 58 s.
Proof.
  unfold token. intros H HI. rewrite forallb_forall in H. specialize (H _ HI). discriminate.
Qed.

Lemma canon_token_no_colon s : token s -> ~ In 58 (canon s).
Proof.
  intros T HI. unfold canon in HI. unfold token in T. rewrite T in HI.
  apply (token_no_colon s T). exact (In_canon_go _ _ _ HI eq_refl).
Qed.

Lemma prefixed_has_colon x : In 58 (trailer_prefix ++ x).
Proof. simpl. do 7 right. left. reflexivity. Qed.

Lemma add_trailers_vals k ts h :
  hm_vals (trailer_prefix ++ k) (add_trailers ts h) = hm_vals (trailer_prefix ++ k) h ++ values_of k ts.
Proof.
  revert h; induction ts as [|hd ts IH]; intros h; simpl.
  - now rewrite app_nil_r.
  - unfold add_trailers in *. simpl. rewrite IH. unfold add_trailer. rewrite fold_add_vals.
    rewrite canon_prefixed.
    destruct (bytes_eqb_spec (trailer_prefix ++ k) (trailer_prefix ++ canon (h_name hd))) as [E|NE].
    + apply app_inv_head in E. subst k. rewrite bytes_eqb_refl. now rewrite <- app_assoc.
    + destruct (bytes_eqb_spec k (canon (h_name hd))) as [->|]; [congruence|reflexivity].
Qed.

(* keys other than "Trailer:..." are not touched by AddTrailers *)
Lemma add_trailers_other k ts h :
  ~ In 58 k -> hm_vals k (add_trailers ts h) = hm_vals k h.
Proof.
  intros NC. revert h; induction ts as [|hd ts IH]; intros h; simpl; [reflexivity|].
  unfold add_trailers in *. simpl. rewrite IH. unfold add_trailer. rewrite fold_add_vals, canon_prefixed.
  destruct (bytes_eqb_spec k (trailer_prefix ++ canon (h_name hd))) as [->|]; [|reflexivity].
  exfalso. apply NC, prefixed_has_colon.
Qed.

Lemma hm_get_notin k (l : hmap) : ~ In k (map fst l) -> hm_get k l = None.
Proof.
  induction l as [|[k0 v0] l IH]; simpl; intros H; [reflexivity|].
  destruct (bytes_eqb_spec k k0) as [->|]; [exfalso; apply H; left; reflexivity|].
  apply IH. intros HI. apply H. right. exact HI.
Qed.

Lemma restore_get k (l acc : hmap) :
  NoDup (map fst l) ->
  hm_get k (fold_left (fun h kv => hm_put (fst kv) (snd kv) h) l acc) =
  match hm_get k l with Some vs => Some vs | None => hm_get k acc end.
Proof.
  revert acc; induction l as [|[k0 v0] l IH]; intros acc ND; simpl; [reflexivity|].
  inversion ND as [|? ? Hn ND']; subst. rewrite (IH _ ND'). rewrite hm_get_put.
  destruct (bytes_eqb_spec k k0) as [->|]; [|reflexivity].
  now rewrite (hm_get_notin _ _ Hn).
Qed.

Lemma restore_vals k (l : hmap) :
  NoDup (map fst l) ->
  hm_vals k (fold_left (fun h kv => hm_put (fst kv) (snd kv) h) l []) = hm_vals k l.
Proof.
  intros ND. unfold hm_vals. rewrite (restore_get k l [] ND). simpl. destruct (hm_get k l); reflexivity.
Qed.

(* ================= body encoders ================= *)
Lemma be_decode_be32 n : n < 4294967296 -> be_decode (be32 n) 0 = n.
Proof.
  intros H. unfold be32. cbn [be_decode].
  Local Ltac Zify.zify_post_hook ::= Z.to_euclidean_division_equations.
  lia.
Qed.

Section Bodies.
  Variable compress : N -> bytes -> bytes.
  Variable decompress : N -> bytes -> option bytes.
  Notation payload_of := (payload_of compress).
  Notation frame := (frame compress).
  Notation wire := (wire compress).
  Notation declared := (declared compress).

  Lemma message_exact_proof oc :
    contents_ok oc -> write_message compress oc = (payload_of oc, false).
  Proof.
    destruct oc as [c|]; simpl; [|reflexivity].
    destruct (data_bytes (c_data c)); [|reflexivity]. intros ->. reflexivity.
  Qed.

  Lemma decode_payload_ok oc :
    codec_ok compress decompress -> contents_ok oc ->
    decode_payload decompress oc (payload_of oc) = Some (data_of oc).
  Proof.
    intros OK H. destruct oc as [c|]; simpl in *; [|reflexivity].
    destruct (data_bytes (c_data c)) as [d|]; [|reflexivity].
    unfold decompress_with, compress_with. destruct (comp_identity (c_comp c)); [reflexivity|apply OK].
  Qed.

  Lemma message_invertible_proof c d :
    codec_ok compress decompress -> comp_known (c_comp c) = true -> data_bytes (c_data c) = Some d ->
    write_message compress (Some c) = (payload_of (Some c), false) /\
    decompress_with decompress (c_comp c) (fst (write_message compress (Some c))) = Some d.
  Proof.
    intros OK K D. simpl. rewrite D, K. split; [reflexivity|]. simpl.
    unfold decompress_with, compress_with. destruct (comp_identity (c_comp c)); [reflexivity|apply OK].
  Qed.

  Lemma wire_cons it items : wire (it :: items) = frame it ++ wire items.
  Proof. reflexivity. Qed.
  Lemma frame_unfold it : frame it = i_flags it :: be32 (declared it) ++ payload_of (i_payload it).
  Proof. reflexivity. Qed.
  Lemma declared_some it n : i_len it = Some n -> declared it = n.
  Proof. unfold C17_Spec.declared. now intros ->. Qed.
  Lemma declared_none it :
    i_len it = None -> declared it = N.of_nat (length (payload_of (i_payload it))) mod 4294967296.
  Proof. unfold C17_Spec.declared. now intros ->. Qed.

  (* both branches of the encoder produce the same layout *)
  Lemma stream_layout_proof items :
    Forall (item_ok) items -> write_stream compress items = (wire items, false).
  Proof.
    induction 1 as [|it items [Hf Hc] _ IH]; [reflexivity|].
    cbn [write_stream]. apply N.ltb_ge in Hf. rewrite Hf.
    rewrite (message_exact_proof _ Hc), IH.
    rewrite wire_cons, frame_unfold.
    destruct (i_len it) as [n|] eqn:E; [rewrite (declared_some _ _ E)|rewrite (declared_none _ E)];
      unfold frame_prefix; cbn [app]; rewrite <- ?app_assoc; reflexivity.
  Qed.

  (* a flags value above 255 stops the stream there: everything before it was written, nothing after *)
  Lemma stream_bad_flags_proof good bad rest :
    Forall item_ok good -> 255 < i_flags bad ->
    write_stream compress (good ++ bad :: rest) = (wire good, true).
  Proof.
    intros HG HB. induction HG as [|it items [Hf Hc] _ IH].
    - cbn [app write_stream]. apply N.ltb_lt in HB. rewrite HB. reflexivity.
    - cbn [app write_stream]. apply N.ltb_ge in Hf. rewrite Hf.
      rewrite (message_exact_proof _ Hc), IH.
      rewrite wire_cons, frame_unfold.
      destruct (i_len it) as [n|] eqn:E; [rewrite (declared_some _ _ E)|rewrite (declared_none _ E)];
        unfold frame_prefix; cbn [app]; rewrite <- ?app_assoc; reflexivity.
  Qed.

  Lemma firstn_app_exact {A} (a b : list A) : firstn (length a) (a ++ b) = a.
  Proof. induction a; simpl; [destruct b; reflexivity|now f_equal]. Qed.
  Lemma skipn_app_exact {A} (a b : list A) : skipn (length a) (a ++ b) = b.
  Proof. induction a; simpl; [reflexivity|assumption]. Qed.

  Lemma parse_one_frame f n p rest :
    n < 4294967296 ->
    parse_one (f :: be32 n ++ p ++ rest) =
    if n <=? N.of_nat (length (p ++ rest))
    then Some (f, n, firstn (N.to_nat n) (p ++ rest), skipn (N.to_nat n) (p ++ rest)) else None.
  Proof.
    intros H. pose proof (be_decode_be32 n H) as E. unfold be32 in *. cbn [app parse_one]. rewrite E. reflexivity.
  Qed.

  (* whatever the explicit length says, the reader sees the flags, that length, and the next
     `length` bytes of (payload ++ the following frames) *)
  Lemma explicit_length_head_proof it rest n :
    item_ok it -> Forall item_ok rest -> i_len it = Some n -> n < 4294967296 ->
    parse_one (fst (write_stream compress (it :: rest))) =
    let following := payload_of (i_payload it) ++ wire rest in
    if n <=? N.of_nat (length following)
    then Some (i_flags it, n, firstn (N.to_nat n) following, skipn (N.to_nat n) following) else None.
  Proof.
    intros Hi Hr Hl Hn. rewrite stream_layout_proof by (constructor; assumption).
    cbn [fst]. rewrite wire_cons, frame_unfold, (declared_some _ _ Hl).
    cbn [app]. rewrite <- app_assoc. apply parse_one_frame. exact Hn.
  Qed.

  Lemma wire_length_fuel items (b : bytes) : (length (wire items ++ b) >= length items)%nat.
  Proof.
    induction items as [|it items IH]; [simpl; lia|].
    rewrite wire_cons, frame_unfold. cbn [app length].
    rewrite <- !app_assoc, !app_length in *. unfold be32. cbn [length]. lia.
  Qed.

  Lemma parse_loop_wire fuel items :
    Forall (honest compress) items -> (fuel > length items)%nat ->
    parse_loop fuel (wire items) =
    (map (fun it => (i_flags it, N.of_nat (length (payload_of (i_payload it))), payload_of (i_payload it))) items, []).
  Proof.
    intros HH. revert fuel. induction HH as [|it items [Hlt Hex] _ IH]; intros fuel Hf.
    - destruct fuel; [lia|]. reflexivity.
    - destruct fuel as [|fuel]; [simpl in Hf; lia|]. cbn [parse_loop].
      rewrite wire_cons, frame_unfold.
      assert (ED : declared it = N.of_nat (length (payload_of (i_payload it)))).
      { destruct (i_len it) as [n|] eqn:E; [rewrite (declared_some _ _ E); exact Hex|].
        rewrite (declared_none _ E). apply N.mod_small. exact Hlt. }
      rewrite ED. cbn [app]. rewrite <- app_assoc. rewrite parse_one_frame by exact Hlt.
      rewrite app_length, Nat2N.inj_add.
      destruct (N.leb_spec (N.of_nat (length (payload_of (i_payload it))))
                           (N.of_nat (length (payload_of (i_payload it))) + N.of_nat (length (wire items)))); [|lia].
      rewrite Nat2N.id, firstn_app_exact, skipn_app_exact.
      rewrite IH by (simpl in Hf; lia). reflexivity.
  Qed.

  Lemma stream_invertible_proof items :
    codec_ok compress decompress -> Forall item_ok items -> Forall (honest compress) items ->
    write_stream compress items = (wire items, false) /\
    parse_envelopes (wire items) =
      (map (fun it => (i_flags it, N.of_nat (length (payload_of (i_payload it))), payload_of (i_payload it))) items, []) /\
    map (fun it => decode_payload decompress (i_payload it) (payload_of (i_payload it))) items =
      map (fun it => Some (data_of (i_payload it))) items.
  Proof.
    intros OK HI HH. split; [apply stream_layout_proof; exact HI|]. split.
    - unfold parse_envelopes. apply parse_loop_wire; [exact HH|].
      pose proof (wire_length_fuel items []) as L. rewrite app_nil_r in L. lia.
    - apply map_ext_in. intros it Hin. rewrite Forall_forall in HI. destruct (HI _ Hin) as [_ Hc].
      apply decode_payload_ok; assumption.
  Qed.
End Bodies.

(* ================= raw or normal ================= *)
Definition untouched (w : iw) : Prop := iw_sent w = None /\ iw_body w = [] /\ iw_flushed w = false.

Lemma untouched_hdr h w : untouched w -> untouched (iw_with_hdr h w).
Proof. intros H; exact H. Qed.

Ltac rw_norm :=
  cbn [step can_send rw_started rw_raw rw_inner direct returns begin last_raw decided_raw starts];
  unfold on_hdr, with_inner;
  cbn [step can_send rw_started rw_raw rw_inner direct returns begin last_raw decided_raw starts].

Lemma run_ops_cons s o rest :
  run_ops s (o :: rest) =
  match step s o with
  | None => None
  | Some (s', r) => match run_ops s' rest with None => None | Some (s'', r') => Some (s'', r ++ r') end
  end.
Proof. reflexivity. Qed.

(* once a normal response has started the wrapper is transparent *)
Lemma run_normal ops : forall w,
  run_ops (mk_rw None true w) ops =
  match direct w ops with Some w' => Some (mk_rw None true w', returns Normal ops) | None => None end.
Proof.
  induction ops as [|o ops IH]; intros w; [reflexivity|].
  rewrite run_ops_cons.
  destruct o as [k v|k v|k|c|b| |r0| ]; rw_norm;
    try (rewrite IH; destruct (direct _ ops); reflexivity).
  destruct (iw_write_header c w) as [w1|]; [|reflexivity].
  rewrite IH; destruct (direct _ ops); reflexivity.
Qed.

(* once a raw response is stored nothing reaches the inner writer but header-map edits *)
Lemma run_raw ops : forall r w, untouched w ->
  exists w', run_ops (mk_rw (Some r) false w) ops = Some (mk_rw (last_raw ops (Some r)) false w', returns Raw ops)
             /\ untouched w'.
Proof.
  induction ops as [|o ops IH]; intros r w U; [exists w; split; [reflexivity|exact U]|].
  rewrite run_ops_cons.
  destruct o as [k v|k v|k|c|b| |r0| ]; rw_norm;
    match goal with |- context [run_ops (mk_rw (Some ?r1) false ?w1) ops] =>
      destruct (IH r1 w1 U) as (w' & E & U'); rewrite E; exists w'; (split; [reflexivity|exact U']) end.
Qed.

Lemma run_undecided ops : forall w, untouched w ->
  if decided_raw ops then
    exists w' r, last_raw ops None = Some r /\
                 run_ops (mk_rw None false w) ops = Some (mk_rw (Some r) false w', returns Undecided ops) /\
                 untouched w'
  else match direct w ops with
       | Some w' => exists st, run_ops (mk_rw None false w) ops = Some (mk_rw None st w', returns Undecided ops)
       | None => run_ops (mk_rw None false w) ops = None
       end.
Proof.
  induction ops as [|o ops IH]; intros w U; [exists false; reflexivity|].
  rewrite !run_ops_cons.
  destruct o as [k v|k v|k|c|b| |r0| ]; rw_norm.
  1-3: (match goal with |- context [run_ops (mk_rw None false ?w1) ?ops'] =>
          specialize (IH w1 (untouched_hdr _ _ U)); 
          destruct (decided_raw ops');
          [destruct IH as (w' & r & L & E & U'); rewrite E; exists w', r; auto
          |destruct (direct w1 ops') as [w'|];
           [destruct IH as (st & E); rewrite E; exists st; reflexivity|rewrite IH; reflexivity]] end).
  - (* WriteHeader *)
    destruct (iw_write_header c w) as [w1|]; [|reflexivity].
    rewrite run_normal. destruct (direct w1 ops); [exists true; reflexivity|reflexivity].
  - rewrite run_normal. destruct (direct _ ops); [exists true; reflexivity|reflexivity].
  - rewrite run_normal. destruct (direct _ ops); [exists true; reflexivity|reflexivity].
  - (* setRawResponse *)
    destruct (run_raw ops r0 w U) as (w' & E & U'). rewrite E.
    assert (exists r', last_raw ops (Some r0) = Some r') as (r' & L).
    { clear. generalize r0. induction ops as [|o ops IH]; intros r; [exists r; reflexivity|].
      destruct o; simpl; auto. }
    rewrite L. exists w', r'. auto.
  - rewrite run_normal. destruct (direct _ ops); [exists true; reflexivity|reflexivity].
Qed.

Lemma values_of_prefixed k hs :
  Forall (fun h => token (h_name h)) hs -> values_of (trailer_prefix ++ k) hs = [].
Proof.
  induction 1 as [|hd hs Th _ IH]; [reflexivity|].
  unfold values_of. cbn [flat_map]. fold (values_of (trailer_prefix ++ k) hs). rewrite IH.
  destruct (bytes_eqb_spec (trailer_prefix ++ k) (canon (h_name hd))) as [Eq|]; [|reflexivity].
  exfalso. apply (canon_token_no_colon _ Th). rewrite <- Eq. apply prefixed_has_colon.
Qed.

Lemma decl_vals k ts h :
  k <> trailer_key -> hm_vals k (fold_left (fun h t => hm_add trailer_key (h_name t) h) ts h) = hm_vals k h.
Proof.
  intros Hk. revert h; induction ts as [|t ts IH]; intros h; [reflexivity|].
  simpl. rewrite IH, hm_vals_add.
  destruct (bytes_eqb_spec k (canon trailer_key)) as [->|]; [exfalso; apply Hk; reflexivity|reflexivity].
Qed.
Lemma decl_get k ts h :
  k <> trailer_key -> hm_get k (fold_left (fun h t => hm_add trailer_key (h_name t) h) ts h) = hm_get k h.
Proof.
  intros Hk. revert h; induction ts as [|t ts IH]; intros h; [reflexivity|].
  simpl. rewrite IH, hm_get_add.
  destruct (bytes_eqb_spec k (canon trailer_key)) as [->|]; [exfalso; apply Hk; reflexivity|reflexivity].
Qed.

Section Arbitration.
  Variable compress : N -> bytes -> bytes.

  Lemma emit_untouched snap r w :
    untouched w -> emit compress snap r w = emit compress snap r (iw_new snap).
  Proof.
    intros (S & B & F). destruct w as [h s b f]. simpl in *. subst. reflexivity.
  Qed.

  (* the outcome of any history: the raw emission on an untouched writer, or the handler alone *)
  Lemma raw_or_handler_proof snap ops :
    serve compress snap ops =
    option_map (fun w => (w, returns Undecided ops))
      (match raw_choice ops with
       | Some r => emit compress snap r (iw_new snap)
       | None => direct (iw_new snap) ops
       end).
  Proof.
    unfold serve, raw_choice.
    pose proof (run_undecided ops (iw_new snap) (conj eq_refl (conj eq_refl eq_refl))) as H.
    destruct (decided_raw ops).
    - destruct H as (w' & r & L & E & U). rewrite E, L. unfold finish. cbn [rw_raw rw_inner].
      rewrite (emit_untouched snap r w' U).
      destruct (emit compress snap r (iw_new snap)); reflexivity.
    - destruct (direct (iw_new snap) ops) as [w'|].
      + destruct H as (st & E). rewrite E. reflexivity.
      + rewrite H. reflexivity.
  Qed.

  (* what the raw emission consists of *)
  Lemma raw_exact_proof snap r w :
    NoDup (map fst snap) ->
    emit compress snap r (iw_new snap) = Some w ->
    fst (committed w) = (if r_status r =? 0 then 200 else r_status r) /\
    (forall k, k <> date_key -> k <> trailer_key ->
               hm_vals k (snd (committed w)) = hm_vals k snap ++ values_of k (r_headers r)) /\
    hm_get date_key (snd (committed w)) = Some [] /\
    iw_body w = fst (write_body compress (r_body r)) /\
    iw_flushed w = false /\
    (forall k, (forall kv, In kv snap -> ~ In 58 (fst kv)) -> Forall (fun h => token (h_name h)) (r_headers r) ->
               hm_vals (trailer_prefix ++ k) (iw_hdr w) = values_of k (r_trailers r)).
  Proof.
    intros ND E. unfold emit in E.
    set (h0 := fold_left (fun h kv => hm_put (fst kv) (snd kv) h) snap []) in *.
    set (h1 := add_headers (r_headers r) h0) in *.
    set (h2 := hm_put date_key [] h1) in *.
    set (h3 := fold_left (fun h t => hm_add trailer_key (h_name t) h) (r_trailers r) h2) in *.
    set (code := if r_status r =? 0 then 200 else r_status r) in *.
    unfold iw_write_header in E. cbn [iw_new iw_with_hdr iw_sent iw_hdr iw_body iw_flushed] in E.
    destruct ((code <? 100) || (999 <? code)); [discriminate|].
    injection E as <-.
    unfold iw_write, iw_commit, committed, iw_with_hdr; cbn [iw_sent iw_hdr iw_body iw_flushed fst snd app].
    assert (Hother : forall k, k <> trailer_key -> hm_vals k h3 = hm_vals k h2)
      by (intros; apply decl_vals; assumption).
    assert (Hget : forall k, k <> trailer_key -> hm_get k h3 = hm_get k h2)
      by (intros; apply decl_get; assumption).
    repeat split.
    - intros k Hd Ht. rewrite (Hother k Ht). unfold h2. rewrite hm_vals_put.
      destruct (bytes_eqb_spec k date_key) as [Ed|_]; [exfalso; apply Hd; exact Ed|].
      unfold h1. rewrite add_headers_vals. unfold h0. rewrite restore_vals by exact ND. reflexivity.
    - rewrite Hget by discriminate. unfold h2. rewrite hm_get_put. reflexivity.
    - intros k Hsnap Htok. rewrite add_trailers_vals.
      assert (Z0 : hm_vals (trailer_prefix ++ k) h3 = []); [|rewrite Z0; reflexivity].
      rewrite Hother by discriminate. unfold h2. rewrite hm_vals_put.
      change (bytes_eqb (trailer_prefix ++ k) date_key) with false. cbv iota.
      unfold h1. rewrite add_headers_vals. unfold h0. rewrite restore_vals by exact ND.
      assert (Z1 : hm_vals (trailer_prefix ++ k) snap = []).
      { unfold hm_vals. rewrite hm_get_notin; [reflexivity|].
        intros HI. apply in_map_iff in HI as (kv & Ek & Hkv). apply (Hsnap kv Hkv). rewrite Ek. apply prefixed_has_colon. }
      rewrite Z1. rewrite values_of_prefixed by exact Htok. reflexivity.
  Qed.

  (* the interceptor stores the raw response first, for every RPC kind; what connect-go does afterwards is irrelevant *)
  Lemma recorder_proof snap k r after normal :
    Forall (fun o => match o with OSetRaw _ => False | _ => True end) after ->
    option_map fst (serve compress snap (rpc_ops k (Some r) after normal)) = emit compress snap r (iw_new snap).
  Proof.
    intros HA. rewrite raw_or_handler_proof. unfold rpc_ops.
    replace (recognised k) with true by (destruct k; reflexivity).
    unfold raw_choice. cbn [decided_raw last_raw].
    assert (L : last_raw after (Some r) = Some r).
    { induction HA as [|o ops Ho _ IH]; [reflexivity|]. destruct o; simpl; try exact IH. contradiction. }
    rewrite L. destruct (emit compress snap r (iw_new snap)); reflexivity.
  Qed.
End Arbitration.

(* ================= raw request ================= *)
Lemma qm_add_vals k n vs q :
  hm_vals k (qm_add n vs q) = if bytes_eqb k n then hm_vals k q ++ vs else hm_vals k q.
Proof. unfold qm_add. rewrite hm_vals_put. destruct (bytes_eqb_spec k n) as [->|]; reflexivity. Qed.

Lemma rawq_vals k l q :
  hm_vals k (fold_left (fun m h => qm_add (h_name h) (h_vals h) m) l q) = hm_vals k q ++ qvalues_of k l.
Proof.
  revert q; induction l as [|hd l IH]; intros q; simpl; [now rewrite app_nil_r|].
  rewrite IH, qm_add_vals. destruct (bytes_eqb k (h_name hd)); [now rewrite <- app_assoc|reflexivity].
Qed.

(* ================= firstReqCachingStream ================= *)
Lemma cs_plain n : forall s, cs_handler n (mk_cstream None None s) = direct_handler n s.
Proof.
  induction n as [|n IH]; intros s; [reflexivity|].
  cbn [cs_handler direct_handler]. unfold cs_receive. cbn [cs_err cs_req cs_under].
  destruct (under_recv s) as [x r]. rewrite IH. destruct (direct_handler n r). reflexivity.
Qed.

Lemma direct_calls n : forall s, snd (direct_handler n s) = n.
Proof.
  induction n as [|n IH]; intros s; [reflexivity|]. cbn [direct_handler].
  destruct (under_recv s) as [x r]. specialize (IH r). destruct (direct_handler n r). simpl in *. congruence.
Qed.

(* a first request without raw response (or a failed first Receive): the handler behind the interceptor sees
   exactly what it would see on the stream itself, for ANY script of stream outcomes and ANY number of Receives *)
Lemma caching_transparent_proof script n started :
  match script with RMsg _ true :: _ => False | _ => True end ->
  wrap_streaming true started script n = WHandler (fst (direct_handler n script)) (Nat.max 1 n).
Proof.
  intros H. unfold wrap_streaming. cbn [negb].
  destruct (under_recv script) as [x r] eqn:EU.
  assert (HX : match x with RMsg _ true => False | _ => True end).
  { destruct script as [|y s]; simpl in EU; injection EU as <- <-; [exact Logic.I|exact H]. }
  assert (D : direct_handler n script =
              match n with O => ([], O) | S n' => let (seen, calls) := direct_handler n' r in (x :: seen, S calls) end).
  { destruct n; [reflexivity|]. cbn [direct_handler]. rewrite EU. reflexivity. }
  rewrite D. destruct n as [|n'].
  - destruct x as [d [|]|e]; [contradiction|reflexivity|reflexivity].
  - pose proof (direct_calls n' r) as DC.
    destruct x as [d [|]|e]; [contradiction| |];
      cbn [cs_handler]; unfold cs_receive; cbn [cs_err cs_req cs_under]; rewrite cs_plain;
      destruct (direct_handler n' r) as [seen calls]; simpl in DC; subst calls; reflexivity.
Qed.

Lemma interceptor_steps_aside_proof started script n :
  wrap_streaming false started script n = WHandler (fst (direct_handler n script)) n.
Proof.
  unfold wrap_streaming. cbn [negb]. pose proof (direct_calls n script) as DC.
  destruct (direct_handler n script); simpl in *. subst. reflexivity.
Qed.

Definition is_msg (x : recv) : Prop := match x with RMsg _ _ => True | RErr _ => False end.
Lemma drain_spec msgs rest :
  Forall is_msg msgs -> match rest with [] => True | RErr _ :: _ => True | _ => False end ->
  drain (msgs ++ rest) = S (length msgs).
Proof.
  induction 1 as [|x msgs Hx _ IH]; intros HR.
  - destruct rest as [|[|] ?]; [reflexivity|contradiction|reflexivity].
  - destruct x; [|contradiction]. cbn [app drain length]. rewrite IH by exact HR. reflexivity.
Qed.

(* a first request with a raw response: the handler never runs; the raw response is stored and the request
   stream is read up to its first error - unless a normal response had started, then nothing is stored *)
Lemma raw_first_proof d rest n :
  wrap_streaming true false (RMsg d true :: rest) n = WRaw (S (drain rest)) true 1 /\
  wrap_streaming true true (RMsg d true :: rest) n = WRaw 1 false 2.
Proof. split; reflexivity. Qed.
