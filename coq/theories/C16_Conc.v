(* C16_Conc.v — what C16_Model.v leaves implicit about concurrency.

   (1) interleavings: every order in which the critical sections of several goroutines
       (each running its own script in program order) can follow one another, and the
       two oracles built on it: is an OBSERVED outcome of a free-running run (builder:
       the collector calls; Tracer: what every waiter got + what every name shows) the
       outcome of SOME interleaving?  The free-running stress kinds of the harness
       record what happened and ask exactly this.
   (2) the builder at a finer grain: add = critical section + deferred collector call
       (b.finish runs after b.mu is released).  `inlock` says where the trace is taken
       and cleared: true = inside add's critical section (the code: getAndClearLocked
       before Unlock), false = by a build() after the unlock (the order a careless
       refactoring produces).  No proofs here (C16_ConcProofs.v). *)
From V Require Export C16_Model.
Open Scope N_scope.

(* ====================================================================== *)
(* interleavings                                                          *)
(* ====================================================================== *)
Fixpoint shuffles {A} (l1 : list A) : list A -> list (list A) :=
  match l1 with
  | [] => fun l2 => [l2]
  | a :: r1 =>
    fix aux (l2 : list A) : list (list A) :=
      match l2 with
      | [] => [a :: r1]
      | b :: r2 => map (cons a) (shuffles r1 (b :: r2)) ++ map (cons b) (aux r2)
      end
  end.

Definition interleavings {A} (ss : list (list A)) : list (list A) :=
  fold_right (fun s acc => flat_map (shuffles s) acc) [[]] ss.

(* ====================================================================== *)
(* builder: is `obs` the collector-call list of some interleaving?        *)
(* ====================================================================== *)
Definition tev_eq_dec (x y : tev) : {x = y} + {x <> y}.
Proof. decide equality; apply N.eq_dec. Defined.
Definition btrace_eq_dec (x y : btrace) : {x = y} + {x <> y}.
Proof.
  decide equality;
    [apply Bool.bool_dec | apply N.eq_dec | apply (list_eq_dec tev_eq_dec) | apply (list_eq_dec N.eq_dec)].
Defined.
Definition calls_eqb (x y : list btrace) : bool :=
  if list_eq_dec btrace_eq_dec x y then true else false.

(* `pre` runs before the goroutines start, `tail` after they have all returned *)
Definition ballowed (nm : bytes) (pre : list bact) (ss : list (list bact)) (tail : list bact)
                    (obs : list btrace) : bool :=
  existsb (fun l => calls_eqb (brun nm (pre ++ l ++ tail)).(b_calls) obs) (interleavings ss).

(* ====================================================================== *)
(* Tracer: is `obs` what some interleaving shows?                         *)
(* ====================================================================== *)
Definition code := (Z * Z)%type.
Definition wcode (s : wstate) : code :=
  match s with
  | NotStarted => (0, 0) | Waiting _ => (1, 0) | Got t => (2, Z.of_N t)
  | Failed => (3, 0) | CtxErr => (4, 0)
  end%Z.
Definition scode (o : option slot) : code :=
  match o with
  | None => (3, 0)
  | Some s => if s.(s_done) then (2, Z.of_N s.(s_trace)) else (4, 0)
  end%Z.
Definition tobs := (list code * list code)%type.
Definition observe (st : tracer) (ws : list N) (ns : list name) : tobs :=
  (map (fun w => wcode (st.(waiters) w)) ws, map (fun n => scode (st.(slots) n)) ns).

Definition code_eq_dec (x y : code) : {x = y} + {x <> y}.
Proof. decide equality; apply Z.eq_dec. Defined.
Definition tobs_eq_dec (x y : tobs) : {x = y} + {x <> y}.
Proof. decide equality; apply (list_eq_dec code_eq_dec). Defined.

Definition tallowed (pre : list action) (ss : list (list action)) (tail : list action)
                    (ws : list N) (ns : list name) (obs : tobs) : bool :=
  existsb (fun l => if tobs_eq_dec (observe (run (pre ++ l ++ tail)) ws ns) obs then true else false)
          (interleavings ss).

(* ====================================================================== *)
(* builder, two steps per add                                             *)
(* ====================================================================== *)
(* what a goroutine that left its critical section still has to do *)
Inductive pitem :=
| Ready (t : btrace)     (* call b.finish(t) with the trace it took inside the lock *)
| NeedBuild.             (* call b.build(): lock again, take and clear, then finish *)

Record fbuilder := mkF {
  f_trace : btrace; f_req : N; f_resp : N;
  f_pend : list (N * pitem);      (* keyed by the number of the action that created the entry *)
  f_calls : list btrace;
  f_next : N }.

Inductive fact :=
| FAdd (e : bev)        (* the critical section of add(e), run by a goroutine of its own *)
| FBuild                (* the critical section of build() *)
| FDefer (k : N).       (* the goroutine of action k performs its next deferred step *)

(* the bookkeeping of add for a live trace: new trace, new counters *)
Definition applied (t : btrace) (req resp : N) (e : bev) : btrace * N * N :=
  let te := match e with
            | EReqData => TReqData req | EReqEnd x => TReqEnd x | ERespStart => TRespStart
            | ERespError x => TRespError x | ERespData => TRespData resp
            | ERespEndStream => TRespEndStream | ERespEnd x => TRespEnd x | ECanceled => TCanceled
            end in
  let req' := match e with EReqData => req + 1 | _ => req end in
  let resp' := match e with ERespData => resp + 1 | _ => resp end in
  let err' := match e with
              | EReqEnd x | ERespEnd x => keep_err t.(t_err) x
              | ERespError x => x
              | ECanceled => keep_err t.(t_err) err_canceled
              | _ => t.(t_err)
              end in
  let hasr := match e with ERespStart => true | _ => t.(t_resp) end in
  (mkTr t.(t_name) (t.(t_events) ++ [te]) err' hasr, req', resp').

Fixpoint find_pend (k : N) (l : list (N * pitem)) : option pitem :=
  match l with
  | [] => None
  | (j, p) :: r => if j =? k then Some p else find_pend k r
  end.
Fixpoint drop_pend (k : N) (l : list (N * pitem)) : list (N * pitem) :=
  match l with
  | [] => []
  | (j, p) :: r => if j =? k then r else (j, p) :: drop_pend k r
  end.
Fixpoint set_pend (k : N) (q : pitem) (l : list (N * pitem)) : list (N * pitem) :=
  match l with
  | [] => []
  | (j, p) :: r => if j =? k then (j, q) :: r else (j, p) :: set_pend k q r
  end.

Definition fstep (inlock : bool) (st : fbuilder) (a : fact) : fbuilder :=
  let k := st.(f_next) in
  let t := st.(f_trace) in
  match a with
  | FAdd e =>
    if is_nil t.(t_name) then mkF t st.(f_req) st.(f_resp) st.(f_pend) st.(f_calls) (k + 1) else
    let '(t', req', resp') := applied t st.(f_req) st.(f_resp) e in
    if finishing e then
      if inlock then mkF empty_trace req' resp' (st.(f_pend) ++ [(k, Ready t')]) st.(f_calls) (k + 1)
      else mkF t' req' resp' (st.(f_pend) ++ [(k, NeedBuild)]) st.(f_calls) (k + 1)
    else mkF t' req' resp' st.(f_pend) st.(f_calls) (k + 1)
  | FBuild =>
    mkF empty_trace st.(f_req) st.(f_resp)
        (if is_nil t.(t_name) then st.(f_pend) else st.(f_pend) ++ [(k, Ready t)])
        st.(f_calls) (k + 1)
  | FDefer j =>
    match find_pend j st.(f_pend) with
    | None => mkF t st.(f_req) st.(f_resp) st.(f_pend) st.(f_calls) (k + 1)
    | Some (Ready d) =>
      mkF t st.(f_req) st.(f_resp) (drop_pend j st.(f_pend)) (st.(f_calls) ++ [d]) (k + 1)
    | Some NeedBuild =>
      mkF empty_trace st.(f_req) st.(f_resp)
          (if is_nil t.(t_name) then drop_pend j st.(f_pend) else set_pend j (Ready t) st.(f_pend))
          st.(f_calls) (k + 1)
    end
  end.

Definition new_fbuilder (nm : bytes) : fbuilder := mkF (mkTr nm [TReqStart] 0 false) 0 0 [] [] 0.
Definition frun (inlock : bool) (nm : bytes) (l : list fact) : fbuilder :=
  fold_left (fstep inlock) l (new_fbuilder nm).

(* the same schedule with every add / build as ONE action (C16_Model.bstep) *)
Definition atomic_of (l : list fact) : list bact :=
  flat_map (fun a => match a with FAdd e => [Add e] | FBuild => [Build] | FDefer _ => [] end) l.

(* traces taken inside a critical section whose collector call is still to come *)
Definition ready_traces (l : list (N * pitem)) : list btrace :=
  flat_map (fun p => match snd p with Ready t => [t] | NeedBuild => [] end) l.

(* ====================================================================== *)
(* case decoding                                                          *)
(* ====================================================================== *)
Definition un_tev (s : sx) : option tev :=
  match s with
  | L [I 9%Z] => Some TReqStart
  | L [I 0%Z; I i] => Some (TReqData (Z.to_N i))
  | L [I 1%Z; I e] => Some (TReqEnd (Z.to_N e))
  | L [I 2%Z] => Some TRespStart
  | L [I 3%Z; I e] => Some (TRespError (Z.to_N e))
  | L [I 4%Z; I i] => Some (TRespData (Z.to_N i))
  | L [I 5%Z] => Some TRespEndStream
  | L [I 6%Z; I e] => Some (TRespEnd (Z.to_N e))
  | L [I 7%Z] => Some TCanceled
  | _ => None
  end.

Definition un_btrace (s : sx) : option btrace :=
  match s with
  | L [B nm; I e; I r; evs] =>
    do evs <- un_listof un_tev evs;
    ret (mkTr nm evs (Z.to_N e) (negb (Z.eqb r 0)))
  | _ => None
  end.

(* name client? mode (pre) ((script)...) (tail) (observed calls) -> 1 if some interleaving
   delivers exactly the observed calls, else 0.  `mode` (how the harness started the
   goroutines) does not matter to the verdict. *)
Definition run_c16_ballowed (args : list sx) : sx :=
  or_bad (match args with
  | [B nm; I _; _; pre; ss; tail; obs] =>
    do pre <- un_listof un_bact pre;
    do ss <- un_listof (un_listof un_bact) ss;
    do tail <- un_listof un_bact tail;
    do obs <- un_listof un_btrace obs;
    ret (sx_bool (ballowed nm pre ss tail obs))
  | _ => None end).

Definition un_code (s : sx) : option code :=
  match s with
  | L [I k] => Some (k, 0%Z)
  | L [I k; I t] => Some (k, t)
  | _ => None
  end.

(* mode (pre) ((script)...) (tail) (waiter ids) (names) ((waiter results) (name views)) *)
Definition run_c16_tallowed (args : list sx) : sx :=
  or_bad (match args with
  | [_; pre; ss; tail; ws; ns; L [ow; ov]] =>
    do pre <- un_listof un_action pre;
    do ss <- un_listof (un_listof un_action) ss;
    do tail <- un_listof un_action tail;
    do ws <- un_listof un_N ws; do ns <- un_listof un_B ns;
    do ow <- un_listof un_code ow; do ov <- un_listof un_code ov;
    ret (sx_bool (tallowed pre ss tail ws ns (ow, ov)))
  | _ => None end).

Definition un_fact (s : sx) : option fact :=
  match s with
  | L [I 9%Z; I k] => Some (FDefer (Z.to_N k))
  | _ => match un_bact s with
         | Some (Add e) => Some (FAdd e)
         | Some Build => Some FBuild
         | None => None
         end
  end.

(* name client? (actions) -> ((collector calls that returned) (numbers of the actions whose
   goroutine is held inside its collector call)); the code clears inside the lock *)
Definition run_c16_bfine (args : list sx) : sx :=
  or_bad (match args with
  | [B nm; I _; acts] =>
    do acts <- un_listof un_fact acts;
    let st := frun true nm acts in
    ret (L [ L (map sx_btrace st.(f_calls)); L (map (fun p => sx_N (fst p)) st.(f_pend)) ])
  | _ => None end).

Definition c16_conc_table : list (bytes * (list sx -> sx)) :=
  c16_seq_table ++
  [ (bs "c16.ballowed", run_c16_ballowed);
    (bs "c16.tallowed", run_c16_tallowed);
    (bs "c16.bfine", run_c16_bfine) ].
