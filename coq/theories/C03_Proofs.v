(* C03_Proofs.v — the model of assert reports nothing exactly when expected and
   actual agree (C03_Spec), piece by piece, then the corollaries. *)
From Coq Require Import Lia.
From V Require Export C03_Spec.
Open Scope N_scope.

(* ---------- generic ---------- *)
Lemma flat_map_nil {A B} (f : A -> list B) l :
  flat_map f l = [] <-> forall x, In x l -> f x = [].
Proof.
  induction l as [|x l IH]; simpl; [tauto|].
  split.
  - intros H. apply app_eq_nil in H. destruct H as [H1 H2].
    intros y [<-|Hy]; [exact H1|]. apply IH; assumption.
  - intros H. rewrite (H x) by auto. simpl. apply IH. intros y Hy; apply H; auto.
Qed.

Lemma app_nil_iff {A} (l1 l2 : list A) : l1 ++ l2 = [] <-> l1 = [] /\ l2 = [].
Proof. split; [apply app_eq_nil|intros [-> ->]; reflexivity]. Qed.

Lemma is_nil_true {A} (l : list A) : is_nil l = true <-> l = [].
Proof. destruct l; simpl; split; congruence. Qed.

Lemma if_nil_iff {A} (b : bool) (x : A) : (if b then [] else [x]) = [] <-> b = true.
Proof. destruct b; split; congruence. Qed.

Lemma Forall2_len {A B} (R : A -> B -> Prop) l1 l2 : Forall2 R l1 l2 -> length l1 = length l2.
Proof. induction 1; simpl; congruence. Qed.

Lemma any_eqb_eq x y : any_eqb x y = true <-> x = y.
Proof.
  destruct x as [t d], y as [t' d']; unfold any_eqb; simpl.
  rewrite andb_true_iff, N.eqb_eq, bytes_eqb_eq. split; [intros [-> ->]; reflexivity|].
  intros E; inversion E; auto.
Qed.

(* ---------- headers ---------- *)
Lemma lookup_none a k : lookup_last a k = None <-> Forall (fun h => lname h <> k) a.
Proof.
  induction a as [|h a IH]; simpl; [split; auto|].
  destruct (lookup_last a k) eqn:E.
  - split; [discriminate|]. intros F. inversion F; subst.
    apply IH in H2. discriminate.
  - destruct (bytes_eqb_spec (lname h) k) as [Heq|Hne].
    + split; [discriminate|]. intros F; inversion F; subst. congruence.
    + split; [|reflexivity]. intros _. constructor; [exact Hne|]. apply IH; reflexivity.
Qed.

Lemma lookup_carries a n vs : lookup_last a (lower n) = Some vs <-> carries a n vs.
Proof.
  split.
  - revert vs. induction a as [|h a IH]; simpl; intros vs H; [discriminate|].
    destruct (lookup_last a (lower n)) eqn:E.
    + inversion H; subst. specialize (IH _ eq_refl). inversion IH; subst.
      apply (carries_intro (h :: pre)); assumption.
    + destruct (bytes_eqb_spec (lname h) (lower n)) as [Heq|Hne]; [|discriminate].
      inversion H; subst. apply (carries_intro []); [exact Heq|].
      apply lookup_none in E. exact E.
  - intros C. inversion C as [pre h post n' Hn Hpost]; subst. clear C.
    induction pre as [|x pre IH]; simpl.
    + assert (lookup_last post (lower n) = None) as -> by (apply lookup_none; exact Hpost).
      unfold lname. rewrite Hn, bytes_eqb_refl. reflexivity.
    + rewrite IH. reflexivity.
Qed.

Lemma lbytes_eqb_refl l : lbytes_eqb l l = true.
Proof. apply lbytes_eqb_eq; reflexivity. Qed.

Lemma check_header_nil w a h :
  check_header w a h = [] <-> exists vs, carries a (h_name h) vs /\ same_values (h_vals h) vs.
Proof.
  unfold check_header, same_values, lname.
  destruct (lookup_last a (lower (h_name h))) as [av|] eqn:E.
  - destruct (lbytes_eqb (canon_vals (h_vals h)) (canon_vals av)) eqn:Q.
    + split; [|reflexivity]. intros _. exists av. split; [apply lookup_carries; exact E|].
      apply lbytes_eqb_eq; exact Q.
    + split; [discriminate|]. intros (vs & C & S). apply lookup_carries in C.
      rewrite E in C; inversion C; subst. rewrite S, lbytes_eqb_refl in Q. discriminate.
  - split; [discriminate|]. intros (vs & C & _). apply lookup_carries in C. congruence.
Qed.

Lemma check_headers_nil w e a : check_headers w e a = [] <-> included e a.
Proof.
  unfold check_headers, included. rewrite flat_map_nil.
  split; intros H h Hh; apply (check_header_nil w); apply H; exact Hh.
Qed.

(* what a failing header check reports *)
Lemma check_headers_reports w e a h :
  In h e -> (forall vs, carries a (h_name h) vs -> ~ same_values (h_vals h) vs) ->
  In (EHdrMissing w (lname h)) (check_headers w e a) \/ In (EHdrValues w (lname h)) (check_headers w e a).
Proof.
  intros Hin Hno. unfold check_headers.
  assert (In (EHdrMissing w (lname h)) (check_header w a h) \/ In (EHdrValues w (lname h)) (check_header w a h)) as H.
  { unfold check_header. destruct (lookup_last a (lname h)) as [av|] eqn:E; [|left; left; reflexivity].
    destruct (lbytes_eqb (canon_vals (h_vals h)) (canon_vals av)) eqn:Q; [|right; left; reflexivity].
    exfalso. apply (Hno av); [apply lookup_carries; exact E|apply lbytes_eqb_eq; exact Q]. }
  destruct H as [H|H]; [left|right]; apply in_flat_map; exists h; auto.
Qed.

(* ---------- timeout ---------- *)
Lemma check_timeout_nil e a : check_timeout e a = [] <-> timeout_agree e a.
Proof.
  unfold check_timeout, timeout_agree. destruct e as [t|], a as [x|]; try (split; [discriminate|tauto]); [|tauto].
  destruct (Z.ltb_spec (t - grace) 0); destruct (Z.gtb_spec x t); simpl;
    try (split; [discriminate|lia]).
  - destruct (Z.ltb_spec x 0); split; try discriminate; try lia; reflexivity.
  - destruct (Z.ltb_spec x (t - grace)); split; try discriminate; try lia; reflexivity.
Qed.

(* ---------- echoed requests ---------- *)
Lemma check_request_nil n x y :
  (if negb (resolvable y) then [EReqUnmarshalActual n]
   else if negb (resolvable x) then [EReqUnmarshalExpected n]
   else if any_eqb x y then [] else [EReqMismatch n]) = [] <-> request_agree x y.
Proof.
  unfold request_agree.
  destruct (resolvable y) eqn:Ry; simpl.
  - destruct (resolvable x) eqn:Rx; simpl.
    + destruct (any_eqb x y) eqn:Q.
      * apply any_eqb_eq in Q. subst. tauto.
      * split; [discriminate|]. intros [_ ->]. rewrite (proj2 (any_eqb_eq x x) eq_refl) in Q. discriminate.
    + split; [discriminate|]. intros [? _]; discriminate.
  - split; [discriminate|]. intros [Rx ->]. congruence.
Qed.

Lemma check_requests_from_nil n e a :
  length a = length e -> (check_requests_from n e a = [] <-> Forall2 request_agree e a).
Proof.
  revert n a. induction e as [|x e IH]; intros n [|y a] L; simpl in *; try discriminate.
  - split; auto.
  - rewrite app_nil_iff, check_request_nil, (IH (S n) a) by lia.
    split; [intros [? ?]; constructor; assumption|intros F; inversion F; auto].
Qed.

Lemma check_requests_nil e a : check_requests e a = [] <-> Forall2 request_agree e a.
Proof.
  unfold check_requests. rewrite app_nil_iff, if_nil_iff, Nat.eqb_eq. split.
  - intros [L H]. apply (check_requests_from_nil 1); assumption.
  - intros F. pose proof (Forall2_len _ _ _ F) as L. split; [lia|].
    apply check_requests_from_nil; [lia|exact F].
Qed.

(* ---------- request info ---------- *)
Lemma included_nil a : included [] a.
Proof. intros h []. Qed.

Lemma check_reqinfo_nil v e a : check_reqinfo v e a = [] <-> reqinfo_agree v e a.
Proof.
  unfold check_reqinfo, reqinfo_agree. rewrite app_nil_iff, check_requests_nil.
  destruct v.
  - rewrite !app_nil_iff, check_headers_nil, check_timeout_nil.
    assert ((if (0 <? length (ri_query e))%nat then check_headers WQuery (ri_query e) (ri_query a) else []) = []
            <-> included (ri_query e) (ri_query a)) as ->.
    { destruct (ri_query e) as [|q qs] eqn:Q; simpl.
      - split; [intros _; apply included_nil|reflexivity].
      - apply (check_headers_nil WQuery (q :: qs)). }
    split; [intros [(? & ? & ?) ?]; split; [intros _|]; auto|intros [H ?]; split; [apply H; reflexivity|assumption]].
  - split; [intros [_ ?]; split; [discriminate|assumption]|intros [_ ?]; auto].
Qed.

(* ---------- payloads ---------- *)
Lemma check_payloads_from_nil k e a :
  check_payloads_from k e a = [] <->
  forall i pe pa, nth_error e i = Some pe -> nth_error a i = Some pa ->
    p_data pe = p_data pa /\ reqinfo_agree (Nat.eqb (k + i) 0) (p_info pe) (p_info pa).
Proof.
  revert k a. induction e as [|x e IH]; intros k a.
  - simpl. split; [|reflexivity]. intros _ [|i] pe pa H; discriminate.
  - destruct a as [|y a]; simpl.
    + split; [|reflexivity]. intros _ [|i] pe pa _ H; discriminate.
    + rewrite !app_nil_iff, if_nil_iff, bytes_eqb_eq, check_reqinfo_nil, IH. split.
      * intros (D & R & Rest) [|i] pe pa He Ha; simpl in He, Ha.
        -- inversion He; inversion Ha; subst. rewrite Nat.add_0_r. auto.
        -- specialize (Rest i pe pa He Ha).
           replace (k + S i)%nat with (S k + i)%nat by lia. exact Rest.
      * intros H. split; [|split].
        -- symmetry. apply (H 0%nat x y); reflexivity.
        -- replace k with (k + 0)%nat at 1 by lia. apply (H 0%nat x y); reflexivity.
        -- intros i pe pa He Ha. replace (S k + i)%nat with (k + S i)%nat by lia.
           apply (H (S i) pe pa); assumption.
Qed.

Lemma check_payloads_nil e a : check_payloads e a = [] <-> payloads_agree e a.
Proof.
  unfold check_payloads, payloads_agree.
  rewrite app_nil_iff, if_nil_iff, Nat.eqb_eq, check_payloads_from_nil. simpl.
  split; intros [L H]; (split; [lia|exact H]).
Qed.

(* ---------- error ---------- *)
Lemma check_detail_nil i e a : check_detail i e a = [] <-> detail_agree e a.
Proof.
  destruct e as [re|x], a as [ra|y]; simpl; try (split; [discriminate|tauto]).
  - apply check_reqinfo_nil.
  - rewrite if_nil_iff. apply any_eqb_eq.
Qed.

Lemma check_details_from_nil i e a :
  length e = length a -> (check_details_from i e a = [] <-> Forall2 detail_agree e a).
Proof.
  revert i a. induction e as [|x e IH]; intros i [|y a] L; simpl in *; try discriminate.
  - split; auto.
  - rewrite app_nil_iff, check_detail_nil, (IH (S i) a) by lia.
    split; [intros [? ?]; constructor; assumption|intros F; inversion F; auto].
Qed.

Lemma existsb_eqb_in c l : existsb (N.eqb c) l = true <-> In c l.
Proof.
  rewrite existsb_exists. split.
  - intros (x & Hx & E). apply N.eqb_eq in E. subst. exact Hx.
  - intros H. exists c. split; [exact H|apply N.eqb_refl].
Qed.

Lemma check_error_nil e a other : check_error e a other = [] <-> error_agree other e a.
Proof.
  unfold check_error, error_agree.
  destruct e as [e|], a as [a|]; try (split; [discriminate|tauto]); [|tauto].
  rewrite !app_nil_iff.
  assert ((if negb (N.eqb (e_code e) (e_code a)) && negb (existsb (N.eqb (e_code a)) other) then [ECode] else []) = []
          <-> (e_code a = e_code e \/ In (e_code a) other)) as ->.
  { destruct (N.eqb_spec (e_code e) (e_code a)) as [E|NE]; simpl; [split; auto|].
    destruct (existsb (N.eqb (e_code a)) other) eqn:X; simpl.
    - apply existsb_eqb_in in X. tauto.
    - split; [discriminate|]. intros [?|H]; [congruence|]. apply existsb_eqb_in in H. congruence. }
  assert (match e_msg e with
          | Some m => if bytes_eqb m (msg_text (e_msg a)) then [] else [EMessage]
          | None => []
          end = [] <-> (forall m, e_msg e = Some m -> msg_text (e_msg a) = m)) as ->.
  { destruct (e_msg e) as [m|].
    - rewrite if_nil_iff, bytes_eqb_eq. split; [intros -> m' E; inversion E; reflexivity|].
      intros H. symmetry. apply H. reflexivity.
    - split; [intros _ m E; discriminate|reflexivity]. }
  rewrite if_nil_iff, Nat.eqb_eq. split.
  - intros (C & M & L & D). repeat split; try assumption. apply (check_details_from_nil 1); assumption.
  - intros (C & M & D). pose proof (Forall2_len _ _ _ D) as L. repeat split; try assumption.
    apply check_details_from_nil; assumption.
Qed.

(* ---------- merged metadata ---------- *)
Lemma lower_byte_idem c : lower_byte (lower_byte c) = lower_byte c.
Proof.
  unfold lower_byte.
  destruct ((65 <=? c) && (c <=? 90)) eqn:E; [|rewrite E; reflexivity].
  apply andb_true_iff in E. destruct E as [E1 E2]. apply N.leb_le in E1, E2.
  destruct (N.leb_spec (c + 32) 90); [lia|]. rewrite andb_false_r. reflexivity.
Qed.

Lemma lower_idem s : lower (lower s) = lower s.
Proof. unfold lower. rewrite map_map. apply map_ext. apply lower_byte_idem. Qed.

Lemma merged_names e k :
  In k (dedup (map lname (r_headers e) ++ map lname (r_trailers e))) <-> expected_name e k.
Proof.
  rewrite dedup_in, <- map_app, in_map_iff. unfold expected_name, lname.
  split; intros (h & A & B); exists h; tauto.
Qed.

Lemma merged_check_nil w e bag :
  check_headers w (merge_headers (r_headers e) (r_trailers e)) bag = [] <-> merged_included e bag.
Proof.
  rewrite check_headers_nil. unfold included, merged_included, merge_headers. split.
  - intros H n Hn. pose proof Hn as Hk. apply merged_names in Hk.
    destruct (H (mkH n (last_vals (r_headers e) n ++ all_vals (r_trailers e) n))) as (vs & C & S).
    { apply in_map_iff. exists n. auto. }
    exists vs. split; assumption.
  - intros H h Hh. apply in_map_iff in Hh. destruct Hh as (k & <- & Hk). simpl.
    apply merged_names in Hk. destruct (H k Hk) as (vs & C & S). exists vs. split; assumption.
Qed.

Lemma lenient_iff d e : lenient_metadata d e = true <-> may_merge d e.
Proof.
  unfold lenient_metadata, may_merge, stream_unary, stream_client.
  rewrite !andb_true_iff, orb_true_iff, !N.eqb_eq, is_nil_true.
  assert (is_some (r_error e) = true <-> r_error e <> None) as ->.
  { destruct (r_error e); simpl; split; congruence. }
  tauto.
Qed.

Lemma check_metadata_nil d e a : check_metadata d e a = [] <-> metadata_agree d e a.
Proof.
  unfold check_metadata, metadata_agree.
  pose proof (lenient_iff d e) as LI.
  assert (check_headers WRespHeaders (r_headers e) (r_headers a) ++
          check_headers WRespTrailers (r_trailers e) (r_trailers a) = []
          <-> included (r_headers e) (r_headers a) /\ included (r_trailers e) (r_trailers a)) as N.
  { rewrite app_nil_iff, !check_headers_nil. tauto. }
  destruct (lenient_metadata d e).
  - destruct (is_nil _) eqn:Z.
    + apply is_nil_true in Z. split; [intros _; left; apply N; exact Z|reflexivity].
    + assert (~ (included (r_headers e) (r_headers a) /\ included (r_trailers e) (r_trailers a))) as NN.
      { intros H. apply N in H. apply is_nil_true in H. congruence. }
      destruct (is_nil (check_headers WRespMeta _ (r_headers a))) eqn:ZH; simpl.
      * apply is_nil_true, merged_check_nil in ZH. split; [|reflexivity].
        intros _. right. split; [apply LI; reflexivity|left; exact ZH].
      * destruct (is_nil (check_headers WRespMeta _ (r_trailers a))) eqn:ZT; simpl.
        -- apply is_nil_true, merged_check_nil in ZT. split; [|reflexivity].
           intros _. right. split; [apply LI; reflexivity|right; exact ZT].
        -- split.
           ++ intros H. apply is_nil_true in H. congruence.
           ++ intros [H|[_ [H|H]]]; [tauto| |]; apply merged_check_nil with (w := WRespMeta), is_nil_true in H; congruence.
  - rewrite N. split; [tauto|]. intros [H|[H _]]; [exact H|]. apply LI in H. discriminate.
Qed.

(* ---------- status ---------- *)
Lemma check_status_nil e a : check_status e a = [] <-> status_agree e a.
Proof.
  unfold check_status, status_agree. destruct e as [x|], a as [y|].
  - rewrite if_nil_iff, Z.eqb_eq. split; [intros -> ? ? E1 E2; congruence|intros H; apply H; reflexivity].
  - split; [intros _ ? ? _ E; discriminate|reflexivity].
  - split; [intros _ ? ? E; discriminate|reflexivity].
  - split; [intros _ ? ? E; discriminate|reflexivity].
Qed.

(* ---------- the main theorem ---------- *)
Lemma assert_iff_proof : forall d e a, assert_errs d e a = [] <-> agree d e a.
Proof.
  intros d e a. unfold assert_errs, agree.
  rewrite !app_nil_iff, check_error_nil, check_payloads_nil, check_metadata_nil, check_status_nil.
  tauto.
Qed.

Lemma assert_passes_iff_proof : forall d e a, assert_passes d e a = true <-> agree d e a.
Proof. intros. unfold assert_passes. rewrite is_nil_true. apply assert_iff_proof. Qed.

(* ====================================================================== *)
(* Deviation corollaries: what is reported when expected and actual differ *)
(* ====================================================================== *)
Lemma assert_fails d e a : ~ agree d e a -> assert_errs d e a <> [].
Proof. intros H E. apply H, assert_iff_proof, E. Qed.

Lemma Forall2_nth {A B} (R : A -> B -> Prop) l1 l2 i x y :
  Forall2 R l1 l2 -> nth_error l1 i = Some x -> nth_error l2 i = Some y -> R x y.
Proof.
  intros F. revert i. induction F; intros [|i] H1 H2; simpl in *; try discriminate.
  - inversion H1; inversion H2; subst; assumption.
  - eapply IHF; eassumption.
Qed.

Lemma in_assert_error d e a k :
  In k (check_error (r_error e) (r_error a) (d_other_codes d)) -> In k (assert_errs d e a).
Proof. intros H. unfold assert_errs. apply in_or_app. left. exact H. Qed.
Lemma in_assert_payloads d e a k :
  In k (check_payloads (r_payloads e) (r_payloads a)) -> In k (assert_errs d e a).
Proof. intros H. unfold assert_errs. apply in_or_app. right. apply in_or_app. left. exact H. Qed.
Lemma in_assert_metadata d e a k : In k (check_metadata d e a) -> In k (assert_errs d e a).
Proof. intros H. unfold assert_errs. do 2 (apply in_or_app; right). apply in_or_app. left. exact H. Qed.
Lemma in_assert_status d e a k : In k (check_status (r_status e) (r_status a)) -> In k (assert_errs d e a).
Proof. intros H. unfold assert_errs. do 3 (apply in_or_app; right). exact H. Qed.

Lemma in_assert_first_info d e a pe es pa as_ k :
  r_payloads e = pe :: es -> r_payloads a = pa :: as_ ->
  In k (check_reqinfo true (p_info pe) (p_info pa)) -> In k (assert_errs d e a).
Proof.
  intros He Ha H. apply in_assert_payloads. rewrite He, Ha. unfold check_payloads.
  apply in_or_app. right. simpl. apply in_or_app. right. apply in_or_app. left. exact H.
Qed.

Lemma dev_error_presence_proof : forall d e a,
  (r_error e = None -> r_error a <> None -> In EUnexpectedError (assert_errs d e a)) /\
  (r_error e <> None -> r_error a = None -> In EMissingError (assert_errs d e a)).
Proof.
  intros d e a. split; intros He Ha; apply in_assert_error;
    destruct (r_error e), (r_error a); try congruence; simpl; auto.
Qed.

Lemma dev_code_proof : forall d e a ee ea,
  r_error e = Some ee -> r_error a = Some ea ->
  e_code ea <> e_code ee -> ~ In (e_code ea) (d_other_codes d) ->
  In ECode (assert_errs d e a).
Proof.
  intros d e a ee ea He Ha Hc Ho. apply in_assert_error. rewrite He, Ha. simpl.
  apply in_or_app. left.
  destruct (N.eqb_spec (e_code ee) (e_code ea)); [congruence|].
  destruct (existsb (N.eqb (e_code ea)) (d_other_codes d)) eqn:X; [apply existsb_eqb_in in X; tauto|].
  simpl. auto.
Qed.

Lemma dev_message_proof : forall d e a ee ea m,
  r_error e = Some ee -> r_error a = Some ea ->
  e_msg ee = Some m -> msg_text (e_msg ea) <> m ->
  In EMessage (assert_errs d e a).
Proof.
  intros d e a ee ea m He Ha Hm Hne. apply in_assert_error. rewrite He, Ha. simpl.
  apply in_or_app. right. apply in_or_app. left. rewrite Hm.
  destruct (bytes_eqb_spec m (msg_text (e_msg ea))); [congruence|]. simpl. auto.
Qed.

Lemma dev_detail_count_proof : forall d e a ee ea,
  r_error e = Some ee -> r_error a = Some ea ->
  length (e_details ea) <> length (e_details ee) ->
  In EDetailCount (assert_errs d e a).
Proof.
  intros d e a ee ea He Ha Hl. apply in_assert_error. rewrite He, Ha. simpl.
  do 2 (apply in_or_app; right). apply in_or_app. left.
  destruct (Nat.eqb_spec (length (e_details ee)) (length (e_details ea))); [congruence|]. simpl; auto.
Qed.

Lemma dev_detail_at_proof : forall d e a ee ea i de da,
  r_error e = Some ee -> r_error a = Some ea ->
  nth_error (e_details ee) i = Some de -> nth_error (e_details ea) i = Some da ->
  ~ detail_agree de da ->
  assert_errs d e a <> [].
Proof.
  intros d e a ee ea i de da He Ha Hde Hda Hn. apply assert_fails.
  intros (E & _). rewrite He, Ha in E. simpl in E. destruct E as (_ & _ & F).
  apply Hn. eapply Forall2_nth; eassumption.
Qed.

Lemma details_from_named k es as_ i x y :
  nth_error es i = Some (DOther x) -> nth_error as_ i = Some y -> y <> DOther x ->
  In (EDetail (k + i)) (check_details_from k es as_).
Proof.
  revert k es as_. induction i as [|i IH]; intros k [|e es] [|a as_] He Ha Hne; simpl in *; try discriminate.
  - inversion He; inversion Ha; subst. apply in_or_app. left. rewrite Nat.add_0_r.
    destruct y as [r|y]; simpl; [auto|].
    destruct (any_eqb x y) eqn:Q; [apply any_eqb_eq in Q; congruence|]. simpl; auto.
  - apply in_or_app. right. replace (k + S i)%nat with (S k + i)%nat by lia. apply IH; assumption.
Qed.

(* the i-th detail (0-based) is named as "#i+1" *)
Lemma dev_detail_named_proof : forall d e a ee ea i x y,
  r_error e = Some ee -> r_error a = Some ea ->
  nth_error (e_details ee) i = Some (DOther x) -> nth_error (e_details ea) i = Some y ->
  y <> DOther x ->
  In (EDetail (S i)) (assert_errs d e a).
Proof.
  intros d e a ee ea i x y He Ha Hx Hy Hne. apply in_assert_error. rewrite He, Ha. simpl.
  do 3 (apply in_or_app; right). exact (details_from_named 1 _ _ i x y Hx Hy Hne).
Qed.

Lemma dev_payload_count_proof : forall d e a,
  length (r_payloads a) <> length (r_payloads e) -> In EPayloadCount (assert_errs d e a).
Proof.
  intros d e a H. apply in_assert_payloads. unfold check_payloads. apply in_or_app. left.
  destruct (Nat.eqb_spec (length (r_payloads a)) (length (r_payloads e))); [congruence|]. simpl; auto.
Qed.

Lemma payloads_from_data k es as_ i pe pa :
  nth_error es i = Some pe -> nth_error as_ i = Some pa -> p_data pa <> p_data pe ->
  In (EPayloadData (S (k + i))) (check_payloads_from k es as_).
Proof.
  revert k es as_. induction i as [|i IH]; intros k [|e es] [|a as_] He Ha Hne; simpl in *; try discriminate.
  - inversion He; inversion Ha; subst. apply in_or_app. left. rewrite Nat.add_0_r.
    destruct (bytes_eqb_spec (p_data pa) (p_data pe)); [congruence|]. simpl; auto.
  - do 2 (apply in_or_app; right). replace (k + S i)%nat with (S k + i)%nat by lia. apply IH; assumption.
Qed.

(* the i-th payload (0-based) is named as "response #i+1" *)
Lemma dev_payload_data_at_proof : forall d e a i pe pa,
  nth_error (r_payloads e) i = Some pe -> nth_error (r_payloads a) i = Some pa ->
  p_data pa <> p_data pe ->
  In (EPayloadData (S i)) (assert_errs d e a).
Proof.
  intros d e a i pe pa He Ha Hne. apply in_assert_payloads. unfold check_payloads.
  apply in_or_app. right. exact (payloads_from_data 0 _ _ i pe pa He Ha Hne).
Qed.

(* echoed requests of the i-th payload: count, and content/order at every position j *)
Lemma dev_requests_count_proof : forall d e a i pe pa,
  nth_error (r_payloads e) i = Some pe -> nth_error (r_payloads a) i = Some pa ->
  length (ri_requests (p_info pa)) <> length (ri_requests (p_info pe)) ->
  assert_errs d e a <> [].
Proof.
  intros d e a i pe pa He Ha Hl. apply assert_fails. intros (_ & (_ & P) & _).
  destruct (P i pe pa He Ha) as (_ & _ & F). apply Forall2_len in F. congruence.
Qed.

Lemma dev_requests_at_proof : forall d e a i pe pa j x y,
  nth_error (r_payloads e) i = Some pe -> nth_error (r_payloads a) i = Some pa ->
  nth_error (ri_requests (p_info pe)) j = Some x -> nth_error (ri_requests (p_info pa)) j = Some y ->
  y <> x ->
  assert_errs d e a <> [].
Proof.
  intros d e a i pe pa j x y He Ha Hx Hy Hne. apply assert_fails. intros (_ & (_ & P) & _).
  destruct (P i pe pa He Ha) as (_ & _ & F).
  destruct (Forall2_nth _ _ _ _ _ _ F Hx Hy) as [_ E]. congruence.
Qed.

(* request headers / query parameters echoed with the first response *)
Lemma dev_request_header_proof : forall d e a pe es pa as_ h,
  r_payloads e = pe :: es -> r_payloads a = pa :: as_ ->
  In h (ri_headers (p_info pe)) ->
  (forall vs, carries (ri_headers (p_info pa)) (h_name h) vs -> ~ same_values (h_vals h) vs) ->
  In (EHdrMissing WReqHeaders (lname h)) (assert_errs d e a) \/
  In (EHdrValues WReqHeaders (lname h)) (assert_errs d e a).
Proof.
  intros d e a pe es pa as_ h He Ha Hin Hno.
  destruct (check_headers_reports WReqHeaders _ _ h Hin Hno) as [H|H]; [left|right];
    apply (in_assert_first_info d e a pe es pa as_ _ He Ha); unfold check_reqinfo;
    apply in_or_app; left; apply in_or_app; left; exact H.
Qed.

Lemma dev_query_proof : forall d e a pe es pa as_ h,
  r_payloads e = pe :: es -> r_payloads a = pa :: as_ ->
  In h (ri_query (p_info pe)) ->
  (forall vs, carries (ri_query (p_info pa)) (h_name h) vs -> ~ same_values (h_vals h) vs) ->
  In (EHdrMissing WQuery (lname h)) (assert_errs d e a) \/
  In (EHdrValues WQuery (lname h)) (assert_errs d e a).
Proof.
  intros d e a pe es pa as_ h He Ha Hin Hno.
  assert ((0 <? length (ri_query (p_info pe)))%nat = true) as Hlen.
  { destruct (ri_query (p_info pe)); [destruct Hin|reflexivity]. }
  destruct (check_headers_reports WQuery _ _ h Hin Hno) as [H|H]; [left|right];
    apply (in_assert_first_info d e a pe es pa as_ _ He Ha); unfold check_reqinfo;
    apply in_or_app; left; do 2 (apply in_or_app; right); rewrite Hlen; exact H.
Qed.

(* finding #14: no query parameter at all on the actual side *)
Lemma dev_query_missing_all_proof : forall d e a pe es pa as_ h,
  r_payloads e = pe :: es -> r_payloads a = pa :: as_ ->
  In h (ri_query (p_info pe)) -> ri_query (p_info pa) = [] ->
  In (EHdrMissing WQuery (lname h)) (assert_errs d e a).
Proof.
  intros d e a pe es pa as_ h He Ha Hin Hnil.
  assert ((0 <? length (ri_query (p_info pe)))%nat = true) as Hlen.
  { destruct (ri_query (p_info pe)); [destruct Hin|reflexivity]. }
  apply (in_assert_first_info d e a pe es pa as_ _ He Ha). unfold check_reqinfo.
  apply in_or_app; left; do 2 (apply in_or_app; right). rewrite Hlen, Hnil.
  unfold check_headers. apply in_flat_map. exists h. split; [exact Hin|]. simpl. auto.
Qed.

Lemma dev_timeout_proof : forall d e a pe es pa as_,
  r_payloads e = pe :: es -> r_payloads a = pa :: as_ ->
  (forall t x, ri_timeout (p_info pe) = Some t -> ri_timeout (p_info pa) = Some x ->
     (x > t \/ x < Z.max 0 (t - grace))%Z -> In ETimeoutMismatch (assert_errs d e a)) /\
  (forall t, ri_timeout (p_info pe) = Some t -> ri_timeout (p_info pa) = None ->
     In ETimeoutMissing (assert_errs d e a)) /\
  (forall x, ri_timeout (p_info pe) = None -> ri_timeout (p_info pa) = Some x ->
     In ETimeoutUnexpected (assert_errs d e a)).
Proof.
  intros d e a pe es pa as_ He Ha.
  assert (forall k, In k (check_timeout (ri_timeout (p_info pe)) (ri_timeout (p_info pa))) ->
                    In k (assert_errs d e a)) as Emb.
  { intros k H. apply (in_assert_first_info d e a pe es pa as_ _ He Ha). unfold check_reqinfo.
    apply in_or_app; left. apply in_or_app; right. apply in_or_app; left. exact H. }
  split; [|split].
  - intros t x Ht Hx Hr. apply Emb. rewrite Ht, Hx. unfold check_timeout.
    destruct (Z.ltb_spec (t - grace) 0); destruct (Z.gtb_spec x t); simpl; auto.
    + destruct (Z.ltb_spec x 0); simpl; auto. lia.
    + destruct (Z.ltb_spec x (t - grace)); simpl; auto. lia.
  - intros t Ht Hx. apply Emb. rewrite Ht, Hx. simpl. auto.
  - intros x Ht Hx. apply Emb. rewrite Ht, Hx. simpl. auto.
Qed.

(* response headers / trailers when no merging is allowed *)
Lemma dev_header_proof : forall d e a h,
  lenient_metadata d e = false -> In h (r_headers e) ->
  (forall vs, carries (r_headers a) (h_name h) vs -> ~ same_values (h_vals h) vs) ->
  In (EHdrMissing WRespHeaders (lname h)) (assert_errs d e a) \/
  In (EHdrValues WRespHeaders (lname h)) (assert_errs d e a).
Proof.
  intros d e a h Hl Hin Hno.
  destruct (check_headers_reports WRespHeaders _ _ h Hin Hno) as [H|H]; [left|right];
    apply in_assert_metadata; unfold check_metadata; rewrite Hl; apply in_or_app; left; exact H.
Qed.

Lemma dev_trailer_proof : forall d e a h,
  lenient_metadata d e = false -> In h (r_trailers e) ->
  (forall vs, carries (r_trailers a) (h_name h) vs -> ~ same_values (h_vals h) vs) ->
  In (EHdrMissing WRespTrailers (lname h)) (assert_errs d e a) \/
  In (EHdrValues WRespTrailers (lname h)) (assert_errs d e a).
Proof.
  intros d e a h Hl Hin Hno.
  destruct (check_headers_reports WRespTrailers _ _ h Hin Hno) as [H|H]; [left|right];
    apply in_assert_metadata; unfold check_metadata; rewrite Hl; apply in_or_app; right; exact H.
Qed.

(* whatever the stream type: an expected header or trailer whose name occurs in
   neither the actual headers nor the actual trailers makes the assertion fail *)
Lemma carries_has_name bag n vs : carries bag n vs -> exists h, In h bag /\ lower (h_name h) = lower n.
Proof. intros C. inversion C; subst. exists h. split; [apply in_or_app; right; left; reflexivity|assumption]. Qed.

Lemma dev_metadata_missing_proof : forall d e a h,
  In h (r_headers e ++ r_trailers e) ->
  (forall h', In h' (r_headers a ++ r_trailers a) -> lower (h_name h') <> lower (h_name h)) ->
  assert_errs d e a <> [].
Proof.
  intros d e a h Hin Hno. apply assert_fails. intros (_ & _ & M & _).
  assert (forall bag vs, (forall h', In h' bag -> In h' (r_headers a ++ r_trailers a)) ->
                         ~ carries bag (h_name h) vs) as NC.
  { intros bag vs Sub C. apply carries_has_name in C. destruct C as (h' & Hb & Hn).
    apply (Hno h'); auto. }
  destruct M as [[IH IT]|[_ [MI|MI]]].
  - apply in_app_or in Hin. destruct Hin as [Hin|Hin].
    + destruct (IH h Hin) as (vs & C & _). revert C. apply NC. intros; apply in_or_app; auto.
    + destruct (IT h Hin) as (vs & C & _). revert C. apply NC. intros; apply in_or_app; auto.
  - destruct (MI (lower (h_name h))) as (vs & C & _); [exists h; auto|].
    apply carries_has_name in C. destruct C as (h' & Hb & Hn). rewrite lower_idem in Hn.
    apply (Hno h'); [apply in_or_app; auto|exact Hn].
  - destruct (MI (lower (h_name h))) as (vs & C & _); [exists h; auto|].
    apply carries_has_name in C. destruct C as (h' & Hb & Hn). rewrite lower_idem in Hn.
    apply (Hno h'); [apply in_or_app; auto|exact Hn].
Qed.

Lemma dev_status_proof : forall d e a x y,
  r_status e = Some x -> r_status a = Some y -> x <> y -> In EStatus (assert_errs d e a).
Proof.
  intros d e a x y He Ha Hne. apply in_assert_status. rewrite He, Ha. simpl.
  destruct (Z.eqb_spec x y); [congruence|]. simpl; auto.
Qed.

(* ====================================================================== *)
(* Leniency corollaries                                                     *)
(* ====================================================================== *)
Definition with_headers hs a := mkR hs (r_trailers a) (r_payloads a) (r_error a) (r_status a) (r_unsent a).
Definition with_trailers ts a := mkR (r_headers a) ts (r_payloads a) (r_error a) (r_status a) (r_unsent a).
Definition with_error er a := mkR (r_headers a) (r_trailers a) (r_payloads a) er (r_status a) (r_unsent a).
Definition with_status st a := mkR (r_headers a) (r_trailers a) (r_payloads a) (r_error a) st (r_unsent a).
Definition with_unsent u a := mkR (r_headers a) (r_trailers a) (r_payloads a) (r_error a) (r_status a) u.

Definition same_mod_case (a a' : list header) : Prop :=
  Forall2 (fun h h' => lower (h_name h) = lower (h_name h') /\ h_vals h = h_vals h') a a'.

Lemma lookup_case a a' k : same_mod_case a a' -> lookup_last a k = lookup_last a' k.
Proof.
  induction 1 as [|h h' a a' [Hn Hv] F IH]; simpl; [reflexivity|].
  rewrite IH. unfold lname. rewrite Hn, Hv. reflexivity.
Qed.

Lemma carries_case a a' n vs : same_mod_case a a' -> carries a n vs -> carries a' n vs.
Proof. intros S C. apply lookup_carries. rewrite <- (lookup_case a a' _ S). apply lookup_carries. exact C. Qed.

Lemma carries_cons x a n vs : carries a n vs -> carries (x :: a) n vs.
Proof. intros C. inversion C; subst. apply (carries_intro (x :: pre)); assumption. Qed.

Lemma carries_snoc x a n vs :
  lower (h_name x) <> lower n -> carries a n vs -> carries (a ++ [x]) n vs.
Proof.
  intros Hne C. inversion C; subst. rewrite <- app_assoc. simpl.
  apply carries_intro; [assumption|]. apply Forall_app. split; [assumption|]. constructor; [exact Hne|constructor].
Qed.

(* header-name case, on every kind of header list *)
Lemma len_header_case_proof : forall e a a',
  same_mod_case a a' -> included e a -> included e a'.
Proof.
  intros e a a' S I h Hh. destruct (I h Hh) as (vs & C & V). exists vs. split; [|exact V].
  eapply carries_case; eassumption.
Qed.

(* extra metadata: anywhere in front, or behind under a name that is not expected *)
Lemma len_extra_header_proof : forall e a x,
  included e a ->
  included e (x :: a) /\
  ((forall h, In h e -> lower (h_name x) <> lower (h_name h)) -> included e (a ++ [x])).
Proof.
  intros e a x I. split.
  - intros h Hh. destruct (I h Hh) as (vs & C & V). exists vs. split; [apply carries_cons; exact C|exact V].
  - intros Hne h Hh. destruct (I h Hh) as (vs & C & V). exists vs. split; [|exact V].
    apply carries_snoc; [apply Hne; exact Hh|exact C].
Qed.

(* ... and on the whole result, for response headers in particular *)
Lemma len_extra_response_header_proof : forall d e a x,
  assert_errs d e a = [] -> assert_errs d e (with_headers (x :: r_headers a) a) = [].
Proof.
  intros d e a x H. apply assert_iff_proof in H. apply assert_iff_proof.
  destruct H as (E & P & M & S). split; [exact E|split; [exact P|split; [|exact S]]].
  unfold metadata_agree. simpl.
  destruct M as [[IH IT]|[MM [MI|MI]]].
  - left. split; [|exact IT]. apply len_extra_header_proof. exact IH.
  - right. split; [exact MM|]. left. intros n Hn. destruct (MI n Hn) as (vs & C & V).
    exists vs. split; [apply carries_cons; exact C|exact V].
  - right. split; [exact MM|]. right. exact MI.
Qed.

(* headers and trailers merged on unary / client-stream errors *)
Lemma len_merge_on_unary_error_proof : forall d e a,
  may_merge d e ->
  merged_included e (r_headers a) \/ merged_included e (r_trailers a) ->
  check_metadata d e a = [].
Proof. intros d e a M H. apply check_metadata_nil. right. split; assumption. Qed.

(* ... but only there *)
Lemma no_merge_elsewhere_proof : forall d e a,
  ~ may_merge d e ->
  (check_metadata d e a = [] <-> included (r_headers e) (r_headers a) /\ included (r_trailers e) (r_trailers a)).
Proof. intros d e a M. rewrite check_metadata_nil. unfold metadata_agree. tauto. Qed.

Lemma agree_with_error d e a er :
  agree d e a -> error_agree (d_other_codes d) (r_error e) er -> agree d e (with_error er a).
Proof. intros (E & P & M & S) E'. split; [exact E'|split; [exact P|split; [exact M|exact S]]]. Qed.

Lemma len_other_code_proof : forall d e a ea c,
  assert_errs d e a = [] -> r_error a = Some ea -> In c (d_other_codes d) ->
  assert_errs d e (with_error (Some (mkE c (e_msg ea) (e_details ea))) a) = [].
Proof.
  intros d e a ea c H Ha Hc. apply assert_iff_proof in H. apply assert_iff_proof.
  apply agree_with_error; [exact H|]. destruct H as (E & _). rewrite Ha in E.
  destruct (r_error e) as [ee|]; simpl in *; [|exact E].
  destruct E as (_ & Hm & Hd). split; [right; exact Hc|split; assumption].
Qed.

Lemma len_unspecified_message_proof : forall d e a ee ea m,
  assert_errs d e a = [] -> r_error e = Some ee -> e_msg ee = None -> r_error a = Some ea ->
  assert_errs d e (with_error (Some (mkE (e_code ea) m (e_details ea))) a) = [].
Proof.
  intros d e a ee ea m H He Hn Ha. apply assert_iff_proof in H. apply assert_iff_proof.
  apply agree_with_error; [exact H|]. destruct H as (E & _). rewrite He, Ha in E. rewrite He.
  simpl in *. destruct E as (Hc & _ & Hd).
  split; [exact Hc|split; [|exact Hd]]. intros m' Hm'. congruence.
Qed.

Lemma grace_nonneg : (0 <= grace)%Z.
Proof. vm_compute. discriminate. Qed.

(* the window is the declared duration, a whole number of milliseconds *)
Lemma grace_is_declared_duration_proof :
  (grace * ns_per_ms = c03_grace_value * c03_grace_unit_ns)%Z /\ (0 < grace)%Z.
Proof. split; vm_compute; reflexivity. Qed.

Lemma len_timeout_in_window_proof : forall t x,
  (check_timeout (Some t) (Some x) = [] <-> (Z.max 0 (t - grace) <= x <= t)%Z) /\
  ((0 <= t)%Z -> check_timeout (Some t) (Some t) = [] /\
                 check_timeout (Some t) (Some (Z.max 0 (t - grace))) = []).
Proof.
  intros t x. split; [apply check_timeout_nil|].
  intros Ht. pose proof grace_nonneg. split; apply check_timeout_nil; simpl; lia.
Qed.

Lemma len_status_absent_proof : forall d e a,
  assert_errs d e a = [] ->
  assert_errs d e (with_status None a) = [] /\ assert_errs d (with_status None e) a = [].
Proof.
  intros d e a H. apply assert_iff_proof in H. destruct H as (E & P & M & S).
  split; apply assert_iff_proof.
  - split; [exact E|split; [exact P|split; [exact M|]]]. intros x y H1 H2; discriminate.
  - split; [exact E|split; [exact P|split; [exact M|]]]. intros x y H1 H2; discriminate.
Qed.

Lemma len_unsent_count_proof : forall d e a u,
  assert_errs d e (with_unsent u a) = assert_errs d e a /\
  assert_errs d (with_unsent u e) a = assert_errs d e a.
Proof. intros. split; reflexivity. Qed.

(* ====================================================================== *)
(* The value canonicalisation                                               *)
(* ====================================================================== *)
Lemma split_parts_no_sep sep s : Forall (no_sep sep) (split_on sep s).
Proof.
  induction s as [|c s IH]; simpl.
  - constructor; [intros []|constructor].
  - destruct (N.eqb_spec c sep) as [->|Hne].
    + constructor; [intros []|exact IH].
    + destruct (split_on sep s) as [|w ws].
      * constructor; [|constructor]. intros [H|[]]. congruence.
      * inversion IH as [|? ? Hw Hws]; subst. constructor; [|assumption].
        intros [H|H]; [congruence|]. apply Hw. exact H.
Qed.

Lemma trim_lead1_no_sep c p : no_sep c p -> no_sep c (trim_lead1 p).
Proof.
  unfold no_sep, trim_lead1. destruct p as [|x r]; [auto|].
  destruct (N.eqb x space); [|auto]. intros H HI. apply H. right. exact HI.
Qed.

Lemma trim_trail1_no_sep c p : no_sep c p -> no_sep c (trim_trail1 p).
Proof.
  unfold no_sep, trim_trail1. destruct (rev p) as [|x r] eqn:E; [auto|].
  destruct (N.eqb x space); [|auto]. intros H HI. apply H.
  apply in_rev. rewrite E. right. apply in_rev. exact HI.
Qed.

Lemma canon_parts_no_sep parts : forall later,
  Forall (no_sep comma) parts -> Forall (no_sep comma) (canon_parts later parts).
Proof.
  induction parts as [|p rest IH]; intros later F; simpl; [constructor|].
  inversion F as [|? ? Hp Hrest]; subst. constructor; [|apply IH; assumption].
  assert (no_sep comma (if later then trim_lead1 p else p)) as HP1.
  { destruct later; [apply trim_lead1_no_sep|]; assumption. }
  destruct rest; [exact HP1|apply trim_trail1_no_sep; exact HP1].
Qed.

Lemma canon_vals_no_sep vs : Forall (no_sep comma) (canon_vals vs).
Proof.
  induction vs as [|v vs IH]; simpl; [constructor|].
  apply Forall_app. split; [|exact IH]. apply canon_parts_no_sep, split_parts_no_sep.
Qed.

(* values without commas are left alone, outer spaces included *)
Lemma canon_comma_free_proof : forall ws, Forall (no_sep comma) ws -> canon_vals ws = ws.
Proof.
  induction 1 as [|w ws Hw F IH]; simpl; [reflexivity|].
  rewrite (split_on_no_sep _ _ Hw). simpl. f_equal. exact IH.
Qed.

Lemma canon_idempotent_proof : forall vs, canon_vals (canon_vals vs) = canon_vals vs.
Proof. intros. apply canon_comma_free_proof, canon_vals_no_sep. Qed.

(* joining: a list of values glued by commas, each comma optionally preceded
   and/or followed by one space, canonicalises to the list itself — provided the
   values contain no comma and do not begin or end with a space themselves *)
Definition clean (v : bytes) : Prop :=
  ~ In comma v /\ hd_error v <> Some space /\ hd_error (rev v) <> Some space.
Definition sp (b : bool) : bytes := if b then [space] else [].
Definition comma_sep (before after : bool) : bytes := sp before ++ comma :: sp after.
Fixpoint join_with (sep : bytes) (vs : list bytes) : bytes :=
  match vs with
  | [] => []
  | [v] => v
  | v :: vs' => v ++ sep ++ join_with sep vs'
  end.

Lemma piece_clean later pre v b1 :
  clean v -> (pre = [] \/ (later = true /\ pre = [space])) ->
  trim_trail1 (if later then trim_lead1 (pre ++ v ++ sp b1) else pre ++ v ++ sp b1) = v.
Proof.
  intros (Hc & Hh & Hl) Hpre. destruct v as [|c v'].
  - destruct later, b1; destruct Hpre as [->|[? ->]]; try discriminate; reflexivity.
  - assert (N.eqb c space = false) as Hcs.
    { apply N.eqb_neq. intros ->. apply Hh. reflexivity. }
    assert ((if later then trim_lead1 (pre ++ (c :: v') ++ sp b1) else pre ++ (c :: v') ++ sp b1)
            = (c :: v') ++ sp b1) as ->.
    { destruct Hpre as [->|[-> ->]]; simpl.
      - destruct later; simpl; [rewrite Hcs|]; reflexivity.
      - reflexivity. }
    remember (c :: v') as w eqn:Hw.
    unfold trim_trail1. destruct b1; simpl sp.
    + rewrite rev_app_distr. simpl. apply rev_involutive.
    + rewrite app_nil_r. destruct (rev w) as [|x r] eqn:E.
      * apply (f_equal (@rev N)) in E. rewrite rev_involutive in E. simpl in E. congruence.
      * destruct (N.eqb_spec x space) as [->|]; [|reflexivity]. exfalso. apply Hl. reflexivity.
Qed.

Lemma no_sep_piece pre v b1 :
  clean v -> (pre = [] \/ pre = [space]) -> no_sep comma (pre ++ v ++ sp b1).
Proof.
  intros (Hc & _) Hpre HI. apply in_app_or in HI. destruct HI as [HI|HI].
  - destruct Hpre as [->| ->]; simpl in HI; [tauto|]. destruct HI as [HI|[]]. discriminate.
  - apply in_app_or in HI. destruct HI as [HI|HI]; [tauto|].
    destruct b1; simpl in HI; [|tauto]. destruct HI as [HI|[]]. discriminate.
Qed.

Lemma canon_join_gen b1 b2 vs : vs <> [] -> Forall clean vs ->
  forall later pre, (pre = [] \/ (later = true /\ pre = [space])) ->
  canon_parts later (split_on comma (pre ++ join_with (comma_sep b1 b2) vs)) = vs.
Proof.
  induction vs as [|v vs IH]; intros NE F later pre Hpre; [congruence|].
  inversion F as [|? ? Hv Hvs]; subst.
  assert (pre = [] \/ pre = [space]) as Hpre' by (destruct Hpre as [?|[_ ?]]; auto).
  destruct vs as [|v' vs].
  - simpl join_with. pose proof (no_sep_piece pre v false Hv Hpre') as NS. simpl sp in NS.
    rewrite app_nil_r in NS. rewrite (split_on_no_sep _ _ NS). simpl. f_equal.
    pose proof (piece_clean later pre v false Hv Hpre) as PC. simpl sp in PC. rewrite app_nil_r in PC.
    (* the only piece is also the last one: no trailing trim happens, and none is needed *)
    destruct Hv as (Hc & Hh & Hl).
    destruct later.
    + destruct Hpre as [->|[_ ->]]; simpl.
      * destruct v as [|c v0]; [reflexivity|]. simpl.
        destruct (N.eqb_spec c space) as [->|]; [exfalso; apply Hh; reflexivity|reflexivity].
      * reflexivity.
    + destruct Hpre as [->|[? _]]; [reflexivity|discriminate].
  - change (join_with (comma_sep b1 b2) (v :: v' :: vs))
      with (v ++ comma_sep b1 b2 ++ join_with (comma_sep b1 b2) (v' :: vs)).
    unfold comma_sep at 1.
    assert (pre ++ v ++ (sp b1 ++ comma :: sp b2) ++ join_with (comma_sep b1 b2) (v' :: vs)
            = (pre ++ v ++ sp b1) ++ comma :: (sp b2 ++ join_with (comma_sep b1 b2) (v' :: vs))) as ->.
    { rewrite <- !app_assoc. reflexivity. }
    rewrite split_on_app by (apply no_sep_piece; assumption).
    pose proof (split_on_nonempty comma (sp b2 ++ join_with (comma_sep b1 b2) (v' :: vs))) as NE2.
    cbn [canon_parts].
    destruct (split_on comma (sp b2 ++ join_with (comma_sep b1 b2) (v' :: vs))) as [|q qs] eqn:Q; [congruence|].
    rewrite (piece_clean later pre v b1 Hv Hpre). f_equal.
    rewrite <- Q. apply IH; [discriminate|exact Hvs|].
    destruct b2; simpl; auto.
Qed.

Lemma canon_join_proof : forall before after vs, vs <> [] -> Forall clean vs ->
  canon_vals [join_with (comma_sep before after) vs] = vs /\ canon_vals vs = vs.
Proof.
  intros b1 b2 vs NE F. split.
  - unfold canon_vals. simpl. rewrite app_nil_r.
    apply (canon_join_gen b1 b2 vs NE F false []). left. reflexivity.
  - apply canon_comma_free_proof. eapply Forall_impl; [|exact F]. intros v (H & _). exact H.
Qed.

(* ---------- from the client's report to assert: the runner changes nothing ---------- *)
Lemma runner_hands_over_reported_result_proof : forall ref r, handed_to_assert ref r = r.
Proof. reflexivity. Qed.

Lemma runner_hands_over_definition_proof : forall ref d, def_handed_to_assert ref d = d.
Proof. reflexivity. Qed.

Lemma run_errs_is_assert : forall ref d e a, run_errs ref d e a = assert_errs d e a.
Proof. reflexivity. Qed.

Lemma run_verdict_iff_proof : forall ref d e a, run_errs ref d e a = [] <-> agree d e a.
Proof. intros. rewrite run_errs_is_assert. apply assert_iff_proof. Qed.

Lemma run_dev_status_proof : forall ref d e a x y,
  r_status e = Some x -> r_status a = Some y -> x <> y -> In EStatus (run_errs ref d e a).
Proof. intros. rewrite run_errs_is_assert. eapply dev_status_proof; eauto. Qed.

(* the alternative allowed codes of the library's definition count through the runner ... *)
Lemma run_len_other_code_proof : forall ref d e a ea c,
  run_errs ref d e a = [] -> r_error a = Some ea -> In c (d_other_codes d) ->
  run_errs ref d e (with_error (Some (mkE c (e_msg ea) (e_details ea))) a) = [].
Proof. intros ref d e a ea c. rewrite !run_errs_is_assert. apply len_other_code_proof. Qed.

(* ... and no other code does *)
Lemma run_dev_code_proof : forall ref d e a ee ea,
  r_error e = Some ee -> r_error a = Some ea ->
  e_code ea <> e_code ee -> ~ In (e_code ea) (d_other_codes d) ->
  In ECode (run_errs ref d e a).
Proof. intros ref d e a ee ea. rewrite run_errs_is_assert. apply dev_code_proof. Qed.

(* the merged form of the metadata passes through the runner only where the stream
   type of the library's definition allows it *)
Lemma run_no_merge_elsewhere_proof : forall ref d e a,
  ~ may_merge d e -> run_errs ref d e a = [] ->
  included (r_headers e) (r_headers a) /\ included (r_trailers e) (r_trailers a).
Proof.
  intros ref d e a Hn H. rewrite run_errs_is_assert in H. unfold assert_errs in H.
  apply app_eq_nil in H. destruct H as (_ & H).
  apply app_eq_nil in H. destruct H as (_ & H).
  apply app_eq_nil in H. destruct H as (H & _).
  apply (no_merge_elsewhere_proof d e a Hn). exact H.
Qed.

(* the code probes read the set of accepted codes back: for an expectation that agrees
   with itself, the probe with code c passes iff c is the primary code or an alternative *)
Lemma probe_code_self : forall e ee, r_error e = Some ee -> probe_code e (e_code ee) = e.
Proof. intros [h t p er s u] [c m ds] H. simpl in H. subst er. reflexivity. Qed.

Lemma probe_code_with_error : forall e ee c, r_error e = Some ee ->
  probe_code e c = with_error (Some (mkE c (e_msg ee) (e_details ee))) e.
Proof. intros [h t p er s u] ee c H. simpl in H. subst er. reflexivity. Qed.

Lemma probe_code_allowed_proof : forall ref d e ee c,
  r_error e = Some ee -> run_errs ref d e e = [] ->
  c = e_code ee \/ In c (d_other_codes d) ->
  run_errs ref d e (probe_code e c) = [].
Proof.
  intros ref d e ee c He Hs [Hc|Hc].
  - subst c. rewrite (probe_code_self e ee He). exact Hs.
  - rewrite (probe_code_with_error e ee c He). eapply run_len_other_code_proof; eauto.
Qed.

Lemma probe_code_flagged_proof : forall ref d e ee c,
  r_error e = Some ee -> c <> e_code ee -> ~ In c (d_other_codes d) ->
  In ECode (run_errs ref d e (probe_code e c)).
Proof.
  intros ref d e ee c He Hc Ho.
  apply (run_dev_code_proof ref d e (probe_code e c) ee (mkE c (e_msg ee) (e_details ee))); auto.
  rewrite (probe_code_with_error e ee c He). reflexivity.
Qed.
