(* C19_Model.v — executable model of
     internal/app/connectconformance/test_case_library.go (expandRequestData and the
     two receive limits), with the wire-size arithmetic of google.golang.org/protobuf
     (protowire.SizeVarint, size of a length-delimited field with a one-byte tag) and
     the specification the reference peers' receive limit is compared with.
   No proofs here: the model must keep running when a proof breaks.

   A request message is abstracted to (base, n): `base` = proto.Size of the message with
   request_data cleared, `n` = len(request_data).  Everything the padding loop does is a
   function of these two numbers, the limit and the directive. *)
From V Require Export Base.
From V Require Export C19_Consts.
Open Scope Z_scope.

(* protowire.SizeVarint(v) = int(9*uint32(bits.Len64(v))+64) / 64 *)
Definition bit_len (n : Z) : Z := if n <=? 0 then 0 else Z.log2 n + 1.
Definition varint_len (n : Z) : Z := (9 * bit_len n + 64) / 64.

(* wire size of `bytes request_data = k` (k < 16: one tag byte; proto3 implicit presence:
   an empty value is not emitted at all) holding n bytes *)
Definition field_size (n : Z) : Z := if n =? 0 then 0 else 1 + varint_len n + n.
Definition msg_size (base n : Z) : Z := base + field_size n.

(* Go slice expression b[:k] on a slice of length len: panics unless 0 <= k <= len
   (the capacity is not modelled: the loop never relies on spare capacity) *)
Definition slice_to (len k : Z) : option Z :=
  if (0 <=? k) && (k <=? len) then Some k else None.

Inductive pad_res := POk (n : Z) | PErr (closest : Z) | PCrash.

(* the `for { ... }` of expandRequestData.  `left` = adjustments still allowed
   (the code: `if adjustCount >= max`), `clamp` = whether the new length is clamped at 0
   before slicing.  The repaired code is (3, true); the pinned tree was (2, false). *)
Fixpoint pad_loop (left : nat) (clamp : bool) (base T n : Z) : pad_res :=
  let size := msg_size base n in
  let delta := T - size in
  if delta =? 0 then POk n
  else match left with
       | O => PErr size
       | S left' =>
         if 0 <? delta then pad_loop left' clamp base T (n + delta)   (* append(bytesVal, make([]byte, delta)...) *)
         else
           let k := n + delta in
           let k := if clamp then Z.max 0 k else k in
           match slice_to n k with
           | None => PCrash
           | Some k' => pad_loop left' clamp base T k'
           end
       end.

Definition max_adjust : nat := 3.
Definition expand (base n0 T : Z) : pad_res := pad_loop max_adjust true base T n0.
(* the loop as it was on the pinned tree (kept for the recorded refutations) *)
Definition expand_pinned (base n0 T : Z) : pad_res := pad_loop 2 false base T n0.

(* Where the padding bytes come from (fourth wave).  The code appends `make([]byte, delta)`: as many bytes
   as the step asks for (source None).  A source of bounded length `c` - a shared buffer sliced per step -
   yields min(delta, c) bytes per step (source Some c).  With an unbounded source this is the loop above
   (unbounded_source_is_expand); with ANY bounded one the three adjustments allowed cannot add more than
   3 c bytes and reachable sizes are rejected (bounded_source_rejects_reachable). *)
Fixpoint pad_loop_src (src : option Z) (left : nat) (base T n : Z) : pad_res :=
  let size := msg_size base n in
  let delta := T - size in
  if delta =? 0 then POk n
  else match left with
       | O => PErr size
       | S left' =>
         if 0 <? delta
         then pad_loop_src src left' base T (n + match src with None => delta | Some c => Z.min delta c end)
         else match slice_to n (Z.max 0 (n + delta)) with
              | None => PCrash
              | Some k' => pad_loop_src src left' base T k'
              end
       end.
Definition padding_source : option Z := None.

(* ---------- the whole function: directives x request messages ---------- *)
Inductive msg :=
| Padded (base n : Z)        (* one of the request types with a request_data field *)
| Opaque (size : Z).         (* anything else inside the Any: no such field, or not decodable *)

Definition size_of (m : msg) : Z :=
  match m with Padded b n => msg_size b n | Opaque s => s end.

Inductive err_tag := ETooMany | ERange | EUnpaddable | EUnreachable.
Inductive case_res := COk (ms : list msg) | CErr (e : err_tag) | CCrash.

Definition c_cons (m : msg) (r : case_res) : case_res :=
  match r with COk ms => COk (m :: ms) | other => other end.

Definition max_uint32 : Z := 4294967295.

Fixpoint expand_msgs (limit : Z) (dirs : list (option Z)) (ms : list msg) : case_res :=
  match dirs, ms with
  | [], _ => COk ms
  | _ :: _, [] => CErr ETooMany
  | None :: ds, m :: ms' => c_cons m (expand_msgs limit ds ms')
  | Some d :: ds, m :: ms' =>
    let T := limit + d in
    if (T <? 0) || (max_uint32 <? T) then CErr ERange
    else match m with
         | Opaque _ => CErr EUnpaddable
         | Padded base n0 =>
           match expand base n0 T with
           | POk n => c_cons (Padded base n) (expand_msgs limit ds ms')
           | PErr _ => CErr EUnreachable
           | PCrash => CCrash
           end
         end
  end.

Definition expand_case (limit : Z) (dirs : list (option Z)) (ms : list msg) : case_res :=
  if (length ms <? length dirs)%nat then CErr ETooMany else expand_msgs limit dirs ms.

(* ---------- the receive limit (specification side of the live runs) ---------- *)
(* connect.WithReadMaxBytes(limit): a message is accepted iff its uncompressed size does not
   exceed the limit; otherwise the RPC fails with resource_exhausted. *)
Definition accepts (limit size : Z) : bool := size <=? limit.

(* The limit is PER MESSAGE: a stream (client stream / bidi requests at the server, server stream /
   bidi responses at the client) is accepted iff every message in it is; it fails with
   resource_exhausted at the first message that is not.  Neither the number of messages nor the
   length of the body they travel in (declared up front or not) enters. *)
Definition stream_accepts (limit : Z) (sizes : list Z) : bool := forallb (accepts limit) sizes.

Fixpoint first_rejected (limit : Z) (sizes : list Z) : option nat :=
  match sizes with
  | [] => None
  | s :: rest => if accepts limit s then option_map S (first_rejected limit rest) else Some O
  end.

(* ---------- the readers the set-up code puts between the socket and the handler ---------- *)
(* createServer (reference server) and the client set-up (reference client) hand the receive limit
   to connect.WithReadMaxBytes: a bound on each MESSAGE.  Anything else the set-up code wraps round
   the request / response body (http.MaxBytesHandler, http.MaxBytesReader, io.LimitReader ...)
   bounds the BODY: the sum of the enveloped messages (5 bytes of prefix each).  The documented
   chain (docs/configuring_and_running_tests.md: "applied on a per message basis, so it does not
   limit the total amount of data transferred in a streaming operation") is the single per-message
   reader; the chain the code installs is regenerated into C19_Consts.v (kinds of the read-limiting
   call sites of the two packages: 0 = per message, anything else = per body). *)
Inductive reader := PerMessage (bound : Z) | PerBody (cap : Z).
Definition envelope_prefix : Z := 5.
Definition body_length (sizes : list Z) : Z := fold_right (fun s a => envelope_prefix + s + a) 0 sizes.
Definition reader_accepts (r : reader) (sizes : list Z) : bool :=
  match r with
  | PerMessage bound => stream_accepts bound sizes
  | PerBody cap => body_length sizes <=? cap
  end.
Definition chain_accepts (rs : list reader) (sizes : list Z) : bool :=
  forallb (fun r => reader_accepts r sizes) rs.
Definition documented_chain (limit : Z) : list reader := [PerMessage limit].
(* the chain described by a table of call-site kinds; `cap` = whatever bound a per-body reader got *)
Definition chain_of (kinds : list Z) (limit cap : Z) : list reader :=
  map (fun k => if k =? 0 then PerMessage limit else PerBody cap) kinds.

(* ---------- what the peers do with the limit and with a receive error (fourth wave) ---------- *)
(* referenceclient/client.go invoke: the request's message_receive_limit, when there is one, is handed
   to the RPC library as ONE per-message reader.  The codec of the RPC (1 = proto, 2 = JSON, ...) is an
   argument because the code could consult it; that it is irrelevant is client_limit_any_codec: the
   limit is on the message as the codec of the RPC encodes it, whatever that codec is. *)
Definition client_readers (codec limit : Z) : list reader :=
  if 0 <? limit then [PerMessage limit] else [].

(* referenceserver/impl.go ClientStream: the handler drains the request stream (Receive stops at the first
   message the library refuses), looks at stream.Err() FIRST and only then at what the response definition
   of the first request asks for: a normal response or an error of the test author's choosing. *)
Inductive cs_def := DefData | DefError.
Inductive cs_outcome := OResponse | ODefinedError | OExhausted.
Definition client_stream_handler (limit : Z) (def : cs_def) (sizes : list Z) : cs_outcome :=
  match first_rejected limit sizes with
  | Some _ => OExhausted
  | None => match def with DefData => OResponse | DefError => ODefinedError end
  end.
Definition outcome_code (o : cs_outcome) : Z :=
  match o with OResponse => 0 | ODefinedError => 1 | OExhausted => 2 end.

(* ---------- the loader: which test cases of a suite get expanded ---------- *)
(* parseTestSuites, per suite file: for every test case, in order: a case that carries expand
   directives in a suite whose relevant codecs are not exactly [CODEC_PROTO] is an error; then
   expandRequestData.  The first error rejects the whole load.  The suite's other directives
   (relies_on_message_receive_limit, mode, ...) and the case's stream type are carried along
   and NOT consulted: that they are irrelevant is the point of marked_is_expanded_or_rejected. *)
Record tcase := { t_stream : Z; t_dirs : list (option Z); t_msgs : list msg }.
Record suite := { s_flag : bool; s_mode : Z; s_codecs : list Z; s_cases : list tcase }.

Inductive load_err := LCodec | LExpand (e : err_tag).
Inductive load_res := LOk (out : list (list msg)) | LErr (i : nat) (e : load_err) | LCrash.

Definition codec_proto : Z := 1.
(* the code rejects on `len(codecs) > 1 || !hasCodec(codecs, CODEC_PROTO)` *)
Definition codecs_proto_only (cs : list Z) : bool :=
  negb (1 <? length cs)%nat && existsb (Z.eqb codec_proto) cs.

Definition l_cons (ms : list msg) (r : load_res) : load_res :=
  match r with LOk out => LOk (ms :: out) | other => other end.

Fixpoint load_cases (limit : Z) (codecs : list Z) (i : nat) (cs : list tcase) : load_res :=
  match cs with
  | [] => LOk []
  | tc :: rest =>
    if negb (length (t_dirs tc) =? 0)%nat && negb (codecs_proto_only codecs) then LErr i LCodec
    else match expand_case limit (t_dirs tc) (t_msgs tc) with
         | COk ms' => l_cons ms' (load_cases limit codecs (S i) rest)
         | CErr e => LErr i (LExpand e)
         | CCrash => LCrash
         end
  end.

Definition load_suite (limit : Z) (s : suite) : load_res :=
  load_cases limit (s_codecs s) 0 (s_cases s).

(* ---------- case decoding / result encoding (extracted glue) ---------- *)
Definition un_Z := un_I.

(* message: (type k fd n0 base); type < 0 or > 4 means "no request_data field / undecodable" *)
Definition un_msg (s : sx) : option msg :=
  match s with
  | L [I ty; I _; I _; I n0; I base] =>
    Some (if (0 <=? ty) && (ty <=? 4) then Padded base n0 else Opaque base)
  | _ => None
  end.

Definition un_dir (s : sx) : option (option Z) :=
  match s with
  | L [] => Some None
  | L [I d] => Some (Some d)
  | _ => None
  end.

Definition sx_msg (m : msg) : sx :=
  match m with
  | Padded b n => L [I b; I n; I (msg_size b n); I 1]
  | Opaque s => L [I s; I 0; I s; I 1]
  end.

Definition sx_case_res (r : case_res) : sx :=
  match r with
  | COk ms => L (map sx_msg ms)
  | CErr ETooMany => sx_err "too-many"
  | CErr ERange => sx_err "range"
  | CErr EUnpaddable => sx_err "unpaddable"
  | CErr EUnreachable => sx_err "unreachable"
  | CCrash => sx_crash
  end.

(* ("c19.expand" id (msgs) (dirs)) with the server receive limit of the compiled code *)
Definition run_c19_expand (args : list sx) : sx :=
  or_bad (match args with
  | [ms; ds] =>
    do ms <- un_listof un_msg ms; do ds <- un_listof un_dir ds;
    ret (sx_case_res (expand_case c19_server_receive_limit ds ms))
  | _ => None end).

(* ("c19.sharp" id side cfg... offset): side 0 = request against the server limit,
   side 1 = response against the client limit; only side and offset matter to the model.
   Result: (limit size accepted) *)
Definition run_c19_sharp (args : list sx) : sx :=
  or_bad (match args with
  | [I side; I off; I _; I _; I _; I _; I _; I codec] =>
    (* the codec of the RPC given: the verdict of the readers the client's set-up installs for it *)
    let limit := if side =? 0 then c19_server_receive_limit else c19_client_receive_limit in
    let size := limit + off in
    ret (L [I limit; I size;
            sx_bool (if side =? 0 then accepts limit size else chain_accepts (client_readers codec limit) [size])])
  | I side :: I off :: _ =>
    let limit := if side =? 0 then c19_server_receive_limit else c19_client_receive_limit in
    let size := limit + off in
    ret (L [I limit; I size; sx_bool (accepts limit size)])
  | _ => None end).

(* ("c19.wiring" id (offs) cfg...): a suite with one single-message size directive per offset run
   through the runner's own path (parseTestSuites -> library -> server_runner -> reference peers).
   Every such request is paddable (bases of the suite's messages are far from limit + off and the
   windows used avoid the unreachable sizes; an unreachable one shows as a rejected suite).
   Result per offset: (limit size accepted), size as produced by `expand` for a base-0 message
   = the target itself. *)
Definition wiring_one (limit off : Z) : option sx :=
  match expand 0 0 (limit + off) with
  | POk n => Some (L [I limit; I (msg_size 0 n); sx_bool (accepts limit (msg_size 0 n))])
  | _ => None
  end.

Fixpoint wiring_all (limit : Z) (offs : list Z) : option (list sx) :=
  match offs with
  | [] => Some []
  | o :: os => do r <- wiring_one limit o; do rs <- wiring_all limit os; ret (r :: rs)
  end.

Definition run_c19_wiring (args : list sx) : sx :=
  or_bad (match args with
  | offs :: _ =>
    do offs <- un_listof un_Z offs;
    ret (match wiring_all c19_server_receive_limit offs with
         | Some rs => L rs
         | None => sx_err "unreachable"       (* the suite as a whole is rejected *)
         end)
  | _ => None end).

(* ("c19.stream" id side (offs) sender httpVersion protocol compression streamType fill):
   a stream of length(offs) messages, message i of uncompressed size limit + offs[i]
   (side 0: requests of a client stream / bidi stream against the server limit; side 1: responses
   of a server stream / bidi stream against the client limit).  sender (side 0): 0 = the reference
   client, 1 = a plain HTTP client that does not declare the body length, 2 = one that declares it
   (Content-Length).  Only side and offs matter to the verdict.
   Result: (limit (sizes) accepted k); k = -1 if accepted, the index of the first rejected message
   where the receiver's progress is observable (the reference client's payload count: side 1, and
   full-duplex bidi streams, where the server answers each request before reading the next),
   -2 otherwise. *)
Definition run_c19_stream (args : list sx) : sx :=
  or_bad (match args with
  | [I side; offs; I _; I _; I _; I _; I st; I _] =>
    do offs <- un_listof un_Z offs;
    let limit := if side =? 0 then c19_server_receive_limit else c19_client_receive_limit in
    let sizes := map (fun o => limit + o) offs in
    let k := match first_rejected limit sizes with
             | None => -1
             | Some i => if (side =? 1) || (st =? 5) then Z.of_nat i else -2
             end in
    ret (L [I limit; L (map I sizes); sx_bool (chain_accepts (documented_chain limit) sizes); I k])
  | [I side; offs; I _; I _; I _; I _; I st; I _; I codec; I def] =>
    (* + the codec of the RPC (side 1: message i has limit + offs[i] bytes in THAT codec's encoding) and the kind
       of response definition the first request carries (side 0, client stream); a fifth result: the outcome *)
    do offs <- un_listof un_Z offs;
    let limit := if side =? 0 then c19_server_receive_limit else c19_client_receive_limit in
    let sizes := map (fun o => limit + o) offs in
    let k := match first_rejected limit sizes with
             | None => -1
             | Some i => if (side =? 1) || (st =? 5) then Z.of_nat i else -2
             end in
    let acc := if side =? 0 then chain_accepts (documented_chain limit) sizes
               else chain_accepts (client_readers codec limit) sizes in
    let out := if (side =? 0) && (st =? 2)
               then outcome_code (client_stream_handler limit (if def =? 1 then DefError else DefData) sizes)
               else if acc then 0 else 2 in
    ret (L [I limit; L (map I sizes); sx_bool acc; I k; I out])
  | _ => None end).

(* ("c19.load" id flag mode (codecs) ((streamType (msgs) (dirs))...)): one suite file through
   parseTestSuites.  Result: per test case the messages as in c19.expand, or (err tag i) with the
   index of the test case the load failed on. *)
Definition un_tcase (s : sx) : option tcase :=
  match s with
  | L [I st; ms; ds] =>
    do ms <- un_listof un_msg ms; do ds <- un_listof un_dir ds;
    ret {| t_stream := st; t_dirs := ds; t_msgs := ms |}
  | _ => None
  end.

Definition sx_load_res (r : load_res) : sx :=
  match r with
  | LOk out => L (map (fun ms => L (map sx_msg ms)) out)
  | LErr i LCodec => L [B (bs "err"); B (bs "codec"); I (Z.of_nat i)]
  | LErr i (LExpand ETooMany) => L [B (bs "err"); B (bs "too-many"); I (Z.of_nat i)]
  | LErr i (LExpand ERange) => L [B (bs "err"); B (bs "range"); I (Z.of_nat i)]
  | LErr i (LExpand EUnpaddable) => L [B (bs "err"); B (bs "unpaddable"); I (Z.of_nat i)]
  | LErr i (LExpand EUnreachable) => L [B (bs "err"); B (bs "unreachable"); I (Z.of_nat i)]
  | LCrash => sx_crash
  end.

Definition run_c19_load (args : list sx) : sx :=
  or_bad (match args with
  | [I flag; I mode; codecs; cases] =>
    do codecs <- un_listof un_Z codecs; do cases <- un_listof un_tcase cases;
    ret (sx_load_res (load_suite c19_server_receive_limit
           {| s_flag := negb (flag =? 0); s_mode := mode; s_codecs := codecs; s_cases := cases |}))
  | _ => None end).

(* ---------- fifth wave: a HISTORY of requests through one reference client process ---------- *)
(* referenceclient/client.go run -> invoke: the process reads ClientCompatRequests one after the other and builds
   the options of each RPC from THAT request (`if req.MessageReceiveLimit > 0 { WithReadMaxBytes(limit) }`); nothing
   of an earlier request is kept.  A request here = (limit, size of the response message in the codec's encoding);
   limit 0 = none asked for.  `client_process` is the loop with the history explicit (`seen` = the requests served
   so far, most recent first): handed on, never consulted - which is what client_limit_is_per_request states. *)
Definition client_request_accepts (codec : Z) (r : Z * Z) : bool :=
  chain_accepts (client_readers codec (fst r)) [snd r].
Fixpoint client_process (codec : Z) (seen reqs : list (Z * Z)) : list bool :=
  match reqs with
  | [] => []
  | r :: rest => client_request_accepts codec r :: client_process codec (r :: seen) rest
  end.
Definition client_seq_outcomes (codec : Z) (reqs : list (Z * Z)) : list bool := client_process codec [] reqs.

(* ("c19.client_seq" id ((limit off streamType)...) httpVersion protocol compression codec): the requests in order
   through one client process, request i answered with a message of limit_i + off_i bytes.
   Result: ((limit size accepted)...) *)
Definition un_creq (s : sx) : option (Z * Z) :=
  match s with L [I limit; I off; I _] => Some (limit, limit + off) | _ => None end.
Definition run_c19_client_seq (args : list sx) : sx :=
  or_bad (match args with
  | [reqs; I _; I _; I _; I codec] =>
    do reqs <- un_listof un_creq reqs;
    ret (L (map (fun rb : (Z * Z) * bool => L [I (fst (fst rb)); I (snd (fst rb)); sx_bool (snd rb)])
               (combine reqs (client_seq_outcomes codec reqs))))
  | _ => None end).

Definition c19_table : list (bytes * (list sx -> sx)) :=
  [ (bs "c19.expand", run_c19_expand);
    (bs "c19.sharp", run_c19_sharp);
    (bs "c19.wiring", run_c19_wiring);
    (bs "c19.stream", run_c19_stream);
    (bs "c19.load", run_c19_load);
    (bs "c19.client_seq", run_c19_client_seq) ].
