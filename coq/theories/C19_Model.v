(* C19_Model.v — executable model of
     internal/app/connectconformance/test_case_library.go (expandRequestData and the
     two receive limits), with the wire-size arithmetic of google.golang.org/protobuf
     (protowire.SizeVarint, size of a length-delimited field with a one-byte tag) and
     the specification the reference peers' receive limit is compared with.
   No proofs here: the model must keep running when a proof breaks.

   A request message is abstracted to (base, n): `base` = proto.Size of the message with
   request_data cleared, `n` = len(request_data).  Everything the padding loop does is a
   function of these two numbers, the limit and the directive. *)
From V Require Export Base.
From V Require Export C19_Consts.
Open Scope Z_scope.

(* protowire.SizeVarint(v) = int(9*uint32(bits.Len64(v))+64) / 64 *)
Definition bit_len (n : Z) : Z := if n <=? 0 then 0 else Z.log2 n + 1.
Definition varint_len (n : Z) : Z := (9 * bit_len n + 64) / 64.

(* wire size of `bytes request_data = k` (k < 16: one tag byte; proto3 implicit presence:
   an empty value is not emitted at all) holding n bytes *)
Definition field_size (n : Z) : Z := if n =? 0 then 0 else 1 + varint_len n + n.
Definition msg_size (base n : Z) : Z := base + field_size n.

(* Go slice expression b[:k] on a slice of length len: panics unless 0 <= k <= len
   (the capacity is not modelled: the loop never relies on spare capacity) *)
Definition slice_to (len k : Z) : option Z :=
  if (0 <=? k) && (k <=? len) then Some k else None.

Inductive pad_res := POk (n : Z) | PErr (closest : Z) | PCrash.

(* the `for { ... }` of expandRequestData.  `left` = adjustments still allowed
   (the code: `if adjustCount >= max`), `clamp` = whether the new length is clamped at 0
   before slicing.  The repaired code is (3, true); the pinned tree was (2, false). *)
Fixpoint pad_loop (left : nat) (clamp : bool) (base T n : Z) : pad_res :=
  let size := msg_size base n in
  let delta := T - size in
  if delta =? 0 then POk n
  else match left with
       | O => PErr size
       | S left' =>
         if 0 <? delta then pad_loop left' clamp base T (n + delta)   (* append(bytesVal, make([]byte, delta)...) *)
         else
           let k := n + delta in
           let k := if clamp then Z.max 0 k else k in
           match slice_to n k with
           | None => PCrash
           | Some k' => pad_loop left' clamp base T k'
           end
       end.

Definition max_adjust : nat := 3.
Definition expand (base n0 T : Z) : pad_res := pad_loop max_adjust true base T n0.
(* the loop as it was on the pinned tree (kept for the recorded refutations) *)
Definition expand_pinned (base n0 T : Z) : pad_res := pad_loop 2 false base T n0.

(* ---------- the whole function: directives x request messages ---------- *)
Inductive msg :=
| Padded (base n : Z)        (* one of the request types with a request_data field *)
| Opaque (size : Z).         (* anything else inside the Any: no such field, or not decodable *)

Definition size_of (m : msg) : Z :=
  match m with Padded b n => msg_size b n | Opaque s => s end.

Inductive err_tag := ETooMany | ERange | EUnpaddable | EUnreachable.
Inductive case_res := COk (ms : list msg) | CErr (e : err_tag) | CCrash.

Definition c_cons (m : msg) (r : case_res) : case_res :=
  match r with COk ms => COk (m :: ms) | other => other end.

Definition max_uint32 : Z := 4294967295.

Fixpoint expand_msgs (limit : Z) (dirs : list (option Z)) (ms : list msg) : case_res :=
  match dirs, ms with
  | [], _ => COk ms
  | _ :: _, [] => CErr ETooMany
  | None :: ds, m :: ms' => c_cons m (expand_msgs limit ds ms')
  | Some d :: ds, m :: ms' =>
    let T := limit + d in
    if (T <? 0) || (max_uint32 <? T) then CErr ERange
    else match m with
         | Opaque _ => CErr EUnpaddable
         | Padded base n0 =>
           match expand base n0 T with
           | POk n => c_cons (Padded base n) (expand_msgs limit ds ms')
           | PErr _ => CErr EUnreachable
           | PCrash => CCrash
           end
         end
  end.

Definition expand_case (limit : Z) (dirs : list (option Z)) (ms : list msg) : case_res :=
  if (length ms <? length dirs)%nat then CErr ETooMany else expand_msgs limit dirs ms.

(* ---------- the receive limit (specification side of the live runs) ---------- *)
(* connect.WithReadMaxBytes(limit): a message is accepted iff its uncompressed size does not
   exceed the limit; otherwise the RPC fails with resource_exhausted. *)
Definition accepts (limit size : Z) : bool := size <=? limit.

(* ---------- case decoding / result encoding (extracted glue) ---------- *)
Definition un_Z := un_I.

(* message: (type k fd n0 base); type < 0 or > 4 means "no request_data field / undecodable" *)
Definition un_msg (s : sx) : option msg :=
  match s with
  | L [I ty; I _; I _; I n0; I base] =>
    Some (if (0 <=? ty) && (ty <=? 4) then Padded base n0 else Opaque base)
  | _ => None
  end.

Definition un_dir (s : sx) : option (option Z) :=
  match s with
  | L [] => Some None
  | L [I d] => Some (Some d)
  | _ => None
  end.

Definition sx_msg (m : msg) : sx :=
  match m with
  | Padded b n => L [I b; I n; I (msg_size b n); I 1]
  | Opaque s => L [I s; I 0; I s; I 1]
  end.

Definition sx_case_res (r : case_res) : sx :=
  match r with
  | COk ms => L (map sx_msg ms)
  | CErr ETooMany => sx_err "too-many"
  | CErr ERange => sx_err "range"
  | CErr EUnpaddable => sx_err "unpaddable"
  | CErr EUnreachable => sx_err "unreachable"
  | CCrash => sx_crash
  end.

(* ("c19.expand" id (msgs) (dirs)) with the server receive limit of the compiled code *)
Definition run_c19_expand (args : list sx) : sx :=
  or_bad (match args with
  | [ms; ds] =>
    do ms <- un_listof un_msg ms; do ds <- un_listof un_dir ds;
    ret (sx_case_res (expand_case c19_server_receive_limit ds ms))
  | _ => None end).

(* ("c19.sharp" id side cfg... offset): side 0 = request against the server limit,
   side 1 = response against the client limit; only side and offset matter to the model.
   Result: (limit size accepted) *)
Definition run_c19_sharp (args : list sx) : sx :=
  or_bad (match args with
  | I side :: I off :: _ =>
    let limit := if side =? 0 then c19_server_receive_limit else c19_client_receive_limit in
    let size := limit + off in
    ret (L [I limit; I size; sx_bool (accepts limit size)])
  | _ => None end).

(* ("c19.wiring" id (offs) cfg...): a suite with one single-message size directive per offset run
   through the runner's own path (parseTestSuites -> library -> server_runner -> reference peers).
   Every such request is paddable (bases of the suite's messages are far from limit + off and the
   windows used avoid the unreachable sizes; an unreachable one shows as a rejected suite).
   Result per offset: (limit size accepted), size as produced by `expand` for a base-0 message
   = the target itself. *)
Definition wiring_one (limit off : Z) : option sx :=
  match expand 0 0 (limit + off) with
  | POk n => Some (L [I limit; I (msg_size 0 n); sx_bool (accepts limit (msg_size 0 n))])
  | _ => None
  end.

Fixpoint wiring_all (limit : Z) (offs : list Z) : option (list sx) :=
  match offs with
  | [] => Some []
  | o :: os => do r <- wiring_one limit o; do rs <- wiring_all limit os; ret (r :: rs)
  end.

Definition run_c19_wiring (args : list sx) : sx :=
  or_bad (match args with
  | offs :: _ =>
    do offs <- un_listof un_Z offs;
    ret (match wiring_all c19_server_receive_limit offs with
         | Some rs => L rs
         | None => sx_err "unreachable"       (* the suite as a whole is rejected *)
         end)
  | _ => None end).

Definition c19_table : list (bytes * (list sx -> sx)) :=
  [ (bs "c19.expand", run_c19_expand);
    (bs "c19.sharp", run_c19_sharp);
    (bs "c19.wiring", run_c19_wiring) ].
