(* C20_Proofs2.v — reading in pieces, Close after a session, independence of the library. *)
From Coq Require Import Lia.
From V Require Import C20_Spec C20_Proofs.
Open Scope N_scope.

Lemma has_prefix_app z y : has_prefix z (z ++ y) = true.
Proof. induction z as [|a z IH]; simpl; [reflexivity|]. rewrite N.eqb_refl. exact IH. Qed.

Lemma skipn_len_app {A} (z y : list A) : skipn (length z) (z ++ y) = y.
Proof. induction z; simpl; auto. Qed.

Lemma skipn_firstn_len {A} k (l : list A) : skipn (length (firstn k l)) l = skipn k l.
Proof. revert l. induction k as [|k IH]; intros [|a l]; simpl; auto. Qed.

Lemma skipn_take_drop n y : skipn (length (take n y)) y = drop n y.
Proof.
  destruct n as [k|]; simpl; [apply skipn_firstn_len|].
  rewrite skipn_all. reflexivity.
Qed.

(* the reference projection: what obs_step yields for ANY library satisfying the contract, once a
   Reset has been called (and for a Reset in any state) *)
Definition ref_step (k : wkind) (dec : bytes -> dres) (pos : dpos) (op : dop) : dpos * pobs :=
  match op with
  | DReset s =>
    let d := dec_of k dec s in
    let u := reset_result k d in
    (match u, d with UOk, Body _ false => DP1 | UOk, Body _ true => DP2 | _, _ => DU end, PFullU u)
  | DRead n => match pos, n with DP1, _ => (DP1, PFlag true) | DP2, None => (DU, PErrR) | _, _ => (DU, PAny) end
  | DReadN _ => match pos with DP1 => (DP1, PFlag true) | _ => (DU, PAny) end
  | DClose => match pos with DP1 => (DU, PFullU UOk) | _ => (DU, PAny) end
  end.

Lemma run_cons inst l_new l_reset l_read l_readn l_close st op h :
  d_run inst l_new l_reset l_read l_readn l_close st (op :: h)
  = snd (d_step inst l_new l_reset l_read l_readn l_close st op)
    :: (if is_crash (snd (d_step inst l_new l_reset l_read l_readn l_close st op)) then []
        else d_run inst l_new l_reset l_read l_readn l_close (fst (d_step inst l_new l_reset l_read l_readn l_close st op)) h).
Proof. simpl. destruct (d_step inst l_new l_reset l_read l_readn l_close st op). reflexivity. Qed.

Section One.
  Variable inst : Type.
  Variable dec : bytes -> dres.
  Variable view : inst -> lview.
  Variable l_zero : inst.
  Variable l_new : bytes -> option inst * ures.
  Variable l_reset : inst -> bytes -> inst * ures.
  Variable l_read : inst -> option N -> inst * rres.
  Variable l_readn : inst -> N -> inst * pres.
  Variable l_close : inst -> inst * ures.
  Hypothesis C : lib_contract inst dec view l_zero l_new l_reset l_read l_readn l_close.

  Notation step := (d_step inst l_new l_reset l_read l_readn l_close).
  Notation init := (d_init inst l_zero).
  Notation run := (d_run inst l_new l_reset l_read l_readn l_close).
  Notation after := (d_after inst l_new l_reset l_read l_readn l_close).
  Notation inv := (C20_Proofs.inv inst view).
  Notation reads_at := (C20_Proofs.reads_at inst view).
  Notation positioned := (C20_Proofs.positioned inst view).
  Notation needs k := (kind_needs k dec view l_new l_reset).

  (* every step answers with an outcome of its own sort *)
  Lemma close_is_OU st : exists u, snd (step st DClose) = OU u.
  Proof.
    destruct st as [a|a|a|a|a|a|]; cbn [d_step]; try destruct a;
      try (destruct (l_close _)); simpl; eexists; reflexivity.
  Qed.
  Lemma readn_is_OP st n : exists p, snd (step st (DReadN n)) = OP p.
  Proof.
    destruct st as [a|a|a|a|a|a|]; cbn [d_step]; try destruct a;
      try (destruct (l_readn _ _)); simpl; eexists; reflexivity.
  Qed.

  (* ---------- one step of a wrapper positioned on y, to be followed by EOF ---------- *)
  Lemma step_read_at k st y n :
    inv k true st -> reads_at st y false ->
    snd (step st (DRead n)) = OR (ROk (take n y)) /\ reads_at (fst (step st (DRead n))) (drop n y) false.
  Proof.
    unfold C20_Proofs.inv, C20_Proofs.reads_at. intros I P.
    assert (L : forall i, view i = At y false ->
                snd (l_read i n) = ROk (take n y) /\ view (fst (l_read i n)) = At (drop n y) false)
      by (intros i V; apply (lc_read _ _ _ _ _ _ _ _ _ C i y n V)).
    destruct k, st as [r|r|r|dd|r|i|]; try contradiction; cbn [d_step].
    - destruct r as [r|]; [|contradiction]. destruct P as (-> & _). simpl. auto.
    - destruct r as [i|]; [|contradiction]. destruct (L i P) as (L1 & L2).
      destruct (l_read i n) as [i' r]. simpl in *. subst r. auto.
    - destruct r as [i|]; [|contradiction]. destruct (L i P) as (L1 & L2).
      destruct (l_read i n) as [i' r]. simpl in *. subst r. auto.
    - destruct dd as [i|]; [|contradiction]. destruct (L i P) as (L1 & L2).
      destruct (l_read i n) as [i' r]. simpl in *. subst r. auto.
    - destruct r as [|i|]; try contradiction. destruct (L i P) as (L1 & L2).
      destruct (l_read i n) as [i' r]. simpl in *. subst r. auto.
    - destruct (L i P) as (L1 & L2). destruct (l_read i n) as [i' r]. simpl in *. subst r. auto.
  Qed.

  Definition chunk_of (y : bytes) (n : N) (z y' : bytes) (st : pstat) : Prop :=
    y = z ++ y' /\ N.of_nat (length z) <= n /\ st <> SErr /\ (st = SEof -> y' = []).

  Lemma step_readn_at k st y n :
    inv k true st -> reads_at st y false ->
    exists z y' stt,
      snd (step st (DReadN n)) = OP (PRes z stt) /\ chunk_of y n z y' stt /\
      reads_at (fst (step st (DReadN n))) y' false.
  Proof.
    unfold C20_Proofs.inv, C20_Proofs.reads_at, chunk_of. intros I P.
    assert (L : forall i, view i = At y false ->
                exists z y' stt, snd (l_readn i n) = PRes z stt /\
                  (y = z ++ y' /\ N.of_nat (length z) <= n /\ stt <> SErr /\ (stt = SEof -> y' = [])) /\
                  view (fst (l_readn i n)) = At y' false).
    { intros i V. destruct (lc_readn _ _ _ _ _ _ _ _ _ C i y n V) as (z & y' & stt & H1 & H2 & H3 & H4 & H5 & H6).
      exists z, y', stt. tauto. }
    destruct k, st as [r|r|r|dd|r|i|]; try contradiction; cbn [d_step].
    - destruct r as [r|]; [|contradiction]. destruct P as (-> & _). simpl.
      exists (firstn (N.to_nat n) y), (skipn (N.to_nat n) y).
      exists (match y with [] => if 0 <? n then SEof else SNil | _ => SNil end).
      split; [reflexivity|]. split; [|split; reflexivity].
      split; [symmetry; apply firstn_skipn|]. split; [pose proof (firstn_le_length (N.to_nat n) y); lia|].
      destruct y as [|a y]; [|split; [discriminate|discriminate]].
      rewrite skipn_nil. split; [destruct (0 <? n); discriminate|reflexivity].
    - destruct r as [i|]; [|contradiction]. destruct (L i P) as (z & y' & stt & L1 & L2 & L3).
      destruct (l_readn i n) as [i' r]. simpl in *. subst r. exists z, y', stt. auto.
    - destruct r as [i|]; [|contradiction]. destruct (L i P) as (z & y' & stt & L1 & L2 & L3).
      destruct (l_readn i n) as [i' r]. simpl in *. subst r. exists z, y', stt. auto.
    - destruct dd as [i|]; [|contradiction]. destruct (L i P) as (z & y' & stt & L1 & L2 & L3).
      destruct (l_readn i n) as [i' r]. simpl in *. subst r. exists z, y', stt. auto.
    - destruct r as [|i|]; try contradiction. destruct (L i P) as (z & y' & stt & L1 & L2 & L3).
      destruct (l_readn i n) as [i' r]. simpl in *. subst r. exists z, y', stt. auto.
    - destruct (L i P) as (z & y' & stt & L1 & L2 & L3).
      destruct (l_readn i n) as [i' r]. simpl in *. subst r. exists z, y', stt. auto.
  Qed.

  Lemma step_close_at k st y :
    inv k true st -> reads_at st y false -> snd (step st DClose) = OU UOk.
  Proof.
    unfold C20_Proofs.inv, C20_Proofs.reads_at. intros I P.
    assert (L : forall i, view i = At y false -> snd (l_close i) = UOk)
      by (intros i V; destruct (lc_close _ _ _ _ _ _ _ _ _ C i y false V) as (_ & H & _); auto).
    destruct k, st as [r|r|r|dd|r|i|]; try contradiction; cbn [d_step].
    - destruct r; [reflexivity|contradiction].
    - destruct r as [i|]; [|contradiction]. specialize (L i P). destruct (l_close i). simpl in *. subst. reflexivity.
    - destruct r; reflexivity.
    - destruct dd as [i|]; [|contradiction]. specialize (L i P). destruct (l_close i). simpl in *. subst. reflexivity.
    - destruct r as [|i|]; try contradiction. specialize (L i P). destruct (l_close i). simpl in *. subst. reflexivity.
    - reflexivity.
  Qed.

  (* ---------- any number of reads, of any kind and size, from a positioned wrapper ---------- *)
  Lemma reads_from k rs :
    needs k -> Forall is_read rs -> forall st y,
    inv k true st -> reads_at st y false ->
    exists outs st' rest,
      run st rs = outs /\ after st rs = Some st' /\ length outs = length rs /\
      Forall read_fine outs /\ y = delivered outs ++ rest /\
      inv k true st' /\ reads_at st' rest false /\
      (eof_seen outs -> rest = []) /\ (In (DRead None) rs -> rest = []).
  Proof.
    intros Hk. induction 1 as [|op rs Hop _ IH]; intros st y I P.
    - exists [], st, y. simpl. repeat split; auto.
      + intros (z & []).
      + intros [].
    - pose proof (step_inv _ _ _ _ _ _ _ _ _ C k true st op Hk I) as SI.
      pose proof (step_no_crash _ _ _ _ _ _ _ _ _ C k st op Hk I) as NC.
      specialize (SI NC).
      destruct Hop as [(n & ->)|(n & ->)].
      + destruct (step_read_at k st y n I P) as (E & P').
        simpl. destruct (step st (DRead n)) as [st1 o]. simpl in *. subst o. simpl.
        destruct (IH st1 (drop n y) SI P') as (outs & st' & rest & R1 & R2 & R3 & R4 & R5 & R6 & R7 & R8 & R9).
        exists (OR (ROk (take n y)) :: outs), st', rest. rewrite R1, R2. simpl.
        repeat split; auto.
        * constructor; [exact Logic.I|exact R4].
        * rewrite <- app_assoc, <- R5. destruct n as [m|]; simpl; [symmetry; apply firstn_skipn|rewrite app_nil_r; reflexivity].
        * intros (z & [X|X]); [discriminate|]. apply R8. exists z. exact X.
        * intros [X|X]; [|apply R9; exact X]. inversion X; subst. simpl in R5.
          symmetry in R5. apply app_eq_nil in R5. tauto.
      + destruct (step_readn_at k st y n I P) as (z & y' & stt & E & (Y1 & Y2 & Y3 & Y4) & P').
        simpl. destruct (step st (DReadN n)) as [st1 o]. simpl in *. subst o. simpl.
        destruct (IH st1 y' SI P') as (outs & st' & rest & R1 & R2 & R3 & R4 & R5 & R6 & R7 & R8 & R9).
        exists (OP (PRes z stt) :: outs), st', rest. rewrite R1, R2. simpl.
        repeat split; auto.
        * constructor; [destruct stt; simpl; auto|exact R4].
        * rewrite <- app_assoc, <- R5. exact Y1.
        * intros (z0 & [X|X]); [|apply R8; exists z0; exact X].
          assert (Es : stt = SEof) by (inversion X; reflexivity).
          rewrite (Y4 Es) in R5. symmetry in R5. apply app_eq_nil in R5. tauto.
        * intros [X|X]; [discriminate|apply R9; exact X].
  Qed.

  (* the run of a history that continues after a prefix that did not panic *)
  Lemma run_after_prefix k h :
    needs k -> no_crash (run (init k) h) ->
    exists st, after (init k) h = Some st /\ inv k false st /\
               forall h2, run (init k) (h ++ h2) = run (init k) h ++ run st h2.
  Proof.
    intros Hk NC. destruct (no_crash_after _ _ _ _ _ _ _ _ NC) as (st & A).
    exists st. split; [exact A|]. split.
    - apply (after_inv _ _ _ _ _ _ _ _ _ C k false _ _ _ Hk (inv_init _ _ _ _ _ _ _ _ _ C k) A).
    - intros h2. rewrite run_app, A. reflexivity.
  Qed.

  Lemma reset_ok_from k b st s y :
    needs k -> inv k b st -> dec_of k dec s = Body y false ->
    snd (step st (DReset s)) = OU UOk /\ inv k true (fst (step st (DReset s))) /\
    reads_at (fst (step st (DReset s))) y false.
  Proof.
    intros Hk I D. destruct (step_reset _ _ _ _ _ _ _ _ _ C k b st s Hk I) as (E & I' & P).
    rewrite D in *. simpl in P. split; [|auto]. rewrite E. destruct k; reflexivity.
  Qed.

  (* === (b) reads in pieces concatenate to what a fresh reader decodes, and
         (a) Close after them returns ok === *)
  Lemma session_in_pieces_proof k :
    needs k -> forall h s rs y,
    no_crash (run (init k) h) -> dec_of k dec s = Body y false -> Forall is_read rs ->
    exists outs rest,
      run (init k) (h ++ DReset s :: rs ++ [DClose]) = run (init k) h ++ OU UOk :: outs ++ [OU UOk] /\
      run (init k) (h ++ DReset s :: rs) = run (init k) h ++ OU UOk :: outs /\
      length outs = length rs /\ Forall read_fine outs /\
      y = delivered outs ++ rest /\
      (eof_seen outs -> rest = []) /\ (In (DRead None) rs -> rest = []).
  Proof.
    intros Hk h s rs y NC D F.
    destruct (run_after_prefix k h Hk NC) as (st & A & I & RA).
    destruct (reset_ok_from k false st s y Hk I D) as (E & I1 & P1).
    destruct (reads_from k rs Hk F _ y I1 P1) as (outs & st' & rest & R1 & R2 & R3 & R4 & R5 & R6 & R7 & R8 & R9).
    pose proof (step_close_at k st' rest R6 R7) as EC.
    exists outs, rest. rewrite !RA. simpl.
    destruct (step st (DReset s)) as [st1 o1]. simpl in *. subst o1. simpl.
    rewrite run_app, R1, R2. simpl.
    destruct (step st' DClose) as [st2 o2]. simpl in *. subst o2. simpl.
    repeat split; auto.
  Qed.

  (* ---------- the projection of one step, for any library ---------- *)
  Definition J (k : wkind) (pos : dpos) (rem : bytes) (st : dstate inst) : Prop :=
    match pos with
    | DFresh => inv k false st
    | DP1 => inv k true st /\ reads_at st rem false
    | DP2 => inv k true st /\ exists y, reads_at st y true
    | DU => inv k true st
    end.

  Lemma J_inv k pos rem st : J k pos rem st -> inv k (match pos with DFresh => false | _ => true end) st.
  Proof. destruct pos; simpl; tauto. Qed.

  Lemma chunk_ok_true y n z y' stt : chunk_of y n z y' stt -> chunk_ok n y z stt = true.
  Proof.
    intros (-> & H2 & H3 & H4). unfold chunk_ok. rewrite has_prefix_app. simpl.
    apply N.leb_le in H2. rewrite H2. simpl. destruct stt; [reflexivity| |congruence].
    rewrite (H4 eq_refl), app_nil_r. apply Nat.leb_refl.
  Qed.

  Lemma obs_known k pos rem st op :
    needs k -> J k pos rem st -> (pos <> DFresh \/ exists s, op = DReset s) ->
    is_crash (snd (step st op)) = false /\
    exists rem',
      obs_step (dec_of k dec) (pos, rem) op (snd (step st op))
      = ((fst (ref_step k dec pos op), rem'), snd (ref_step k dec pos op)) /\
      J k (fst (ref_step k dec pos op)) rem' (fst (step st op)).
  Proof.
    intros Hk HJ Hop.
    destruct op as [s|n| |n].
    - (* Reset: from any state *)
      pose proof (J_inv k pos rem st HJ) as I.
      destruct (step_reset _ _ _ _ _ _ _ _ _ C k _ st s Hk I) as (E & I' & P').
      destruct (step st (DReset s)) as [st1 o]. simpl in *. subst o.
      unfold obs_step, ref_step. cbv zeta.
      destruct (dec_of k dec s) as [|y e] eqn:D.
      + split; [destruct k; reflexivity|]. exists [].
        destruct k; simpl; (split; [reflexivity|exact I']).
      + split; [destruct k; reflexivity|]. exists y.
        destruct e, k; simpl; (split; [reflexivity|]); simpl in P'; try (split; [exact I'|]); eauto.
    - (* a read loop *)
      assert (Hp : pos <> DFresh) by (destruct Hop as [H|(s & H)]; [exact H|discriminate]).
      assert (I : inv k true st) by (destruct pos; simpl in HJ; tauto).
      pose proof (step_inv _ _ _ _ _ _ _ _ _ C k true st (DRead n) Hk I) as SI.
      pose proof (step_no_crash _ _ _ _ _ _ _ _ _ C k st (DRead n) Hk I) as NC.
      specialize (SI NC). split; [exact NC|].
      destruct pos; [congruence| | |].
      + destruct HJ as (_ & P). destruct (step_read_at k st rem n I P) as (E & P').
        destruct (step st (DRead n)) as [st1 o]. simpl in *. subst o.
        exists (drop n rem). unfold obs_step. simpl. rewrite bytes_eqb_refl, skipn_take_drop.
        split; [reflexivity|]. split; assumption.
      + destruct HJ as (_ & y & P).
        destruct (read_is_OR inst l_new l_reset l_read l_readn l_close st n) as (r & E).
        destruct n as [m|].
        * destruct (step st (DRead (Some m))) as [st1 o]. simpl in *. subst o.
          unfold obs_step. rewrite NC. simpl.
          exists (match r with ROk y0 => skipn (length y0) rem | _ => rem end).
          split; [destruct r; reflexivity|exact SI].
        * destruct (step_read_positioned _ _ _ _ _ _ _ _ _ C k st (Body y true) Hk I P) as (r' & E' & F).
          simpl in F. subst r'.
          destruct (step st (DRead None)) as [st1 o]. simpl in *. subst o. injection E' as ->.
          unfold obs_step. simpl. exists rem. split; [reflexivity|exact SI].
      + destruct (read_is_OR inst l_new l_reset l_read l_readn l_close st n) as (r & E).
        destruct (step st (DRead n)) as [st1 o]. simpl in *. subst o.
        unfold obs_step. rewrite NC. simpl.
        exists (match r with ROk y0 => skipn (length y0) rem | _ => rem end).
        split; [destruct r, n; reflexivity|exact SI].
    - (* Close *)
      assert (Hp : pos <> DFresh) by (destruct Hop as [H|(s & H)]; [exact H|discriminate]).
      assert (I : inv k true st) by (destruct pos; simpl in HJ; tauto).
      pose proof (step_inv _ _ _ _ _ _ _ _ _ C k true st DClose Hk I) as SI.
      pose proof (step_no_crash _ _ _ _ _ _ _ _ _ C k st DClose Hk I) as NC.
      specialize (SI NC). split; [exact NC|].
      destruct pos; [congruence| | |].
      + destruct HJ as (_ & P). pose proof (step_close_at k st rem I P) as E.
        destruct (step st DClose) as [st1 o]. simpl in *. subst o.
        unfold obs_step. simpl. eexists. split; [reflexivity|exact SI].
      + destruct (close_is_OU st) as (u & E).
        destruct (step st DClose) as [st1 o]. simpl in *. subst o.
        unfold obs_step. rewrite NC. simpl. eexists. split; [reflexivity|exact SI].
      + destruct (close_is_OU st) as (u & E).
        destruct (step st DClose) as [st1 o]. simpl in *. subst o.
        unfold obs_step. rewrite NC. simpl. eexists. split; [reflexivity|exact SI].
    - (* ONE Read *)
      assert (Hp : pos <> DFresh) by (destruct Hop as [H|(s & H)]; [exact H|discriminate]).
      assert (I : inv k true st) by (destruct pos; simpl in HJ; tauto).
      pose proof (step_inv _ _ _ _ _ _ _ _ _ C k true st (DReadN n) Hk I) as SI.
      pose proof (step_no_crash _ _ _ _ _ _ _ _ _ C k st (DReadN n) Hk I) as NC.
      specialize (SI NC). split; [exact NC|].
      destruct pos; [congruence| | |].
      + destruct HJ as (_ & P).
        destruct (step_readn_at k st rem n I P) as (z & y' & stt & E & CH & P').
        destruct (step st (DReadN n)) as [st1 o]. simpl in *. subst o.
        exists y'. unfold obs_step. simpl. rewrite (chunk_ok_true _ _ _ _ _ CH).
        destruct CH as (-> & _ & H3 & _). rewrite skipn_len_app.
        split; [destruct stt; [reflexivity|reflexivity|congruence]|]. split; assumption.
      + destruct (readn_is_OP st n) as (p & E).
        destruct (step st (DReadN n)) as [st1 o]. simpl in *. subst o.
        destruct p as [z stt|]; [|discriminate].
        unfold obs_step. simpl. eexists. split; [reflexivity|exact SI].
      + destruct (readn_is_OP st n) as (p & E).
        destruct (step st (DReadN n)) as [st1 o]. simpl in *. subst o.
        destruct p as [z stt|]; [|discriminate].
        unfold obs_step. simpl. eexists. split; [reflexivity|exact SI].
  Qed.

  (* === termination of a read loop, for a library that makes progress === *)
  Hypothesis PR : lib_progress inst view l_readn.

  Lemma read_loop_from k ns :
    needs k -> forall st y,
    inv k true st -> reads_at st y false ->
    Forall (fun n => 0 < n) ns -> (length y < length ns)%nat ->
    eof_seen (run st (map DReadN ns)).
  Proof.
    intros Hk. induction ns as [|n ns IH]; intros st y I P Fp Len; [simpl in Len; lia|].
    inversion Fp as [|? ? Hn Fp']; subst.
    pose proof (step_inv _ _ _ _ _ _ _ _ _ C k true st (DReadN n) Hk I) as SI.
    pose proof (step_no_crash _ _ _ _ _ _ _ _ _ C k st (DReadN n) Hk I) as NC.
    specialize (SI NC).
    destruct (step_readn_at k st y n I P) as (z & y' & stt & E & (Y1 & Y2 & Y3 & Y4) & P').
    assert (G : (y <> [] -> z <> []) /\ (y = [] -> stt = SEof)).
    { revert E. unfold C20_Proofs.inv, C20_Proofs.reads_at in I, P.
      destruct k, st as [r|r|r|dd|r|i|]; try contradiction; cbn [d_step].
      - destruct r as [r|]; [|contradiction]. destruct P as (Pr & _). subst r. simpl. intros E.
        injection E as E1 E2. split.
        + intros Hy. destruct y as [|a y]; [congruence|]. rewrite <- E1.
          destruct (N.to_nat n) eqn:En; [lia|]. discriminate.
        + intros Ey. rewrite <- E2, Ey. apply N.ltb_lt in Hn. rewrite Hn. reflexivity.
      - destruct r as [i|]; [|contradiction]. intros E.
        apply (PR i y n z stt P Hn). destruct (l_readn i n). simpl in *. congruence.
      - destruct r as [i|]; [|contradiction]. intros E.
        apply (PR i y n z stt P Hn). destruct (l_readn i n). simpl in *. congruence.
      - destruct dd as [i|]; [|contradiction]. intros E.
        apply (PR i y n z stt P Hn). destruct (l_readn i n). simpl in *. congruence.
      - destruct r as [|i|]; try contradiction. intros E.
        apply (PR i y n z stt P Hn). destruct (l_readn i n). simpl in *. congruence.
      - intros E. apply (PR i y n z stt P Hn). destruct (l_readn i n). simpl in *. congruence. }
    simpl. destruct (step st (DReadN n)) as [st1 o]. simpl in *. subst o. simpl.
    destruct stt.
    - (* no EOF yet: at least one byte was delivered unless nothing was left — impossible *)
      destruct y as [|a y].
      + destruct G as (_ & G). specialize (G eq_refl). discriminate.
      + destruct G as (G & _). assert (Z : z <> []) by (apply G; discriminate).
        destruct (IH st1 y' SI P' Fp') as (z0 & Hz0).
        { destruct z as [|b z]; [congruence|]. rewrite Y1 in Len. simpl in Len. rewrite app_length in Len. lia. }
        exists z0. right. exact Hz0.
    - exists z. left. reflexivity.
    - congruence.
  Qed.

  Lemma read_loop_terminates_proof k :
    needs k -> forall h s ns y,
    no_crash (run (init k) h) -> dec_of k dec s = Body y false ->
    Forall (fun n => 0 < n) ns -> (length y < length ns)%nat ->
    exists outs,
      run (init k) (h ++ DReset s :: map DReadN ns) = run (init k) h ++ OU UOk :: outs /\
      Forall read_fine outs /\ eof_seen outs /\ delivered outs = y.
  Proof.
    intros Hk h s ns y NC D Fp Len.
    assert (F : Forall is_read (map DReadN ns)).
    { clear. induction ns; simpl; constructor; [right; eexists; reflexivity|assumption]. }
    destruct (session_in_pieces_proof k Hk h s _ y NC D F) as (outs & rest & _ & R2 & _ & R4 & R5 & R6 & _).
    destruct (run_after_prefix k h Hk NC) as (st & A & I & RA).
    destruct (reset_ok_from k false st s y Hk I D) as (E & I1 & P1).
    pose proof (read_loop_from k ns Hk _ y I1 P1 Fp Len) as EOF.
    rewrite RA in R2. apply app_inv_head in R2. rewrite run_cons, E in R2. simpl in R2.
    injection R2 as R2. rewrite R2 in EOF.
    exists outs. rewrite RA, run_cons, E. simpl. rewrite R2.
    split; [reflexivity|]. split; [exact R4|]. split; [exact EOF|].
    rewrite (R6 EOF), app_nil_r in R5. symmetry. exact R5.
  Qed.
End One.

Lemma ref_not_fresh k dec pos op : fst (ref_step k dec pos op) <> DFresh.
Proof.
  destruct op as [s|n| |n]; simpl.
  - destruct (reset_result k (dec_of k dec s)), (dec_of k dec s) as [|y []]; discriminate.
  - destruct pos, n; discriminate.
  - destruct pos; discriminate.
  - destruct pos; discriminate.
Qed.

Lemma crash_same_r r1 r2 : (r1 = RCrash <-> r2 = RCrash) -> is_crash (OR r1) = is_crash (OR r2).
Proof. destruct r1, r2; simpl; intros [H1 H2]; try reflexivity; try (specialize (H1 eq_refl)); try (specialize (H2 eq_refl)); discriminate. Qed.
Lemma crash_same_p p1 p2 : (p1 = PCrash <-> p2 = PCrash) -> is_crash (OP p1) = is_crash (OP p2).
Proof. destruct p1, p2; simpl; intros [H1 H2]; try reflexivity; try (specialize (H1 eq_refl)); try (specialize (H2 eq_refl)); discriminate. Qed.
Lemma crash_same_u u1 u2 : (u1 = UCrash <-> u2 = UCrash) ->
  is_crash (OU match u1 with UCrash => UCrash | _ => UOk end) = is_crash (OU match u2 with UCrash => UCrash | _ => UOk end).
Proof. destruct u1, u2; simpl; intros [H1 H2]; try reflexivity; try (specialize (H1 eq_refl)); try (specialize (H2 eq_refl)); discriminate. Qed.

Definition sorted (op : dop) (o : dout) : Prop :=
  match op, o with DRead _, OR _ | DClose, OU _ | DReadN _, OP _ => True | _, _ => False end.

(* in DFresh a step that is not a Reset is projected to "panicked or not" *)
Lemma obs_fresh d rem op o :
  (forall s, op <> DReset s) -> is_crash o = false -> sorted op o ->
  exists rem', obs_step d (DFresh, rem) op o = ((DFresh, rem'), PAny).
Proof.
  unfold sorted. intros NR NC S. unfold obs_step. rewrite NC.
  destruct op as [s|n| |n]; [exfalso; apply (NR s); reflexivity| | |];
    destruct o as [u|r|p]; try contradiction.
  - eexists; reflexivity.
  - eexists; reflexivity.
  - destruct p as [z st|]; [|discriminate]. eexists; reflexivity.
Qed.

Section Two.
  Variable dec : bytes -> dres.
  (* library 1 *)
  Variable inst1 : Type.
  Variable view1 : inst1 -> lview.
  Variable zero1 : inst1.
  Variable new1 : bytes -> option inst1 * ures.
  Variable reset1 : inst1 -> bytes -> inst1 * ures.
  Variable read1 : inst1 -> option N -> inst1 * rres.
  Variable readn1 : inst1 -> N -> inst1 * pres.
  Variable close1 : inst1 -> inst1 * ures.
  Hypothesis C1 : lib_contract inst1 dec view1 zero1 new1 reset1 read1 readn1 close1.
  (* library 2 *)
  Variable inst2 : Type.
  Variable view2 : inst2 -> lview.
  Variable zero2 : inst2.
  Variable new2 : bytes -> option inst2 * ures.
  Variable reset2 : inst2 -> bytes -> inst2 * ures.
  Variable read2 : inst2 -> option N -> inst2 * rres.
  Variable readn2 : inst2 -> N -> inst2 * pres.
  Variable close2 : inst2 -> inst2 * ures.
  Hypothesis C2 : lib_contract inst2 dec view2 zero2 new2 reset2 read2 readn2 close2.

  Notation step1 := (d_step inst1 new1 reset1 read1 readn1 close1).
  Notation step2 := (d_step inst2 new2 reset2 read2 readn2 close2).
  Notation run1 := (d_run inst1 new1 reset1 read1 readn1 close1).
  Notation run2 := (d_run inst2 new2 reset2 read2 readn2 close2).
  Notation J1 := (J inst1 view1).
  Notation J2 := (J inst2 view2).
  Notation NA := (nosrc_alike view1 read1 readn1 close1 view2 read2 readn2 close2).

  (* the states of the two wrappers before any Reset: the same shape, library objects without a source *)
  Definition fresh_rel (k : wkind) (st1 : dstate inst1) (st2 : dstate inst2) : Prop :=
    match k, st1, st2 with
    | KIdent, DIdent None, DIdent None => True
    | KGzip, DGzip None, DGzip None => True
    | KBrotli, DBrotli (Some i1), DBrotli (Some i2) => view1 i1 = NoSrc /\ view2 i2 = NoSrc
    | KZstd, DZstd None, DZstd None => True
    | KZstd, DZstd (Some i1), DZstd (Some i2) => view1 i1 = NoSrc /\ view2 i2 = NoSrc
    | KDeflate, DDeflate RNil, DDeflate RNil => True
    | KSnappy, DSnappy i1, DSnappy i2 => view1 i1 = NoSrc /\ view2 i2 = NoSrc
    | _, _, _ => False
    end.

  Lemma fresh_init k : fresh_rel k (d_init inst1 zero1 k) (d_init inst2 zero2 k).
  Proof.
    destruct k; simpl; try exact Logic.I;
      (split; [apply (lc_zero _ _ _ _ _ _ _ _ _ C1)|apply (lc_zero _ _ _ _ _ _ _ _ _ C2)]).
  Qed.

  Lemma nosrc_stays_r i1 n :
    view1 i1 = NoSrc -> is_crash (OR (snd (read1 i1 n))) = false -> view1 (fst (read1 i1 n)) = NoSrc.
  Proof.
    intros V NC. destruct (lc_nosrc_read _ _ _ _ _ _ _ _ _ C1 i1 n V) as [H|H]; [|exact H].
    rewrite H in NC. discriminate.
  Qed.
  Lemma nosrc_stays_r2 i2 n :
    view2 i2 = NoSrc -> is_crash (OR (snd (read2 i2 n))) = false -> view2 (fst (read2 i2 n)) = NoSrc.
  Proof.
    intros V NC. destruct (lc_nosrc_read _ _ _ _ _ _ _ _ _ C2 i2 n V) as [H|H]; [|exact H].
    rewrite H in NC. discriminate.
  Qed.
  Lemma nosrc_stays_p i1 n :
    view1 i1 = NoSrc -> is_crash (OP (snd (readn1 i1 n))) = false -> view1 (fst (readn1 i1 n)) = NoSrc.
  Proof.
    intros V NC. destruct (lc_nosrc_readn _ _ _ _ _ _ _ _ _ C1 i1 n V) as [H|H]; [|exact H].
    rewrite H in NC. discriminate.
  Qed.
  Lemma nosrc_stays_p2 i2 n :
    view2 i2 = NoSrc -> is_crash (OP (snd (readn2 i2 n))) = false -> view2 (fst (readn2 i2 n)) = NoSrc.
  Proof.
    intros V NC. destruct (lc_nosrc_readn _ _ _ _ _ _ _ _ _ C2 i2 n V) as [H|H]; [|exact H].
    rewrite H in NC. discriminate.
  Qed.

  Lemma fresh_lib_step i1 i2 op :
    NA -> view1 i1 = NoSrc -> view2 i2 = NoSrc ->
    match op with
    | DRead n =>
      is_crash (OR (snd (read1 i1 n))) = is_crash (OR (snd (read2 i2 n))) /\
      (is_crash (OR (snd (read1 i1 n))) = false ->
       view1 (fst (read1 i1 n)) = NoSrc /\ view2 (fst (read2 i2 n)) = NoSrc)
    | DReadN n =>
      is_crash (OP (snd (readn1 i1 n))) = is_crash (OP (snd (readn2 i2 n))) /\
      (is_crash (OP (snd (readn1 i1 n))) = false ->
       view1 (fst (readn1 i1 n)) = NoSrc /\ view2 (fst (readn2 i2 n)) = NoSrc)
    | _ => True
    end.
  Proof.
    intros HA V1 V2. destruct (HA i1 i2 V1 V2) as (A1 & A2 & A3).
    destruct op as [s|n| |n]; try exact Logic.I.
    - pose proof (crash_same_r _ _ (A1 n)) as E. split; [exact E|]. intros NC. split.
      + apply nosrc_stays_r; assumption.
      + apply nosrc_stays_r2; [assumption|]. rewrite <- E. exact NC.
    - pose proof (crash_same_p _ _ (A2 n)) as E. split; [exact E|]. intros NC. split.
      + apply nosrc_stays_p; assumption.
      + apply nosrc_stays_p2; [assumption|]. rewrite <- E. exact NC.
  Qed.

  Lemma fresh_step k st1 st2 op :
    NA -> (forall s, op <> DReset s) -> fresh_rel k st1 st2 ->
    is_crash (snd (step1 st1 op)) = is_crash (snd (step2 st2 op)) /\
    (is_crash (snd (step1 st1 op)) = false -> fresh_rel k (fst (step1 st1 op)) (fst (step2 st2 op))).
  Proof.
    intros HA NR FR.
    destruct op as [s|n| |n]; [exfalso; apply (NR s); reflexivity| | |];
      destruct k, st1 as [a1|a1|a1|a1|a1|a1|], st2 as [a2|a2|a2|a2|a2|a2|]; simpl in FR; try contradiction;
      try (destruct a1; try contradiction); try (destruct a2; try contradiction);
      cbn [d_step]; simpl; try (split; [reflexivity|intros; try discriminate; exact FR]).
    (* the library objects without a source: brotli, zstd, snappy; reads, Close (zstd), one Read *)
    - destruct FR as (V1 & V2). pose proof (fresh_lib_step i i0 (DRead n) HA V1 V2) as L. simpl in L.
      destruct (read1 i n), (read2 i0 n). simpl in *. exact L.
    - destruct FR as (V1 & V2). pose proof (fresh_lib_step i i0 (DRead n) HA V1 V2) as L. simpl in L.
      destruct (read1 i n), (read2 i0 n). simpl in *. exact L.
    - destruct FR as (V1 & V2). pose proof (fresh_lib_step a1 a2 (DRead n) HA V1 V2) as L. simpl in L.
      destruct (read1 a1 n), (read2 a2 n). simpl in *. exact L.
    - destruct FR as (V1 & V2). destruct (HA i i0 V1 V2) as (_ & _ & A3).
      pose proof (crash_same_u _ _ A3) as E.
      destruct (close1 i), (close2 i0). simpl in *. split; [exact E|]. intros _. exact Logic.I.
    - destruct FR as (V1 & V2). pose proof (fresh_lib_step i i0 (DReadN n) HA V1 V2) as L. simpl in L.
      destruct (readn1 i n), (readn2 i0 n). simpl in *. exact L.
    - destruct FR as (V1 & V2). pose proof (fresh_lib_step i i0 (DReadN n) HA V1 V2) as L. simpl in L.
      destruct (readn1 i n), (readn2 i0 n). simpl in *. exact L.
    - destruct FR as (V1 & V2). pose proof (fresh_lib_step a1 a2 (DReadN n) HA V1 V2) as L. simpl in L.
      destruct (readn1 a1 n), (readn2 a2 n). simpl in *. exact L.
  Qed.

  Notation needs1 k := (kind_needs k dec view1 new1 reset1).
  Notation needs2 k := (kind_needs k dec view2 new2 reset2).

  Lemma sort_of st op :
    (forall s, op <> DReset s) -> sorted op (snd (step1 st op)).
  Proof.
    unfold sorted. intros NR. destruct op as [s|n| |n]; [exfalso; apply (NR s); reflexivity| | |].
    - destruct (read_is_OR inst1 new1 reset1 read1 readn1 close1 st n) as (r & ->). exact Logic.I.
    - destruct (close_is_OU inst1 new1 reset1 read1 readn1 close1 st) as (u & ->). exact Logic.I.
    - destruct (readn_is_OP inst1 new1 reset1 read1 readn1 close1 st n) as (q & ->). exact Logic.I.
  Qed.
  Lemma sort_of2 st op :
    (forall s, op <> DReset s) -> sorted op (snd (step2 st op)).
  Proof.
    unfold sorted. intros NR. destruct op as [s|n| |n]; [exfalso; apply (NR s); reflexivity| | |].
    - destruct (read_is_OR inst2 new2 reset2 read2 readn2 close2 st n) as (r & ->). exact Logic.I.
    - destruct (close_is_OU inst2 new2 reset2 read2 readn2 close2 st) as (u & ->). exact Logic.I.
    - destruct (readn_is_OP inst2 new2 reset2 read2 readn2 close2 st n) as (q & ->). exact Logic.I.
  Qed.

  Lemma reset_or_not (op : dop) : (exists s, op = DReset s) \/ (forall s, op <> DReset s).
  Proof. destruct op; [left; eexists; reflexivity|right; discriminate..]. Qed.

  (* === the projected outcomes of a history are the same over both libraries === *)
  Lemma observe_same k h :
    needs1 k -> needs2 k -> forall pos rem1 rem2 st1 st2,
    J1 k pos rem1 st1 -> J2 k pos rem2 st2 ->
    (pos = DFresh -> NA /\ fresh_rel k st1 st2) ->
    observe (dec_of k dec) (pos, rem1) h (run1 st1 h) = observe (dec_of k dec) (pos, rem2) h (run2 st2 h).
  Proof.
    intros Hk1 Hk2. induction h as [|op h IH]; intros pos rem1 rem2 st1 st2 HJ1 HJ2 HF; [reflexivity|].
    assert (Known : (pos <> DFresh \/ exists s, op = DReset s) \/ (pos = DFresh /\ forall s, op <> DReset s)).
    { destruct (reset_or_not op) as [R|R]; [left; right; exact R|].
      destruct pos; [right; split; [reflexivity|exact R]|left; left; discriminate..]. }
    destruct Known as [Kn|(-> & NR)].
    - destruct (obs_known inst1 dec view1 zero1 new1 reset1 read1 readn1 close1 C1 k pos rem1 st1 op Hk1 HJ1 Kn)
        as (NC1 & r1' & O1 & J1').
      destruct (obs_known inst2 dec view2 zero2 new2 reset2 read2 readn2 close2 C2 k pos rem2 st2 op Hk2 HJ2 Kn)
        as (NC2 & r2' & O2 & J2').
      rewrite !run_cons, NC1, NC2. cbn [observe]. rewrite O1, O2. f_equal.
      apply IH; [exact J1'|exact J2'|].
      intros X. exfalso. exact (ref_not_fresh k dec pos op X).
    - destruct (HF eq_refl) as (HA & FR).
      destruct (fresh_step k st1 st2 op HA NR FR) as (CE & FR').
      pose proof (sort_of st1 op NR) as S1. pose proof (sort_of2 st2 op NR) as S2.
      pose proof (step_inv _ _ _ _ _ _ _ _ _ C1 k false st1 op Hk1 HJ1) as I1.
      pose proof (step_inv _ _ _ _ _ _ _ _ _ C2 k false st2 op Hk2 HJ2) as I2.
      rewrite !run_cons.
      destruct (is_crash (snd (step1 st1 op))) eqn:X1; rewrite <- CE.
      + cbn [observe]. unfold obs_step. rewrite X1, <- CE. destruct h; reflexivity.
      + destruct (obs_fresh (dec_of k dec) rem1 op _ NR X1 S1) as (r1' & O1).
        symmetry in CE.
        destruct (obs_fresh (dec_of k dec) rem2 op _ NR CE S2) as (r2' & O2).
        cbn [observe]. rewrite O1, O2. f_equal.
        apply IH; [exact (I1 eq_refl)|exact (I2 CE)|]. intros _. split; [exact HA|exact (FR' eq_refl)].
  Qed.

  Lemma library_independent_proof k :
    needs1 k -> needs2 k -> NA -> forall h,
    observe (dec_of k dec) (DFresh, []) h (run1 (d_init inst1 zero1 k) h)
    = observe (dec_of k dec) (DFresh, []) h (run2 (d_init inst2 zero2 k) h).
  Proof.
    intros Hk1 Hk2 HA h. apply observe_same; auto.
    - apply (inv_init _ _ _ _ _ _ _ _ _ C1 k).
    - apply (inv_init _ _ _ _ _ _ _ _ _ C2 k).
    - intros _. split; [exact HA|apply fresh_init].
  Qed.

  (* for the histories the pools produce (first operation a Reset) nothing is asked of the libraries
     beyond the contract *)
  Lemma reset_first_gen k rem1 rem2 :
    needs1 k -> needs2 k -> forall h, starts_with_reset h ->
    observe (dec_of k dec) (DFresh, rem1) h (run1 (d_init inst1 zero1 k) h)
    = observe (dec_of k dec) (DFresh, rem2) h (run2 (d_init inst2 zero2 k) h).
  Proof.
    intros Hk1 Hk2 h (s & h' & ->).
    assert (Kn : DFresh <> DFresh \/ exists s0, DReset s = DReset s0) by (right; eexists; reflexivity).
    pose proof (inv_init _ _ _ _ _ _ _ _ _ C1 k) as I1. pose proof (inv_init _ _ _ _ _ _ _ _ _ C2 k) as I2.
    destruct (obs_known inst1 dec view1 zero1 new1 reset1 read1 readn1 close1 C1 k DFresh rem1 _ (DReset s) Hk1 I1 Kn)
      as (NC1 & r1' & O1 & J1').
    destruct (obs_known inst2 dec view2 zero2 new2 reset2 read2 readn2 close2 C2 k DFresh rem2 _ (DReset s) Hk2 I2 Kn)
      as (NC2 & r2' & O2 & J2').
    rewrite !run_cons, NC1, NC2. cbn [observe]. rewrite O1, O2. f_equal.
    apply observe_same; [exact Hk1|exact Hk2|exact J1'|exact J2'|].
    intros X. exfalso. exact (ref_not_fresh k dec DFresh (DReset s) X).
  Qed.

  Lemma library_independent_reset_first_proof k :
    needs1 k -> needs2 k -> forall h, starts_with_reset h ->
    observe (dec_of k dec) (DFresh, []) h (run1 (d_init inst1 zero1 k) h)
    = observe (dec_of k dec) (DFresh, []) h (run2 (d_init inst2 zero2 k) h).
  Proof. intros Hk1 Hk2 h S. apply reset_first_gen; assumption. Qed.
End Two.
