(* C07_Order.v — "stable across runs": what is stable as a LIST and what only as a SET.
   Go ranges over lib.testCases (a map) in groupTestCases and allPermutations and sorts nothing
   there; the visiting order is the explicit parameter `order` of the model.
     * sorted:   serverInstancesSlice(lib, true) sort.Slice's the keys of casesByServer with a less
                 function that is a total order on distinct keys — the resulting slice is the same
                 for every visiting order and for every correct sorting algorithm;
     * unsorted: the keys in first-met order, the members of each group, and the output of
                 allPermutations follow the visiting order (refuted as lists by the Examples of
                 C07_Props.v), but as sets / multisets they do not depend on it. *)
From Coq Require Import Lia Permutation Sorted.
From V Require Import C07_Model C07_Spec C07_Proofs.
Open Scope N_scope.

(* ------------------------------------------------------------------ *)
(* the less function of serverInstancesSlice is a total order           *)
(* ------------------------------------------------------------------ *)
Definition b2n (b : bool) : N := if b then 1 else 0.

(* lexicographic: HTTP version, protocol, TLS (false first), client certs (false first) *)
Definition inst_le (a b : inst) : Prop :=
  i_version a < i_version b \/ (i_version a = i_version b /\
  (i_protocol a < i_protocol b \/ (i_protocol a = i_protocol b /\
  (b2n (i_tls a) < b2n (i_tls b) \/ (b2n (i_tls a) = b2n (i_tls b) /\
   b2n (i_certs a) <= b2n (i_certs b)))))).

Lemma inst_less_iff a b : inst_less a b = true <-> inst_le a b.
Proof.
  destruct a as [p v t c], b as [p' v' t' c']. unfold inst_less, inst_le. simpl.
  destruct (N.eqb_spec v v') as [->|Nv]; simpl.
  - destruct (N.eqb_spec p p') as [->|Np]; simpl.
    + destruct t, t', c, c'; unfold b2n; simpl;
        (split; [intros H; try discriminate H; lia|intros H; try reflexivity; exfalso; lia]).
    + rewrite N.ltb_lt. split; lia.
  - rewrite N.ltb_lt. split; lia.
Qed.

Lemma b2n_inj x y : b2n x = b2n y -> x = y.
Proof. destruct x, y; simpl; intros H; try reflexivity; discriminate H. Qed.

Lemma inst_le_total a b : inst_le a b \/ inst_le b a.
Proof. unfold inst_le. lia. Qed.

Lemma inst_le_refl a : inst_le a a.
Proof. unfold inst_le. lia. Qed.

Lemma inst_le_trans a b c : inst_le a b -> inst_le b c -> inst_le a c.
Proof. unfold inst_le. lia. Qed.

Lemma inst_le_antisym a b : inst_le a b -> inst_le b a -> a = b.
Proof.
  unfold inst_le. intros H1 H2.
  assert (E : i_version a = i_version b /\ i_protocol a = i_protocol b /\
              b2n (i_tls a) = b2n (i_tls b) /\ b2n (i_certs a) = b2n (i_certs b)) by lia.
  destruct E as (Ev & Ep & Et & Ec). apply b2n_inj in Et. apply b2n_inj in Ec.
  destruct a, b; simpl in *; subst; reflexivity.
Qed.

(* ------------------------------------------------------------------ *)
(* sorting                                                              *)
(* ------------------------------------------------------------------ *)
Lemma insert_inst_perm k l : Permutation (k :: l) (insert_inst k l).
Proof.
  induction l as [|x l IH]; simpl; [reflexivity|].
  destruct (inst_less k x); [reflexivity|].
  rewrite perm_swap. apply perm_skip. exact IH.
Qed.

Lemma sort_insts_perm l : Permutation l (sort_insts l).
Proof.
  induction l as [|x l IH]; simpl; [reflexivity|].
  rewrite <- insert_inst_perm. apply perm_skip. exact IH.
Qed.

Lemma insert_inst_sorted k l : StronglySorted inst_le l -> StronglySorted inst_le (insert_inst k l).
Proof.
  induction 1 as [|x l Hs IH Hx]; simpl; [repeat constructor|].
  destruct (inst_less k x) eqn:E.
  - apply inst_less_iff in E. constructor; [constructor; assumption|].
    constructor; [exact E|]. eapply Forall_impl; [|exact Hx]. intros y Hy. eapply inst_le_trans; eassumption.
  - assert (Hxk : inst_le x k).
    { destruct (inst_le_total k x) as [H|H]; [|exact H]. apply inst_less_iff in H. congruence. }
    constructor; [exact IH|]. eapply Permutation_Forall; [apply insert_inst_perm|].
    constructor; assumption.
Qed.

Lemma sort_insts_sorted l : StronglySorted inst_le (sort_insts l).
Proof. induction l as [|x l IH]; simpl; [constructor|apply insert_inst_sorted; exact IH]. Qed.

(* a sorted arrangement is unique: any correct sorting algorithm returns this slice *)
Lemma sorted_unique a : forall b, StronglySorted inst_le a -> StronglySorted inst_le b ->
  Permutation a b -> a = b.
Proof.
  induction a as [|x a IH]; intros b Sa Sb P.
  - apply Permutation_nil in P. symmetry; exact P.
  - destruct b as [|y b]; [apply Permutation_sym, Permutation_nil in P; discriminate|].
    inversion Sa as [|? ? Sa' Fa]; subst. inversion Sb as [|? ? Sb' Fb]; subst.
    rewrite Forall_forall in Fa, Fb.
    assert (Hyx : inst_le y x).
    { assert (Hin : In x (y :: b)) by (eapply Permutation_in; [exact P|left; reflexivity]).
      destruct Hin as [->|Hin]; [apply inst_le_refl|apply Fb; exact Hin]. }
    assert (Hxy : inst_le x y).
    { assert (Hin : In y (x :: a)) by (eapply Permutation_in; [apply Permutation_sym; exact P|left; reflexivity]).
      destruct Hin as [->|Hin]; [apply inst_le_refl|apply Fa; exact Hin]. }
    assert (x = y) by (apply inst_le_antisym; assumption). subst y.
    f_equal. apply IH; try assumption. eapply Permutation_cons_inv; exact P.
Qed.

(* ------------------------------------------------------------------ *)
(* the keys of casesByServer as a set                                   *)
(* ------------------------------------------------------------------ *)
Lemma group_keys_iff order k :
  In k (map fst (group_cases order)) <-> exists p, In p order /\ server_instance p = k.
Proof.
  destruct (group_fold order []) as (_ & _ & C). simpl in C. unfold group_cases.
  rewrite C. simpl. tauto.
Qed.

Lemma group_keys_perm order order' : Permutation order order' ->
  Permutation (map fst (group_cases order)) (map fst (group_cases order')).
Proof.
  intros P. apply NoDup_Permutation.
  - apply (groups_proof order).
  - apply (groups_proof order').
  - intros k. rewrite !group_keys_iff. split; intros (p & Hp & E); exists p; (split; [|exact E]).
    + eapply Permutation_in; eassumption.
    + eapply Permutation_in; [apply Permutation_sym; exact P|exact Hp].
Qed.

Theorem instances_sorted_stable_proof : forall order order', Permutation order order' ->
  sorted_instances order = sorted_instances order' /\
  forall out, Permutation out (map fst (group_cases order')) -> StronglySorted inst_le out ->
    out = sorted_instances order.
Proof.
  intros order order' P.
  assert (G : forall out, Permutation out (map fst (group_cases order')) -> StronglySorted inst_le out ->
              out = sorted_instances order).
  { intros out Po So. apply sorted_unique; [exact So|apply sort_insts_sorted|].
    unfold sorted_instances. rewrite <- sort_insts_perm. rewrite Po. apply Permutation_sym, group_keys_perm, P. }
  split; [|exact G]. symmetry. apply G; [|apply sort_insts_sorted].
  unfold sorted_instances. symmetry. apply sort_insts_perm.
Qed.

(* ------------------------------------------------------------------ *)
(* what follows the visiting order is stable as a multiset              *)
(* ------------------------------------------------------------------ *)
Lemma Permutation_filter {A} (f : A -> bool) l l' : Permutation l l' -> Permutation (filter f l) (filter f l').
Proof.
  induction 1 as [|x l l' _ IH|x y l|l l' l'' _ IH1 _ IH2]; simpl.
  - constructor.
  - destruct (f x); [apply perm_skip|]; exact IH.
  - destruct (f x), (f y); try reflexivity. apply perm_swap.
  - etransitivity; eassumption.
Qed.

Lemma grpc_filter_perm cl sv l l' : Permutation l l' -> Permutation (grpc_filter cl sv l) (grpc_filter cl sv l').
Proof.
  intros P. unfold grpc_filter. destruct (negb cl && negb sv); [exact P|].
  apply Permutation_map, Permutation_filter, P.
Qed.

Theorem all_permutations_stable_proof : forall cl sv order order', Permutation order order' ->
  Permutation (all_permutations cl sv order) (all_permutations cl sv order') /\
  (exists rest, all_permutations cl sv order = order ++ rest) /\
  all_permutations false false order = order.
Proof.
  intros cl sv order order' P. split; [|split].
  - unfold all_permutations. repeat apply Permutation_app; try exact P;
      [destruct cl|destruct sv|destruct (cl && sv)]; try reflexivity; apply grpc_filter_perm, P.
  - unfold all_permutations. eexists. reflexivity.
  - unfold all_permutations. simpl. apply app_nil_r.
Qed.

Theorem groups_stable_proof : forall order order', Permutation order order' ->
  (forall k, In k (map fst (group_cases order)) <-> In k (map fst (group_cases order'))) /\
  (forall k l l', In (k, l) (group_cases order) -> In (k, l') (group_cases order') -> Permutation l l').
Proof.
  intros order order' P. split.
  - intros k. split; apply Permutation_in; [|apply Permutation_sym]; apply group_keys_perm, P.
  - intros k l l' H H'.
    destruct (groups_proof order) as (_ & F & _). destruct (groups_proof order') as (_ & F' & _).
    destruct (F _ _ H) as (_ & ->). destruct (F' _ _ H') as (_ & ->).
    apply Permutation_filter, P.
Qed.
