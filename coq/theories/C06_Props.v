(* C06_Props.v — the property theorems of C06 and nothing else.
   Each is closed by `exact <lemma>` and followed by Print Assumptions.
   parse_config is the model of parseConfig (C06_Model.v); spec_member, valid_case, regular,
   contradictory and defaulted are the declarative specification (C06_Spec.v).
   run_load / parse_config_data / ensure_file_name are the model of the loader glue (Run's reading of
   the --conf file, parseConfig's decoding step, internal.EnsureFileName; C06_Load.v); file_bytes,
   denotes, undecodable, unreadable are its specification (C06_LoadSpec.v).  `decode` stands for
   protoyaml's Unmarshal: the loader theorems hold for every function. *)
From V Require Import C06_Spec C06_Proofs C06_LoadSpec C06_LoadProofs.
Open Scope N_scope.

(* The returned set is exactly: implied by the defaulted features, or matching some include
   entry, and matching no exclude entry — for every configuration that is accepted. *)
Theorem parse_ok_iff : forall cfg cs,
  parse_config cfg = Ok cs ->
  forall c, In c cs <->
    (in_features (defaulted (cfg_features cfg)) c \/
     exists e, In e (cfg_includes cfg) /\ matches (defaulted (cfg_features cfg)) e c) /\
    ~ (exists e, In e (cfg_excludes cfg) /\ matches (defaulted (cfg_features cfg)) e c).
Proof. exact parse_ok_iff_proof. Qed.
Print Assumptions parse_ok_iff.

(* Every returned case is internally possible (the seven rules of valid_case), never uses the
   deprecated text codec, and the returned set is not empty. *)
Theorem parse_valid : forall cfg cs,
  parse_config cfg = Ok cs ->
  cs <> [] /\ Forall (fun c => valid_case (defaulted (cfg_features cfg)) c /\ regular c) cs.
Proof. exact parse_valid_proof. Qed.
Print Assumptions parse_valid.

(* An error is returned exactly when the configuration is contradictory or denotes the empty set. *)
Theorem parse_err_iff : forall cfg,
  parse_config cfg = Err <-> contradictory cfg \/ (forall c, ~ spec_member cfg c).
Proof. exact parse_err_iff_proof. Qed.
Print Assumptions parse_err_iff.

(* ... so a consistent, non-empty configuration is never rejected. *)
Theorem parse_ok_when : forall cfg,
  ~ contradictory cfg -> (exists c, spec_member cfg c) -> exists cs, parse_config cfg = Ok cs.
Proof. exact parse_ok_when_proof. Qed.
Print Assumptions parse_ok_when.

(* The empty Features message resolves to the documented defaults. *)
Theorem defaults_doc :
  resolve_features (mkFeatures [] [] [] [] [] None None None None None None None) =
  Ok (mkResolved [H1; H2] [CONNECT; GRPC; GRPCWEB] [PROTO; JSON] [IDENTITY; GZIP]
                 [UNARY; CLIENT_STREAM; SERVER_STREAM; HALF; FULL] true true false true false true true).
Proof. exact defaults_doc_proof. Qed.
Print Assumptions defaults_doc.

(* The observable compared with the Go code (ascending de-duplicated case keys) determines the
   set of cases, for enum numbers below 16. *)
Theorem observable_faithful : forall cs cs',
  Forall small_case cs -> Forall small_case cs' ->
  case_keys cs = case_keys cs' -> forall c, In c cs <-> In c cs'.
Proof. exact observable_faithful_proof. Qed.
Print Assumptions observable_faithful.

(* ---- the loader: from the file named by --conf to parseConfig's result ---- *)

(* The bytes handed to parseConfig are the bytes a reader of the named file gets, whatever size
   a stat call reports for it (named pipe, process substitution, /dev/stdin: 0). *)
Theorem config_bytes_are_file_bytes : forall decode conf fs size data,
  conf <> [] -> fs conf = Node size data ->
  run_load decode conf fs = parse_config_data decode conf data.
Proof. exact config_bytes_are_file_bytes_proof. Qed.
Print Assumptions config_bytes_are_file_bytes.

(* Without --conf the empty configuration is parsed. *)
Theorem no_conf_is_empty_config : forall decode fs,
  run_load decode [] fs = parse_config empty_config.
Proof. exact no_conf_is_empty_config_proof. Qed.
Print Assumptions no_conf_is_empty_config.

(* A document that the decoder rejects is an error of parseConfig, whatever the error text says
   (in particular when it already names the file). *)
Theorem decode_error_is_error : forall decode name data,
  undecodable decode name data -> parse_config_data decode name data = Err.
Proof. exact decode_error_is_error_proof. Qed.
Print Assumptions decode_error_is_error.

(* A named file that cannot be read is an error. *)
Theorem unreadable_is_error : forall decode conf fs,
  unreadable conf fs -> run_load decode conf fs = Err.
Proof. exact unreadable_is_error_proof. Qed.
Print Assumptions unreadable_is_error.

(* The helper never turns an error into nil; the result names the file and keeps the message. *)
Theorem ensure_file_name_keeps_error : forall msg filename,
  exists m', ensure_file_name msg filename = Some m' /\ substring filename m' /\ substring msg m'.
Proof. exact ensure_file_name_keeps_error_proof. Qed.
Print Assumptions ensure_file_name_keeps_error.

(* End to end: when the loader returns a set, it is not empty and it is exactly the set denoted by
   the configuration that the bytes of the named file denote. *)
Theorem load_exact : forall decode conf fs cs,
  run_load decode conf fs = Ok cs ->
  exists data cfg, file_bytes conf fs data /\ denotes decode conf data cfg /\
                   cs <> [] /\ forall c, In c cs <-> spec_member cfg c.
Proof. exact load_exact_proof. Qed.
Print Assumptions load_exact.

(* ... and it returns an error exactly when the file cannot be read, cannot be decoded, or denotes a
   contradictory or empty configuration: nothing is replaced silently by another set. *)
Theorem load_err_iff : forall decode conf fs,
  run_load decode conf fs = Err <->
  unreadable conf fs \/
  exists data, file_bytes conf fs data /\
    (undecodable decode conf data \/
     exists cfg, denotes decode conf data cfg /\ (contradictory cfg \/ forall c, ~ spec_member cfg c)).
Proof. exact load_err_iff_proof. Qed.
Print Assumptions load_err_iff.

(* ---- fifth wave: the helper `only`; entries differing only in omitted / explicit false ---- *)

(* The helper `only` (resolveCase's "all versions are HTTP/1.1" test) is: non-empty and every element equals x -
   however often x is repeated; it is not "the list has length one". *)
Theorem only_exact : forall l x, only l x = true <-> l <> [] /\ forall v, In v l -> v = x.
Proof. exact only_exact_proof. Qed.
Print Assumptions only_exact.

(* An include / exclude entry that omits the version and asks for full-duplex (or for half-duplex that is not declared
   over HTTP/1.1) is rejected whenever every declared version is HTTP/1.1, for a versions list of any length. *)
Theorem duplex_entry_over_http1_rejected : forall cfg e,
  In e (cfg_includes cfg ++ cfg_excludes cfg) ->
  e_version e = 0 ->
  all_http1 (r_versions (defaulted (cfg_features cfg))) ->
  e_stream e = FULL \/ (e_stream e = HALF /\ r_half1 (defaulted (cfg_features cfg)) = false) ->
  parse_config cfg = Err.
Proof. exact duplex_entry_over_http1_rejected_proof. Qed.
Print Assumptions duplex_entry_over_http1_rejected.

(* Every entry is resolved from its own fields: exclude entries that say `use_tls: false` explicitly remove no TLS case
   (an omitted flag would) ... *)
Theorem exclude_explicit_false_keeps_tls : forall cfg cs c,
  parse_config cfg = Ok cs ->
  (forall e, In e (cfg_excludes cfg) -> e_tls e = Some false) ->
  c_tls c = true ->
  (In c cs <-> in_features (defaulted (cfg_features cfg)) c \/
               exists e, In e (cfg_includes cfg) /\ matches (defaulted (cfg_features cfg)) e c).
Proof. exact exclude_explicit_false_keeps_tls_proof. Qed.
Print Assumptions exclude_explicit_false_keeps_tls.

(* ... and likewise for use_tls_client_certs and use_message_receive_limit: a case that has a flag set survives every
   exclude entry that sets that flag to false. *)
Theorem exclude_explicit_false_keeps_flagged : forall cfg cs c,
  parse_config cfg = Ok cs ->
  (forall e, In e (cfg_excludes cfg) ->
     (e_tls e = Some false /\ c_tls c = true) \/ (C06_Model.e_certs e = Some false /\ c_certs c = true) \/
     (e_limit e = Some false /\ c_limit c = true)) ->
  (In c cs <-> in_features (defaulted (cfg_features cfg)) c \/
               exists e, In e (cfg_includes cfg) /\ matches (defaulted (cfg_features cfg)) e c).
Proof. exact exclude_explicit_false_keeps_flagged_proof. Qed.
Print Assumptions exclude_explicit_false_keeps_flagged.


(* ---- non-vacuity: concrete instances on both sides of the iffs ---- *)
Definition F0 := mkFeatures [] [] [] [] [] None None None None None None None.
Definition E0 := mkEntry 0 0 0 0 0 None None None.
Definition count (cfg : config) : option nat :=
  match parse_config cfg with Ok cs => Some (length (case_keys cs)) | Err => None end.

(* the default configuration is accepted and has the 464 cases the runner reports *)
Example ex_default_464 : count (mkConfig F0 [] []) = Some 464%nat.
Proof. vm_compute. reflexivity. Qed.

(* a concrete member of the specified set, obtained through the theorem *)
Example ex_member :
  spec_member (mkConfig F0 [] []) (mkCase H2 GRPC PROTO GZIP FULL true false false true 0).
Proof.
  set (c := mkCase H2 GRPC PROTO GZIP FULL true false false true 0).
  assert (M : match parse_config (mkConfig F0 [] []) with Ok cs => mem_case c cs | Err => false end = true)
    by (vm_compute; reflexivity).
  destruct (parse_config (mkConfig F0 [] [])) as [cs|] eqn:E; [|discriminate].
  apply (parse_ok_iff_proof _ cs E). apply mem_case_In. exact M.
Qed.

(* ... and a non-member: gRPC over HTTP/1.1 is in no configuration's set *)
Example ex_non_member : forall cfg,
  ~ spec_member cfg (mkCase H1 GRPC PROTO GZIP UNARY false false false false 0).
Proof.
  intros cfg H. apply spec_member_valid in H. destruct H as [(G & _) _]. specialize (G eq_refl). discriminate.
Qed.

(* an include entry adds cases that the features do not imply (HTTP/2 although only HTTP/1.1 is declared) *)
Example ex_include_extends :
  let cfg := mkConfig (mkFeatures [H1] [] [] [] [] None None None None None None None) [mkEntry H2 0 0 0 0 None None None] [] in
  count cfg = Some 288%nat /\ count (mkConfig (cfg_features cfg) [] []) = Some 144%nat.
Proof. vm_compute. auto. Qed.

(* an exclude entry removes cases *)
Example ex_exclude_removes :
  count (mkConfig F0 [] [mkEntry 0 GRPC 0 0 0 None None None]) = Some 384%nat.
Proof. vm_compute. reflexivity. Qed.

(* error side 1: contradictory (full-duplex declared with HTTP/1.1 only) *)
Example ex_contradictory :
  let cfg := mkConfig (mkFeatures [H1] [] [] [] [FULL] None None None None None None None) [] [] in
  parse_config cfg = Err /\ contradictory cfg.
Proof.
  split; [vm_compute; reflexivity|]. apply expand_err. vm_compute. reflexivity.
Qed.

(* error side 2: consistent but empty (everything excluded) *)
Example ex_empty_not_contradictory :
  let cfg := mkConfig F0 [] [E0] in
  parse_config cfg = Err /\ ~ contradictory cfg /\ (forall c, ~ spec_member cfg c).
Proof.
  split; [vm_compute; reflexivity|]. split.
  - intros H. apply expand_err in H. vm_compute in H. discriminate.
  - intros c Hc. assert (E : expand_config (mkConfig F0 [] [E0]) = Ok []) by (vm_compute; reflexivity).
    apply (expand_ok _ _ E c) in Hc. exact Hc.
Qed.

(* an entry-level contradiction: gRPC asked over HTTP/1.1 *)
Example ex_entry_contradictory :
  parse_config (mkConfig F0 [mkEntry H1 GRPC 0 0 0 None None None] []) = Err /\
  entry_contradictory (defaulted F0) (mkEntry H1 GRPC 0 0 0 None None None).
Proof.
  split; [vm_compute; reflexivity|]. apply resolve_case_err. vm_compute. reflexivity.
Qed.

(* use_tls_client_certs: false with use_tls: false is a legal entry (docs; repaired in /repo 6d7a288) *)
Example ex_certs_false_plain :
  count (mkConfig F0 [mkEntry 0 0 0 0 0 (Some false) (Some false) None] []) = Some 464%nat.
Proof. vm_compute. reflexivity. Qed.

(* small_case is inhabited by everything the default configuration returns *)
Example ex_small :
  match parse_config (mkConfig F0 [] []) with
  | Ok cs => forallb (fun c => (c_version c <? 16) && (c_protocol c <? 16) && (c_codec c <? 16)
                               && (c_compression c <? 16) && (c_stream c <? 16)) cs = true
  | Err => False end.
Proof. vm_compute. reflexivity. Qed.

(* ---- the loader: instances ---- *)
Definition one_case_cfg : config :=
  mkConfig (mkFeatures [H1] [CONNECT] [JSON] [IDENTITY] [UNARY] (Some false) (Some false) None None None (Some false) (Some false)) [] [].
Definition fs1 (o : fsobj) : bytes -> fsobj := fun p => if bytes_eqb p (bs "c.yaml") then o else Absent.
Definition load_count (d : doc) (conf : bytes) (o : fsobj) : option nat :=
  match run_load (decode_for d) conf (fs1 o) with Ok cs => Some (length (case_keys cs)) | Err => None end.

(* a regular file and a named pipe (reported size 0) with the same contents give the same single case;
   without --conf the same file system gives the 464 default cases *)
Example ex_load_regular : load_count (DMsg one_case_cfg) (bs "c.yaml") (Node 1 [1]) = Some 1%nat.
Proof. vm_compute. reflexivity. Qed.
Example ex_load_pipe : load_count (DMsg one_case_cfg) (bs "c.yaml") (Node 0 [1]) = Some 1%nat.
Proof. vm_compute. reflexivity. Qed.
Example ex_load_no_conf : load_count (DMsg one_case_cfg) [] (Node 1 [1]) = Some 464%nat.
Proof. vm_compute. reflexivity. Qed.
(* an empty file is the empty configuration *)
Example ex_load_empty_file : load_count DEmpty (bs "c.yaml") (Node 0 []) = Some 464%nat.
Proof. vm_compute. reflexivity. Qed.
(* the error side: undecodable (the message names the file already), missing, directory *)
Example ex_load_bad : undecodable (decode_for DBad) (bs "c.yaml") [2] /\ load_count DBad (bs "c.yaml") (Node 1 [2]) = None.
Proof. split; [split; [discriminate|eexists; reflexivity]|vm_compute; reflexivity]. Qed.
Example ex_load_missing : unreadable (bs "c.yaml") (fs1 Absent) /\ load_count DEmpty (bs "c.yaml") Absent = None.
Proof. split; [split; [discriminate|left; reflexivity]|vm_compute; reflexivity]. Qed.
Example ex_load_dir : load_count DEmpty (bs "c.yaml") Directory = None.
Proof. vm_compute. reflexivity. Qed.
(* both branches of the helper *)
Example ex_efn_already : ensure_file_name (bs "open c.yaml: gone") (bs "c.yaml") = Some (bs "open c.yaml: gone").
Proof. vm_compute. reflexivity. Qed.
Example ex_efn_wrapped : ensure_file_name (bs "gone") (bs "c.yaml") = Some (bs "c.yaml: gone").
Proof. vm_compute. reflexivity. Qed.

(* ---- fifth wave: instances ---- *)
(* `only` on lists that repeat the value, and on one that does not consist of it *)
Example ex_only_repeated : only [H1; H1] H1 = true /\ only [H1; H1; H1] H1 = true /\ only [H1] H1 = true /\
                           only [H1; H1; H2] H1 = false /\ only [] H1 = false.
Proof. vm_compute. auto. Qed.

(* versions: [HTTP_1, HTTP_1] is an accepted features block; a full-duplex include over it is rejected, and so is an
   undeclared half-duplex one; declared half-duplex is accepted *)
Definition F11 (half : option bool) := mkFeatures [H1; H1] [] [] [] [] None None None None half None None.
Example ex_repeated_http1 :
  count (mkConfig (F11 None) [] []) = Some 144%nat /\
  parse_config (mkConfig (F11 None) [mkEntry 0 0 0 0 FULL None None None] []) = Err /\
  parse_config (mkConfig (F11 None) [] [mkEntry 0 0 0 0 HALF None None None]) = Err /\
  count (mkConfig (F11 (Some true)) [mkEntry 0 0 0 0 HALF None None None] []) = Some 192%nat.
Proof. vm_compute. auto. Qed.
Example ex_repeated_http1_hyp : all_http1 (r_versions (defaulted (cfg_features (mkConfig (F11 None) [] [])))).
Proof. apply only_exact. vm_compute. reflexivity. Qed.

(* include {HTTP_1} then exclude {HTTP_1, use_tls: false}: the TLS cases over HTTP/1.1 stay; with the flag omitted in the
   exclude entry they go as well *)
Example ex_omitted_is_not_false :
  count (mkConfig F0 [mkEntry H1 0 0 0 0 None None None] [mkEntry H1 0 0 0 0 (Some false) None None]) <>
  count (mkConfig F0 [mkEntry H1 0 0 0 0 None None None] [mkEntry H1 0 0 0 0 None None None]).
Proof. vm_compute. discriminate. Qed.
