(* C13_Proofs.v — lemmas and proofs for C13_Props.v *)
From Coq Require Import Lia.
From V Require Import C13_Consts C13_Model C13_Spec.
Open Scope N_scope.

(* ====================================================================== *)
(* finite sweeps over the 256 byte values                                  *)
(* ====================================================================== *)
Definition all_bytes : list N := map N.of_nat (seq 0 256).

Lemma all_bytes_in c : c < 256 -> In c all_bytes.
Proof.
  intros H. unfold all_bytes. apply in_map_iff. exists (N.to_nat c). split.
  - apply Nnat.N2Nat.id.
  - apply in_seq. lia.
Qed.

Lemma sweep (P : N -> bool) : forallb P all_bytes = true -> forall c, c < 256 -> P c = true.
Proof. intros H c Hc. rewrite forallb_forall in H. apply H, all_bytes_in, Hc. Qed.

Definition opt_is (o : option N) (v : N) : bool := match o with Some x => x =? v | None => false end.
Definition printable (c : N) : bool := (32 <=? c) && (c <=? 126).

(* what PercentEncodeMessage's table lookups give for a byte *)
Definition esc_fact (c : N) : bool :=
  match hex_at (c / 16), hex_at (c mod 16) with
  | Done h, Done l =>
    is_hex h && is_hex l && opt_is (unhex h) (c / 16) && opt_is (unhex l) (c mod 16)
    && ((c / 16) * 16 + c mod 16 =? c) && printable h && printable l && negb (is_ws l)
  | _, _ => false
  end.
Lemma esc_fact_all : forall c, c < 256 -> esc_fact c = true.
Proof. apply sweep. vm_compute. reflexivity. Qed.

(* an unescaped byte is printable, not '%'; white space is escaped or a space *)
Definition plain_fact (c : N) : bool :=
  should_escape c || (printable c && negb (c =? 37) && negb (c =? 9) && is_value_char c).
Lemma plain_fact_all : forall c, c < 256 -> plain_fact c = true.
Proof. apply sweep. vm_compute. reflexivity. Qed.

Lemma printable_value c : printable c = true -> is_value_char c = true.
Proof.
  unfold printable, is_value_char. intros H. apply andb_true_iff in H as [H1 H2].
  apply N.leb_le in H1. apply N.leb_le in H2.
  destruct (N.eqb_spec c 9); simpl; [reflexivity|].
  destruct (N.ltb_spec c 32); [lia|]. destruct (N.eqb_spec c 127); [lia|]. reflexivity.
Qed.
Lemma printable_not_nl c : printable c = true -> c <> 10.
Proof. unfold printable. intros H E. subst c. discriminate H. Qed.

(* ====================================================================== *)
(* the grpc-message value: scanner silent, decodes back, survives trimming  *)
(* ====================================================================== *)
Definition ends_ok (e : bytes) : Prop := is_ws (hd 0 e) = false /\ is_ws (last e 0) = false.

Lemma scan_escaped h l t : is_hex h = true -> is_hex l = true ->
  scan_msg (37 :: h :: l :: t) 0 = scan_msg t 0.
Proof. intros Hh Hl. cbn. rewrite Hh. cbn. rewrite Hl. reflexivity. Qed.

Lemma last_cons_ne {A} (x : A) t d : t <> [] -> last (x :: t) d = last t d.
Proof. destruct t; [congruence|reflexivity]. Qed.

Lemma tm_loop_nonempty : forall r f t, tm_loop f r = Done t -> r <> [] -> t <> [].
Proof.
  intros [|c r] f t H NE; [congruence|]. cbn [tm_loop] in H.
  destruct (tm_loop false r); [|discriminate].
  destruct (should_escape c).
  - destruct (hex_at (c / 16)); [|discriminate]. destruct (hex_at (c mod 16)); [|discriminate].
    inversion H; discriminate.
  - destruct ((f || is_nil r) && (c =? 32)); inversion H; discriminate.
Qed.

Lemma tm_loop_ok : forall m first, Forall is_byte m ->
  exists e, tm_loop first m = Done e /\ scan_msg e 0 = [] /\ percent_decode e = Some m
            /\ forallb printable e = true
            /\ (first = true -> is_ws (hd 0 e) = false) /\ is_ws (last e 0) = false.
Proof.
  induction m as [|c r IH]; intros first HB.
  - exists []. cbn. repeat split; auto.
  - inversion HB as [|? ? Hc Hr]; subst.
    destruct (IH false Hr) as (t & Et & St & Dt & Pt & _ & Lt).
    pose proof (esc_fact_all c Hc) as EF. pose proof (plain_fact_all c Hc) as PF. unfold plain_fact in PF.
    cbn [tm_loop]. rewrite Et. unfold esc_fact in EF.
    destruct (hex_at (c / 16)) as [h|]; [|discriminate].
    destruct (hex_at (c mod 16)) as [l|]; [|discriminate].
    repeat (apply andb_true_iff in EF; destruct EF as [EF ?]).
    assert (Hdec : percent_decode (37 :: h :: l :: t) = Some (c :: r)).
    { cbn [percent_decode]. change (37 =? 37) with true. cbn match.
      unfold opt_is in *. destruct (unhex h) as [x|]; [|discriminate]. destruct (unhex l) as [y|]; [|discriminate].
      rewrite Dt. apply N.eqb_eq in H3. apply N.eqb_eq in H4. apply N.eqb_eq in H2. subst. rewrite H2. reflexivity. }
    assert (Hlast3 : forall x, is_ws (last (37 :: h :: x :: t) 0) = false -> True) by auto.
    assert (Hl3 : is_ws (last (37 :: h :: l :: t) 0) = false).
    { destruct t as [|t0 t']; [cbn; apply negb_true_iff; assumption|].
      rewrite !last_cons_ne by discriminate. exact Lt. }
    destruct (should_escape c) eqn:SE.
    + exists (37 :: h :: l :: t). split; [reflexivity|]. split; [rewrite scan_escaped; auto|].
      split; [exact Hdec|]. split; [cbn; rewrite H1, H0, Pt; reflexivity|]. split; [reflexivity|exact Hl3].
    + rewrite orb_false_l in PF. apply andb_true_iff in PF as [PF Pv]. apply andb_true_iff in PF as [PF P9].
      apply andb_true_iff in PF as [Pp P37].
      destruct ((first || is_nil r) && (c =? 32)) eqn:EDGE.
      * apply andb_true_iff in EDGE as [_ E32]. apply N.eqb_eq in E32. subst c.
        exists (37 :: 50 :: 48 :: t). split; [reflexivity|]. split; [rewrite scan_escaped; auto|].
        split; [cbn [percent_decode]; cbn; rewrite Dt; reflexivity|].
        split; [cbn; rewrite Pt; reflexivity|]. split; [reflexivity|].
        destruct t as [|t0 t']; [reflexivity|]. rewrite !last_cons_ne by discriminate. exact Lt.
      * exists (c :: t). split; [reflexivity|].
        split; [cbn; rewrite SE; destruct (c =? 37); [discriminate|exact St]|].
        split; [cbn [percent_decode]; destruct (c =? 37); [discriminate|rewrite Dt; reflexivity]|].
        split; [cbn; rewrite Pp, Pt; reflexivity|].
        assert (Wc : first || is_nil r = true -> is_ws c = false).
        { intros HF. rewrite HF in EDGE. cbn in EDGE. unfold is_ws. rewrite EDGE.
          apply negb_true_iff in P9. rewrite P9. reflexivity. }
        split.
        -- intros ->. cbn. apply Wc. reflexivity.
        -- destruct r as [|r0 r'].
           ++ cbn in Et. inversion Et; subst t. cbn. apply Wc. apply orb_true_r.
           ++ rewrite last_cons_ne; [exact Lt|]. eapply tm_loop_nonempty; [exact Et|discriminate].
Qed.

Lemma trailer_message_ok m : Forall is_byte m ->
  exists e, trailer_message m = Done e /\ scan_msg e 0 = [] /\ percent_decode e = Some m
            /\ forallb printable e = true /\ ends_ok e.
Proof.
  intros H. destruct (tm_loop_ok m true H) as (e & E & S & D & P & Hh & Hl).
  exists e. unfold trailer_message, ends_ok. auto 10.
Qed.

(* PercentEncodeMessage itself: scanner silent and url.PathUnescape gives the message back *)
Lemma pe_loop_ok : forall m, Forall is_byte m ->
  exists e, pe_loop m = Done e /\ scan_msg e 0 = [] /\ percent_decode e = Some m.
Proof.
  induction m as [|c r IH]; intros HB.
  - exists []. cbn. auto.
  - inversion HB as [|? ? Hc Hr]; subst. destruct (IH Hr) as (t & Et & St & Dt).
    pose proof (esc_fact_all c Hc) as EF. pose proof (plain_fact_all c Hc) as PF. unfold plain_fact in PF.
    cbn [pe_loop]. rewrite Et. unfold esc_fact in EF.
    destruct (hex_at (c / 16)) as [h|]; [|discriminate].
    destruct (hex_at (c mod 16)) as [l|]; [|discriminate].
    repeat (apply andb_true_iff in EF; destruct EF as [EF ?]).
    destruct (should_escape c) eqn:SE.
    + exists (37 :: h :: l :: t). split; [reflexivity|]. split; [rewrite scan_escaped; auto|].
      cbn [percent_decode]. change (37 =? 37) with true. cbn match.
      unfold opt_is in *. destruct (unhex h) as [x|]; [|discriminate]. destruct (unhex l) as [y|]; [|discriminate].
      rewrite Dt. apply N.eqb_eq in H3. apply N.eqb_eq in H4. apply N.eqb_eq in H2. subst. rewrite H2. reflexivity.
    + rewrite orb_false_l in PF. apply andb_true_iff in PF as [PF Pv]. apply andb_true_iff in PF as [PF P9].
      apply andb_true_iff in PF as [Pp P37]. apply negb_true_iff in P37.
      exists (c :: t). split; [reflexivity|].
      split; [cbn; rewrite SE, P37; exact St|]. cbn [percent_decode]. rewrite P37, Dt. reflexivity.
Qed.

Lemma no_escape_ok : forall m, filter should_escape m = [] -> Forall is_byte m ->
  scan_msg m 0 = [] /\ percent_decode m = Some m.
Proof.
  induction m as [|c r IH]; intros HF HB; [cbn; auto|].
  inversion HB as [|? ? Hc Hr]; subst. cbn [filter] in HF.
  destruct (should_escape c) eqn:SE; [discriminate|]. destruct (IH HF Hr) as [S D].
  pose proof (plain_fact_all c Hc) as PF. unfold plain_fact in PF. rewrite SE in PF. rewrite orb_false_l in PF.
  apply andb_true_iff in PF as [PF Pv]. apply andb_true_iff in PF as [PF P9].
  apply andb_true_iff in PF as [Pp P37]. apply negb_true_iff in P37.
  split; [cbn; rewrite SE, P37; exact S|]. cbn [percent_decode]. rewrite P37, D. reflexivity.
Qed.

Lemma percent_scan_ok_proof : forall m, Forall is_byte m ->
  exists e, percent_encode m = Done e /\ scan_msg e 0 = [] /\ percent_decode e = Some m.
Proof.
  intros m HB. unfold percent_encode.
  destruct (filter should_escape m) eqn:F.
  - cbn. exists m. destruct (no_escape_ok m F HB). auto.
  - cbn [length]. replace (N.of_nat (S (length l)) =? 0) with false
      by (symmetry; apply N.eqb_neq; lia). apply pe_loop_ok, HB.
Qed.

Lemma trailer_message_scan_ok_proof : forall m, Forall is_byte m ->
  exists e, trailer_message m = Done e /\ scan_msg e 0 = [] /\ percent_decode e = Some m.
Proof. intros m H. destruct (trailer_message_ok m H) as (e & ? & ? & ? & _). eauto. Qed.

(* ====================================================================== *)
(* trimming                                                                *)
(* ====================================================================== *)
Lemma rev_last (e : bytes) : e <> [] -> rev e = last e 0 :: rev (removelast e).
Proof.
  intros NE. rewrite (app_removelast_last 0 NE) at 1. rewrite rev_app_distr. reflexivity.
Qed.

Lemma trim_left_id e : is_ws (hd 0 e) = false -> trim_left_ws e = e.
Proof. destruct e as [|c r]; [reflexivity|]. cbn. intros ->. reflexivity. Qed.

Lemma rev_lin_rev {A} (l : list A) : rev_lin l = rev l.
Proof. unfold rev_lin. symmetry. apply rev_alt. Qed.
Lemma trim_ws_eq s : trim_ws s = rev (trim_left_ws (rev (trim_left_ws s))).
Proof. unfold trim_ws. rewrite !rev_lin_rev. reflexivity. Qed.
Lemma ends_cr_eq s : ends_cr s = match rev s with 13 :: _ => true | _ => false end.
Proof. unfold ends_cr. rewrite rev_lin_rev. reflexivity. Qed.
Lemma strip_cr_eq s : strip_cr s = match rev s with 13 :: r => rev r | _ => s end.
Proof. unfold strip_cr. rewrite rev_lin_rev. destruct (rev s) as [|x t]; [reflexivity|]. rewrite rev_lin_rev. reflexivity. Qed.

Lemma trim_ws_ends e : ends_ok e -> trim_ws e = e.
Proof.
  intros [Hh Hl]. rewrite trim_ws_eq. rewrite (trim_left_id e Hh).
  destruct e as [|c r]; [reflexivity|].
  rewrite (rev_last (c :: r)) by discriminate. cbn [trim_left_ws]. rewrite Hl.
  rewrite <- rev_last by discriminate. apply rev_involutive.
Qed.

(* the value of a rendered "name: value" line, as the parser trims it *)
Lemma trim_sp_ends e : ends_ok e -> trim_ws (32 :: e) = e.
Proof.
  intros H. destruct e as [|c r]; [reflexivity|].
  pose proof (trim_ws_ends (c :: r) H) as T. rewrite trim_ws_eq in T.
  rewrite trim_ws_eq. cbn [trim_left_ws] in *. change (is_ws 32) with true. cbn match. exact T.
Qed.

Lemma ends_ok_forall e : forallb (fun c => negb (is_ws c)) e = true -> ends_ok e.
Proof.
  intros H. split.
  - destruct e as [|c r]; [reflexivity|]. cbn in H. apply andb_true_iff in H as [H _].
    apply negb_true_iff in H. exact H.
  - destruct e as [|c r]; [reflexivity|].
    assert (In (last (c :: r) 0) (c :: r)).
    { rewrite (app_removelast_last 0 (l := c :: r)) at 2 by discriminate. apply in_or_app. right. left. reflexivity. }
    rewrite forallb_forall in H. apply negb_true_iff, H, H0.
Qed.

Lemma forallb_rev {A} (f : A -> bool) l : forallb f (rev l) = forallb f l.
Proof.
  induction l as [|x l IH]; [reflexivity|]. cbn. rewrite forallb_app, IH. cbn.
  rewrite andb_true_r. apply andb_comm.
Qed.
Lemma forallb_trim_left f s : forallb f s = true -> forallb f (trim_left_ws s) = true.
Proof.
  induction s as [|c r IH]; [auto|]. cbn. intros H. apply andb_true_iff in H as [Hc Hr].
  destruct (is_ws c); [auto|]. cbn. rewrite Hc, Hr. reflexivity.
Qed.
Lemma forallb_trim f s : forallb f s = true -> forallb f (trim_ws s) = true.
Proof.
  intros H. rewrite trim_ws_eq. rewrite forallb_rev. apply forallb_trim_left.
  rewrite forallb_rev. apply forallb_trim_left, H.
Qed.

(* ====================================================================== *)
(* base64: decode (encode d) = d                                           *)
(* ====================================================================== *)
From Coq Require Import ZifyN.
Ltac dm := zify; Z.div_mod_to_equations; lia.

Lemma list_ind3 {A} (P : list A -> Prop) :
  P [] -> (forall a, P [a]) -> (forall a b, P [a; b]) ->
  (forall a b c r, P r -> P (a :: b :: c :: r)) -> forall l, P l.
Proof.
  intros H0 H1 H2 H3. fix IH 1. intros [|a [|b [|c r]]]; [exact H0|apply H1|apply H2|apply H3, IH].
Qed.

Definition b64_char_fact (n : N) : bool :=
  negb (n <? 64) ||
  (opt_is (b64_val (b64_char n)) n && printable (b64_char n) && negb (is_ws (b64_char n))
   && negb (is_newline (b64_char n))).
Lemma b64_char_all n : n < 64 ->
  b64_val (b64_char n) = Some n /\ printable (b64_char n) = true /\ is_ws (b64_char n) = false
  /\ is_newline (b64_char n) = false.
Proof.
  intros H. assert (F : b64_char_fact n = true) by (apply sweep; [vm_compute; reflexivity|lia]).
  unfold b64_char_fact in F. destruct (N.ltb_spec n 64); [|lia]. cbn [negb andb orb] in F.
  repeat (apply andb_true_iff in F; destruct F as [F ?]).
  unfold opt_is in F. destruct (b64_val (b64_char n)); [|discriminate]. apply N.eqb_eq in F. subst.
  repeat split; auto; apply negb_true_iff; assumption.
Qed.

Definition b64_okc (c : N) : bool := printable c && negb (is_ws c) && negb (is_newline c).

Lemma b64_step t n : n < 64 -> forallb b64_okc t = true ->
  forallb b64_okc (b64_char n :: t) = true.
Proof.
  intros H Ht. destruct (b64_char_all n H) as (_ & P & W & NL). cbn. unfold b64_okc at 1.
  rewrite P, W, NL, Ht. reflexivity.
Qed.

Lemma b64_vals_cons n t l : n < 64 -> b64_vals t = Some l -> b64_vals (b64_char n :: t) = Some (n :: l).
Proof. intros H E. destruct (b64_char_all n H) as (V & _). cbn. rewrite V, E. reflexivity. Qed.

Lemma b64_roundtrip_nonl : forall d, Forall is_byte d ->
  b64_raw_nonl (b64_encode d) = Some d /\ forallb b64_okc (b64_encode d) = true.
Proof.
  unfold b64_raw_nonl.
  induction d as [| a | a b | a b c r IH] using list_ind3; intros HB.
  - cbn. auto.
  - inversion HB as [|? ? Ha _]; subst. unfold is_byte in Ha. cbn [b64_encode]. split.
    + rewrite (b64_vals_cons (a / 4) _ [(a mod 4) * 16]);
        [|dm|apply b64_vals_cons; [dm|reflexivity]].
      cbn. f_equal. f_equal. dm.
    + repeat (apply b64_step; [dm|]). reflexivity.
  - inversion HB as [|? ? Ha HB']; subst. inversion HB' as [|? ? Hb _]; subst. unfold is_byte in *.
    cbn [b64_encode]. split.
    + rewrite (b64_vals_cons (a / 4) _ [(a mod 4) * 16 + b / 16; (b mod 16) * 4]);
        [|dm|apply b64_vals_cons; [dm|]; apply b64_vals_cons; [dm|reflexivity]].
      cbn. f_equal. f_equal; [dm|]. f_equal. dm.
    + repeat (apply b64_step; [dm|]). reflexivity.
  - inversion HB as [|? ? Ha HB']; subst. inversion HB' as [|? ? Hb HB'']; subst.
    inversion HB'' as [|? ? Hc Hr]; subst. unfold is_byte in *.
    destruct (IH Hr) as [IH1 IH2]. cbn [b64_encode]. split.
    + destruct (b64_vals (b64_encode r)) as [l|] eqn:EV; [|discriminate].
      rewrite (b64_vals_cons (a / 4) _ ((a mod 4) * 16 + b / 16 :: (b mod 16) * 4 + c / 64 :: c mod 64 :: l));
        [|dm|apply b64_vals_cons; [dm|]; apply b64_vals_cons; [dm|]; apply b64_vals_cons; [dm|exact EV]].
      cbn [b64_groups]. rewrite IH1. f_equal. f_equal; [dm|]. f_equal; [dm|]. f_equal. dm.
    + repeat (apply b64_step; [dm|]). exact IH2.
Qed.

Lemma filter_id {A} (f : A -> bool) l : forallb f l = true -> filter f l = l.
Proof.
  induction l as [|x l IH]; [reflexivity|]. cbn. intros H. apply andb_true_iff in H as [Hx Hl].
  rewrite Hx, IH by exact Hl. reflexivity.
Qed.

Lemma forallb_impl {A} (f g : A -> bool) l :
  (forall x, f x = true -> g x = true) -> forallb f l = true -> forallb g l = true.
Proof. intros H. rewrite !forallb_forall. auto. Qed.

Lemma b64_roundtrip d : Forall is_byte d ->
  b64_decode_raw (b64_encode d) = Some d /\ forallb printable (b64_encode d) = true
  /\ ends_ok (b64_encode d).
Proof.
  intros HB. destruct (b64_roundtrip_nonl d HB) as [R OK]. unfold b64_decode_raw, strip_nl.
  rewrite filter_id.
  - split; [exact R|]. split.
    + eapply forallb_impl; [|exact OK]. unfold b64_okc. intros x H.
      apply andb_true_iff in H as [H _]. apply andb_true_iff in H as [H _]. exact H.
    + apply ends_ok_forall. eapply forallb_impl; [|exact OK]. unfold b64_okc. intros x H.
      apply andb_true_iff in H as [H _]. apply andb_true_iff in H as [_ H]. exact H.
  - eapply forallb_impl; [|exact OK]. unfold b64_okc. intros x H. apply andb_true_iff in H as [_ H]. exact H.
Qed.

(* ====================================================================== *)
(* the decimal status code                                                 *)
(* ====================================================================== *)
Definition code_fact (c : N) : bool :=
  negb ((1 <=? c) && (c <=? 16)) ||
  (match atoi (dec_of_N c) with Some z => (z =? Z.of_N c)%Z | None => false end
   && forallb printable (dec_of_N c) && forallb (fun x => negb (is_ws x)) (dec_of_N c)).
Lemma code_ok c : 1 <= c <= 16 ->
  atoi (dec_of_N c) = Some (Z.of_N c) /\ forallb printable (dec_of_N c) = true /\ ends_ok (dec_of_N c).
Proof.
  intros [H1 H2]. assert (F : code_fact c = true) by (apply sweep; [vm_compute; reflexivity|lia]).
  unfold code_fact in F. destruct (N.leb_spec 1 c); [|lia]. destruct (N.leb_spec c 16); [|lia]. cbn [negb andb orb] in F.
  apply andb_true_iff in F as [F W]. apply andb_true_iff in F as [F P].
  destruct (atoi (dec_of_N c)) as [z|]; [|discriminate]. apply Z.eqb_eq in F. subst z.
  split; [reflexivity|]. split; [exact P|]. apply ends_ok_forall, W.
Qed.

(* ====================================================================== *)
(* checkGRPCStatus is silent on an agreeing status trio                     *)
(* ====================================================================== *)
Lemma check_status_silent unmarshal h d c pm msg :
  hget h k_status = [d] -> atoi d = Some (Z.of_N c) -> 1 <= c <= 16 ->
  hget h k_message = [pm] -> scan_msg pm 0 = [] -> percent_decode pm = Some msg ->
  (hget h k_details = [] \/
   exists b data nd, hget h k_details = [b] /\ b64_decode_raw b = Some data /\
                     unmarshal data = UOk (to_i32 (Z.of_N c)) msg nd) ->
  check_grpc_status unmarshal h = Done [].
Proof.
  intros Hs Ha Hc Hm Hsc Hpd Hd. unfold check_grpc_status. rewrite Hs, Hm. cbn [length Nat.ltb Nat.leb Nat.eqb].
  rewrite Ha.
  assert (R : ((Z.of_N c <? 0)%Z || (16 <? Z.of_N c)%Z) = false).
  { apply orb_false_iff. split; [apply Z.ltb_ge|apply Z.ltb_ge]; lia. }
  rewrite R. rewrite Hsc, Hpd.
  assert (NZ : (Z.of_N c =? 0)%Z = false) by (apply Z.eqb_neq; lia). rewrite NZ. cbn [andb app].
  destruct Hd as [Hd | (b & data & nd & Hd & Hb & Hu)]; rewrite Hd; cbn [length Nat.ltb Nat.leb Nat.eqb app].
  - reflexivity.
  - unfold check_details. rewrite Hb, Hu. rewrite Z.eqb_refl.
    assert (NZ' : (to_i32 (Z.of_N c) =? 0)%Z = false).
    { apply Z.eqb_neq. unfold to_i32, two32, two31.
      rewrite Z.mod_small by lia. destruct (Z.ltb_spec (Z.of_N c) 2147483648); lia. }
    rewrite NZ'. rewrite bytes_eqb_refl. reflexivity.
Qed.

(* ====================================================================== *)
(* gRPC: the status trailers as net/http delivers them                      *)
(* ====================================================================== *)
Lemma to_map2 d e :
  to_map [(bs "grpc-status", [d]); (bs "grpc-message", [e])] = [(k_status, [d]); (k_message, [e])].
Proof. reflexivity. Qed.
Lemma to_map3 d e b :
  to_map [(bs "grpc-status", [d]); (bs "grpc-message", [e]); (bs "grpc-status-details-bin", [b])]
  = [(k_status, [d]); (k_message, [e]); (k_details, [b])].
Proof. reflexivity. Qed.

Lemma grpc_clean_proof : forall marshal unmarshal code msg details,
  proto_roundtrip marshal unmarshal -> 1 <= code <= 16 -> Forall is_byte msg ->
  exists st, grpc_status_trailers marshal code msg details = Done st /\
             check_grpc_status unmarshal (to_map st) = Done [].
Proof.
  intros marshal unmarshal code msg details RT Hc HB.
  destruct (trailer_message_ok msg HB) as (e & E & S & D & _ & _).
  destruct (code_ok code Hc) as (A & _ & _).
  unfold grpc_status_trailers. rewrite E.
  destruct (Nat.ltb 0 (length details)).
  - destruct (marshal _ _ _) as [data|] eqn:M.
    + destruct (RT _ _ _ _ M) as [U DB]. destruct (b64_roundtrip data DB) as (R & _ & _).
      eexists. split; [reflexivity|]. cbn [app]. rewrite to_map3.
      eapply check_status_silent; try reflexivity; eauto.
      right. exists (b64_encode data), data. eexists. split; [reflexivity|]. split; [exact R|]. exact U.
    + eexists. split; [reflexivity|]. cbn [app]. rewrite to_map2.
      eapply check_status_silent; try reflexivity; eauto.
  - eexists. split; [reflexivity|]. cbn [app]. rewrite to_map2.
    eapply check_status_silent; try reflexivity; eauto.
Qed.

(* ====================================================================== *)
(* gRPC-Web: the rendered trailer block parses silently                     *)
(* ====================================================================== *)
Definition token_fact (c : N) : bool :=
  is_token_char c && is_token_char (lower_byte c) && negb (is_ws (lower_byte c))
  && negb (lower_byte c =? 58) && negb (lower_byte c =? 10) && negb (is_upper (lower_byte c))
  && is_ascii (lower_byte c).
Lemma tchar_fact c : tchar c -> token_fact c = true.
Proof.
  unfold tchar. intros H.
  assert (F : forallb token_fact (bs "!#$%&'*+-.^_`|~0123456789abcdefghijklmnopqrstuvwxyzABCDEFGHIJKLMNOPQRSTUVWXYZ") = true)
    by (vm_compute; reflexivity).
  rewrite forallb_forall in F. apply F, H.
Qed.

Lemma vchar_fact c : vchar c -> is_value_char c = true /\ c <> 10.
Proof.
  unfold vchar, is_value_char. intros [->|[H1 H2]]; [split; [reflexivity|discriminate]|]. split; [|lia].
  destruct (N.eqb_spec c 9); [reflexivity|]. cbn [negb andb].
  destruct (N.ltb_spec c 32); [lia|]. destruct (N.eqb_spec c 127); [lia|]. reflexivity.
Qed.

Definition good_pair (nv : bytes * bytes) : Prop :=
  Forall (fun c => token_fact c = true) (fst nv) /\ Forall vchar (snd nv).
Definition mkline (nv : bytes * bytes) : bytes := lower (fst nv) ++ 58 :: 32 :: snd nv.
Definition pairs_of (hs : list header) : list (bytes * bytes) :=
  flat_map (fun h => map (pair (fst h)) (snd h)) hs.
Definition addp (m : hmap) (nv : bytes * bytes) : hmap :=
  happend m (canonical_key (lower (fst nv))) (trim_ws (32 :: snd nv)).

Lemma render_line_eq n v : render_line n v = (mkline (n, v) ++ [13]) ++ [10].
Proof. unfold render_line, mkline. cbn [fst snd]. rewrite <- !app_assoc. reflexivity. Qed.

Lemma render_block_pairs hs :
  render_block hs = flat_map (fun nv => (mkline nv ++ [13]) ++ [10]) (pairs_of hs).
Proof.
  unfold render_block, pairs_of. induction hs as [|h hs IH]; [reflexivity|].
  cbn [flat_map]. rewrite flat_map_app, IH. f_equal.
  unfold render_header. induction (snd h) as [|v vs IHv]; [reflexivity|].
  cbn [flat_map map]. rewrite IHv, render_line_eq. reflexivity.
Qed.

Lemma lower_token n : Forall (fun c => token_fact c = true) n ->
  forallb is_token_char (lower n) = true /\ ~ In 58 (lower n) /\ ~ In 10 (lower n)
  /\ existsb is_upper (lower n) = false /\ forallb is_ascii (lower n) = true /\ starts_ws (lower n) = false.
Proof.
  induction 1 as [|c r Hc Hr IH]; [cbn; intuition|].
  pose proof Hc as F. unfold token_fact in F.
  repeat (apply andb_true_iff in F; destruct F as [F ?]).
  destruct IH as (I1 & I2 & I3 & I4 & I5 & _).
  apply negb_true_iff in H0, H1, H2, H3. apply N.eqb_neq in H1, H2.
  change (lower (c :: r)) with (lower_byte c :: lower r). cbn [forallb existsb starts_ws].
  rewrite H4, I1, H0, I4, H, I5. repeat split; auto.
  - intros [E|E]; [congruence|auto].
  - intros [E|E]; [congruence|auto].
Qed.

Lemma good_line_nosep nv : good_pair nv -> no_sep 10 (mkline nv ++ [13]).
Proof.
  intros [Hn Hv]. destruct (lower_token _ Hn) as (_ & _ & N10 & _).
  unfold no_sep, mkline. intros HI. apply in_app_or in HI as [HI|[HI|[]]]; [|discriminate].
  apply in_app_or in HI as [HI|[HI|[HI|HI]]]; [auto|discriminate|discriminate|].
  rewrite Forall_forall in Hv. destruct (vchar_fact _ (Hv _ HI)) as [_ NE]. congruence.
Qed.

Lemma split_lines ps : Forall good_pair ps ->
  split_on 10 (flat_map (fun nv => (mkline nv ++ [13]) ++ [10]) ps) = map (fun nv => mkline nv ++ [13]) ps ++ [[]].
Proof.
  induction 1 as [|nv ps Hg Hr IH]; [reflexivity|].
  cbn [flat_map map app]. rewrite <- app_assoc. cbn [app].
  rewrite split_on_app by (apply good_line_nosep, Hg). rewrite IH. reflexivity.
Qed.

Lemma cut_colon_app a r : ~ In 58 a -> cut_colon (a ++ 58 :: r) = Some (a, r).
Proof.
  induction a as [|c a IH]; intros H; [reflexivity|]. cbn.
  destruct (N.eqb_spec c 58) as [->|_]; [exfalso; apply H; left; reflexivity|].
  rewrite IH; [reflexivity|]. intros HI. apply H. right. exact HI.
Qed.

Lemma ends_cr_app x : ends_cr (x ++ [13]) = true /\ strip_cr (x ++ [13]) = x.
Proof. rewrite ends_cr_eq, strip_cr_eq. rewrite rev_app_distr. cbn. split; [reflexivity|apply rev_involutive]. Qed.

Lemma value_ok v : Forall vchar v -> valid_field_value (trim_ws (32 :: v)) = true.
Proof.
  intros H. apply forallb_trim. cbn. apply forallb_forall. intros c Hc.
  rewrite Forall_forall in H. apply vchar_fact, H, Hc.
Qed.

(* one well-formed line, not the last one, no blank line seen so far *)
Lemma eos_step_good n i nv s : good_pair nv -> Nat.eqb (i + 1) n = false -> e_blanks s = 0%nat ->
  eos_step n i (mkline nv ++ [13]) s =
  Done (mk_est (addp (e_tr s) nv) (e_nocr s) 0%nat (e_crlf s) (e_blank_end s) (e_folds s)
               (canonical_key (lower (fst nv))) (e_out s)).
Proof.
  intros [Hn Hv] Hi Hb. destruct (lower_token _ Hn) as (T & C58 & _ & U & A & W).
  destruct (ends_cr_app (mkline nv)) as [EC SC].
  unfold eos_step. rewrite Hi. cbn [andb]. rewrite EC, SC.
  assert (NN : is_nil (mkline nv) = false) by (unfold mkline; destruct (lower (fst nv)); reflexivity).
  rewrite NN. unfold split_n2, mkline at 1. rewrite cut_colon_app by exact C58.
  rewrite W, andb_false_r. unfold field_fb, valid_field_name, not_lower.
  rewrite T, U, A, (value_ok _ Hv), Hb. cbn [andb app]. rewrite app_nil_r. reflexivity.
Qed.

Lemma eos_loop_good : forall ps n i s, Forall good_pair ps -> e_blanks s = 0%nat ->
  n = (i + length ps + 1)%nat ->
  exists prev, eos_loop n i (map (fun nv => mkline nv ++ [13]) ps ++ [[]]) s =
    Done (mk_est (fold_left addp ps (e_tr s)) (e_nocr s) 0%nat true (e_blank_end s) (e_folds s) prev (e_out s)).
Proof.
  induction ps as [|nv ps IH]; intros n i s HG Hb Hn.
  - cbn [map app eos_loop length] in *. unfold eos_step.
    replace (Nat.eqb (i + 1) n) with true by (symmetry; apply Nat.eqb_eq; lia).
    cbn [andb is_nil fold_left]. rewrite Hb. eexists. reflexivity.
  - inversion HG as [|? ? Hg HG']; subst. cbn [map app eos_loop length].
    rewrite eos_step_good; [|exact Hg|apply Nat.eqb_neq; cbn [length]; lia|exact Hb].
    destruct (IH (i + S (length ps) + 1)%nat (S i)
                 (mk_est (addp (e_tr s) nv) (e_nocr s) 0%nat (e_crlf s) (e_blank_end s) (e_folds s)
                         (canonical_key (lower (fst nv))) (e_out s)) HG' eq_refl) as [prev E];
      [cbn [length]; lia|].
    cbn [length]. rewrite E. cbn [e_tr e_nocr e_crlf e_blank_end e_folds e_out fold_left]. eexists. reflexivity.
Qed.

Lemma examine_block_good hs : Forall good_pair (pairs_of hs) ->
  examine_grpc_end_stream (render_block hs) = Done ([], fold_left addp (pairs_of hs) []).
Proof.
  intros HG. unfold examine_grpc_end_stream. rewrite render_block_pairs, split_lines by exact HG. cbv zeta.
  destruct (eos_loop_good (pairs_of hs) (length (map (fun nv => mkline nv ++ [13]) (pairs_of hs) ++ [[]])) 0 est0 HG eq_refl)
    as [prev E].
  { rewrite app_length, map_length. cbn. lia. }
  match goal with |- match ?X with Done _ => _ | Crash => _ end = _ =>
    let EX := fresh in pose proof (E : X = _) as EX; rewrite EX end.
  reflexivity.
Qed.

(* ---------- the parsed map: the status trio first, user trailers never touch it ---------- *)
Lemma hget_hput_other m k k' vs : k <> k' -> hget (hput m k' vs) k = hget m k.
Proof.
  intros NE. induction m as [|[k0 v0] m IH]; cbn.
  - destruct (bytes_eqb_spec k k'); [congruence|reflexivity].
  - destruct (bytes_eqb_spec k' k0) as [->|N0]; cbn.
    + destruct (bytes_eqb_spec k k0); [congruence|reflexivity].
    + destruct (bytes_eqb_spec k k0); [reflexivity|exact IH].
Qed.

Lemma hget_fold_other : forall ps m k,
  (forall nv, In nv ps -> canonical_key (lower (fst nv)) <> k) ->
  hget (fold_left addp ps m) k = hget m k.
Proof.
  induction ps as [|nv ps IH]; intros m k H; [reflexivity|]. cbn [fold_left].
  rewrite IH by (intros; apply H; right; assumption).
  unfold addp, happend. apply hget_hput_other. intros E. apply (H nv); [left; reflexivity|auto].
Qed.

Lemma lower_upper_byte c : lower_byte (upper_byte c) = lower_byte c.
Proof.
  unfold lower_byte, upper_byte.
  destruct (N.leb_spec 97 c), (N.leb_spec c 122); cbn [andb];
    repeat match goal with |- context [N.leb ?a ?b] => destruct (N.leb_spec a b) end; cbn [andb]; lia.
Qed.
Lemma lower_lower_byte c : lower_byte (lower_byte c) = lower_byte c.
Proof.
  unfold lower_byte.
  destruct (N.leb_spec 65 c), (N.leb_spec c 90); cbn [andb];
    repeat match goal with |- context [N.leb ?a ?b] => destruct (N.leb_spec a b) end; cbn [andb]; lia.
Qed.
Lemma lower_canon_go : forall x up, lower (canon_go up x) = lower x.
Proof.
  induction x as [|c r IH]; intros up; [reflexivity|]. cbn [canon_go].
  change (lower (?a :: ?b)) with (lower_byte a :: lower b). rewrite IH. f_equal.
  destruct up; [apply lower_upper_byte|apply lower_lower_byte].
Qed.
Lemma lower_canonical x : lower (canonical_key x) = lower x.
Proof. unfold canonical_key. destruct (forallb is_token_char x); [apply lower_canon_go|reflexivity]. Qed.
Lemma lower_idem x : lower (lower x) = lower x.
Proof. unfold lower. rewrite map_map. apply map_ext, lower_lower_byte. Qed.

Lemma user_key_not_status n k : ~ In (lower n) status_names -> In (lower k) status_names ->
  canonical_key (lower n) <> k.
Proof.
  intros HN HK E. apply HN. rewrite <- E in HK. rewrite lower_canonical, lower_idem in HK. exact HK.
Qed.

Lemma printable_vchar c : printable c = true -> vchar c.
Proof.
  unfold printable, vchar. intros H. apply andb_true_iff in H as [H1 H2].
  apply N.leb_le in H1. apply N.leb_le in H2. right. lia.
Qed.
Lemma printable_all_vchar e : forallb printable e = true -> Forall vchar e.
Proof. rewrite forallb_forall, Forall_forall. intros H c Hc. apply printable_vchar, H, Hc. Qed.

Lemma status_name_token n : In n status_names -> Forall (fun c => token_fact c = true) n.
Proof.
  intros H. apply Forall_forall. intros c Hc.
  assert (F : forallb (forallb token_fact) status_names = true) by (vm_compute; reflexivity).
  rewrite forallb_forall in F. specialize (F n H). rewrite forallb_forall in F. apply F, Hc.
Qed.

Lemma in_pairs_of nv hs : In nv (pairs_of hs) -> exists h, In h hs /\ fst nv = fst h /\ In (snd nv) (snd h).
Proof.
  unfold pairs_of. intros H. apply in_flat_map in H as (h & Hh & Hin).
  apply in_map_iff in Hin as (v & <- & Hv). exists h. auto.
Qed.

Lemma wf_meta_good hs : wf_meta hs -> Forall good_pair (pairs_of hs).
Proof.
  intros W. apply Forall_forall. intros nv Hin. destruct (in_pairs_of _ _ Hin) as (h & Hh & En & Hv).
  unfold wf_meta in W. rewrite Forall_forall in W. destruct (W h Hh) as (T & _ & V).
  split.
  - rewrite En. apply Forall_forall. intros c Hc. rewrite Forall_forall in T. apply tchar_fact, T, Hc.
  - rewrite Forall_forall in V. apply V, Hv.
Qed.

Lemma fold2 d e : fold_left addp [(bs "grpc-status", d); (bs "grpc-message", e)] []
  = [(k_status, [trim_ws (32 :: d)]); (k_message, [trim_ws (32 :: e)])].
Proof. reflexivity. Qed.
Lemma fold3 d e b :
  fold_left addp [(bs "grpc-status", d); (bs "grpc-message", e); (bs "grpc-status-details-bin", b)] []
  = [(k_status, [trim_ws (32 :: d)]); (k_message, [trim_ws (32 :: e)]); (k_details, [trim_ws (32 :: b)])].
Proof. reflexivity. Qed.

Lemma status_keys : In (lower k_status) status_names /\ In (lower k_message) status_names
                    /\ In (lower k_details) status_names.
Proof. vm_compute. tauto. Qed.

Lemma grpc_web_clean_proof : forall marshal unmarshal code msg details trailers,
  proto_roundtrip marshal unmarshal -> 1 <= code <= 16 -> Forall is_byte msg -> wf_meta trailers ->
  exists blk parsed,
    grpc_web_end_stream marshal code msg details trailers = Done blk /\
    examine_grpc_end_stream blk = Done ([], parsed) /\
    check_grpc_status unmarshal parsed = Done [].
Proof.
  intros marshal unmarshal code msg details trailers RT Hc HB WF.
  destruct (trailer_message_ok msg HB) as (e & E & S & D & Pe & Ee).
  destruct (code_ok code Hc) as (A & Pd & Ed).
  destruct status_keys as (KS & KM & KD).
  pose proof (wf_meta_good _ WF) as GU.
  assert (OTHER : forall k, In (lower k) status_names ->
            forall nv, In nv (pairs_of trailers) -> canonical_key (lower (fst nv)) <> k).
  { intros k Hk nv Hin. destruct (in_pairs_of _ _ Hin) as (h & Hh & En & _).
    unfold wf_meta in WF. rewrite Forall_forall in WF. destruct (WF h Hh) as (_ & NS & _).
    rewrite En. apply user_key_not_status; assumption. }
  assert (G1 : good_pair (bs "grpc-status", dec_of_N code)).
  { split; [apply status_name_token; left; reflexivity|apply printable_all_vchar, Pd]. }
  assert (G2 : good_pair (bs "grpc-message", e)).
  { split; [apply status_name_token; right; left; reflexivity|apply printable_all_vchar, Pe]. }
  unfold grpc_web_end_stream, grpc_status_trailers. rewrite E.
  set (base := [(bs "grpc-status", [dec_of_N code]); (bs "grpc-message", [e])]).
  assert (CASE : forall extra b,
     (extra = [] \/ exists data nd, extra = [(bs "grpc-status-details-bin", [b64_encode data])] /\ b = b64_encode data /\
                     Forall is_byte data /\ unmarshal data = UOk (to_i32 (Z.of_N code)) msg nd) ->
     exists parsed, examine_grpc_end_stream (render_block ((base ++ extra) ++ trailers)) = Done ([], parsed) /\
                    check_grpc_status unmarshal parsed = Done []).
  { intros extra b [->|(data & nd & -> & -> & DB & U)].
    - eexists. split.
      + apply examine_block_good. unfold pairs_of. rewrite flat_map_app. apply Forall_app. split; [|exact GU].
        cbn [base app flat_map map fst snd]. repeat (apply Forall_cons; [assumption|]). apply Forall_nil.
      + unfold pairs_of at 1. rewrite flat_map_app, fold_left_app. cbn [base app flat_map map fst snd].
        rewrite fold2. rewrite !trim_sp_ends by assumption.
        eapply check_status_silent; try (rewrite hget_fold_other by (apply OTHER; assumption)); try reflexivity; eauto.
        all: try (left; try rewrite hget_fold_other by (apply OTHER; assumption); reflexivity).
    - destruct (b64_roundtrip data DB) as (R & Pb & Eb).
      assert (G3 : good_pair (bs "grpc-status-details-bin", b64_encode data)).
      { split; [apply status_name_token; right; right; left; reflexivity|apply printable_all_vchar, Pb]. }
      eexists. split.
      + apply examine_block_good. unfold pairs_of. rewrite flat_map_app. apply Forall_app. split; [|exact GU].
        cbn [base app flat_map map fst snd]. repeat (apply Forall_cons; [assumption|]). apply Forall_nil.
      + unfold pairs_of at 1. rewrite flat_map_app, fold_left_app. cbn [base app flat_map map fst snd].
        rewrite fold3. rewrite !trim_sp_ends by assumption.
        eapply check_status_silent; try (rewrite hget_fold_other by (apply OTHER; assumption)); try reflexivity; eauto.
        all: try (right; exists (b64_encode data), data, nd; try rewrite hget_fold_other by (apply OTHER; assumption);
                  split; [reflexivity|]; split; [exact R|exact U]).
        }
  destruct (Nat.ltb 0 (length details)).
  - destruct (marshal _ _ _) as [data|] eqn:M.
    + destruct (RT _ _ _ _ M) as [U DB].
      destruct (CASE [(bs "grpc-status-details-bin", [b64_encode data])] (b64_encode data)) as (parsed & P1 & P2).
      { right. exists data. eexists. repeat split; eauto. }
      eexists. exists parsed. split; [reflexivity|]. split; assumption.
    + destruct (CASE [] []) as (parsed & P1 & P2); [left; reflexivity|].
      eexists. exists parsed. split; [reflexivity|]. split; assumption.
  - destruct (CASE [] []) as (parsed & P1 & P2); [left; reflexivity|].
    eexists. exists parsed. split; [reflexivity|]. split; assumption.
Qed.

(* ====================================================================== *)
(* the shape of checkGRPCStatus' answer; it cannot crash                    *)
(* ====================================================================== *)
Definition status_part (vals : list bytes) : list fb * option Z :=
  match vals with
  | [] => ([StMissing], None)
  | [s] => match atoi s with
           | None => ([StParse], None)
           | Some c => ((if (c <? 0)%Z || (16 <? c)%Z then [StRange] else []), Some c)
           end
  | _ => ([StMulti], None)
  end.
Definition message_part (code : option Z) (vals : list bytes) : list fb * option bytes :=
  match vals with
  | [] => ([], None)
  | m :: _ => (scan_msg m 0 ++
               (match code with
                | Some c => if (c =? 0)%Z && negb (is_nil m) then [MsgWithOk] else []
                | None => []
                end), percent_decode m)
  end.
Definition multi (f : fb) (vals : list bytes) : list fb := if Nat.ltb 1 (length vals) then [f] else [].

Lemma check_shape unmarshal h :
  check_grpc_status unmarshal h =
  Done (fst (status_part (hget h k_status)) ++ multi MsgMulti (hget h k_message) ++
        fst (message_part (snd (status_part (hget h k_status))) (hget h k_message)) ++
        multi DetMulti (hget h k_details) ++
        match hget h k_details with
        | [] => []
        | d :: _ => check_details unmarshal (snd (status_part (hget h k_status)))
                                  (snd (message_part (snd (status_part (hget h k_status))) (hget h k_message))) d
        end).
Proof.
  unfold check_grpc_status, multi.
  destruct (hget h k_status) as [|s [|s' ss]]; cbn [length Nat.ltb Nat.leb Nat.eqb status_part fst snd];
    try destruct (atoi s) as [c|]; cbn [fst snd];
    (destruct (hget h k_message) as [|m [|m' ms]]; cbn [length Nat.ltb Nat.leb Nat.eqb message_part fst snd];
     (destruct (hget h k_details) as [|d [|d' ds]]; cbn [length Nat.ltb Nat.leb Nat.eqb app];
      rewrite ?app_nil_r; reflexivity)).
Qed.

Lemma check_grpc_status_total_proof : forall unmarshal h, exists fbs, check_grpc_status unmarshal h = Done fbs.
Proof. intros. rewrite check_shape. eexists. reflexivity. Qed.

(* ---------- rejection: grpc-status ---------- *)
Lemma in_result unmarshal h f :
  (In f (fst (status_part (hget h k_status))) \/ In f (multi MsgMulti (hget h k_message)) \/
   In f (fst (message_part (snd (status_part (hget h k_status))) (hget h k_message))) \/
   In f (multi DetMulti (hget h k_details)) \/
   (exists d tl, hget h k_details = d :: tl /\
      In f (check_details unmarshal (snd (status_part (hget h k_status)))
              (snd (message_part (snd (status_part (hget h k_status))) (hget h k_message))) d))) ->
  exists fbs, check_grpc_status unmarshal h = Done fbs /\ In f fbs.
Proof.
  intros H. rewrite check_shape. eexists. split; [reflexivity|].
  rewrite !in_app_iff. destruct H as [H|[H|[H|[H|(d & tl & E & H)]]]]; auto.
  rewrite E. auto 10.
Qed.

Lemma flags_missing_status_proof : forall unmarshal h, hget h k_status = [] ->
  exists fbs, check_grpc_status unmarshal h = Done fbs /\ In StMissing fbs.
Proof. intros u h H. apply in_result. left. rewrite H. left. reflexivity. Qed.

Lemma flags_multiple_status_proof : forall unmarshal h a b tl, hget h k_status = a :: b :: tl ->
  exists fbs, check_grpc_status unmarshal h = Done fbs /\ In StMulti fbs.
Proof. intros u h a b tl H. apply in_result. left. rewrite H. left. reflexivity. Qed.

Lemma flags_unparsable_status_proof : forall unmarshal h s, hget h k_status = [s] -> atoi s = None ->
  exists fbs, check_grpc_status unmarshal h = Done fbs /\ In StParse fbs.
Proof. intros u h s H A. apply in_result. left. rewrite H. cbn. rewrite A. left. reflexivity. Qed.

Lemma flags_status_out_of_range_proof : forall unmarshal h s c, hget h k_status = [s] -> atoi s = Some c ->
  (c < 0 \/ 16 < c)%Z ->
  exists fbs, check_grpc_status unmarshal h = Done fbs /\ In StRange fbs.
Proof.
  intros u h s c H A R. apply in_result. left. rewrite H. cbn. rewrite A. cbn.
  replace ((c <? 0)%Z || (16 <? c)%Z) with true; [left; reflexivity|].
  symmetry. apply orb_true_iff. destruct R; [left; apply Z.ltb_lt|right; apply Z.ltb_lt]; assumption.
Qed.

(* ---------- rejection: grpc-message ---------- *)
Inductive pct_wf : bytes -> Prop :=
| pw_nil : pct_wf []
| pw_plain c r : should_escape c = false -> pct_wf r -> pct_wf (c :: r)
| pw_esc h l r : is_hex h = true -> is_hex l = true -> pct_wf r -> pct_wf (37 :: h :: l :: r).

Lemma scan_complete : forall s,
  (scan_msg s 0 = [] -> pct_wf s) /\
  (scan_msg s 1 = [] -> exists l r, s = l :: r /\ is_hex l = true /\ pct_wf r) /\
  (scan_msg s 2 = [] -> exists h l r, s = h :: l :: r /\ is_hex h = true /\ is_hex l = true /\ pct_wf r).
Proof.
  induction s as [|c r (I0 & I1 & I2)].
  - cbn. repeat split; [constructor|discriminate|discriminate].
  - repeat split.
    + cbn. destruct (N.eqb_spec c 37) as [->|NE].
      * intros H. destruct (I2 H) as (h & l & r' & -> & Hh & Hl & W). constructor; assumption.
      * destruct (should_escape c) eqn:SE; [discriminate|]. intros H. constructor; auto.
    + cbn. destruct (is_hex c) eqn:Hc; [|discriminate]. intros H. exists c, r. auto.
    + cbn. destruct (is_hex c) eqn:Hc; [|discriminate]. intros H.
      destruct (I1 H) as (l & r' & -> & Hl & W). exists c, l, r'. auto.
Qed.

Lemma scan_sound : forall s, pct_wf s -> scan_msg s 0 = [].
Proof.
  induction 1 as [|c r SE W IH|h l r Hh Hl W IH]; [reflexivity| |rewrite scan_escaped; assumption].
  cbn. rewrite SE. destruct (N.eqb_spec c 37) as [->|_]; [discriminate SE|exact IH].
Qed.

Lemma scan_iff_proof : forall s, scan_msg s 0 = [] <-> pct_wf s.
Proof. intros s. split; [apply scan_complete|apply scan_sound]. Qed.

Lemma scan_tags s e : forall f, In f (scan_msg s e) -> f = MsgHex \/ f = MsgRaw \/ f = MsgIncomplete.
Proof.
  revert e. induction s as [|c r IH]; intros e f; cbn.
  - destruct (0 <? e); [intros [<-|[]]; auto|intros []].
  - destruct (0 <? e).
    + destruct (is_hex c); [apply IH|intros [<-|[]]; auto].
    + destruct (c =? 37); [apply IH|]. destruct (should_escape c); [intros [<-|[]]; auto|apply IH].
Qed.

Lemma flags_bad_percent_proof : forall unmarshal h m tl, hget h k_message = m :: tl -> ~ pct_wf m ->
  exists fbs f, check_grpc_status unmarshal h = Done fbs /\ In f fbs /\
                (f = MsgHex \/ f = MsgRaw \/ f = MsgIncomplete).
Proof.
  intros u h m tl Hm NW.
  destruct (scan_msg m 0) as [|f rest] eqn:S; [exfalso; apply NW, scan_iff_proof, S|].
  destruct (in_result u h f) as (fbs & E & Hin).
  - right. right. left. rewrite Hm. cbn [message_part fst]. rewrite S. left. reflexivity.
  - exists fbs, f. split; [exact E|]. split; [exact Hin|]. apply (scan_tags m 0). rewrite S. left. reflexivity.
Qed.

Lemma flags_message_with_ok_status_proof : forall unmarshal h s m tl,
  hget h k_status = [s] -> atoi s = Some 0%Z -> hget h k_message = m :: tl -> m <> [] ->
  exists fbs, check_grpc_status unmarshal h = Done fbs /\ In MsgWithOk fbs.
Proof.
  intros u h s m tl Hs A Hm NE. apply in_result. right. right. left. rewrite Hs, Hm. cbn. rewrite A. cbn.
  apply in_or_app. right. destruct m; [congruence|]. left. reflexivity.
Qed.

(* ---------- rejection: grpc-status-details-bin ---------- *)
Lemma flags_bad_base64_proof : forall unmarshal h d tl, hget h k_details = d :: tl ->
  b64_decode_raw d = None -> b64_decode_std d = None ->
  exists fbs, check_grpc_status unmarshal h = Done fbs /\ In DetB64 fbs.
Proof.
  intros u h d tl Hd R S. apply in_result. right. right. right. right. exists d, tl. split; [exact Hd|].
  unfold check_details. rewrite R, S. left. reflexivity.
Qed.

Lemma flags_padded_base64_proof : forall unmarshal h d tl data, hget h k_details = d :: tl ->
  b64_decode_raw d = None -> b64_decode_std d = Some data ->
  exists fbs, check_grpc_status unmarshal h = Done fbs /\ In DetPadded fbs.
Proof.
  intros u h d tl data Hd R S. apply in_result. right. right. right. right. exists d, tl. split; [exact Hd|].
  unfold check_details. rewrite R, S. left. reflexivity.
Qed.

Lemma flags_unparsable_details_proof : forall unmarshal h d tl data, hget h k_details = d :: tl ->
  b64_decode_raw d = Some data -> unmarshal data = UBad ->
  exists fbs, check_grpc_status unmarshal h = Done fbs /\ In DetProto fbs.
Proof.
  intros u h d tl data Hd R U. apply in_result. right. right. right. right. exists d, tl. split; [exact Hd|].
  unfold check_details. rewrite R, U. left. reflexivity.
Qed.

Lemma flags_status_disagreement_proof : forall unmarshal h s c d tl data pc pm nd,
  hget h k_status = [s] -> atoi s = Some c -> hget h k_details = d :: tl ->
  b64_decode_raw d = Some data -> unmarshal data = UOk pc pm nd -> pc <> to_i32 c ->
  exists fbs, check_grpc_status unmarshal h = Done fbs /\ In DetCode fbs.
Proof.
  intros u h s c d tl data pc pm nd Hs A Hd R U NE. apply in_result. right. right. right. right.
  exists d, tl. split; [exact Hd|]. rewrite Hs. cbn [status_part]. rewrite A. cbn [snd].
  unfold check_details. rewrite R, U. apply in_or_app. left.
  destruct (Z.eqb_spec pc (to_i32 c)); [congruence|left; reflexivity].
Qed.

Lemma flags_message_disagreement_proof : forall unmarshal h m mtl msg d tl data pc pm nd,
  hget h k_message = m :: mtl -> percent_decode m = Some msg -> hget h k_details = d :: tl ->
  b64_decode_raw d = Some data -> unmarshal data = UOk pc pm nd -> pm <> msg ->
  exists fbs, check_grpc_status unmarshal h = Done fbs /\ In DetMsg fbs.
Proof.
  intros u h m mtl msg d tl data pc pm nd Hm D Hd R U NE. apply in_result. right. right. right. right.
  exists d, tl. split; [exact Hd|]. rewrite Hm. cbn [message_part snd]. rewrite D.
  unfold check_details. rewrite R, U. apply in_or_app. right. apply in_or_app. right.
  destruct (bytes_eqb_spec pm msg); [congruence|left; reflexivity].
Qed.

Lemma flags_ok_with_details_proof : forall unmarshal h d tl data pm nd,
  hget h k_details = d :: tl -> b64_decode_raw d = Some data -> unmarshal data = UOk 0%Z pm (S nd) ->
  exists fbs, check_grpc_status unmarshal h = Done fbs /\ In DetOkDetails fbs.
Proof.
  intros u h d tl data pm nd Hd R U. apply in_result. right. right. right. right.
  exists d, tl. split; [exact Hd|]. unfold check_details. rewrite R, U.
  apply in_or_app. right. apply in_or_app. left. left. reflexivity.
Qed.

(* ====================================================================== *)
(* examineGRPCEndStream: cannot crash; feedback of a line is kept           *)
(* ====================================================================== *)
Lemma split_n2_cons s : exists k rest, split_n2 s = k :: rest.
Proof. unfold split_n2. destruct (cut_colon s) as [[a b]|]; eauto. Qed.

Lemma eos_step_facts n i l s :
  exists s', eos_step n i l s = Done s' /\ e_nocr s <= e_nocr s' /\ (exists x, e_out s' = e_out s ++ x)
             /\ (Nat.eqb (i + 1) n = false -> ends_cr l = false -> e_nocr s < e_nocr s').
Proof.
  unfold eos_step.
  destruct (Nat.eqb (i + 1) n) eqn:EL; destruct (ends_cr l) eqn:EC; cbn [andb];
  repeat (cbv beta iota;
    match goal with
    | |- context [split_n2 ?line] =>
      let k := fresh "k" in let rest := fresh "rest" in let E := fresh "E" in
      destruct (split_n2_cons line) as (k & rest & E); rewrite E; clear E
    | |- exists s', (if ?b then _ else _) = _ /\ _ => destruct b
    | |- exists s', (match ?x with _ => _ end) = _ /\ _ => destruct x
    end);
  (eexists; split; [reflexivity|]; cbn; split; [lia|]; split;
   [first [eexists; reflexivity | exists []; symmetry; apply app_nil_r] | try discriminate; intros; lia]).
Qed.

Lemma eos_loop_facts n : forall lines i s,
  exists s', eos_loop n i lines s = Done s' /\ e_nocr s <= e_nocr s' /\ (exists x, e_out s' = e_out s ++ x).
Proof.
  induction lines as [|l lines IH]; intros i s.
  - exists s. cbn. split; [reflexivity|]. split; [lia|]. exists []. symmetry. apply app_nil_r.
  - cbn [eos_loop]. destruct (eos_step_facts n i l s) as (s1 & E1 & N1 & (x1 & O1) & _). rewrite E1.
    destruct (IH (S i) s1) as (s2 & E2 & N2 & (x2 & O2)). exists s2. split; [exact E2|]. split; [lia|].
    exists (x1 ++ x2). rewrite O2, O1, app_assoc. reflexivity.
Qed.

Lemma eos_loop_app n : forall l1 l2 i s,
  eos_loop n i (l1 ++ l2) s =
  match eos_loop n i l1 s with Done s1 => eos_loop n (i + length l1) l2 s1 | Crash => Crash end.
Proof.
  induction l1 as [|l l1 IH]; intros l2 i s.
  - cbn. rewrite Nat.add_0_r. reflexivity.
  - cbn [app eos_loop length]. destruct (eos_step n i l s); [|reflexivity].
    rewrite IH. replace (S i + length l1)%nat with (i + S (length l1))%nat by lia. reflexivity.
Qed.

Lemma examine_total_proof : forall content, exists fbs m, examine_grpc_end_stream content = Done (fbs, m).
Proof.
  intros c. unfold examine_grpc_end_stream.
  destruct (eos_loop_facts (length (split_on 10 c)) (split_on 10 c) 0 est0) as (s & E & _). cbv zeta.
  rewrite E. eauto.
Qed.

Ltac rw_step E := match goal with |- context [eos_step ?a ?b ?c ?d] =>
  let H := fresh in pose proof (E : eos_step a b c d = _) as H; rewrite H; clear H end.
Ltac rw_loop E := match goal with |- context [eos_loop ?a ?b ?c ?d] =>
  let H := fresh in pose proof (E : eos_loop a b c d = _) as H; rewrite H; clear H end.

(* a line of the block (any but the last piece of the LF split) that is "key:value" + CR *)
Lemma line_feedback_kept : forall content l1 l2 key v f,
  split_on 10 content = l1 ++ ((key ++ 58 :: v) ++ [13]) :: l2 -> l2 <> [] ->
  ~ In 58 key -> starts_ws key = false ->
  In f (fst (field_fb key v (key ++ 58 :: v))) ->
  exists fbs m, examine_grpc_end_stream content = Done (fbs, m) /\ In f fbs.
Proof.
  intros content l1 l2 key v f SP NE C58 SW Hin. unfold examine_grpc_end_stream. cbv zeta. rewrite SP.
  match goal with |- context [eos_loop ?N 0%nat _ est0] => set (n := N) end.
  rewrite eos_loop_app. destruct (eos_loop_facts n l1 0 est0) as (s1 & E1 & _). rw_loop E1.
  cbn [eos_loop].
  assert (Hi : Nat.eqb (0 + length l1 + 1) n = false).
  { apply Nat.eqb_neq. unfold n. rewrite app_length. cbn [length]. destruct l2; [congruence|]. cbn [length]. lia. }
  assert (ST : exists s2, eos_step n (0 + length l1) ((key ++ 58 :: v) ++ [13]) s1 = Done s2 /\
                          e_out s2 = e_out s1 ++ fst (field_fb key v (key ++ 58 :: v))).
  { destruct (ends_cr_app (key ++ 58 :: v)) as [EC SC].
    unfold eos_step. rewrite Hi. cbn [andb]. rewrite EC, SC.
    assert (NN : is_nil (key ++ 58 :: v) = false) by (destruct key; reflexivity). rewrite NN.
    unfold split_n2. rewrite cut_colon_app by exact C58. rewrite SW, andb_false_r.
    destruct (field_fb key v (key ++ 58 :: v)) as [fbs val]. eexists. split; reflexivity. }
  destruct ST as (s2 & E2 & O2). rw_step E2.
  destruct (eos_loop_facts n l2 (S (0 + length l1)) s2) as (s3 & E3 & _ & (x & O3)). rw_loop E3.
  eexists. eexists. split; [reflexivity|]. rewrite O3, O2. rewrite !in_app_iff. auto.
Qed.

Lemma flags_upper_case_key_proof : forall content l1 l2 key v,
  split_on 10 content = l1 ++ ((key ++ 58 :: v) ++ [13]) :: l2 -> l2 <> [] ->
  ~ In 58 key -> starts_ws key = false -> not_lower key = true ->
  exists fbs m, examine_grpc_end_stream content = Done (fbs, m) /\ In EosUpper fbs.
Proof.
  intros. eapply line_feedback_kept; eauto. unfold field_fb. cbn [fst]. rewrite H3.
  rewrite !in_app_iff. right. left. left. reflexivity.
Qed.

Lemma flags_invalid_field_name_proof : forall content l1 l2 key v,
  split_on 10 content = l1 ++ ((key ++ 58 :: v) ++ [13]) :: l2 -> l2 <> [] ->
  ~ In 58 key -> starts_ws key = false -> valid_field_name key = false ->
  exists fbs m, examine_grpc_end_stream content = Done (fbs, m) /\ In EosName fbs.
Proof.
  intros. eapply line_feedback_kept; eauto. unfold field_fb. cbn [fst]. rewrite H3.
  rewrite !in_app_iff. left. left. reflexivity.
Qed.

Lemma flags_invalid_field_value_proof : forall content l1 l2 key v,
  split_on 10 content = l1 ++ ((key ++ 58 :: v) ++ [13]) :: l2 -> l2 <> [] ->
  ~ In 58 key -> starts_ws key = false -> valid_field_value (trim_ws v) = false ->
  exists fbs m, examine_grpc_end_stream content = Done (fbs, m) /\ In EosValue fbs.
Proof.
  intros. eapply line_feedback_kept; eauto. unfold field_fb. cbn [fst]. rewrite H3.
  rewrite !in_app_iff. right. right. left. reflexivity.
Qed.

(* a line that ends in LF without CR *)
Lemma flags_lf_line_ending_proof : forall content l1 l l2,
  split_on 10 content = l1 ++ l :: l2 -> l2 <> [] -> ends_cr l = false ->
  exists fbs m, examine_grpc_end_stream content = Done (fbs, m) /\ In EosLF fbs.
Proof.
  intros content l1 l l2 SP NE EC. unfold examine_grpc_end_stream. cbv zeta. rewrite SP.
  match goal with |- context [eos_loop ?N 0%nat _ est0] => set (n := N) end.
  rewrite eos_loop_app. destruct (eos_loop_facts n l1 0 est0) as (s1 & E1 & N1 & _). rw_loop E1.
  cbn [eos_loop].
  assert (Hi : Nat.eqb (0 + length l1 + 1) n = false).
  { apply Nat.eqb_neq. unfold n. rewrite app_length. cbn [length]. destruct l2; [congruence|]. cbn [length]. lia. }
  destruct (eos_step_facts n (0 + length l1) l s1) as (s2 & E2 & _ & _ & LT). rw_step E2.
  specialize (LT Hi EC).
  destruct (eos_loop_facts n l2 (S (0 + length l1)) s2) as (s3 & E3 & N3 & _). rw_loop E3.
  eexists. eexists. split; [reflexivity|]. apply in_or_app. right. unfold eos_tail.
  rewrite !in_app_iff. right. right. left.
  destruct (N.ltb_spec 0 (e_nocr s3)); [left; reflexivity|lia].
Qed.

(* ====================================================================== *)
(* Connect JSON                                                            *)
(* ====================================================================== *)
Fixpoint dup_go (seen : list bytes) (l : list (bytes * json)) : option dup_err :=
  match l with
  | [] => None
  | (k, v) :: r =>
    if mem_bytes k seen then Some DupKey
    else match check_dup v with Some e => Some e | None => dup_go (k :: seen) r end
  end.
Lemma check_dup_obj ms : check_dup (JObj ms) = dup_go [] ms.
Proof. cbn. generalize (@nil bytes). induction ms as [|[k v] r IH]; intros seen; [reflexivity|]. cbn. rewrite IH. reflexivity. Qed.

Fixpoint dup_arr (l : list json) : option dup_err :=
  match l with
  | [] => None
  | x :: r => match check_dup x with Some e => Some e | None => dup_arr r end
  end.
Lemma check_dup_arr l : check_dup (JArr l) = dup_arr l.
Proof. cbn. induction l as [|x r IH]; [reflexivity|]. cbn. rewrite IH. reflexivity. Qed.

Lemma dup_go_none : forall l seen, dup_go seen l = None ->
  NoDup (map fst l) /\ (forall k, In k (map fst l) -> ~ In k seen).
Proof.
  induction l as [|[k v] r IH]; intros seen H; cbn in *.
  - split; [constructor|intros ? []].
  - destruct (mem_bytes k seen) eqn:M; [discriminate|]. destruct (check_dup v); [discriminate|].
    destruct (IH _ H) as [ND NS]. split.
    + constructor; [|exact ND]. intros Hin. apply (NS k Hin). left. reflexivity.
    + intros k' [<-|Hin].
      * intros HS. apply mem_bytes_in in HS. congruence.
      * intros HS. apply (NS k' Hin). right. exact HS.
Qed.

Lemma sort_members_in x l : In x (sort_members l) <-> In x l.
Proof.
  unfold sort_members. induction l as [|y l IH]; cbn; [tauto|].
  assert (INS : forall z m, In x (insert_member z m) <-> x = z \/ In x m).
  { intros z m. induction m as [|w m IHm]; cbn; [intuition|].
    destruct (bytes_leb (fst z) (fst w)); cbn; [intuition|]. rewrite IHm. intuition. }
  rewrite INS, IH. intuition.
Qed.

Lemma flat_map_nil {A B} (f : A -> list B) l : (forall x, In x l -> f x = []) -> flat_map f l = [].
Proof. induction l as [|x l IH]; intros H; [reflexivity|]. cbn. rewrite H by (left; reflexivity). apply IH. intros; apply H; right; assumption. Qed.

Lemma has_key_in k ms : has_key k ms = true <-> In k (map fst ms).
Proof.
  induction ms as [|[k' v] r IH]; cbn; [split; [discriminate|tauto]|].
  rewrite orb_true_iff, IH. destruct (bytes_eqb_spec k k'); split; intros; auto.
  - destruct H as [?|?]; [discriminate|auto].
  - destruct H as [?|?]; [congruence|auto].
Qed.

(* ---------- rejection ---------- *)
Lemma cerr_ok_inv ms : examine_json 0 ce_fields (Some (JObj ms)) = JOk ms \/
                       exists f, examine_json 0 ce_fields (Some (JObj ms)) = JErr f.
Proof.
  unfold examine_json. destruct (typed_ok ce_fields ms); [|eauto].
  destruct (check_dup (JObj ms)) as [[|]|]; eauto.
Qed.

Lemma flags_missing_code_proof : forall ms, ~ In (bs "code") (map fst ms) ->
  examine_connect_error (Some (JObj ms)) <> [].
Proof.
  intros ms H. unfold examine_connect_error. destruct (cerr_ok_inv ms) as [E|(f & E)]; rewrite E; [|discriminate].
  destruct (has_key (bs "code") ms) eqn:HK; [apply has_key_in in HK; contradiction|].
  intros C. apply app_eq_nil in C as [_ C]. discriminate C.
Qed.

Lemma flags_unknown_key_proof : forall ms k v, In (k, v) ms ->
  k <> bs "code" -> k <> bs "message" -> k <> bs "details" ->
  examine_connect_error (Some (JObj ms)) <> [].
Proof.
  intros ms k v Hin N1 N2 N3. unfold examine_connect_error.
  destruct (cerr_ok_inv ms) as [E|(f & E)]; rewrite E; [|discriminate].
  intros C. apply app_eq_nil in C as [C _].
  assert (HI : In (JKey 0) (flat_map ce_key_fb (sort_members ms))).
  { apply in_flat_map. exists (k, v). split; [apply sort_members_in, Hin|]. unfold ce_key_fb.
    destruct (bytes_eqb_spec k (bs "code")); [congruence|]. destruct (bytes_eqb_spec k (bs "message")); [congruence|].
    destruct (bytes_eqb_spec k (bs "details")); [congruence|]. left. reflexivity. }
  rewrite C in HI. destruct HI.
Qed.

Lemma flags_bad_code_proof : forall ms v, In (bs "code", v) ms ->
  (forall s, v = JStr s -> ~ In s c13_code_names) ->
  examine_connect_error (Some (JObj ms)) <> [].
Proof.
  intros ms v Hin HB. unfold examine_connect_error.
  destruct (cerr_ok_inv ms) as [E|(f & E)]; rewrite E; [|discriminate].
  intros C. apply app_eq_nil in C as [C _].
  assert (HI : exists f, In f (flat_map ce_key_fb (sort_members ms))).
  { destruct v; try (exists CeCodeKind; apply in_flat_map; eexists; split; [apply sort_members_in, Hin|left; reflexivity]).
    assert (M : mem_bytes s c13_code_names = false).
    { destruct (mem_bytes s c13_code_names) eqn:M; [|reflexivity]. apply mem_bytes_in in M. exfalso. eapply HB; eauto. }
    exists CeCodeName. apply in_flat_map. eexists. split; [apply sort_members_in, Hin|].
    change (ce_key_fb (bs "code", JStr s)) with (if mem_bytes s c13_code_names then [] else [CeCodeName]).
    rewrite M. left. reflexivity. }
  destruct HI as (f & HI). rewrite C in HI. destruct HI.
Qed.

Lemma flags_duplicate_key_proof : forall ms, ~ NoDup (map fst ms) ->
  examine_connect_error (Some (JObj ms)) <> [] /\ examine_connect_end_stream (Some (JObj ms)) <> [].
Proof.
  intros ms H.
  assert (D : check_dup (JObj ms) <> None).
  { rewrite check_dup_obj. intros C. apply dup_go_none in C as [ND _]. contradiction. }
  split.
  - unfold examine_connect_error, examine_json. destruct (typed_ok ce_fields ms); [|discriminate].
    destruct (check_dup (JObj ms)) as [[|]|]; [discriminate|discriminate|congruence].
  - unfold examine_connect_end_stream, examine_json. destruct (typed_ok es_fields ms); [|discriminate].
    destruct (check_dup (JObj ms)) as [[|]|]; [discriminate|discriminate|congruence].
Qed.

Lemma flags_not_an_object_proof : forall t, (forall ms, t <> Some (JObj ms)) ->
  examine_connect_error t <> [] /\ examine_connect_end_stream t <> [].
Proof.
  intros t H. unfold examine_connect_error, examine_connect_end_stream, examine_json.
  destruct t as [[| | | | |ms]|]; try (split; discriminate). exfalso. eapply H. reflexivity.
Qed.

(* ---------- acceptance: a conformant rendering of an error ---------- *)
Definition render_detail (d : bytes * bytes) : json :=
  JObj [(bs "type", JStr (fst d)); (bs "value", JStr (b64_encode (snd d)))].
Definition render_connect_error (name : bytes) (msg : option bytes) (details : list (bytes * bytes)) : json :=
  JObj ((bs "code", JStr name) ::
        (match msg with Some m => [(bs "message", JStr m)] | None => [] end) ++
        (match details with [] => [] | _ => [(bs "details", JArr (map render_detail details))] end)).

Lemma detail_clean d : fullname_valid (fst d) = true -> Forall is_byte (snd d) ->
  examine_connect_error_detail (Some (render_detail d)) = [] /\ check_dup (render_detail d) = None.
Proof.
  destruct d as [ty v]. cbn [fst snd]. intros FN HB. destruct (b64_roundtrip _ HB) as (R & _ & _). split; [|reflexivity].
  unfold examine_connect_error_detail, render_detail. cbn -[fullname_valid b64_decode_raw b64_encode]. rewrite FN, R. reflexivity.
Qed.

Lemma details_clean ds :
  Forall (fun d => fullname_valid (fst d) = true /\ Forall is_byte (snd d)) ds ->
  flat_map (fun d => examine_connect_error_detail (Some d)) (map render_detail ds) = [] /\
  dup_arr (map render_detail ds) = None.
Proof.
  induction 1 as [|d ds [FN HB] _ [IH1 IH2]]; [split; reflexivity|].
  destruct (detail_clean d FN HB) as [E1 E2]. split.
  - cbn [map flat_map]. rewrite E1, IH1. reflexivity.
  - cbn [map dup_arr]. rewrite E2. exact IH2.
Qed.

Lemma connect_error_clean_proof : forall name msg details,
  In name c13_code_names ->
  Forall (fun d => fullname_valid (fst d) = true /\ Forall is_byte (snd d)) details ->
  examine_connect_error (Some (render_connect_error name msg details)) = [].
Proof.
  intros name msg details HN HD. destruct (details_clean details HD) as [D1 D2].
  assert (M : mem_bytes name c13_code_names = true) by (apply mem_bytes_in, HN).
  unfold render_connect_error.
  destruct msg as [m|]; destruct details as [|d0 ds]; cbn [app];
    unfold examine_connect_error, examine_json;
    match goal with |- context [check_dup ?T] =>
      assert (CD : check_dup T = None)
        by (rewrite check_dup_obj; cbn [dup_go]; rewrite ?check_dup_arr, ?D2; reflexivity)
    end;
    rewrite CD;
    cbn -[mem_bytes c13_code_names examine_connect_error_detail render_detail]; rewrite M;
    try reflexivity.
  all: cbn [map] in D1; cbn [flat_map] in D1 |- *; rewrite ?app_nil_r; try exact D1.
Qed.

(* ====================================================================== *)
(* examineWireDetails: cannot crash; HTTP trailers outside gRPC are flagged *)
(* ====================================================================== *)
Lemma examine_wire_part1 unmarshal w : exists fbs tail, examine_wire unmarshal w = Done (fbs ++ tail) /\
  tail = (if negb (bytes_eqb (w_ctype w) (bs "application/grpc")) && negb (has_prefix (bs "application/grpc+") (w_ctype w))
             && Nat.ltb 0 (length (w_trailers w)) then [HttpTrailers] else []).
Proof.
  unfold examine_wire. cbv zeta.
  match goal with |- context [lift ?P _] => assert (P1 : exists f, P = Done f) end.
  { repeat match goal with
           | |- exists f, (if ?b then _ else _) = Done f => destruct b
           | |- exists f, (match w_eos w with Some _ => _ | None => _ end) = Done f => destruct (w_eos w)
           end; eauto; try apply check_grpc_status_total_proof.
    destruct (examine_total_proof b) as (f & hs & E). rewrite E.
    destruct (check_grpc_status_total_proof unmarshal hs) as (g & G). unfold lift. rewrite G. eauto. }
  destruct P1 as (f & P1). rewrite P1. unfold lift. eexists. eexists. split; reflexivity.
Qed.

Lemma examine_wire_total_proof : forall unmarshal w, exists fbs, examine_wire unmarshal w = Done fbs.
Proof. intros u w. destruct (examine_wire_part1 u w) as (f & t & E & _). eauto. Qed.

Lemma flags_http_trailers_outside_grpc_proof : forall unmarshal w,
  w_ctype w <> bs "application/grpc" -> has_prefix (bs "application/grpc+") (w_ctype w) = false ->
  w_trailers w <> [] ->
  exists fbs, examine_wire unmarshal w = Done fbs /\ In HttpTrailers fbs.
Proof.
  intros u w N1 N2 N3. destruct (examine_wire_part1 u w) as (f & t & E & T).
  exists (f ++ t). split; [exact E|]. apply in_or_app. right. rewrite T, N2.
  destruct (bytes_eqb_spec (w_ctype w) (bs "application/grpc")); [congruence|].
  destruct (w_trailers w); [congruence|]. left. reflexivity.
Qed.

Lemma encoders_total_proof : forall marshal code msg details trailers, Forall is_byte msg ->
  (exists e, percent_encode msg = Done e) /\
  (exists st, grpc_status_trailers marshal code msg details = Done st) /\
  (exists blk, grpc_web_end_stream marshal code msg details trailers = Done blk).
Proof.
  intros marshal code msg details trailers HB.
  destruct (percent_scan_ok_proof msg HB) as (e & E & _).
  destruct (trailer_message_ok msg HB) as (t & T & _).
  split; [eauto|]. unfold grpc_web_end_stream, grpc_status_trailers. rewrite T. split; eauto.
Qed.
