(* C13_Proofs.v — in progress *)
