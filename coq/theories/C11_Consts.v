(* C11_Consts.v - REGENERATED on every run from the compiled Go code by TestVerifConsts
   (harness/C11); do not edit. *)
From Coq Require Import ZArith NArith List.
Import ListNotations.
Definition c11_grace_ms : N := 5000%N.
Definition c11_grace2_ms : N := 5000%N.
Definition c11_wait_delay_ms : N := 5000%N.
Definition c11_response_timeout_ms : N := 10000%N.
Definition c11_max_client_response : N := 16777216%N.
Definition c11_max_server_response : N := 1048576%N.
