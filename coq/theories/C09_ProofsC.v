(* C09_ProofsC.v — the JSON theorems with NO oracle hypothesis, for the bracket scanner jscan that the
   extracted model is run with: stability makes 'recognised exactly at its end' sufficient. *)
From Coq Require Import Lia.
From V Require Import C09_Spec C09_Proofs C09_ProofsW C09_ProofsJ C09_ProofsS.
Open Scope N_scope.

(* under stability, "recognised exactly at its end" is all that scanner_ok asks *)
Lemma stable_ok_proof scan : scanner_stable scan -> forall v, scan v = SComplete v [] -> scanner_ok scan v.
Proof.
  intros [Hc Hi] v Hv. split.
  - intros rest. apply (Hc v v [] rest Hv).
  - intros k Hk. destruct (scan (firstn k v)) as [w r| |] eqn:E; [|reflexivity|].
    + exfalso. apply (Hc _ _ _ (skipn k v)) in E. rewrite firstn_skipn, Hv in E. inversion E as [[Hw Hr]].
      symmetry in Hr. apply app_eq_nil in Hr as [_ Hr]. apply (f_equal (@length N)) in Hr.
      rewrite skipn_length in Hr. cbn [length] in Hr. subst w. lia.
    + exfalso. apply (Hi _ (skipn k v)) in E. rewrite firstn_skipn, Hv in E. discriminate.
Qed.

Lemma jscan_skips_proof : scanner_skips_newline jscan.
Proof. split; [reflexivity|intros; reflexivity]. Qed.

Definition jscan_value (v : bytes) : Prop := jscan v = SComplete v [].

Lemma jscan_value_ok v : jscan_value v -> scanner_ok jscan v.
Proof. apply stable_ok_proof. exact jscan_stable_proof. Qed.

Lemma jscan_value_starts v : jscan_value v -> starts_nonspace v.
Proof.
  unfold jscan_value. destruct v as [|c r]; [discriminate|]. intros H. exists c, r. split; [reflexivity|].
  cbn [jscan] in H. destruct (is_json_ws c) eqn:Hc; [|reflexivity]. exfalso.
  (* a value that starts with white space would be returned without it *)
  assert (Hlen : forall b v rest, jscan b = SComplete v rest -> (length v + length rest <= length b)%nat).
  { clear. assert (Hb : forall b depth instr esc acc v rest, jscan_body depth instr esc acc b = SComplete v rest ->
                      (length v + length rest = length acc + length b)%nat).
    { induction b as [|c b IH]; intros depth instr esc acc v rest E; [discriminate|].
      cbn [jscan_body] in E.
      repeat match type of E with
             | (if ?c then _ else _) = _ => destruct c
             | match ?d with O => _ | S _ => _ end = _ => destruct d
             end;
      try discriminate; try (apply IH in E; cbn [length] in *; lia).
      inversion E; subst. rewrite app_length, rev_length. cbn [length]. lia. }
    induction b as [|c b IH]; intros v rest E; [discriminate|]. cbn [jscan] in E.
    destruct (is_json_ws c); [apply IH in E; cbn [length]; lia|].
    destruct ((c =? 123) || (c =? 91)); [|discriminate]. apply Hb in E. cbn [length] in *. lia. }
  apply Hlen in H. cbn [length] in H. lia.
Qed.

Lemma json_roundtrip_jscan_proof : forall vs sch eg, Forall jscan_value vs ->
  json_all jscan (mk_src (wire_of json_encode vs None) sch eg TEOF) = (vs, JFErr MEOF).
Proof.
  intros vs sch eg H. apply json_encode_decode_roundtrip_proof; [exact jscan_skips_proof|].
  eapply Forall_impl; [|exact H]. exact jscan_value_ok.
Qed.

Lemma json_cut_jscan_proof : forall vs v j sch eg t, Forall jscan_value vs -> jscan_value v -> (j < length v)%nat ->
  json_all jscan (mk_src (json_write_all vs ++ firstn j v) sch eg t) = (vs, json_end t j).
Proof.
  intros vs v j sch eg t H Hv Hj. apply json_cut_proof; auto using jscan_skips_proof, jscan_value_ok, jscan_value_starts.
  eapply Forall_impl; [|exact H]. exact jscan_value_ok.
Qed.
