(* C01_Model.v — the ORACLE of property C01: which permutations a run of the conformance
   runner must execute, which of them the known-failing patterns mark, and when the run
   is reported as a success.  Nothing here is new behaviour: it is the composition, in the
   order of Run()/run() in internal/app/connectconformance/connectconformance.go, of
     C06_Model.parse_config          (parseConfig: config -> config cases)
     C07_Model.new_library           (newTestCaseLibrary for the run mode)
     C07_Model.group_cases           (casesByServer)
     C07_Model.grpc_filter           (filterGRPCImplTestCases + marker, per client x server pairing)
     C07_Model.all_permutations      (the list the patterns are validated against)
     C08_Model.run_checks / match_pattern (tryMatchPatterns, known-failing marking)
     C04_Model.verdict               (report() && err == nil)
   The other properties' model files are imported, never edited.  No proofs here except the
   order lemma the Mergesort functor asks for. *)
From Coq Require Import Orders Mergesort.
From V Require Export Base.
From V Require C06_Model C08_Model C04_Model.
From V Require Export C07_Model.
Open Scope N_scope.

(* configCase is one Go type; C06 and C07 each model it with their own record *)
Definition conv (c : C06_Model.case) : case :=
  mkCase (C06_Model.c_version c) (C06_Model.c_protocol c) (C06_Model.c_codec c)
         (C06_Model.c_compression c) (C06_Model.c_stream c)
         (C06_Model.c_tls c) (C06_Model.c_certs c) (C06_Model.c_get c) (C06_Model.c_limit c)
         (C06_Model.c_cvm c).

(* run(): cl = useReferenceClient (no client command: a SERVER is under test),
          sv = useReferenceServer (no server command: a CLIENT is under test) *)
Definition run_mode (cl sv : bool) : N :=
  if sv && negb cl then 1        (* TEST_MODE_CLIENT *)
  else if cl && negb sv then 2   (* TEST_MODE_SERVER *)
  else 0.

(* the processInfo slices: the reference peer is accompanied by the gRPC reference peer
   (isGrpcImpl = true); a peer given as a command is one entry with isGrpcImpl = false *)
Definition peers (reference : bool) : list bool := if reference then [false; true] else [false].

(* for clientInfo { for serverInfo { for svrInstance { filterGRPCImplTestCases(casesByServer[..]) }}} *)
Definition executed (cl sv : bool) (lib : list perm) : list perm :=
  flat_map (fun ci =>
  flat_map (fun si =>
  flat_map (fun g => grpc_filter ci si (snd g)) (group_cases lib)) (peers sv)) (peers cl).

(* ---------- sorting names in O(n log n): the corpus has 16,580 of them ---------- *)
Module BytesLeb <: TotalLeBool.
  Definition t := bytes.
  Definition leb := bytes_leb.
  Theorem leb_total : forall a b, leb a b = true \/ leb b a = true.
  Proof.
    unfold leb. induction a as [|x a IH]; intros [|y b]; simpl; auto.
    destruct (N.ltb_spec x y) as [L|L]; [auto|].
    destruct (N.ltb_spec y x) as [L'|L']; [auto|].
    assert (E : x = y) by (apply N.le_antisymm; assumption). subst y.
    rewrite N.eqb_refl. apply IH.
  Qed.
End BytesLeb.
Module BSort := Sort BytesLeb.

Definition sort_names (l : list bytes) : list bytes := BSort.sort l.

Fixpoint adjacent_distinct (l : list bytes) : bool :=
  match l with
  | a :: (b :: _) as t => negb (bytes_eqb a b) && adjacent_distinct t
  | _ => true
  end.

(* are the names pairwise distinct?  (decided on the sorted list) *)
Definition distinct_names (l : list bytes) : bool := adjacent_distinct (sort_names l).

(* ---------- the prediction ---------- *)
Inductive run_err := EConfig | ELibrary | EAmbiguousNames.
Inductive pres (A : Type) : Type := Good (a : A) | Bad (e : run_err).
Arguments Good {A} a.
Arguments Bad {A} e.

(* knownFailing.matchPattern(name) *)
Definition kf_marks (ps : list bytes) : bytes -> bool := C08_Model.match_pattern (C08_Model.build ps).

Record prediction := mkPred {
  pr_names : list bytes;     (* the names sent to the client under test / reference client, in sending order *)
  pr_checked : list bytes;   (* the names of allPermutations, against which patterns are validated *)
  pr_marked : list bytes;    (* the sent names that the known-failing patterns mark *)
  pr_lib : nat;              (* len(lib.testCases) *)
  pr_groups : nat }.         (* len(lib.casesByServer) *)

Definition predicted_run (cfg : C06_Model.config) (ss : list suite) (cl sv : bool) (ps : list bytes)
  : pres prediction :=
  match C06_Model.parse_config cfg with
  | C06_Model.Err => Bad EConfig
  | C06_Model.Ok cs =>
    match new_library ss (map conv cs) (run_mode cl sv) with
    | Err => Bad ELibrary
    | Ok lib =>
      let names := map p_name (executed cl sv lib) in
      if distinct_names names
      then Good (mkPred names (map p_name (all_permutations cl sv lib)) (filter (kf_marks ps) names)
                        (length lib) (length (group_cases lib)))
      else Bad EAmbiguousNames
    end
  end.

(* ---------- a run restricted with --run / --skip (the "slices" of the quick tier) ---------- *)
(* filter.accept on a test case = C08_Model.accept on its name (parsePatterns gives nil for an empty
   list, which is how C08_Model.accept reads []).  `selector` is that function with the two tries built
   once per pattern list instead of once per name (selector_accept: the same function). *)
Definition selector (rs sk : list bytes) : bytes -> bool :=
  let tr := C08_Model.build rs in
  let ts := C08_Model.build sk in
  fun name =>
    (match rs with [] => true | _ => C08_Model.match_pattern tr name end)
    && (match sk with [] => true | _ => negb (C08_Model.match_pattern ts name) end).

(* the loops of run() over the groups G = casesByServer with
     testCases = filter.apply(filterGRPCImplTestCases(casesByServer[..]))  *)
Definition batches_sel (f : bytes -> bool) (cl sv : bool) (G : list (inst * list perm)) : list perm :=
  flat_map (fun ci =>
  flat_map (fun si =>
  flat_map (fun g => filter (fun p => f (p_name p)) (grpc_filter ci si (snd g))) G) (peers sv)) (peers cl).

Definition executed_sel (rs sk : list bytes) (cl sv : bool) (lib : list perm) : list perm :=
  batches_sel (selector rs sk) cl sv (group_cases lib).

(* the prediction of a restricted run, given the groups and the names of allPermutations: pr_names are
   the names really sent; pr_checked stays the list of ALL permutations (every pattern list is validated
   against it); the second component is filteredTestCount, the total newResults is told (counted over
   allPermutations with filter.accept). *)
Definition slice_view (G : list (inst * list perm)) (chk : list bytes) (nlib : nat) (cl sv : bool)
           (ps : list bytes) (sel : list bytes * list bytes) : prediction * nat :=
  let f := selector (fst sel) (snd sel) in
  let names := map p_name (batches_sel f cl sv G) in
  (mkPred names chk (filter (kf_marks ps) names) nlib (length G), length (filter f chk)).

(* several restricted runs of one configuration (the library is built once).  Name distinctness is
   decided on the unrestricted run. *)
Definition predicted_slices (cfg : C06_Model.config) (ss : list suite) (cl sv : bool) (ps : list bytes)
           (sels : list (list bytes * list bytes)) : pres (list (prediction * nat)) :=
  match C06_Model.parse_config cfg with
  | C06_Model.Err => Bad EConfig
  | C06_Model.Ok cs =>
    match new_library ss (map conv cs) (run_mode cl sv) with
    | Err => Bad ELibrary
    | Ok lib =>
      if distinct_names (map p_name (executed cl sv lib))
      then let G := group_cases lib in
           let chk := map p_name (all_permutations cl sv lib) in
           let nlib := length lib in
           Good (map (slice_view G chk nlib cl sv ps) sels)
      else Bad EAmbiguousNames
    end
  end.

Definition predicted_slice (cfg : C06_Model.config) (ss : list suite) (cl sv : bool) (ps rs sk : list bytes)
  : pres (prediction * nat) :=
  match predicted_slices cfg ss cl sv ps [(rs, sk)] with
  | Good [x] => Good x
  | Good _ => Bad EConfig      (* unreachable: one selection in, one prediction out *)
  | Bad e => Bad e
  end.

(* ---------- the verdict of a run in which every sent case got an outcome ---------- *)
(* the validation block of run() with only --known-failing given *)
Definition patterns_ok (ps chk : list bytes) : bool :=
  match C08_Model.run_checks ps [] [] [] chk with None => true | Some _ => false end.

(* newResults(filteredTestCount, knownFailing, knownFlaky = empty, _) *)
Definition kf_cfg (ps names : list bytes) : C04_Model.cfg :=
  C04_Model.mkCfg (length names) (kf_marks ps) (fun _ => false).

(* one setOutcome per sent case *)
Definition history (names : list bytes) (out : bytes -> C04_Model.res) : list C04_Model.op :=
  map (fun n => C04_Model.OSet n (out n)) names.

Definition run_verdict (ps names : list bytes) (out : bytes -> C04_Model.res) : bool :=
  C04_Model.verdict (kf_cfg ps names) (C04_Model.run (kf_cfg ps names) (history names out)) false.

(* 0 = success (exit status 0), 1 = report() false (exit status 1), 2 = rejected before anything ran *)
Definition run_status (ps chk names : list bytes) (out : bytes -> C04_Model.res) : N :=
  if negb (patterns_ok ps chk) then 2 else if run_verdict ps names out then 0 else 1.

Definition run_ok (ps chk names : list bytes) (out : bytes -> C04_Model.res) : bool :=
  patterns_ok ps chk && run_verdict ps names out.

(* the same with --run / --skip given: their patterns are validated too (against allPermutations) *)
Definition patterns_ok_sel (ps rs sk chk : list bytes) : bool :=
  match C08_Model.run_checks ps [] rs sk chk with None => true | Some _ => false end.

Definition slice_status (ps rs sk chk names : list bytes) (out : bytes -> C04_Model.res) : N :=
  if negb (patterns_ok_sel ps rs sk chk) then 2 else if run_verdict ps names out then 0 else 1.

Definition slice_ok (ps rs sk chk names : list bytes) (out : bytes -> C04_Model.res) : bool :=
  patterns_ok_sel ps rs sk chk && run_verdict ps names out.

(* ---------- case decoding / result encoding (extracted glue) ---------- *)
(* outcome codes: absent = passed; 1 assertion failure; 2 client error result; 3 set-up error;
   4 could not be run *)
Definition code_res (c : Z) : C04_Model.res :=
  if Z.eqb c 1 then C04_Model.Fail false C04_Model.EAssert
  else if Z.eqb c 2 then C04_Model.Fail false C04_Model.EClient
  else if Z.eqb c 3 then C04_Model.Fail true C04_Model.ESetup
  else if Z.eqb c 4 then C04_Model.Fail true C04_Model.ECouldNotRun
  else C04_Model.Ok.

(* the case carries (suffix code) pairs: a name gets the code of the first pair whose suffix it ends in *)
Fixpoint assoc (l : list (bytes * Z)) (n : bytes) : Z :=
  match l with
  | [] => 0%Z
  | (m, c) :: l' => if has_suffix n m then c else assoc l' n
  end.

Definition un_out (s : sx) : option (bytes * Z) :=
  match s with L [B n; I c] => Some (n, c) | _ => None end.

Definition sx_names (l : list bytes) : sx := L (map B (sort_names l)).

(* ((run patterns) (no-run patterns)) *)
Definition un_sel (s : sx) : option (list bytes * list bytes) :=
  match s with
  | L [rs; sk] => do rs <- un_listof un_B rs; do sk <- un_listof un_B sk; ret (rs, sk)
  | _ => None
  end.

Definition err_tag (e : run_err) : sx :=
  match e with
  | EConfig => sx_err "config"
  | ELibrary => sx_err "library"
  | EAmbiguousNames => sx_err "ambiguous-names"
  end.

(* ("c01.run" id cl sv features includes excludes (suites) (patterns) ((name-suffix code)...) [(run) (no-run)])
     -> (ok (sent names, sorted) (marked names, sorted) |lib| |groups| |allPermutations| filteredTestCount status)
        | (err tag) *)
Definition c01_run_answer cl sv cfg ss ps (outs : list (bytes * Z)) : sx :=
  match predicted_run cfg ss cl sv ps with
  | Bad e => err_tag e
  | Good pr =>
    L [ B (bs "ok"); sx_names (pr_names pr); sx_names (pr_marked pr);
        sx_nat (pr_lib pr); sx_nat (pr_groups pr); sx_nat (length (pr_checked pr)); sx_nat (length (pr_checked pr));
        sx_N (run_status ps (pr_checked pr) (pr_names pr) (fun n => code_res (assoc outs n))) ]
  end.

Definition c01_slice_answer cl sv cfg ss ps rs sk (outs : list (bytes * Z)) : sx :=
  match predicted_slice cfg ss cl sv ps rs sk with
  | Bad e => err_tag e
  | Good (pr, total) =>
    L [ B (bs "ok"); sx_names (pr_names pr); sx_names (pr_marked pr);
        sx_nat (pr_lib pr); sx_nat (pr_groups pr); sx_nat (length (pr_checked pr)); sx_nat total;
        sx_N (slice_status ps rs sk (pr_checked pr) (pr_names pr) (fun n => code_res (assoc outs n))) ]
  end.

Definition run_c01_run (args : list sx) : sx :=
  or_bad (match args with
  | [cl; sv; fe; inc; exc; ss; ps; outs] =>
    do cl <- un_bool cl; do sv <- un_bool sv;
    do cfg <- C06_Model.un_config fe inc exc;
    do ss <- un_listof un_suite ss;
    do ps <- un_listof un_B ps;
    do outs <- un_listof un_out outs;
    ret (c01_run_answer cl sv cfg ss ps outs)
  | [cl; sv; fe; inc; exc; ss; ps; outs; rs; sk] =>
    do cl <- un_bool cl; do sv <- un_bool sv;
    do cfg <- C06_Model.un_config fe inc exc;
    do ss <- un_listof un_suite ss;
    do ps <- un_listof un_B ps;
    do outs <- un_listof un_out outs;
    do rs <- un_listof un_B rs; do sk <- un_listof un_B sk;
    ret (c01_slice_answer cl sv cfg ss ps rs sk outs)
  | _ => None end).

(* ("c01.real" id run-name cl sv config-text (patterns) features includes excludes (suites) [(((run) (no-run))...)]):
   the Go side answers from the REAL embedded suites and the config text; the model from the
   dumped encodings.  Same observable, without the status (the status of the real runs is
   what the execution decides). *)
Definition run_c01_real (args : list sx) : sx :=
  or_bad (match args with
  | [_; cl; sv; _; ps; fe; inc; exc; ss] =>
    do cl <- un_bool cl; do sv <- un_bool sv;
    do cfg <- C06_Model.un_config fe inc exc;
    do ss <- un_listof un_suite ss;
    do ps <- un_listof un_B ps;
    ret (match predicted_run cfg ss cl sv ps with
         | Bad e => err_tag e
         | Good pr =>
           L [ B (bs "ok"); sx_names (pr_names pr); sx_names (pr_marked pr);
               sx_nat (pr_lib pr); sx_nat (pr_groups pr); sx_nat (length (pr_checked pr)); sx_nat (length (pr_checked pr));
               sx_bool (patterns_ok ps (pr_checked pr)) ]
         end)
  | [_; cl; sv; _; ps; fe; inc; exc; ss; sels] =>     (* slices: the same run under several (--run, --skip) *)
    do cl <- un_bool cl; do sv <- un_bool sv;
    do cfg <- C06_Model.un_config fe inc exc;
    do ss <- un_listof un_suite ss;
    do ps <- un_listof un_B ps;
    do sels <- un_listof un_sel sels;
    ret (match predicted_slices cfg ss cl sv ps sels with
         | Bad e => err_tag e
         | Good l =>
           L (B (bs "ok") ::
              map (fun x : prediction * nat => let (pr, total) := x in
                L [ sx_names (pr_names pr); sx_names (pr_marked pr);
                    sx_nat (pr_lib pr); sx_nat (pr_groups pr); sx_nat (length (pr_checked pr)); sx_nat total ]) l
              ++ [L (map (fun sel : list bytes * list bytes =>
                       sx_bool (patterns_ok_sel ps (fst sel) (snd sel)
                                  (match l with (pr, _) :: _ => pr_checked pr | [] => [] end))) sels)])
         end)
  | _ => None end).

(* ("c01.patterns" id file-contents) -> the patterns of a known-failing file (C08's model of
   parsePatternFile, here applied to the shipped files) *)
Definition run_c01_patterns (args : list sx) : sx :=
  or_bad (match args with
  | [B d] => ret (L (map B (C08_Model.parse_pattern_file d)))
  | _ => None end).

Definition c01_table : list (bytes * (list sx -> sx)) :=
  [ (bs "c01.run", run_c01_run); (bs "c01.real", run_c01_real); (bs "c01.patterns", run_c01_patterns) ].
