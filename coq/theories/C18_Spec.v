(* C18_Spec.v — what "lossless" means, written from the property text:
   an error keeps its code, message and every detail (type and bytes); metadata keeps
   every key up to letter case and every value in order, `-bin` values base64-encoded
   exactly once; percent-encoding is invertible and printable; the strict codecs decode
   what they encode and reject unknown fields.  No reference to how the conversions are
   programmed; the third-party libraries appear as contracts (what is assumed of them). *)
From V Require Export C18_Model.
Open Scope N_scope.

(* ---------------------------------------------------------------------- *)
(* 1. Errors                                                               *)
(* ---------------------------------------------------------------------- *)
(* The type of a detail is the text after the last '/' of its type URL. *)
Definition type_of (url : bytes) : bytes := last (split_on slash url) [].

Definition int32 (z : Z) : Prop := (- 2147483648 <= z < 2147483648)%Z.
Definition uint32 (z : Z) : Prop := (0 <= z < 4294967296)%Z.

(* the message text: an unset message and an empty one are the same text *)
Definition message_of (e : perr) : bytes := get_msg (p_msg e).

Definition same_detail (a b : any) : Prop := type_of (fst a) = type_of (fst b) /\ snd a = snd b.

(* same code, same message text, the same details (type and bytes) in the same order *)
Definition same_error (a b : perr) : Prop :=
  p_code a = p_code b /\ message_of a = message_of b /\ Forall2 same_detail (p_details a) (p_details b).

(* a type URL as protoyaml / anypb.MarshalFrom write it: the default prefix and a type name *)
Definition canonical_url (url : bytes) : Prop :=
  exists name, url = default_prefix ++ name /\ ~ In slash name.
Definition canonical_details (ds : list any) : Prop := Forall (fun a => canonical_url (fst a)) ds.

(* what an observer of a Connect error can see: Code(), Message(), Type()/Bytes() of each detail *)
Definition cerr_view (d_type d_bytes : cdetail -> bytes) (c : cerr) : Z * bytes * list (bytes * bytes) :=
  (c_code c, c_msg c, map (fun d => (d_type d, d_bytes d)) (c_details c)).

(* assumed of connect-go: NewErrorDetail succeeds on an Any; Type() is the name after the
   last '/', Bytes() the value *)
Definition detail_contract (new_detail : any -> option cdetail) (d_type d_bytes : cdetail -> bytes) : Prop :=
  forall a, exists d, new_detail a = Some d /\ d_type d = type_of (fst a) /\ d_bytes d = snd a.

(* ---------------------------------------------------------------------- *)
(* 2. Header lists and metadata                                            *)
(* ---------------------------------------------------------------------- *)
(* header h carries values for metadata key k when its name is k up to letter case *)
Definition names_match (k : bytes) (h : header) : bool := bytes_eqb (lower (fst h)) k.
Definition occurs (k : bytes) (hs : list header) : bool := existsb (names_match k) hs.
(* every value given for k, over all occurrences of the name, in order *)
Definition values_for (k : bytes) (hs : list header) : list bytes :=
  flat_map (fun h => if names_match k h then snd h else []) hs.
(* the same for any way of normalising names (canonical MIME form for http.Header) *)
Definition values_under (norm : bytes -> bytes) (k : bytes) (hs : list header) : list bytes :=
  flat_map (fun h => if bytes_eqb (norm (fst h)) k then snd h else []) hs.

Definition some_nonempty (l : list bytes) : option (list bytes) :=
  match l with [] => None | _ => Some l end.

Definition is_byte (c : N) : Prop := c < 256.

(* assumed of base64 (connect.EncodeBinaryHeader / DecodeBinaryHeader) *)
Definition b64_contract (enc : bytes -> bytes) (dec : bytes -> option bytes) : Prop :=
  forall x, Forall is_byte x -> dec (enc x) = Some x.

(* the binary content a `-bin` header value stands for: its decoded form; a value that is
   not base64 stands for itself ("if it's not encoded, then just add the raw value") *)
Definition bin_meaning (dec : bytes -> option bytes) (v : bytes) : bytes :=
  match dec v with Some d => d | None => v end.

(* what must be read back for the values vs given under key k: for a `-bin` key the base64
   text of each value's content - encoded once, not twice, not left decoded - else vs itself *)
Definition once (enc : bytes -> bytes) (dec : bytes -> option bytes) (k : bytes) (vs : list bytes) : list bytes :=
  if is_bin k then map (fun v => enc (bin_meaning dec v)) vs else vs.

(* the header list is what a conversion from binary metadata produces: every value of a
   `-bin` header is the base64 text of some byte string *)
Definition canonical_bin (enc : bytes -> bytes) (hs : list header) : Prop :=
  forall h v, In h hs -> is_bin (lower (fst h)) = true -> In v (snd h) ->
              exists raw, Forall is_byte raw /\ v = enc raw.

Definition get_or_nil (o : option (list bytes)) : list bytes := match o with Some l => l | None => [] end.

(* ---------------------------------------------------------------------- *)
(* 3. Percent-encoding                                                     *)
(* ---------------------------------------------------------------------- *)
Definition printable_ascii (c : N) : Prop := 32 <= c <= 126.
(* needs no escape: printable and not the escape character itself *)
Definition safe_char (c : N) : Prop := printable_ascii c /\ c <> 37.

(* ---------------------------------------------------------------------- *)
(* 4. Strict codecs                                                        *)
(* ---------------------------------------------------------------------- *)
(* an unrecognised field somewhere in the message: at this level or in a message below *)
Inductive has_unknown : pmsg -> Prop :=
| hu_here k u subs : u <> [] -> has_unknown (PMsg k u subs)
| hu_below k u subs s : In s subs -> has_unknown s -> has_unknown (PMsg k u subs).

(* assumed of proto.Marshal / proto.Unmarshal: the binary format carries everything,
   unrecognised fields included *)
Definition bin_contract {wire} (marshal : pmsg -> wire) (unmarshal : wire -> option pmsg) : Prop :=
  forall m, unmarshal (marshal m) = Some m.

(* assumed of protojson: a message without unrecognised fields is read back from its JSON
   form; strict parsing (DiscardUnknown unset) fails on text with an unrecognised key
   (json_unknown w) and never yields a message with unrecognised fields *)
Definition json_contract {wire} (marshal : pmsg -> wire) (unmarshal : bool -> wire -> option pmsg)
           (json_unknown : wire -> Prop) : Prop :=
  (forall m, ~ has_unknown m -> unmarshal false (marshal m) = Some m) /\
  (forall w, json_unknown w -> unmarshal false w = None) /\
  (forall w m, unmarshal false w = Some m -> ~ has_unknown m).
