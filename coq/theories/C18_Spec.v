From V Require Export C18_Model.
