(* C13_Props.v — the property theorems of C13 and nothing else.
   Each is closed by `exact <lemma>` and followed by Print Assumptions. *)
From V Require Import C13_Consts C13_Model C13_Spec C13_Proofs C13_Proofs2 C13_Proofs3 C13_Proofs4 C13_Call C13_CallProofs.
Open Scope N_scope.

(* ---------------- (1) acceptance ---------------- *)

(* PercentEncodeMessage never fails on bytes; the grpc-message scanner is silent on its output
   and url.PathUnescape gives the message back — for every message *)
Theorem percent_scan_ok : forall m, Forall is_byte m ->
  exists e, percent_encode m = Done e /\ scan_msg e 0 = [] /\ percent_decode e = Some m.
Proof. exact percent_scan_ok_proof. Qed.
Print Assumptions percent_scan_ok.

(* the same for the grpc-message value the reference server writes (outer spaces as %20) *)
Theorem trailer_message_scan_ok : forall m, Forall is_byte m ->
  exists e, trailer_message m = Done e /\ scan_msg e 0 = [] /\ percent_decode e = Some m.
Proof. exact trailer_message_scan_ok_proof. Qed.
Print Assumptions trailer_message_scan_ok.

(* gRPC: for all 16 codes, every message, every detail list, the status trailers the reference
   server emits are examined without feedback *)
Theorem grpc_clean : forall marshal unmarshal code msg details,
  proto_roundtrip marshal unmarshal -> 1 <= code <= 16 -> Forall is_byte msg ->
  exists st, grpc_status_trailers marshal code msg details = Done st /\
             check_grpc_status unmarshal (to_map st) = Done [].
Proof. exact grpc_clean_proof. Qed.
Print Assumptions grpc_clean.

(* gRPC-Web: ... and so is the end-of-stream trailer block, with any well-formed metadata *)
Theorem grpc_web_clean : forall marshal unmarshal code msg details trailers,
  proto_roundtrip marshal unmarshal -> 1 <= code <= 16 -> Forall is_byte msg -> wf_meta trailers ->
  exists blk parsed,
    grpc_web_end_stream marshal code msg details trailers = Done blk /\
    examine_grpc_end_stream blk = Done ([], parsed) /\
    check_grpc_status unmarshal parsed = Done [].
Proof. exact grpc_web_clean_proof. Qed.
Print Assumptions grpc_web_clean.

(* Connect: a conformant error body (any of the 16 code names, any message, any details) is silent *)
Theorem connect_error_clean : forall name msg details,
  In name c13_code_names ->
  Forall (fun d => fullname_valid (fst d) = true /\ Forall is_byte (snd d)) details ->
  examine_connect_error (Some (render_connect_error name msg details)) = [].
Proof. exact connect_error_clean_proof. Qed.
Print Assumptions connect_error_clean.

(* Connect, as the reference server renders it (its handlers + connect-go; tied to the Go code by the
   c13.cerrrt / c13.cesrt cases): the unary error body for any of the 16 codes, any message, any details
   (with or without debug rendering) is examined without feedback ... *)
Theorem connect_error_wire_clean : forall code msg details,
  wf_wire_error (code, msg, details) ->
  examine_connect_error (Some (wire_error code msg details)) = [].
Proof. exact connect_error_wire_clean_proof. Qed.
Print Assumptions connect_error_wire_clean.

(* ... and so is the end-of-stream message, with such an error or without one, and with any metadata whose
   names are tokens and whose values are field content *)
Theorem connect_end_stream_clean : forall err trailers,
  match err with Some e => wf_wire_error e | None => True end -> Forall wf_field trailers ->
  examine_connect_end_stream (Some (wire_end_stream err trailers)) = [].
Proof. exact connect_end_stream_clean_proof. Qed.
Print Assumptions connect_end_stream_clean.

(* ---------------- (1b) the Connect JSON examiners characterised ---------------- *)
(* checkNoDuplicateKeys accepts a tree exactly when no object at any depth repeats a key and every
   number converts *)
Theorem clean_json_iff : forall t, check_dup t = None <-> clean_json t.
Proof. exact clean_iff_proof. Qed.
Print Assumptions clean_json_iff.

(* each examiner is silent on a text exactly when the text is JSON and its value tree satisfies the
   declarative well-formedness predicate of C13_Spec: silent => well-formed and well-formed => silent, for
   ALL trees; this covers every rejection below the top level *)
Theorem connect_detail_silent_iff : forall t,
  examine_connect_error_detail t = [] <-> exists j, t = Some j /\ wf_detail j.
Proof. exact detail_iff_proof. Qed.
Print Assumptions connect_detail_silent_iff.

Theorem connect_error_silent_iff : forall t,
  examine_connect_error t = [] <-> exists j, t = Some j /\ wf_connect_error j.
Proof. exact error_iff_proof. Qed.
Print Assumptions connect_error_silent_iff.

Theorem connect_end_stream_silent_iff : forall t,
  examine_connect_end_stream t = [] <-> exists j, t = Some j /\ wf_end_stream j.
Proof. exact end_stream_iff_proof. Qed.
Print Assumptions connect_end_stream_silent_iff.

(* the scanner is silent exactly on well-formed percent-encodings *)
Theorem scan_iff : forall s, scan_msg s 0 = [] <-> pct_wf s.
Proof. exact scan_iff_proof. Qed.
Print Assumptions scan_iff.

(* ---------------- (2) rejection: one theorem per malformation class ---------------- *)
Theorem flags_missing_status : forall unmarshal h, hget h k_status = [] ->
  exists fbs, check_grpc_status unmarshal h = Done fbs /\ In StMissing fbs.
Proof. exact flags_missing_status_proof. Qed.
Print Assumptions flags_missing_status.

Theorem flags_multiple_status : forall unmarshal h a b tl, hget h k_status = a :: b :: tl ->
  exists fbs, check_grpc_status unmarshal h = Done fbs /\ In StMulti fbs.
Proof. exact flags_multiple_status_proof. Qed.
Print Assumptions flags_multiple_status.

Theorem flags_unparsable_status : forall unmarshal h s, hget h k_status = [s] -> atoi s = None ->
  exists fbs, check_grpc_status unmarshal h = Done fbs /\ In StParse fbs.
Proof. exact flags_unparsable_status_proof. Qed.
Print Assumptions flags_unparsable_status.

Theorem flags_status_out_of_range : forall unmarshal h s c, hget h k_status = [s] -> atoi s = Some c ->
  (c < 0 \/ 16 < c)%Z ->
  exists fbs, check_grpc_status unmarshal h = Done fbs /\ In StRange fbs.
Proof. exact flags_status_out_of_range_proof. Qed.
Print Assumptions flags_status_out_of_range.

(* all three forms of a bad percent escape (non-hex after %, raw byte that needs escaping, cut-off escape) *)
Theorem flags_bad_percent : forall unmarshal h m tl, hget h k_message = m :: tl -> ~ pct_wf m ->
  exists fbs f, check_grpc_status unmarshal h = Done fbs /\ In f fbs /\
                (f = MsgHex \/ f = MsgRaw \/ f = MsgIncomplete).
Proof. exact flags_bad_percent_proof. Qed.
Print Assumptions flags_bad_percent.

Theorem flags_message_with_ok_status : forall unmarshal h s m tl,
  hget h k_status = [s] -> atoi s = Some 0%Z -> hget h k_message = m :: tl -> m <> [] ->
  exists fbs, check_grpc_status unmarshal h = Done fbs /\ In MsgWithOk fbs.
Proof. exact flags_message_with_ok_status_proof. Qed.
Print Assumptions flags_message_with_ok_status.

Theorem flags_bad_base64 : forall unmarshal h d tl, hget h k_details = d :: tl ->
  b64_decode_raw d = None -> b64_decode_std d = None ->
  exists fbs, check_grpc_status unmarshal h = Done fbs /\ In DetB64 fbs.
Proof. exact flags_bad_base64_proof. Qed.
Print Assumptions flags_bad_base64.

Theorem flags_padded_base64 : forall unmarshal h d tl data, hget h k_details = d :: tl ->
  b64_decode_raw d = None -> b64_decode_std d = Some data ->
  exists fbs, check_grpc_status unmarshal h = Done fbs /\ In DetPadded fbs.
Proof. exact flags_padded_base64_proof. Qed.
Print Assumptions flags_padded_base64.

Theorem flags_unparsable_details : forall unmarshal h d tl data, hget h k_details = d :: tl ->
  b64_decode_raw d = Some data -> unmarshal data = UBad ->
  exists fbs, check_grpc_status unmarshal h = Done fbs /\ In DetProto fbs.
Proof. exact flags_unparsable_details_proof. Qed.
Print Assumptions flags_unparsable_details.

Theorem flags_status_disagreement : forall unmarshal h s c d tl data pc pm nd,
  hget h k_status = [s] -> atoi s = Some c -> hget h k_details = d :: tl ->
  b64_decode_raw d = Some data -> unmarshal data = UOk pc pm nd -> pc <> to_i32 c ->
  exists fbs, check_grpc_status unmarshal h = Done fbs /\ In DetCode fbs.
Proof. exact flags_status_disagreement_proof. Qed.
Print Assumptions flags_status_disagreement.

Theorem flags_message_disagreement : forall unmarshal h m mtl msg d tl data pc pm nd,
  hget h k_message = m :: mtl -> percent_decode m = Some msg -> hget h k_details = d :: tl ->
  b64_decode_raw d = Some data -> unmarshal data = UOk pc pm nd -> pm <> msg ->
  exists fbs, check_grpc_status unmarshal h = Done fbs /\ In DetMsg fbs.
Proof. exact flags_message_disagreement_proof. Qed.
Print Assumptions flags_message_disagreement.

Theorem flags_ok_with_details : forall unmarshal h d tl data pm nd,
  hget h k_details = d :: tl -> b64_decode_raw d = Some data -> unmarshal data = UOk 0%Z pm (S nd) ->
  exists fbs, check_grpc_status unmarshal h = Done fbs /\ In DetOkDetails fbs.
Proof. exact flags_ok_with_details_proof. Qed.
Print Assumptions flags_ok_with_details.

(* the trailer block: a "line" is a piece of the LF split other than the last one *)
Theorem flags_lf_line_ending : forall content l1 l l2,
  split_on 10 content = l1 ++ l :: l2 -> l2 <> [] -> ends_cr l = false ->
  exists fbs m, examine_grpc_end_stream content = Done (fbs, m) /\ In EosLF fbs.
Proof. exact flags_lf_line_ending_proof. Qed.
Print Assumptions flags_lf_line_ending.

Theorem flags_upper_case_key : forall content l1 l2 key v,
  split_on 10 content = l1 ++ ((key ++ 58 :: v) ++ [13]) :: l2 -> l2 <> [] ->
  ~ In 58 key -> starts_ws key = false -> not_lower key = true ->
  exists fbs m, examine_grpc_end_stream content = Done (fbs, m) /\ In EosUpper fbs.
Proof. exact flags_upper_case_key_proof. Qed.
Print Assumptions flags_upper_case_key.

Theorem flags_invalid_field_name : forall content l1 l2 key v,
  split_on 10 content = l1 ++ ((key ++ 58 :: v) ++ [13]) :: l2 -> l2 <> [] ->
  ~ In 58 key -> starts_ws key = false -> valid_field_name key = false ->
  exists fbs m, examine_grpc_end_stream content = Done (fbs, m) /\ In EosName fbs.
Proof. exact flags_invalid_field_name_proof. Qed.
Print Assumptions flags_invalid_field_name.

Theorem flags_invalid_field_value : forall content l1 l2 key v,
  split_on 10 content = l1 ++ ((key ++ 58 :: v) ++ [13]) :: l2 -> l2 <> [] ->
  ~ In 58 key -> starts_ws key = false -> valid_field_value (trim_ws v) = false ->
  exists fbs m, examine_grpc_end_stream content = Done (fbs, m) /\ In EosValue fbs.
Proof. exact flags_invalid_field_value_proof. Qed.
Print Assumptions flags_invalid_field_value.

(* the block must end with CRLF: EosNoCRLF is reported for every block whose last byte is not LF ... *)
Theorem flags_missing_final_crlf : forall pre c, c <> 10 ->
  exists fbs m, examine_grpc_end_stream (pre ++ [c]) = Done (fbs, m) /\ In EosNoCRLF fbs.
Proof. exact flags_missing_final_crlf_proof. Qed.
Print Assumptions flags_missing_final_crlf.

(* ... and for no other block *)
Theorem no_crlf_iff : forall content fbs m, examine_grpc_end_stream content = Done (fbs, m) ->
  (In EosNoCRLF fbs <-> exists pre c, content = pre ++ [c] /\ c <> 10).
Proof. exact no_crlf_iff_proof. Qed.
Print Assumptions no_crlf_iff.

(* a blank line ("" or CR before the LF) at ANY position of ANY block is reported, as "blank lines" or as
   "extra blank line at the end" ... *)
Theorem flags_blank_line : forall content l1 l l2,
  split_on 10 content = l1 ++ l :: l2 -> l2 <> [] -> l = [] \/ l = [13] ->
  exists fbs m, examine_grpc_end_stream content = Done (fbs, m) /\ (In EosBlank fbs \/ In EosBlankEnd fbs).
Proof. exact flags_blank_line_proof. Qed.
Print Assumptions flags_blank_line.

(* ... and as "blank lines" when another line follows it inside the block *)
Theorem flags_blank_line_inside : forall content l1 l l2 x y,
  split_on 10 content = l1 ++ l :: x :: y :: l2 -> l = [] \/ l = [13] ->
  exists fbs m, examine_grpc_end_stream content = Done (fbs, m) /\ In EosBlank fbs.
Proof. exact flags_blank_line_inside_proof. Qed.
Print Assumptions flags_blank_line_inside.

(* a line that starts with SP / HTAB at ANY position of ANY block is reported: obsolete line folding,
   or (nothing to continue) an invalid field name / a line without colon ... *)
Theorem flags_leading_whitespace : forall content l1 c r l2,
  split_on 10 content = l1 ++ (c :: r) :: l2 -> l2 <> [] -> is_ws c = true ->
  exists fbs m, examine_grpc_end_stream content = Done (fbs, m) /\
    (In EosObsFold fbs \/ In EosName fbs \/ In EosNoColon fbs).
Proof. exact flags_leading_whitespace_proof. Qed.
Print Assumptions flags_leading_whitespace.

(* ... and it is obsolete line folding whenever some earlier line of the block is not blank *)
Theorem flags_obs_fold : forall content l1 c r l2 p,
  split_on 10 content = l1 ++ (c :: r) :: l2 -> l2 <> [] -> is_ws c = true ->
  In p l1 -> p <> [] -> p <> [13] ->
  exists fbs m, examine_grpc_end_stream content = Done (fbs, m) /\ In EosObsFold fbs.
Proof. exact flags_obs_fold_proof. Qed.
Print Assumptions flags_obs_fold.

(* a field line without a colon *)
Theorem flags_no_colon : forall content l1 l2 c r,
  split_on 10 content = l1 ++ ((c :: r) ++ [13]) :: l2 -> l2 <> [] ->
  ~ In 58 (c :: r) -> is_ws c = false ->
  exists fbs m, examine_grpc_end_stream content = Done (fbs, m) /\ In EosNoColon fbs.
Proof. exact flags_no_colon_proof. Qed.
Print Assumptions flags_no_colon.

Theorem flags_http_trailers_outside_grpc : forall unmarshal w,
  w_ctype w <> bs "application/grpc" -> has_prefix (bs "application/grpc+") (w_ctype w) = false ->
  w_trailers w <> [] ->
  exists fbs, examine_wire unmarshal w = Done fbs /\ In HttpTrailers fbs.
Proof. exact flags_http_trailers_outside_grpc_proof. Qed.
Print Assumptions flags_http_trailers_outside_grpc.

(* Connect JSON *)
Theorem flags_missing_code : forall ms, ~ In (bs "code") (map fst ms) ->
  examine_connect_error (Some (JObj ms)) <> [].
Proof. exact flags_missing_code_proof. Qed.
Print Assumptions flags_missing_code.

Theorem flags_bad_code : forall ms v, In (bs "code", v) ms ->
  (forall s, v = JStr s -> ~ In s c13_code_names) ->
  examine_connect_error (Some (JObj ms)) <> [].
Proof. exact flags_bad_code_proof. Qed.
Print Assumptions flags_bad_code.

Theorem flags_unknown_key : forall ms k v, In (k, v) ms ->
  k <> bs "code" -> k <> bs "message" -> k <> bs "details" ->
  examine_connect_error (Some (JObj ms)) <> [].
Proof. exact flags_unknown_key_proof. Qed.
Print Assumptions flags_unknown_key.

Theorem flags_duplicate_key : forall ms, ~ NoDup (map fst ms) ->
  examine_connect_error (Some (JObj ms)) <> [] /\ examine_connect_end_stream (Some (JObj ms)) <> [].
Proof. exact flags_duplicate_key_proof. Qed.
Print Assumptions flags_duplicate_key.

(* syntax errors (None), null, and anything that is not an object *)
Theorem flags_not_an_object : forall t, (forall ms, t <> Some (JObj ms)) ->
  examine_connect_error t <> [] /\ examine_connect_end_stream t <> [].
Proof. exact flags_not_an_object_proof. Qed.
Print Assumptions flags_not_an_object.

(* below the top level: a duplicate key (or a number that does not convert) at ANY depth ... *)
Theorem flags_unclean_json : forall t, ~ clean_json t ->
  examine_connect_error (Some t) <> [] /\ examine_connect_end_stream (Some t) <> [].
Proof. exact flags_unclean_json_proof. Qed.
Print Assumptions flags_unclean_json.

(* ... any malformed element of "details" (not an object, unknown / missing / mistyped key, invalid type name,
   padded or invalid base64) ... *)
Theorem flags_bad_detail : forall ms l d, In (bs "details", JArr l) ms -> In d l -> ~ wf_detail d ->
  examine_connect_error (Some (JObj ms)) <> [].
Proof. exact flags_bad_detail_proof. Qed.
Print Assumptions flags_bad_detail.

(* ... any malformed "error" of an end-of-stream message ... *)
Theorem flags_bad_end_stream_error : forall ms v, In (bs "error", v) ms -> ~ wf_connect_error v ->
  examine_connect_end_stream (Some (JObj ms)) <> [].
Proof. exact flags_bad_end_stream_error_proof. Qed.
Print Assumptions flags_bad_end_stream_error.

(* ... any malformed metadata entry (invalid field name, value not an array of valid field-value strings) *)
Theorem flags_bad_metadata_entry : forall ms es kv, In (bs "metadata", JObj es) ms -> In kv es ->
  ~ wf_metadata_entry kv -> examine_connect_end_stream (Some (JObj ms)) <> [].
Proof. exact flags_bad_metadata_entry_proof. Qed.
Print Assumptions flags_bad_metadata_entry.

(* ---------------- (3) totality: no Crash ---------------- *)
Theorem examine_total : forall content, exists fbs m, examine_grpc_end_stream content = Done (fbs, m).
Proof. exact examine_total_proof. Qed.
Print Assumptions examine_total.

Theorem check_grpc_status_total : forall unmarshal h, exists fbs, check_grpc_status unmarshal h = Done fbs.
Proof. exact check_grpc_status_total_proof. Qed.
Print Assumptions check_grpc_status_total.

Theorem examine_wire_total : forall unmarshal w, exists fbs, examine_wire unmarshal w = Done fbs.
Proof. exact examine_wire_total_proof. Qed.
Print Assumptions examine_wire_total.

Theorem encoders_total : forall marshal code msg details trailers, Forall is_byte msg ->
  (exists e, percent_encode msg = Done e) /\
  (exists st, grpc_status_trailers marshal code msg details = Done st) /\
  (exists blk, grpc_web_end_stream marshal code msg details trailers = Done blk).
Proof. exact encoders_total_proof. Qed.
Print Assumptions encoders_total.

(* ---- non-vacuity: hypotheses are inhabited, both sides occur ---- *)
Example ex_wf_meta : wf_meta [(bs "X-Custom", [bs "v 1"; bs ""]); (bs "y-bin", [bs "AAEC"])].
Proof.
  assert (T : forall l, forallb (fun c => existsb (N.eqb c)
                (bs "!#$%&'*+-.^_`|~0123456789abcdefghijklmnopqrstuvwxyzABCDEFGHIJKLMNOPQRSTUVWXYZ")) l = true -> Forall tchar l).
  { intros l H. apply Forall_forall. intros c Hc. rewrite forallb_forall in H. specialize (H c Hc).
    apply existsb_exists in H as (x & Hx & E). apply N.eqb_eq in E. subst. exact Hx. }
  assert (V : forall l, forallb (fun c => (c =? 9) || ((32 <=? c) && negb (c =? 127))) l = true -> Forall vchar l).
  { intros l H. apply Forall_forall. intros c Hc. rewrite forallb_forall in H. specialize (H c Hc).
    apply orb_true_iff in H as [H|H]; [left; apply N.eqb_eq, H|].
    apply andb_true_iff in H as [H1 H2]. right. split; [apply N.leb_le, H1|].
    apply negb_true_iff in H2. apply N.eqb_neq, H2. }
  unfold wf_meta. apply Forall_cons; [|apply Forall_cons; [|apply Forall_nil]];
    (split; [apply T; vm_compute; reflexivity|
     split; [cbn; intros [H|[H|[H|[]]]]; discriminate H|
             repeat (apply Forall_cons; [apply V; vm_compute; reflexivity|]); apply Forall_nil]]).
Qed.
Example ex_roundtrip_inhabited :
  proto_roundtrip (fun c m ds => Some (Z.to_N c :: m)) (fun d => match d with c :: m => UOk (Z.of_N c) m 0 | [] => UBad end)
  -> True.
Proof. trivial. Qed.
Example ex_block_silent :
  examine_grpc_end_stream (bs "grpc-status: 3" ++ [13; 10] ++ bs "grpc-message: %20a%20" ++ [13; 10] ++ bs "x-t:  v " ++ [13; 10])
  = Done ([], [(bs "Grpc-Status", [bs "3"]); (bs "Grpc-Message", [bs "%20a%20"]); (bs "X-T", [bs "v"])]).
Proof. vm_compute. reflexivity. Qed.
Example ex_trailer_message : trailer_message (bs " a ") = Done (bs "%20a%20") /\ percent_encode (bs " a ") = Done (bs " a ").
Proof. vm_compute. auto. Qed.
Example ex_block_malformed :
  exists m, examine_grpc_end_stream (bs "Grpc-Status: 3" ++ [10] ++ bs "bad name: x" ++ [13; 10] ++ bs "noend") =
  Done ([EosUpper; EosName; EosNoColon; EosLF; EosNoCRLF], m).
Proof. eexists. vm_compute. reflexivity. Qed.
Example ex_block_classes :
  (exists m, examine_grpc_end_stream (bs "a: 1" ++ [13; 10] ++ [13; 10] ++ bs "b: 2" ++ [13; 10]) = Done ([EosBlank], m)) /\
  (exists m, examine_grpc_end_stream (bs "a: 1" ++ [13; 10] ++ [13; 10]) = Done ([EosBlankEnd], m)) /\
  (exists m, examine_grpc_end_stream (bs "a: 1" ++ [13; 10] ++ bs " x" ++ [13; 10]) = Done ([EosObsFold], m)) /\
  (exists m, examine_grpc_end_stream (bs " x: 1" ++ [13; 10]) = Done ([EosName], m)) /\
  (exists m, examine_grpc_end_stream (bs " x" ++ [13; 10]) = Done ([EosNoColon], m)) /\
  (exists m, examine_grpc_end_stream (bs "a: 1") = Done ([EosNoCRLF], m)) /\
  (exists m, examine_grpc_end_stream (bs "a: 1" ++ [10]) = Done ([EosLF], m)) /\
  (exists m, examine_grpc_end_stream [] = Done ([], m)).
Proof. repeat split; eexists; vm_compute; reflexivity. Qed.
Example ex_pct : pct_wf (bs "a%2Fb") /\ ~ pct_wf (bs "a%2") /\ ~ pct_wf (bs "%zz") /\ ~ pct_wf [233].
Proof.
  repeat split; rewrite <- scan_iff; vm_compute; congruence.
Qed.
Example ex_atoi : atoi (bs "abc") = None /\ atoi (bs "") = None /\ atoi (bs "17") = Some 17%Z /\ atoi (bs "-1") = Some (-1)%Z
                  /\ atoi (bs "9223372036854775808") = None.
Proof. vm_compute. auto 10. Qed.
Example ex_b64 : b64_decode_raw (bs "QQ==") = None /\ b64_decode_std (bs "QQ==") = Some [65] /\ b64_decode_raw (bs "QQ") = Some [65]
                 /\ b64_decode_raw (bs "Q") = None /\ b64_decode_std (bs "!!!!") = None.
Proof. vm_compute. auto 10. Qed.
Example ex_cerr_silent :
  examine_connect_error (Some (render_connect_error (bs "not_found") (Some (bs "m")) [(bs "a.B", [1; 2; 3])])) = [].
Proof. vm_compute. reflexivity. Qed.
Example ex_cerr_flagged :
  examine_connect_error (Some (JObj [(bs "Code", JStr (bs "not_found"))])) = [JKey 0; CeNoCode] /\
  examine_connect_error (Some (JObj [(bs "code", JStr (bs "not_found")); (bs "code", JStr (bs "internal"))])) = [JDup 0] /\
  examine_connect_error (Some (JObj [(bs "code", JStr (bs "code_5"))])) = [CeCodeName] /\
  examine_connect_error None = [JSyntax 0].
Proof. vm_compute. auto. Qed.
Example ex_code_names : length c13_code_names = 16%nat.
Proof. reflexivity. Qed.

From Coq Require Import Lia.
(* the Connect renderings: hypotheses inhabited, both sides of the iffs occur *)
Definition ex_dbg : json := JObj [(bs "name", JStr (bs "x")); (bs "n", JNum true)].
Definition ex_err : N * bytes * list wdetail := (5, bs "m", [(bs "a.B", [1; 2; 3], Some ex_dbg); (bs "c.D", [], None)]).
Example ex_wire_hyps : wf_wire_error ex_err /\ wf_field (bs "X-Custom", [bs "v 1"; bs ""]).
Proof.
  split.
  - split; [cbn; lia|]. unfold ex_err. cbn [snd]. apply Forall_cons; [|apply Forall_cons; [|apply Forall_nil]].
    + split; [vm_compute; reflexivity|]. split; [repeat constructor; unfold is_byte; lia|]. cbn [snd].
      intros x [= <-]. apply clean_json_iff. vm_compute. reflexivity.
    + split; [vm_compute; reflexivity|]. split; [constructor|]. cbn [snd]. intros x [=].
  - split; cbn [fst snd].
    + apply Forall_forall. intros c Hc. unfold tchar.
      assert (F : forallb (fun c => existsb (N.eqb c)
                (bs "!#$%&'*+-.^_`|~0123456789abcdefghijklmnopqrstuvwxyzABCDEFGHIJKLMNOPQRSTUVWXYZ")) (bs "X-Custom") = true) by (vm_compute; reflexivity).
      rewrite forallb_forall in F. specialize (F c Hc). apply existsb_exists in F as (x & Hx & E). apply N.eqb_eq in E. subst. exact Hx.
    + apply Forall_forall. intros v [<-|[<-|[]]]; apply Forall_forall; intros c Hc; cbn in Hc;
        repeat (destruct Hc as [<-|Hc]; [right; lia|]); destruct Hc.
Qed.
Example ex_wire_trees :
  wire_end_stream (Some ex_err) [(bs "x-b", [bs "1"]); (bs "a", []); (bs "X-B", [bs "2"]); (bs "a-c", [bs ""])] =
  JObj [(bs "error", JObj [(bs "code", JStr (bs "not_found")); (bs "message", JStr (bs "m"));
                           (bs "details", JArr [JObj [(bs "type", JStr (bs "a.B")); (bs "value", JStr (bs "AQID")); (bs "debug", ex_dbg)];
                                                JObj [(bs "type", JStr (bs "c.D")); (bs "value", JStr [])]])]);
        (bs "metadata", JObj [(bs "A-C", JArr [JStr []]); (bs "X-B", JArr [JStr (bs "1"); JStr (bs "2")])])] /\
  wire_end_stream None [] = JObj [] /\
  wire_error 17 [] [] = JObj [(bs "code", JStr (bs "code_17"))].
Proof. vm_compute. auto. Qed.
Example ex_wire_silent :
  examine_connect_end_stream (Some (wire_end_stream (Some ex_err) [(bs "x-b", [bs "1"])])) = [] /\
  examine_connect_end_stream (Some (wire_end_stream None [])) = [] /\
  examine_connect_error (Some (wire_error 17 [] [])) = [CeCodeName].
Proof. vm_compute. auto. Qed.
(* a duplicate key three levels down, a padded value, a bad metadata value: flagged, hence not well-formed *)
Example ex_depth :
  examine_connect_error (Some (JObj [(bs "code", JStr (bs "internal"));
     (bs "details", JArr [JObj [(bs "type", JStr (bs "a.B")); (bs "value", JStr (bs "QQ"));
                                (bs "debug", JObj [(bs "k", JNull); (bs "k", JNull)])]])])) = [JDup 0] /\
  examine_connect_error (Some (JObj [(bs "code", JStr (bs "internal"));
     (bs "details", JArr [JObj [(bs "type", JStr (bs "a.B")); (bs "value", JStr (bs "QQ=="))]])])) = [CdValueB64] /\
  examine_connect_end_stream (Some (JObj [(bs "metadata", JObj [(bs "k", JArr [JStr [0]])])])) = [EsMetaValue] /\
  examine_connect_end_stream (Some (JObj [(bs "error", JObj [(bs "code", JStr (bs "code_5"))])])) = [CeCodeName] /\
  ~ wf_end_stream (JObj [(bs "error", JObj [(bs "code", JStr (bs "code_5"))])]) /\
  ~ clean_json (JArr [JObj [(bs "k", JNull); (bs "k", JNull)]]).
Proof.
  repeat split; try (vm_compute; reflexivity).
  - intros W. assert (E : examine_connect_end_stream (Some (JObj [(bs "error", JObj [(bs "code", JStr (bs "code_5"))])])) = [])
      by (apply connect_end_stream_silent_iff; eauto). vm_compute in E. discriminate E.
  - intros C. apply clean_json_iff in C. vm_compute in C. discriminate C.
Qed.

(* ---------------- (5) the glue: from the bytes on the wire to the feedback field ---------------- *)
(* C13_Call: what the trace holds for a response body of complete envelopes (tracer/reader.go), what the
   examiners read off it (getBodyEndStream, isTrailersOnlyResponse), and the call sites of
   invoker.examineWireDetails in referenceclient/impl.go. *)

(* the end-stream content handed to the examiners is the WHOLE payload of the first end-stream
   envelope with content — for every payload length *)
Theorem end_stream_handed_over_whole : forall pre f payload post,
  Forall no_end_stream pre -> is_end_flag f = true -> payload <> [] ->
  first_end_stream (flat_map env_events (pre ++ (f, payload) :: post)) = Some payload.
Proof. exact first_end_stream_whole_proof. Qed.
Print Assumptions end_stream_handed_over_whole.

(* in reference mode every call site (with the stream set up) answers with the examination of the
   call's response: status code and the examiners' feedback ... *)
Theorem call_is_examination : forall u m ended r,
  call_feedback u true m false ended r =
  match examine_wire u (wire_of_response r) with
  | Crash => Crash
  | Done f => Done (Some (r_status r), f)
  end.
Proof. exact call_is_examination_proof. Qed.
Print Assumptions call_is_examination.

(* ... whatever the RPC ended with: no error, or any error code (in particular canceled and
   deadline_exceeded, which a server may send as well as the client may produce) *)
Theorem call_examined_for_every_code : forall u m r e1 e2,
  call_feedback u true m false e1 r = call_feedback u true m false e2 r.
Proof. exact call_examined_for_every_code_proof. Qed.
Print Assumptions call_examined_for_every_code.

Theorem call_total : forall u refmode m sf ended r, exists st f,
  call_feedback u refmode m sf ended r = Done (st, f).
Proof. exact call_total_proof. Qed.
Print Assumptions call_total.

(* unary Connect error: the feedback field starts with the examiner's verdict on the body *)
Theorem call_connect_error : forall u m ended r,
  r_ctype r = bs "application/json" -> r_status r <> 200%Z ->
  exists tail, call_feedback u true m false ended r =
               Done (Some (r_status r), examine_connect_error (r_body_json r) ++ tail).
Proof. exact call_connect_error_proof. Qed.
Print Assumptions call_connect_error.

Theorem call_flags_connect_unknown_key_every_code : forall u m ended r ms k v,
  r_ctype r = bs "application/json" -> r_status r <> 200%Z -> r_body_json r = Some (JObj ms) ->
  In (k, v) ms -> k <> bs "code" -> k <> bs "message" -> k <> bs "details" ->
  exists fbs, call_feedback u true m false ended r = Done (Some (r_status r), fbs) /\ fbs <> [].
Proof. exact call_flags_connect_unknown_key_every_code_proof. Qed.
Print Assumptions call_flags_connect_unknown_key_every_code.

(* gRPC trailers-only response: the feedback field is checkGRPCStatus of the headers *)
Theorem call_grpc_trailers_only : forall u m ended r,
  has_prefix (bs "application/grpc") (r_ctype r) = true ->
  has_prefix (bs "application/grpc-web") (r_ctype r) = false ->
  r_envs r = [] -> r_trailers r = [] ->
  exists fbs, check_grpc_status u (r_headers r) = Done fbs /\
              call_feedback u true m false ended r = Done (Some (r_status r), fbs).
Proof. exact call_grpc_trailers_only_proof. Qed.
Print Assumptions call_grpc_trailers_only.

Theorem call_flags_grpc_bad_message_every_code : forall u m ended r msg tl,
  has_prefix (bs "application/grpc") (r_ctype r) = true ->
  has_prefix (bs "application/grpc-web") (r_ctype r) = false ->
  r_envs r = [] -> r_trailers r = [] ->
  hget (r_headers r) k_message = msg :: tl -> ~ pct_wf msg ->
  exists fbs f, call_feedback u true m false ended r = Done (Some (r_status r), fbs) /\ In f fbs /\
                (f = MsgHex \/ f = MsgRaw \/ f = MsgIncomplete).
Proof. exact call_flags_grpc_bad_message_every_code_proof. Qed.
Print Assumptions call_flags_grpc_bad_message_every_code.

(* Connect stream: the feedback field starts with the examiner's verdict on the end-stream message *)
Theorem call_connect_end_stream : forall u m ended r pre f text post,
  has_prefix (bs "application/connect+") (r_ctype r) = true ->
  r_envs r = pre ++ (f, text) :: post -> Forall no_end_stream pre -> is_end_flag f = true -> text <> [] ->
  exists tail, call_feedback u true m false ended r =
               Done (Some (r_status r), examine_connect_end_stream (r_eos_json r) ++ tail) /\
               (r_trailers r = [] -> tail = []).
Proof. exact call_connect_end_stream_proof. Qed.
Print Assumptions call_connect_end_stream.

(* acceptance carried to the feedback field, for end-stream messages of ANY length: the reference server's
   Connect end-of-stream message ... *)
Theorem call_connect_end_stream_clean : forall u m ended r pre f text post err trailers,
  has_prefix (bs "application/connect+") (r_ctype r) = true ->
  r_envs r = pre ++ (f, text) :: post -> Forall no_end_stream pre -> is_end_flag f = true -> text <> [] ->
  r_eos_json r = Some (wire_end_stream err trailers) ->
  match err with Some e => wf_wire_error e | None => True end -> Forall wf_field trailers ->
  r_trailers r = [] ->
  call_feedback u true m false ended r = Done (Some (r_status r), []).
Proof. exact call_connect_end_stream_clean_proof. Qed.
Print Assumptions call_connect_end_stream_clean.

(* ... and its gRPC-Web trailer block *)
Theorem call_grpc_web_end_stream_clean :
  forall marshal u m ended r pre f post code msg details trailers blk,
  proto_roundtrip marshal u -> 1 <= code <= 16 -> Forall is_byte msg -> wf_meta trailers ->
  grpc_web_end_stream marshal code msg details trailers = Done blk ->
  has_prefix (bs "application/grpc-web") (r_ctype r) = true ->
  r_envs r = pre ++ (f, blk) :: post -> Forall no_end_stream pre -> is_end_flag f = true ->
  r_trailers r = [] ->
  call_feedback u true m false ended r = Done (Some (r_status r), []).
Proof. exact call_grpc_web_end_stream_clean_proof. Qed.
Print Assumptions call_grpc_web_end_stream_clean.

(* non-vacuity: a data message, a zero-length end-stream message and an end-stream message with content:
   the content is handed over; a response whose stream could not be set up is the one case a call site
   does not examine; a malformed unary error is flagged under code canceled (1) as under unknown (2) *)
Example ex_call_events :
  first_end_stream (body_events (bs "application/connect+proto") [(0, [1; 2]); (2, []); (2, bs "{}"); (2, bs "x")]) = Some (bs "{}") /\
  first_end_stream (body_events (bs "application/json") [(2, bs "{}")]) = None /\
  Forall no_end_stream [(0, [1; 2]); (2, []); (1, [7])] /\
  is_end_flag 2 = true /\ is_end_flag 128 = true /\ is_end_flag 3 = true /\ is_end_flag 1 = false.
Proof.
  repeat split; try (vm_compute; reflexivity).
  repeat constructor; (left; reflexivity) || (right; reflexivity).
Qed.
Example ex_call_sites :
  let r := mk_response 500 (bs "application/json") [] []
             (Some (JObj [(bs "code", JStr (bs "canceled")); (bs "extra", JBool true)])) None [] in
  call_feedback (fun _ => UBad) true MUnary false (Some 1) r = Done (Some 500%Z, [JKey 0]) /\
  call_feedback (fun _ => UBad) true MUnary false (Some 2) r = Done (Some 500%Z, [JKey 0]) /\
  call_feedback (fun _ => UBad) true MServerStream true None r = Done (None, []) /\
  call_feedback (fun _ => UBad) false MUnary false (Some 1) r = Done (None, []).
Proof. vm_compute. auto. Qed.
