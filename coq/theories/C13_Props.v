(* C13_Props.v — in progress *)
