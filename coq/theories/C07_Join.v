(* C07_Join.v — path.Join / path.Clean (the model's path_join / clean, which the c07.join cases
   compare with Go's on every run) on well-formed names.
   A segment is well formed when it is non-empty, contains no "/" and is neither "." nor "..".
   On a non-empty list of such segments Clean is the identity on the "/"-joined string and
   splitting at "/" gives the segments back, so path_join is injective there.  A name that may
   itself contain "/" (test names such as "unary/success") is well formed when every one of its
   segments is; joining such names is joining their segments. *)
From Coq Require Import Lia.
From V Require Import C07_Model.
Open Scope N_scope.

Definition good_seg (w : bytes) : Prop := w <> [] /\ ~ In 47 w /\ w <> dot /\ w <> dotdot.

(* a relative, already clean path: "a", "a/b", ... but not "", "/a", "a/", "a//b", "./a", "a/../b" *)
Definition clean_rel (n : bytes) : Prop := Forall good_seg (split_on 47 n).

Definition has_slash (w : bytes) : bool := existsb (N.eqb 47) w.
Definition good_segb (w : bytes) : bool :=
  negb (is_nil w) && negb (has_slash w) && negb (bytes_eqb w dot) && negb (bytes_eqb w dotdot).

Lemma has_slash_false w : has_slash w = false <-> ~ In 47 w.
Proof.
  unfold has_slash. split.
  - intros H Hin. assert (E : existsb (N.eqb 47) w = true).
    { apply existsb_exists. exists 47. split; [exact Hin|apply N.eqb_refl]. }
    congruence.
  - intros H. destruct (existsb (N.eqb 47) w) eqn:E; [|reflexivity]. exfalso. apply H.
    apply existsb_exists in E. destruct E as (x & Hx & E). apply N.eqb_eq in E. subst. exact Hx.
Qed.

Lemma good_segb_iff w : good_segb w = true <-> good_seg w.
Proof.
  unfold good_segb, good_seg. rewrite !andb_true_iff, !negb_true_iff, has_slash_false.
  assert (A : is_nil w = false <-> w <> []) by (destruct w; simpl; split; congruence).
  assert (D : forall d, bytes_eqb w d = false <-> w <> d).
  { intros d. destruct (bytes_eqb_spec w d); split; congruence. }
  rewrite A, !D. tauto.
Qed.

Lemma clean_rel_good w : good_seg w -> clean_rel w.
Proof.
  intros H. unfold clean_rel. rewrite split_on_no_sep; [constructor; [exact H|constructor]|apply H].
Qed.

Lemma clean_rel_nonempty n : clean_rel n -> n <> [].
Proof. intros H ->. unfold clean_rel in H. simpl in H. inversion H as [|? ? (E & _) _]. congruence. Qed.

(* ---------- join ---------- *)
Lemma join_app sep a b : a <> [] -> b <> [] -> join sep (a ++ b) = join sep a ++ sep :: join sep b.
Proof.
  induction a as [|w a IH]; intros Ha Hb; [congruence|].
  destruct a as [|w' a].
  - simpl app. rewrite join_cons by exact Hb. reflexivity.
  - change ((w :: w' :: a) ++ b) with (w :: (w' :: a) ++ b).
    rewrite join_cons by discriminate. rewrite IH by (discriminate || exact Hb).
    rewrite (join_cons sep w (w' :: a)) by discriminate. rewrite <- app_assoc. reflexivity.
Qed.

Lemma flat_split_nonempty (l : list bytes) : l <> [] -> flat_map (split_on 47) l <> [].
Proof.
  destruct l as [|n r]; [congruence|]. intros _. simpl.
  pose proof (split_on_nonempty 47 n). destruct (split_on 47 n); [congruence|discriminate].
Qed.

(* joining names = joining their segments *)
Lemma join_flat (l : list bytes) : join 47 (flat_map (split_on 47) l) = join 47 l.
Proof.
  induction l as [|n r IH]; [reflexivity|]. simpl flat_map.
  destruct r as [|n' r].
  - simpl. rewrite app_nil_r. apply join_split.
  - rewrite join_app; [|apply split_on_nonempty|apply flat_split_nonempty; discriminate].
    rewrite IH, join_split. rewrite (join_cons 47 n (n' :: r)) by discriminate. reflexivity.
Qed.

Lemma Forall_flat_split (l : list bytes) : Forall clean_rel l -> Forall good_seg (flat_map (split_on 47) l).
Proof.
  induction 1 as [|n r Hn _ IH]; simpl; [constructor|]. apply Forall_app. split; assumption.
Qed.

(* ---------- Clean is the identity on joined well-formed segments ---------- *)
Lemma clean_step_good rooted st w : good_seg w -> clean_step rooted st w = w :: st.
Proof.
  intros H. apply good_segb_iff in H. unfold good_segb in H.
  rewrite !andb_true_iff, !negb_true_iff in H. destruct H as (((A & _) & B) & C).
  unfold clean_step. rewrite A, B, C. reflexivity.
Qed.

Lemma fold_clean_good rooted l : forall st, Forall good_seg l ->
  fold_left (clean_step rooted) l st = rev l ++ st.
Proof.
  induction l as [|w l IH]; intros st H; [reflexivity|].
  inversion H; subst. simpl. rewrite clean_step_good by assumption. rewrite IH by assumption.
  rewrite <- app_assoc. reflexivity.
Qed.

Lemma good_no_sep l : Forall good_seg l -> Forall (no_sep 47) l.
Proof. intros H. eapply Forall_impl; [|exact H]. intros w Hw. apply Hw. Qed.

Lemma clean_join l : l <> [] -> Forall good_seg l -> clean (join 47 l) = join 47 l.
Proof.
  intros NE HF. pose proof (split_join 47 l NE (good_no_sep l HF)) as Hs.
  destruct l as [|w l]; [congruence|]. inversion HF as [|? ? Hw Hl]; subst.
  destruct w as [|a w]; [exfalso; apply (proj1 Hw); reflexivity|].
  assert (Ha : a <> 47) by (intros ->; apply (proj1 (proj2 Hw)); left; reflexivity).
  set (p := join 47 _) in *.
  assert (Hp : exists r, p = a :: r) by (subst p; destruct l; simpl; eauto).
  destruct Hp as (r & Hp). rewrite Hp in Hs. rewrite Hp. unfold clean. rewrite Hs.
  rewrite (proj2 (N.eqb_neq a 47) Ha). cbv zeta.
  rewrite fold_clean_good by exact HF. rewrite app_nil_r, rev_involutive.
  set (q := rev _).
  assert (N : is_nil q = false).
  { destruct q eqn:E; [|reflexivity]. subst q.
    apply (f_equal (@length _)) in E. rewrite rev_length in E. discriminate. }
  rewrite N. subst p. first [exact Hp|symmetry; exact Hp].
Qed.

(* ---------- path.Join ---------- *)
Lemma drop_empty_front_id (w : bytes) l : w <> [] -> drop_empty_front (w :: l) = w :: l.
Proof. destruct w; [congruence|reflexivity]. Qed.

(* on well-formed segments path.Join is plain joining, and splitting gives the segments back *)
Theorem path_join_segments_proof : forall l, l <> [] -> Forall good_seg l ->
  path_join l = join 47 l /\ split_on 47 (path_join l) = l.
Proof.
  intros l NE HF. assert (E : path_join l = join 47 l).
  { destruct l as [|w l]; [congruence|]. inversion HF as [|? ? Hw _]; subst.
    unfold path_join. rewrite drop_empty_front_id by apply Hw. apply clean_join; assumption. }
  split; [exact E|]. rewrite E. apply split_join; [exact NE|apply good_no_sep; exact HF].
Qed.

Theorem path_join_injective_proof : forall l l', l <> [] -> l' <> [] ->
  Forall good_seg l -> Forall good_seg l' -> path_join l = path_join l' -> l = l'.
Proof.
  intros l l' NE NE' HF HF' E.
  destruct (path_join_segments_proof l NE HF) as (_ & S).
  destruct (path_join_segments_proof l' NE' HF') as (_ & S').
  rewrite <- S, <- S', E. reflexivity.
Qed.

(* names that may contain "/" themselves: joining them is joining their segments *)
Theorem path_join_names_proof : forall l, l <> [] -> Forall clean_rel l ->
  path_join l = join 47 l /\ split_on 47 (path_join l) = flat_map (split_on 47) l.
Proof.
  intros l NE HF.
  assert (HS : Forall good_seg (flat_map (split_on 47) l)) by (apply Forall_flat_split; exact HF).
  assert (NS : flat_map (split_on 47) l <> []) by (apply flat_split_nonempty; exact NE).
  assert (E : path_join l = join 47 l).
  { destruct l as [|w l]; [congruence|]. inversion HF as [|? ? Hw _]; subst.
    unfold path_join. rewrite drop_empty_front_id by (apply clean_rel_nonempty; exact Hw).
    rewrite <- join_flat. apply clean_join; assumption. }
  split; [exact E|]. rewrite E, <- join_flat. apply split_join; [exact NS|apply good_no_sep; exact HS].
Qed.

(* the leading empty element of generateTestCasePrefix's slice is dropped *)
Lemma path_join_nil_front l : path_join ([] :: l) = path_join l.
Proof. reflexivity. Qed.
