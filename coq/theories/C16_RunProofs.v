(* C16_RunProofs.v — proofs about the glue of C16_Run.v: the runner's call order
   (runTestCasesForServer) and the response body values TracingRoundTripper wraps.
   The runner theorems are obtained from the Tracer theorems of C16_Proofs (first_trace,
   slot_view): the history of one batch, projected on one test case, is
   Init; completions; Await; completions / time-out; Clear; completions. *)
From V Require Import C16_Spec C16_Proofs C16_MwProofs.
From V Require Export C16_Run.
From Coq Require Import Lia.
Open Scope N_scope.

(* ====================================================================== *)
(* projections: what view_after / parked look at                          *)
(* ====================================================================== *)
Definition mine (n : name) (w : N) (a : action) : bool :=
  match a with
  | Init m | Clear m | Complete m _ => bytes_eqb m n
  | AwaitBegin v _ | CtxDone v => v =? w
  end.

Lemma lookback_filter n w : forall rh later,
  lookback (filter (mine n w) rh) n later = lookback rh n later.
Proof.
  induction rh as [|a rh IH]; intros later; simpl; [reflexivity|].
  destruct a; simpl.
  - destruct (bytes_eqb n0 n) eqn:E; simpl; [rewrite E; reflexivity|apply IH].
  - destruct (bytes_eqb n0 n) eqn:E; simpl; [rewrite E|]; apply IH.
  - destruct (w0 =? w); simpl; apply IH.
  - destruct (bytes_eqb n0 n) eqn:E; simpl; [rewrite E; reflexivity|apply IH].
  - destruct (w0 =? w); simpl; apply IH.
Qed.

Lemma filter_rev' {A} (f : A -> bool) l : filter f (rev l) = rev (filter f l).
Proof.
  induction l as [|a l IH]; simpl; [reflexivity|]. rewrite filter_app, IH. simpl.
  destruct (f a); simpl; [reflexivity|apply app_nil_r].
Qed.

Lemma view_filter n w h : view_after (filter (mine n w) h) n = view_after h n.
Proof. unfold view_after. rewrite <- filter_rev'. apply lookback_filter. Qed.

Lemma orphaned_filter n w : forall post, orphaned w (filter (mine n w) post) = orphaned w post.
Proof.
  induction post as [|a post IH]; simpl; [reflexivity|].
  destruct a; simpl; try (destruct (bytes_eqb n0 n); simpl; exact IH).
  - destruct (w0 =? w); simpl; exact IH.
  - destruct (w0 =? w) eqn:E; simpl; [rewrite E; reflexivity|exact IH].
Qed.

Lemma parked_filter n w : forall post, parked n w (filter (mine n w) post) = parked n w post.
Proof.
  induction post as [|a post IH]; simpl; [reflexivity|].
  destruct a; simpl.
  - destruct (bytes_eqb n0 n) eqn:E; simpl; [rewrite E; apply orphaned_filter|exact IH].
  - destruct (bytes_eqb n0 n) eqn:E; simpl; [rewrite E; reflexivity|exact IH].
  - destruct (w0 =? w); simpl; exact IH.
  - destruct (bytes_eqb n0 n) eqn:E; simpl; [rewrite E; apply orphaned_filter|exact IH].
  - destruct (w0 =? w) eqn:E; simpl; [rewrite E; reflexivity|exact IH].
Qed.

(* completions change neither a name without slot nor a completed one *)
Definition only_completes (l : list action) : Prop := forall a, In a l -> exists m t, a = Complete m t.

Lemma view_completes n : forall x h v,
  only_completes x -> view_after h n = v -> v <> Open -> view_after (h ++ x) n = v.
Proof.
  induction x as [|a x IH]; intros h v OC V NO; [rewrite app_nil_r; exact V|].
  replace (h ++ a :: x) with ((h ++ [a]) ++ x) by (rewrite <- app_assoc; reflexivity).
  apply IH; [intros b IN; apply OC; right; exact IN| |exact NO].
  rewrite view_after_snoc, V. destruct (OC a (or_introl eq_refl)) as (m & t & ->). simpl.
  destruct (bytes_eqb m n); [|reflexivity]. destruct v; try reflexivity. contradiction.
Qed.

Lemma split_unique {A} (a : A) : forall l1 l2 l1' l2',
  l1 ++ a :: l2 = l1' ++ a :: l2' -> ~ In a l1' -> ~ In a l2' -> l1 = l1' /\ l2 = l2'.
Proof.
  induction l1 as [|x l1 IH]; intros l2 l1' l2' E N1 N2; destruct l1' as [|y l1']; simpl in *.
  - inversion E; auto.
  - inversion E; subst. exfalso; apply N1; left; reflexivity.
  - inversion E; subst. exfalso; apply N2. apply in_or_app. right. left. reflexivity.
  - inversion E; subst. destruct (IH l2 l1' l2' H1) as [-> ->]; auto.
Qed.

Lemma span_spec {A} (p : A -> bool) : forall l a b, span p l = (a, b) -> l = a ++ b /\ forallb p a = true.
Proof.
  induction l as [|x l IH]; simpl; intros a b H; [inversion H; auto|].
  destruct (p x) eqn:P.
  - destruct (span p l) as [a' b'] eqn:S. inversion H; subst. destruct (IH a' b eq_refl) as [-> F].
    simpl. rewrite P. auto.
  - inversion H; subst. auto.
Qed.

Lemma skipn_cons {A} : forall k (l : list A) x r,
  skipn k l = x :: r -> nth_error l k = Some x /\ skipn (S k) l = r.
Proof.
  induction k as [|k IH]; intros [|y l] x r H; simpl in *; try discriminate.
  - inversion H; auto.
  - apply IH. exact H.
Qed.

Lemma first_done_filter i : forall l, first_done i (filter (is_case i) l) = first_done i l.
Proof.
  induction l as [|e l IH]; simpl; [reflexivity|].
  destruct e; unfold is_case; simpl; destruct (Nat.eqb i0 i) eqn:E; simpl; try rewrite E; auto.
Qed.

Definition no_await (a : action) : bool := match a with AwaitBegin _ _ => false | _ => true end.

Lemma no_await_in l w m : forallb no_await l = true -> ~ In (AwaitBegin w m) l.
Proof. intros F IN. rewrite forallb_forall in F. apply F in IN. discriminate. Qed.

Lemma complete_is_cot c : forallb is_complete c = true -> forallb is_complete_or_timeout c = true.
Proof.
  intros F. rewrite forallb_forall in *. intros e IN. apply F in IN. destruct e; auto; discriminate.
Qed.

(* ====================================================================== *)
(* one test case of a batch                                               *)
(* ====================================================================== *)
Section Proj.
Variables (all : list name) (i : nat) (n : name).
Hypothesis ND : NoDup all.
Hypothesis NTH : nth_error all i = Some n.
Let w := N.of_nat i.

Lemma other_name j m : nth_error all j = Some m -> j <> i -> bytes_eqb m n = false.
Proof.
  intros E NE. destruct (bytes_eqb_spec m n) as [->|]; [|reflexivity]. exfalso. apply NE.
  rewrite NoDup_nth_error in ND. apply ND; [|congruence].
  apply nth_error_Some. rewrite E. discriminate.
Qed.

Lemma act_mine e : filter (mine n w) (act all e) = if is_case i e then act all e else [].
Proof.
  unfold act. destruct (nth_error all (case_of e)) as [m|] eqn:E; [|destruct (is_case i e); reflexivity].
  unfold is_case. destruct (Nat.eqb_spec (case_of e) i) as [EQ|NE].
  - rewrite EQ, NTH in E. inversion E; subst m.
    destruct e; simpl in *; subst; unfold w; rewrite ?bytes_eqb_refl, ?N.eqb_refl; reflexivity.
  - pose proof (other_name _ _ E NE) as F.
    assert (G : (N.of_nat (case_of e) =? w) = false).
    { apply N.eqb_neq. unfold w. intros X. apply Nat2N.inj in X. contradiction. }
    destruct e; simpl in *; rewrite ?F, ?G; reflexivity.
Qed.

Lemma acts_mine evs : filter (mine n w) (acts all evs) = acts all (filter (is_case i) evs).
Proof.
  induction evs as [|e evs IH]; simpl; [reflexivity|].
  rewrite filter_app, act_mine, IH. destruct (is_case i e); reflexivity.
Qed.

Lemma acts_app a b : acts all (a ++ b) = acts all a ++ acts all b.
Proof. unfold acts. apply flat_map_app. Qed.

Lemma runner_proj : forall rest k sched,
  skipn k all = rest -> causal_from k sched = true ->
  filter (mine n w) (runner_from InitBeforeSend all rest sched)
  = (if Nat.leb k i then [Init n] else []) ++ acts all (filter (is_case i) (concat sched)).
Proof.
  induction rest as [|m r IH]; intros k sched SK CA.
  - assert (LE : (length all <= k)%nat).
    { pose proof (skipn_length k all) as L. rewrite SK in L. simpl in L. lia. }
    assert (LT : (i < length all)%nat) by (apply nth_error_Some; rewrite NTH; discriminate).
    destruct (Nat.leb_spec k i); [lia|]. simpl. apply acts_mine.
  - apply skipn_cons in SK as [NK SK].
    assert (CO : concat sched = hd [] sched ++ concat (tl sched)) by (destruct sched; reflexivity).
    assert (CA' : causal_from (S k) (tl sched) = true /\
                  forallb (fun e => Nat.leb (case_of e) k) (hd [] sched) = true).
    { destruct sched as [|evs s]; simpl in *; [auto|]. apply andb_true_iff in CA as [A B]. auto. }
    destruct CA' as [CA1 CA2].
    simpl. rewrite !filter_app, (IH (S k) (tl sched) SK CA1), acts_mine, CO, filter_app, acts_app.
    remember (Nat.leb (S k) i) as l1 eqn:L1. remember (Nat.leb k i) as l0 eqn:L0. simpl.
    destruct (Nat.lt_total k i) as [LT|[EQ|GT]].
    + rewrite (other_name k m NK) by lia.
      assert (E : filter (is_case i) (hd [] sched) = []).
      { rewrite forallb_forall in CA2. clear - CA2 LT. induction (hd [] sched) as [|e l IHl]; [reflexivity|].
        simpl. unfold is_case at 1. pose proof (CA2 e (or_introl eq_refl)) as LE. apply Nat.leb_le in LE.
        destruct (Nat.eqb_spec (case_of e) i); [lia|]. apply IHl. intros x IN. apply CA2. right. exact IN. }
      rewrite E. simpl.
      assert (l0 = true) by (subst l0; apply Nat.leb_le; lia).
      assert (l1 = true) by (subst l1; apply Nat.leb_le; lia). rewrite H, H0. reflexivity.
    + subst k. rewrite NTH in NK. inversion NK; subst m. rewrite bytes_eqb_refl.
      assert (l0 = true) by (subst l0; apply Nat.leb_le; lia).
      assert (l1 = false) by (subst l1; apply Nat.leb_gt; lia). rewrite H, H0. reflexivity.
    + rewrite (other_name k m NK) by lia.
      assert (l0 = false) by (subst l0; apply Nat.leb_gt; lia).
      assert (l1 = false) by (subst l1; apply Nat.leb_gt; lia). rewrite H, H0. reflexivity.
Qed.

Lemma acts_only_completes c : forallb is_complete c = true -> only_completes (acts all c).
Proof.
  intros F a IN. unfold acts in IN. apply in_flat_map in IN as (e & IE & IA).
  rewrite forallb_forall in F. apply F in IE. unfold act in IA.
  destruct (nth_error all (case_of e)) as [m|]; [|contradiction].
  destruct e; try discriminate. destruct IA as [<-|[]]. eauto.
Qed.

Lemma acts_no_await c : forallb is_complete_or_timeout c = true -> forallb no_await (acts all c) = true.
Proof.
  intros F. apply forallb_forall. intros a IN. unfold acts in IN. apply in_flat_map in IN as (e & IE & IA).
  rewrite forallb_forall in F. apply F in IE. unfold act in IA.
  destruct (nth_error all (case_of e)) as [m|]; [|contradiction].
  destruct e; try discriminate; destruct IA as [<-|[]]; reflexivity.
Qed.

Lemma own e : is_case i e = true -> nth_error all (case_of e) = Some n.
Proof. unfold is_case. intros E. apply Nat.eqb_eq in E. rewrite E. exact NTH. Qed.

Lemma not_begun pre : no_begin w pre -> (run pre).(waiters) w = NotStarted.
Proof. intros NB. unfold run. rewrite stable_fold; [reflexivity|reflexivity|exact NB]. Qed.

Lemma got_of s t : outcome_of s = Some (GotTrace t) -> s = Got t.
Proof. destruct s; simpl; intros H; inversion H; reflexivity. Qed.
Lemma ctx_of s : outcome_of s = Some CtxError -> s = CtxErr.
Proof. destruct s; simpl; intros H; inversion H; reflexivity. Qed.

Lemma runner_case sched :
  causal_from 0 sched = true -> case_ok (events_of i sched) = true ->
  (run (runner_history InitBeforeSend all sched)).(waiters) w
    = match first_done i (concat sched) with Some t => Got t | None => CtxErr end
  /\ (run (runner_history InitBeforeSend all sched)).(slots) n = None.
Proof.
  intros CA OK. unfold runner_history.
  pose proof (runner_proj all 0%nat sched eq_refl CA) as P. simpl in P.
  set (H := runner_from InitBeforeSend all all sched) in *.
  rewrite <- (first_done_filter i (concat sched)). fold (events_of i sched) in *.
  assert (MI : forallb (is_case i) (events_of i sched) = true).
  { apply forallb_forall. intros e IN. apply filter_In in IN as [_ IN]. exact IN. }
  unfold case_ok in OK.
  destruct (span is_complete (events_of i sched)) as [c1 r1] eqn:S1.
  apply span_spec in S1 as [E1 F1].
  destruct r1 as [|[| j | |] r2]; try discriminate.
  destruct (span is_complete_or_timeout r2) as [c2 r3] eqn:S2.
  apply span_spec in S2 as [E2 F2].
  destruct r3 as [|[| | j' |] c3]; try discriminate.
  apply andb_true_iff in OK as [F3 NE]. subst r2.
  rewrite E1 in *. clear E1.
  rewrite !forallb_app in MI. simpl in MI. rewrite !forallb_app in MI. simpl in MI.
  apply andb_true_iff in MI as [M1 MI]. apply andb_true_iff in MI as [MJ MI].
  apply andb_true_iff in MI as [M2 MI]. apply andb_true_iff in MI as [MJ' M3].
  pose proof (own _ MJ) as OJ. pose proof (own _ MJ') as OJ'. simpl in OJ, OJ'.
  assert (J : j = i) by (apply Nat.eqb_eq in MJ; exact MJ). subst j.
  set (P1 := Init n :: acts all c1).
  set (P2 := acts all c2 ++ Clear n :: acts all c3).
  assert (PE : filter (mine n w) H = P1 ++ AwaitBegin w n :: P2).
  { rewrite P. unfold P1, P2. rewrite !acts_app. simpl.
    assert (A1 : act all (PRespond i) = [AwaitBegin w n]) by (unfold act; simpl; rewrite NTH; reflexivity).
    assert (A2 : act all (PClear j') = [Clear n]) by (unfold act; simpl; rewrite OJ'; reflexivity).
    rewrite A1, acts_app. simpl. rewrite A2. reflexivity. }
  assert (NA1 : forallb no_await P1 = true).
  { unfold P1. simpl. apply acts_no_await. apply complete_is_cot. exact F1. }
  assert (NA2 : forallb no_await P2 = true).
  { unfold P2. rewrite forallb_app. simpl. rewrite (acts_no_await c2 F2).
    rewrite (acts_no_await c3 (complete_is_cot _ F3)). reflexivity. }
  (* the slot view at the end *)
  assert (SL : view_after H n = NoSlot).
  { rewrite <- (view_filter n w), PE.
    replace (P1 ++ AwaitBegin w n :: P2)
      with (((P1 ++ AwaitBegin w n :: acts all c2) ++ [Clear n]) ++ acts all c3)
      by (unfold P2; repeat rewrite <- app_assoc; simpl; reflexivity).
    apply view_completes; [apply acts_only_completes; exact F3| |discriminate].
    rewrite view_after_snoc. simpl. rewrite bytes_eqb_refl. reflexivity. }
  split.
  2:{ rewrite <- slot_view_proof in SL. unfold mview in SL.
      destruct (slots (run H) n) as [s|]; [|reflexivity]. destruct (s_done s); discriminate. }
  (* the waiter *)
  assert (IN : In (AwaitBegin w n) H).
  { assert (X : In (AwaitBegin w n) (filter (mine n w) H)) by (rewrite PE; apply in_or_app; right; left; reflexivity).
    apply filter_In in X as [X _]. exact X. }
  apply in_split in IN as (pre & post & HS).
  assert (FE : filter (mine n w) pre ++ AwaitBegin w n :: filter (mine n w) post = P1 ++ AwaitBegin w n :: P2).
  { rewrite <- PE, HS, filter_app. simpl. rewrite N.eqb_refl. reflexivity. }
  apply split_unique in FE as [FP1 FP2]; [|apply no_await_in; exact NA1|apply no_await_in; exact NA2].
  assert (NB1 : no_begin w pre).
  { intros m X. apply (no_await_in P1 w m NA1). rewrite <- FP1. apply filter_In. split; [exact X|].
    simpl. apply N.eqb_refl. }
  assert (NB2 : no_begin w post).
  { intros m X. apply (no_await_in P2 w m NA2). rewrite <- FP2. apply filter_In. split; [exact X|].
    simpl. apply N.eqb_refl. }
  assert (NW : is_waiting ((run pre).(waiters) w) = false) by (rewrite (not_begun pre NB1); reflexivity).
  pose proof (first_trace_proof pre post w n NW NB2) as FT. rewrite <- HS in FT.
  unfold await_outcome in FT. rewrite <- (view_filter n w pre), FP1 in FT.
  rewrite <- (parked_filter n w post), FP2 in FT.
  destruct c1 as [|e1 c1'].
  - (* no completion before the response: the waiter parks *)
    unfold P1 in FT. simpl in FT. unfold view_after in FT. simpl in FT. rewrite bytes_eqb_refl in FT.
    destruct c2 as [|e2 c2']; [discriminate|].
    simpl in F2, M2. apply andb_true_iff in F2 as [F2 _]. apply andb_true_iff in M2 as [M2 _].
    pose proof (own _ M2) as O2. unfold P2 in FT. simpl in FT. unfold act at 1 in FT. rewrite O2 in FT.
    simpl. destruct e2; try discriminate; unfold is_case in M2; simpl in FT, M2 |- *; rewrite M2.
    + rewrite bytes_eqb_refl in FT. apply got_of. exact FT.
    + apply Nat.eqb_eq in M2. subst i0. fold w in FT.
      rewrite N.eqb_refl in FT. apply ctx_of. exact FT.
  - (* completed before the response *)
    simpl in F1, M1. apply andb_true_iff in F1 as [F1 F1']. apply andb_true_iff in M1 as [M1 _].
    pose proof (own _ M1) as O1. destruct e1; try discriminate. unfold is_case in M1. simpl in M1 |- *. rewrite M1.
    assert (V : view_after P1 n = Done t).
    { unfold P1. simpl. unfold act at 1. rewrite O1. simpl.
      change (Init n :: Complete n t :: acts all c1') with ([Init n; Complete n t] ++ acts all c1').
      apply view_completes; [apply acts_only_completes; exact F1'| |discriminate].
      unfold view_after. simpl. rewrite !bytes_eqb_refl. reflexivity. }
    rewrite V in FT. apply got_of. exact FT.
Qed.
End Proj.

Lemma sched_ok_parts (names : list name) (sched : list (list pev)) (i : nat) (n : name) :
  nth_error names i = Some n -> sched_ok (length names) sched = true ->
  causal_from 0 sched = true /\ case_ok (events_of i sched) = true.
Proof.
  intros NTH OK. unfold sched_ok in OK. apply andb_true_iff in OK as [OK C]. apply andb_true_iff in OK as [CA _].
  split; [exact CA|]. rewrite forallb_forall in C. apply C. apply in_seq.
  assert ((i < length names)%nat) by (apply nth_error_Some; rewrite NTH; discriminate). lia.
Qed.

(* With tracer.Init BEFORE sendRequest: whatever the peers do and whenever (also before
   sendRequest returns), the fetch goroutine of every test case obtains the FIRST trace
   completed for its test name (or its time-out, if that comes first) ... *)
Lemma runner_trace_available_proof : forall names sched i n,
  NoDup names -> nth_error names i = Some n -> sched_ok (length names) sched = true ->
  (run (runner_history InitBeforeSend names sched)).(waiters) (N.of_nat i)
  = match first_done i (concat sched) with Some t => Got t | None => CtxErr end.
Proof.
  intros names sched i n ND NTH OK. destruct (sched_ok_parts _ _ _ _ NTH OK) as [CA CK].
  apply (runner_case names i n ND NTH sched CA CK).
Qed.

(* ... and no slot of the batch is left behind *)
Lemma runner_leaves_no_slot_proof : forall names sched i n,
  NoDup names -> nth_error names i = Some n -> sched_ok (length names) sched = true ->
  (run (runner_history InitBeforeSend names sched)).(slots) n = None.
Proof.
  intros names sched i n ND NTH OK. destruct (sched_ok_parts _ _ _ _ NTH OK) as [CA CK].
  apply (runner_case names i n ND NTH sched CA CK).
Qed.

(* ====================================================================== *)
(* TracingRoundTripper: every kind of response body completes the trace   *)
(* ====================================================================== *)
Definition has_term (l : list mwact) : bool := existsb terminal (bacts_of l).

Lemma has_term_app l1 l2 : has_term (l1 ++ l2) = has_term l1 || has_term l2.
Proof. unfold has_term, bacts_of. rewrite flat_map_app, existsb_app. reflexivity. Qed.

Lemma ctf_term r e r' a : c_try_finish r e = (r', a) -> r.(r_closed) = false -> has_term a = true.
Proof.
  unfold c_try_finish. intros H NC. rewrite NC in H. inversion H; subst.
  rewrite !has_term_app. unfold has_term at 2. simpl. apply orb_true_r.
Qed.

Definition wants_end (r : crd) (ops : list cop) : Prop :=
  r.(r_closed) = false /\ (existsb is_close ops = true \/ (length r.(r_left) < nreads ops)%nat).

Lemma crun_term y : forall ops r acc,
  has_term acc = true \/ wants_end r ops -> has_term (crun y r ops acc) = true.
Proof.
  induction ops as [|o ops IH]; intros r acc H.
  - simpl. destruct H as [H|[_ [H|H]]]; [exact H|discriminate|unfold nreads in H; simpl in H; lia].
  - simpl. destruct (cop_step y r o) as [r' a] eqn:ST. apply IH.
    destruct H as [H|[NC W]]; [left; rewrite has_term_app, H; reflexivity|].
    assert (FIN : forall r0 e, r_closed r0 = false -> c_try_finish r0 e = (r', a) ->
                  has_term (acc ++ a) = true \/ wants_end r' ops).
    { intros r0 e NC0 E. left. rewrite has_term_app, (ctf_term _ _ _ _ E NC0). apply orb_true_r. }
    destruct o; simpl in ST.
    + (* Read *)
      destruct (r_canceled r); [apply (FIN _ _ NC ST)|].
      destruct (r_uclosed r); [apply (FIN _ _ NC ST)|].
      destruct (r_left r) as [|c rest] eqn:RL.
      * destruct (bd_err (c_resp y) =? 0).
        -- destruct (c_try_finish _ 0) as [r1 f] eqn:TF in ST. inversion ST; subst.
           left. rewrite !has_term_app, (ctf_term _ _ _ _ TF NC). rewrite !orb_true_r. reflexivity.
        -- apply (FIN _ _ NC ST).
      * inversion ST; subst. right. split; [exact NC|]. simpl.
        destruct W as [W|W]; [left; exact W|right]. unfold nreads in *. simpl in W. lia.
    + (* Close *)
      refine (FIN _ _ _ ST). exact NC.
    + (* cancel *)
      destruct (r_canceled r); inversion ST; subst.
      * right. split; [exact NC|]. destruct W as [W|W]; [left; exact W|right; exact W].
      * left. rewrite has_term_app. unfold has_term at 2. simpl. apply orb_true_r.
Qed.

(* Each traced round trip completes its trace EXACTLY once, for EVERY kind of response body
   value (bytes, an empty body, http.NoBody), once the exchange is over for the caller *)
Lemma roundtrip_completes_once_any_body_proof : forall nm k y,
  nm <> [] -> exchange_over k y ->
  length (mwrun nm (client_script_k k y)).(m_b).(b_calls) = 1%nat.
Proof.
  intros nm k y NM OV. rewrite mw_builder_view_proof.
  destruct (once_per_op_proof nm (bacts_of (client_script_k k y))) as [_ [_ R]]. apply R. split; [exact NM|].
  change (has_term (client_script_k k y) = true).
  unfold client_script_k, client_script_w, wraps_response_body. rewrite andb_false_r.
  unfold client_script. rewrite has_term_app.
  replace (c_tfail (with_kind k y)) with (c_tfail y) by reflexivity.
  destruct (c_tfail y =? 0) eqn:TF.
  - rewrite crun_term; [apply orb_true_r|]. right. split; [reflexivity|]. simpl.
    destruct OV as [OV|[OV|OV]]; [apply N.eqb_eq in TF; contradiction|left; exact OV|right; exact OV].
  - unfold has_term at 2. simpl. apply orb_true_r.
Qed.
