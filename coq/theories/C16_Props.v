(* C16_Props.v — the property theorems of C16 and nothing else.
   Histories are ARBITRARY lists of actions; every action is one critical section of
   tracer.go / builder.go, so every interleaving of the goroutines is one such list. *)
From V Require Import C16_Spec C16_Proofs C16_Conc C16_ConcProofs C16_Mw C16_MwProofs C16_Run C16_RunProofs C16_Hdr C16_HdrProofs.
Open Scope N_scope.

(* The slot map always shows what the history says: the latest Init/Clear of the name
   decides whether there is a slot, the FIRST Complete after that Init decides its trace. *)
Theorem slot_view : forall h n,
  match (run h).(slots) n with
  | None => NoSlot
  | Some s => if s.(s_done) then Done s.(s_trace) else Open
  end = view_after h n.
Proof. exact slot_view_proof. Qed.
Print Assumptions slot_view.

(* ... where view_after has the obvious relational reading *)
Theorem view_done_iff : forall h n t, view_after h n = Done t <-> first_completed h n t.
Proof. exact view_done_iff_proof. Qed.
Print Assumptions view_done_iff.
Theorem view_open_iff : forall h n, view_after h n = Open <-> still_open h n.
Proof. exact view_open_iff_proof. Qed.
Print Assumptions view_open_iff.
Theorem view_noslot_iff : forall h n, view_after h n = NoSlot <-> never_or_cleared h n.
Proof. exact view_noslot_iff_proof. Qed.
Print Assumptions view_noslot_iff.

(* A waiter that calls Await on n after `pre` (not being parked already) and does not call
   again during `post` ends exactly as the specification says: the first trace completed
   for the slot that was current when it began — whether that completion lies in `pre`
   (before the wait) or in `post` (after) —, an immediate failure without a slot, a context
   error if its context ends first, and it is still parked otherwise. *)
Theorem first_trace : forall pre post w n,
  is_waiting ((run pre).(waiters) w) = false ->
  (forall m, ~ In (AwaitBegin w m) post) ->
  outcome_of ((run (pre ++ AwaitBegin w n :: post)).(waiters) w)
  = Some (await_outcome pre post w n).
Proof. exact first_trace_proof. Qed.
Print Assumptions first_trace.

(* Complete on a name that was never initialised, was cleared, or is already completed
   leaves the WHOLE state (all slots, all waiters) unchanged. *)
Theorem no_effect : forall h n t,
  view_after h n <> Open -> run (h ++ [Complete n t]) = run h.
Proof. exact no_effect_proof. Qed.
Print Assumptions no_effect.

(* Await on a never-initialised or cleared name fails at once (no parking). *)
Theorem fail_fast : forall h w n,
  is_waiting ((run h).(waiters) w) = false -> never_or_cleared h n ->
  (run (h ++ [AwaitBegin w n])).(waiters) w = Failed.
Proof. exact fail_fast_rel_proof. Qed.
Print Assumptions fail_fast.

(* Once its context is done a waiter is not parked any more, whatever happens later. *)
Theorem ctx_bound : forall h w post,
  (forall m, ~ In (AwaitBegin w m) post) ->
  is_waiting ((run (h ++ CtxDone w :: post)).(waiters) w) = false.
Proof. exact ctx_bound_proof. Qed.
Print Assumptions ctx_bound.

(* builder: at most one collector call per operation, exactly one iff the operation is
   named and a finishing event or build() occurred — for every order of events. *)
Theorem once_per_op : forall nm l,
  (length (brun nm l).(b_calls) <= 1)%nat /\
  (length (brun nm l).(b_calls) = 1%nat <-> nm <> [] /\ existsb terminal l = true).
Proof. exact once_per_op_proof. Qed.
Print Assumptions once_per_op.

(* the delivered trace holds the events added up to and including the first finishing
   one (or up to build()); whatever is added later changes nothing that was delivered *)
Theorem frozen : forall nm l,
  (brun nm l).(b_calls) = (brun nm (cut l)).(b_calls) /\
  (forall t, In t (brun nm l).(b_calls) ->
     t.(t_name) = nm /\ t.(t_events) = TReqStart :: numbered [] (adds (cut l))).
Proof. exact frozen_proof. Qed.
Print Assumptions frozen.

(* request / response data events are numbered 0,1,2,... in add order *)
Theorem indices : forall nm l t, In t (brun nm l).(b_calls) ->
  req_indices t.(t_events) = upto (length (req_indices t.(t_events))) /\
  resp_indices t.(t_events) = upto (length (resp_indices t.(t_events))).
Proof. exact indices_proof. Qed.
Print Assumptions indices.

(* "records no event after completion": in whatever the collector receives, nothing
   follows a finishing event — for every order of events *)
Theorem no_event_after_finish : forall nm l t,
  In t (brun nm l).(b_calls) -> nothing_after_finish t.(t_events).
Proof. exact no_event_after_finish_proof. Qed.
Print Assumptions no_event_after_finish.

(* ---- concurrency made explicit ---- *)
(* the enumeration used by the free-running oracles is exactly the set of interleavings:
   every script's actions in program order, nothing else *)
Theorem interleavings_iff : forall (ss : list (list bact)) l,
  In l (interleavings ss) <-> Interleave ss l.
Proof. exact (@interleavings_iff_proof bact). Qed.
Print Assumptions interleavings_iff.

(* the builder oracle accepts an observed list of collector calls iff SOME interleaving of
   the goroutines' scripts (after `pre`, before `tail`) delivers exactly that list ... *)
Theorem builder_allowed_iff : forall nm pre ss tail obs,
  ballowed nm pre ss tail obs = true <->
  exists l, Interleave ss l /\ (brun nm (pre ++ l ++ tail)).(b_calls) = obs.
Proof. exact builder_allowed_iff_proof. Qed.
Print Assumptions builder_allowed_iff.

(* ... hence an accepted observation has every proved property: at most one call, only for a
   named operation, with the operation's name, nothing after its finishing event, data
   events numbered 0,1,2,... per direction *)
Theorem accepted_calls_sound : forall nm pre ss tail obs,
  ballowed nm pre ss tail obs = true ->
  (length obs <= 1)%nat /\
  (forall t, In t obs ->
     nm <> [] /\ t.(t_name) = nm /\ nothing_after_finish t.(t_events) /\
     req_indices t.(t_events) = upto (length (req_indices t.(t_events))) /\
     resp_indices t.(t_events) = upto (length (resp_indices t.(t_events)))).
Proof. exact accepted_calls_sound_proof. Qed.
Print Assumptions accepted_calls_sound.

(* the Tracer oracle accepts what the waiters got and what the names show iff SOME
   interleaving of Init/Complete/AwaitBegin/Clear (then `tail`: the contexts ending) shows it *)
Theorem tracer_allowed_iff : forall pre ss tail ws ns obs,
  tallowed pre ss tail ws ns obs = true <->
  exists l, Interleave ss l /\ observe (run (pre ++ l ++ tail)) ws ns = obs.
Proof. exact tracer_allowed_iff_proof. Qed.
Print Assumptions tracer_allowed_iff.

(* add = critical section + collector call after the unlock.  Because the code takes and
   clears the trace INSIDE the critical section, every schedule of critical sections and
   deferred calls (other goroutines may run between a critical section and its deferred
   call) hands the collector what the one-action-per-add model hands it: calls made so far
   plus calls still to be made = the one-step calls.  So all theorems above hold at this
   finer grain too. *)
Theorem two_step_add : forall nm sched,
  (frun true nm sched).(f_calls) ++ ready_traces (frun true nm sched).(f_pend)
  = (brun nm (atomic_of sched)).(b_calls).
Proof. exact two_step_add_proof. Qed.
Print Assumptions two_step_add.

(* ---- the call sites: middleware.go / reader.go ---- *)
(* whatever a wrapper does for an exchange, its builder sees exactly the add / build calls of the
   list, so every builder theorem above (once_per_op, frozen, indices, no_event_after_finish)
   holds for every traced HTTP operation *)
Theorem mw_builder_view : forall nm acts, (mwrun nm acts).(m_b) = brun nm (bacts_of acts).
Proof. exact mw_builder_view_proof. Qed.
Print Assumptions mw_builder_view.

(* in the list of operations TracingHandler / TracingRoundTripper perform for ANY exchange
   (failing writes, panics, early closes, cancellation points, request-body errors included),
   every write to the Trailer map of the response the trace points to precedes the wrapper's
   own finishing add (end of the response body, round-trip error) *)
Theorem mutations_before_finish :
  (forall x, mutations_precede_finish (server_script x)) /\
  (forall y, mutations_precede_finish (client_script y)).
Proof. exact mutations_before_finish_proof. Qed.
Print Assumptions mutations_before_finish.

(* for ARBITRARY lists of add / build / trailer writes: if no write follows the action that
   hands the trace over, what every collector call saw is what the trace shows at the end *)
Theorem delivered_trace_final : forall nm acts,
  cells_before_terminal acts ->
  forall s, In s (mwrun nm acts).(m_snaps) -> s = (mwrun nm acts).(m_cell).
Proof. exact delivered_trace_final_proof. Qed.
Print Assumptions delivered_trace_final.

(* hence: when nothing but the response path ends the operation (no cancellation point, no
   request-body error — otherwise see ex_cancel_then_trailers), the trace is delivered WITH
   the trailers and nothing it points to is written afterwards *)
Theorem delivered_with_trailers :
  (forall x nm s, server_undisturbed x ->
     In s (mwrun nm (server_script x)).(m_snaps) -> s = (mwrun nm (server_script x)).(m_cell)) /\
  (forall y nm s, client_undisturbed y ->
     In s (mwrun nm (client_script y)).(m_snaps) -> s = (mwrun nm (client_script y)).(m_cell)).
Proof. exact delivered_with_trailers_proof. Qed.
Print Assumptions delivered_with_trailers.

(* one exchange, at most one collector call, one snapshot per call *)
Theorem mw_once : forall nm acts,
  (length (mwrun nm acts).(m_b).(b_calls) <= 1)%nat /\
  length (mwrun nm acts).(m_snaps) = length (mwrun nm acts).(m_b).(b_calls).
Proof. exact mw_once_proof. Qed.
Print Assumptions mw_once.

(* ---- consumer: results.go fetchTrace (histories = arbitrary lists of Init / Complete / Clear /
   setOutcome / timeout; every fetch goroutine runs to its end or to its select between actions) ---- *)
(* a trace enters r.traces only as the result of a fetch goroutine's successful Await, while
   the outcome is a plain failure *)
Theorem fetch_stores_only_awaited : forall h a n t,
  (frunf (h ++ [a])).(f_stored) n = Some t ->
  (frunf h).(f_stored) n = Some t \/
  exists w, In (w, n) (fapply (frunf h) a).(f_live) /\
            (fapply (frunf h) a).(f_tr).(waiters) w = Got t /\ (fapply (frunf h) a).(f_wants) n = true.
Proof. exact fetch_stores_only_awaited_proof. Qed.
Print Assumptions fetch_stores_only_awaited.

(* a fetch for a name without a slot fails at once and changes NOTHING that was stored *)
Theorem fetch_failed_keeps : forall h n wt,
  (frunf h).(f_tr).(slots) n = None ->
  (frunf (h ++ [FOutcome n wt])).(f_stored) = (frunf h).(f_stored).
Proof. exact fetch_failed_keeps_proof. Qed.
Print Assumptions fetch_failed_keeps.

(* the first stored trace is kept: from the moment it is stored (store_clears: the name has no
   slot then) until the name is initialised again, whatever else happens *)
Theorem first_stored_kept : forall h1 h2 n t,
  (frunf h1).(f_stored) n = Some t -> (frunf h1).(f_tr).(slots) n = None ->
  (forall a, In a h2 -> a <> FInit n) ->
  (frunf (h1 ++ h2)).(f_stored) n = Some t /\ (frunf (h1 ++ h2)).(f_tr).(slots) n = None.
Proof. exact first_stored_kept_proof. Qed.
Print Assumptions first_stored_kept.
Theorem store_clears : forall h a n t,
  (frunf (h ++ [a])).(f_stored) n = Some t -> (frunf h).(f_stored) n <> Some t ->
  (frunf (h ++ [a])).(f_tr).(slots) n = None.
Proof. exact store_clears_proof. Qed.
Print Assumptions store_clears.

(* ---- consumer: wire_details.go ---- *)
(* a second hand-over to a wrapper that has its trace crashes (close of a closed channel) *)
Theorem wire_second_crashes : forall fwd s c x a,
  s.(wr) c = Some (Some x) -> sets_ctx c a = true -> wstep fwd s a = None.
Proof. exact wire_second_crashes_proof. Qed.
Print Assumptions wire_second_crashes.
(* the trace a wrapper received stays, whatever else happens, until the context is replaced *)
Theorem wire_first_kept : forall fwd h s s' c x,
  wrun_from fwd s h = Some s' -> s.(wr) c = Some (Some x) ->
  existsb (renews_ctx c) h = false -> s'.(wr) c = Some (Some x).
Proof. exact wire_first_kept_proof. Qed.
Print Assumptions wire_first_kept.
(* ONE traced operation, whatever it does, hands its trace to the wrapper of a fresh call
   context without a crash; the wrapper holds it iff the operation delivered one (once_per_op
   is what makes this safe) *)
Theorem wire_builder_safe : forall fwd s c nm l t status,
  s.(wr) c = Some None ->
  exists s', deliver_wire fwd s c (brun nm l).(b_calls) t status = Some s' /\
             s'.(wr) c = match (brun nm l).(b_calls) with [] => Some None | _ => Some (Some (t, status)) end.
Proof. exact wire_builder_safe_proof. Qed.
Print Assumptions wire_builder_safe.
(* the Tracer behind the wrappers sees exactly the forwarded completions (so the Tracer
   theorems above apply to it) *)
Theorem wire_forwards : forall fwd h s s',
  wrun_from fwd s h = Some s' -> s'.(w_tr) = fold_left step (wire_tracer_acts fwd h) s.(w_tr).
Proof. exact wire_forwards_proof. Qed.
Print Assumptions wire_forwards.

(* ---- the glue: runTestCasesForServer's call order, TracingRoundTripper's body wrapping ---- *)
(* server_runner.go calls tracer.Init(req.TestName) BEFORE client.sendRequest.  For every batch
   of distinct test names and EVERY peer schedule (completions, the response that starts the
   fetch goroutine's Await, its Clear, its time-out: at any point after sendRequest of the
   test case STARTED - also before it returns, also during later test cases' sends), the
   fetch goroutine of each test case obtains the FIRST trace completed for its test name
   (its context error if the TraceTimeout comes first) ... *)
Theorem runner_trace_available : forall names sched i n,
  NoDup names -> nth_error names i = Some n -> sched_ok (length names) sched = true ->
  (run (runner_history InitBeforeSend names sched)).(waiters) (N.of_nat i)
  = match first_done i (concat sched) with Some t => Got t | None => CtxErr end.
Proof. exact runner_trace_available_proof. Qed.
Print Assumptions runner_trace_available.

(* ... and the Tracer keeps no slot of the batch afterwards *)
Theorem runner_leaves_no_slot : forall names sched i n,
  NoDup names -> nth_error names i = Some n -> sched_ok (length names) sched = true ->
  (run (runner_history InitBeforeSend names sched)).(slots) n = None.
Proof. exact runner_leaves_no_slot_proof. Qed.
Print Assumptions runner_leaves_no_slot.

(* TracingRoundTripper: EVERY kind of response body value (bytes, an empty body, the
   http.NoBody sentinel of HTTP/1.1 Content-Length: 0 / 204 / 304 / HEAD) is wrapped, so each
   round trip completes its trace exactly once as soon as the exchange is over for the caller
   (round-trip error, Close, or a Read past the last chunk), whatever else the caller does *)
Theorem roundtrip_completes_once_any_body : forall nm k y,
  nm <> [] -> exchange_over k y ->
  length (mwrun nm (client_script_k k y)).(m_b).(b_calls) = 1%nat.
Proof. exact roundtrip_completes_once_any_body_proof. Qed.
Print Assumptions roundtrip_completes_once_any_body.

(* Request headers of a client-side trace (builder.go newBuilder): the httptrace hook keeps
   storing the fields the transport reports in ONE live map, also after a cancellation has
   completed the trace.  For ALL orders of reported fields, completion and reads: every header
   value the delivered trace hands out (to the collector at completion, to any later reader)
   holds at the end exactly what it held when it was handed out - the transport's later
   writes never reach a value a consumer holds (so a consumer iterating it without the lock
   does not race the transport). *)
Theorem delivered_headers_frozen_after_completion : forall acts r c,
  In (r, c) (hrun HClone acts).(h_got) -> deref (hrun HClone acts) r = c.
Proof. exact delivered_headers_frozen_after_completion_proof. Qed.
Print Assumptions delivered_headers_frozen_after_completion.

(* ... what the collector takes at completion is the set of fields reported before it
   (last value per key), whatever follows ... *)
Theorem completion_takes_fields_so_far : forall p pre post,
  existsb is_hcomplete pre = false ->
  exists r rest, (hrun p (pre ++ HComplete :: post)).(h_got) = (r, fields_of pre) :: rest.
Proof. exact completion_takes_fields_so_far_proof. Qed.
Print Assumptions completion_takes_fields_so_far.

(* ... and an undelivered trace hands out nothing. *)
Theorem nothing_handed_out_before_completion : forall p acts,
  existsb is_hcomplete acts = false -> (hrun p acts).(h_got) = [].
Proof. exact nothing_handed_out_before_completion_proof. Qed.
Print Assumptions nothing_handed_out_before_completion.

(* ---- non-vacuity ---- *)
Definition a := bs "a".
Definition b := bs "b".
(* completion before the wait begins, and after it *)
Example ex_before : (run [Init a; Complete a 7; Complete a 8; AwaitBegin 0 a]).(waiters) 0 = Got 7.
Proof. vm_compute. reflexivity. Qed.
Example ex_after : (run [Init a; AwaitBegin 0 a; Complete b 5; Complete a 7; Complete a 8]).(waiters) 0 = Got 7.
Proof. vm_compute. reflexivity. Qed.
(* re-initialising orphans the old waiter; the new waiter gets the new trace *)
Example ex_reinit :
  let st := run [Init a; AwaitBegin 0 a; Init a; AwaitBegin 1 a; Complete a 9; CtxDone 0] in
  (st.(waiters) 0, st.(waiters) 1) = (CtxErr, Got 9).
Proof. vm_compute. reflexivity. Qed.
Example ex_cleared : (run [Init a; Clear a; Complete a 3; AwaitBegin 0 a]).(waiters) 0 = Failed.
Proof. vm_compute. reflexivity. Qed.
Example ex_first_completed : first_completed [Init a; Complete b 1; Complete a 7; Complete a 8] a 7.
Proof.
  exists [], [Complete b 1], [Complete a 8]. split; [reflexivity|].
  split; [|split].
  - intros x [<-|[]] [E|E]; discriminate.
  - intros t [E|[]]. discriminate.
  - intros x [<-|[]] [E|E]; discriminate.
Qed.
(* builder: cancel racing body end — whichever comes first finishes, the other is ignored *)
Example ex_cancel_then_end :
  map t_events (brun a [Add ERespStart; Add ERespData; Add ECanceled; Add (ERespEnd 0); Build]).(b_calls)
  = [[TReqStart; TRespStart; TRespData 0; TCanceled]].
Proof. vm_compute. reflexivity. Qed.
Example ex_end_then_cancel :
  map t_events (brun a [Add EReqData; Add EReqData; Add (EReqEnd 0); Add (ERespEnd 0); Add ECanceled]).(b_calls)
  = [[TReqStart; TReqData 0; TReqData 1; TReqEnd 0; TRespEnd 0]].
Proof. vm_compute. reflexivity. Qed.
Example ex_unnamed : (brun [] [Add ERespStart; Add (ERespEnd 0); Build]).(b_calls) = [].
Proof. vm_compute. reflexivity. Qed.
Example ex_unfinished : (brun a [Add ERespStart; Add (EReqEnd 0)]).(b_calls) = [].
Proof. vm_compute. reflexivity. Qed.

(* ---- why the clearing must happen inside the lock ---- *)
(* body end and cancel from two goroutines; each add's deferred step runs after the other
   goroutine's critical section *)
Definition race_sched : list fact :=
  [FAdd (ERespEnd 0); FAdd ECanceled; FDefer 0; FDefer 0; FDefer 1; FDefer 1].
(* the code: the second event finds the trace cleared *)
Example ex_inlock :
  map t_events (frun true a race_sched).(f_calls) = [[TReqStart; TRespEnd 0]]
  /\ (frun true a race_sched).(f_pend) = [].
Proof. vm_compute. split; reflexivity. Qed.
(* finishing by a build() after the unlock instead: the cancel event is recorded AFTER the
   finishing event, and delivered *)
Example ex_outside_lock :
  map t_events (frun false a race_sched).(f_calls) = [[TReqStart; TRespEnd 0; TCanceled]]
  /\ (frun false a race_sched).(f_pend) = [].
Proof. vm_compute. split; reflexivity. Qed.
(* ... which no order of atomic adds and builds whatsoever can deliver: the two-step
   equivalence fails for that variant *)
Example ex_outside_lock_refuted :
  ~ exists nm l, (brun nm l).(b_calls) = (frun false a race_sched).(f_calls).
Proof.
  intros (nm & l & E).
  assert (IN : In (mkTr a [TReqStart; TRespEnd 0; TCanceled] 4 false) (brun nm l).(b_calls)).
  { rewrite E. vm_compute. left. reflexivity. }
  apply no_event_after_finish in IN.
  specialize (IN [TReqStart] (TRespEnd 0) [TCanceled] eq_refl eq_refl). discriminate.
Qed.
(* the oracle on observations: either order of the racing events is accepted, the
   overlapped outcome is not *)
Example ex_oracle_accepts :
  ballowed a [Add ERespStart] [[Add (ERespEnd 0)]; [Add ECanceled]] [Build]
           [mkTr a [TReqStart; TRespStart; TRespEnd 0] 0 true] = true
  /\ ballowed a [Add ERespStart] [[Add (ERespEnd 0)]; [Add ECanceled]] [Build]
           [mkTr a [TReqStart; TRespStart; TCanceled] 4 true] = true.
Proof. vm_compute. split; reflexivity. Qed.
Example ex_oracle_rejects :
  ballowed a [Add ERespStart] [[Add (ERespEnd 0)]; [Add ECanceled]] [Build]
           [mkTr a [TReqStart; TRespStart; TRespEnd 0; TCanceled] 0 true] = false.
Proof. vm_compute. reflexivity. Qed.
(* Tracer: Await racing two Completes — the waiter may get either (whichever is first), never
   a context error while a completion is certain *)
Example ex_tracer_oracle :
  let ss := [[AwaitBegin 0 a]; [Complete a 1]; [Complete a 2]] in
  tallowed [Init a] ss [CtxDone 0] [0] [a] ([(2, 1)], [(2, 1)])%Z = true /\
  tallowed [Init a] ss [CtxDone 0] [0] [a] ([(2, 2)], [(2, 2)])%Z = true /\
  tallowed [Init a] ss [CtxDone 0] [0] [a] ([(2, 1)], [(2, 2)])%Z = false /\
  tallowed [Init a] ss [CtxDone 0] [0] [a] ([(4, 0)], [(2, 1)])%Z = false.
Proof. vm_compute. repeat split; reflexivity. Qed.

(* ---- the call sites ---- *)
(* a handler that declares trailer 1, writes, sets trailer 1 and the undeclared (prefixed)
   trailer 2: delivered once, with both trailers; nothing changes afterwards *)
Definition ex_handler : sexch :=
  mkSX (mkBody false [] 0) true [HDeclare 1; HWrite 1 false; HSet false false 1 7; HSet true false 2 8].
Example ex_server_trailers :
  server_undisturbed ex_handler /\
  (mwrun a (server_script ex_handler)).(m_snaps) = [[(1, [7]); (2, [8])]] /\
  (mwrun a (server_script ex_handler)).(m_cell) = [(1, [7]); (2, [8])] /\
  map t_events (mwrun a (server_script ex_handler)).(m_b).(b_calls) = [[TReqStart; TRespStart; TRespData 0; TRespEnd 0]].
Proof. vm_compute. repeat split; reflexivity. Qed.
(* recording the end of the body BEFORE the trailers (seeded C16-7) is a different list: the
   collector sees the seeded declared key only, and the map changes after the delivery *)
Example ex_end_before_trailers :
  let acts := [MCell [(1, [])]; MAdd ERespStart; MAdd ERespData; MAdd (ERespEnd 0); MCell [(1, [7]); (2, [8])]; MBuild] in
  ~ mutations_precede_finish acts /\
  (mwrun a acts).(m_snaps) = [[(1, [])]] /\ (mwrun a acts).(m_cell) = [(1, [7]); (2, [8])].
Proof.
  split; [|vm_compute; split; reflexivity].
  intros W. apply (W [MCell [(1, [])]; MAdd ERespStart; MAdd ERespData] (MAdd (ERespEnd 0))
                    [MCell [(1, [7]); (2, [8])]; MBuild] [(1, [7]); (2, [8])] eq_refl eq_refl).
  left. reflexivity.
Qed.
(* the code as it is: when a CANCELLATION (or a request-body error) ends the operation while
   the handler is still running, the trace is delivered at once and the handler's epilogue
   still writes the trailers into the response the delivered trace points to — the
   hypothesis of delivered_with_trailers is needed *)
Definition ex_cancelled : sexch :=
  mkSX (mkBody false [] 0) true [HWrite 1 false; HCancel; HSet true false 2 8].
Example ex_cancel_then_trailers :
  ~ server_undisturbed ex_cancelled /\
  (mwrun a (server_script ex_cancelled)).(m_snaps) = [[]] /\
  (mwrun a (server_script ex_cancelled)).(m_cell) = [(2, [8])] /\
  map t_events (mwrun a (server_script ex_cancelled)).(m_b).(b_calls) = [[TReqStart; TRespStart; TRespData 0; TCanceled]].
Proof. split; [intros H; discriminate H|]. vm_compute. repeat split; reflexivity. Qed.
(* client: the transport puts the trailers in place before io.EOF; cancel after the end is ignored *)
Definition ex_call : cexch :=
  mkCX (mkBody true [1] 0) 1 0 (mkBody true [2] 0) [(3, [9])] [CRead; CRead; CCancel].
Example ex_client_trailers :
  (mwrun a (client_script ex_call)).(m_snaps) = [[(3, [9])]] /\
  map t_events (mwrun a (client_script ex_call)).(m_b).(b_calls)
  = [[TReqStart; TReqData 0; TReqEnd 0; TRespStart; TRespData 0; TRespData 1; TRespEnd 0]].
Proof. vm_compute. split; reflexivity. Qed.

(* ---- fetchTrace ---- *)
(* the second outcome for the same test finds the slot cleared by the first fetch: the trace
   the first one stored stays (seeded C16-8 stores nil here) *)
Example ex_second_fetch :
  let s := frunf [FInit a; FComplete a 7; FOutcome a true; FOutcome a true; FComplete a 8] in
  (s.(f_stored) a, s.(f_tr).(slots) a, s.(f_live)) = (Some 7, None, []).
Proof. vm_compute. reflexivity. Qed.
(* completion after the fetch began; a success outcome stores nothing *)
Example ex_late_fetch :
  let s := frunf [FInit a; FOutcome a true; FInit b; FOutcome b false; FComplete b 5; FComplete a 7] in
  (s.(f_stored) a, s.(f_stored) b) = (Some 7, None).
Proof. vm_compute. reflexivity. Qed.
(* the code as it is: a fetch goroutine orphaned by Clear+Init gives up after TraceTimeout and
   its unconditional Clear removes the name's NEW, completed slot; the next fetch fails *)
Example ex_timeout_clears_new_slot :
  let s := frunf [FInit a; FOutcome a true; FClear a; FInit a; FComplete a 7; FTimeout; FOutcome a true] in
  (s.(f_stored) a, s.(f_tr).(slots) a) = (None, None).
Proof. vm_compute. reflexivity. Qed.

(* ---- wire wrapper ---- *)
Example ex_wire_once :
  match wrun true [WNew 0 true; WInit a; WComplete 0 a 7 200; WExamine 0] with
  | Some s => (s.(wr) 0, s.(w_seen), (s.(w_tr)).(slots) a) = (Some (Some (7, 200)), [(200, true)], Some (mkSlot 0 true 7))
  | None => False end.
Proof. vm_compute. reflexivity. Qed.
Example ex_wire_twice : wrun true [WNew 0 true; WComplete 0 a 7 200; WComplete 0 a 8 200] = None.
Proof. vm_compute. reflexivity. Qed.
Example ex_wire_no_wrapper :
  match wrun true [WInit a; WComplete 0 a 7 200; WComplete 0 a 8 200; WExamine 0] with
  | Some s => (s.(wr) 0, s.(w_seen), (s.(w_tr)).(slots) a) = (None, [(0, false)], Some (mkSlot 0 true 7))
  | None => False end.
Proof. vm_compute. reflexivity. Qed.

(* the runner's order matters: a fast peer completes the trace and answers before sendRequest
   returns.  Init before send: the waiter gets trace 7 and the slot is gone; Init after send
   (seeded C16-10): the completion hits an unknown name, the waiter fails at once, and the
   late Init leaves a slot nobody clears *)
Definition fast_peer : list (list pev) := [[PComplete 0 7; PRespond 0; PClear 0]; []].
Example ex_fast_peer_ok : sched_ok 1 fast_peer = true.
Proof. reflexivity. Qed.
Example ex_init_before_send :
  let st := run (runner_history InitBeforeSend [a] fast_peer) in
  st.(waiters) 0 = Got 7 /\ st.(slots) a = None.
Proof. split; reflexivity. Qed.
Example ex_init_after_send_loses_trace :
  let st := run (runner_history InitAfterSend [a] fast_peer) in
  st.(waiters) 0 = Failed /\ st.(slots) a = Some (mkSlot 0 false 0).
Proof. split; reflexivity. Qed.
(* two test cases; the first one's trace arrives while the second request is being sent, its
   response after the last send returned *)
Example ex_two_cases :
  let sched := [[PRespond 0]; [PComplete 0 5; PClear 0; PComplete 1 6]; [PComplete 1 8; PRespond 1; PClear 1]] in
  sched_ok 2 sched = true /\ (run (runner_history InitBeforeSend [a; b] sched)).(waiters) 1 = Got 6.
Proof. split; reflexivity. Qed.

(* the body kind matters: a round tripper that leaves http.NoBody unwrapped (seeded C16-12)
   never completes the trace of a Content-Length: 0 response the caller read and closed *)
Definition y_empty : cexch := mkCX (mkBody false [7] 0) 1 0 (mkBody false [] 0) [] [CRead; CClose].
Example ex_nobody_wrapped :
  length (mwrun a (client_script_k BNoBody y_empty)).(m_b).(b_calls) = 1%nat.
Proof. reflexivity. Qed.
Example ex_nobody_unwrapped :
  (mwrun a (client_script_w (fun k => match k with BNoBody => false | _ => true end) BNoBody y_empty)).(m_b).(b_calls) = [].
Proof. reflexivity. Qed.
Example ex_exchange_over : exchange_over BNoBody y_empty.
Proof. right. left. reflexivity. Qed.

(* the clone matters: field 1 reported, cancellation, field 2 reported late.  With the clone the
   collector's value stays {1}; a getHeaders that returns the live map (seeded C16-14) hands out
   cell 0, which the transport then writes: the delivered value has become {1, 2} *)
Definition late_field : list hact := [HField 1 1; HComplete; HField 2 1; HRead].
Example ex_clone_frozen :
  let s := hrun HClone late_field in
  map (fun rc => (snd rc, deref s (fst rc))) s.(h_got) = [([(1, 1)], [(1, 1)]); ([(1, 1); (2, 1)], [(1, 1); (2, 1)])].
Proof. reflexivity. Qed.
Example ex_live_map_written_after_completion :
  let s := hrun HLive late_field in
  map (fun rc => (snd rc, deref s (fst rc))) s.(h_got) = [([(1, 1)], [(1, 1); (2, 1)]); ([(1, 1); (2, 1)], [(1, 1); (2, 1)])].
Proof. reflexivity. Qed.
Example ex_hdr_hypotheses : existsb is_hcomplete [HField 1 1; HRead; HField 0 3] = false
  /\ fields_of [HField 1 1; HRead; HField 0 3; HField 1 2] = [(1, 2)].
Proof. split; reflexivity. Qed.
