(* C04_Model.v — executable model of
     internal/app/connectconformance/results.go  (testResults: setOutcome, failedToStart,
         failRemaining, failed, assert [its verdict only], recordSideband,
         processSidebandInfoLocked, report)
     internal/app/connectconformance/connectconformance.go  (Run: report() && err == nil;
         run: the batch loop, isRunning check, closeSend / waitForResponses)
     internal/app/connectconformance/server_runner.go  (runTestCasesForServer: which
         testResults operation each event of a batch leads to)
     cmd/connectconformance/main.go  (exit status)
   One operation = one critical section of testResults.mu.  No proofs here. *)
From V Require Export Base.
Open Scope nat_scope.

Definition name := bytes.

(* What matters of a Go error value handed to testResults: whether errors.As finds a
   *couldNotRunError in its chain (ECouldNotRun) and, for the specification only, where
   it came from.  Texts are never compared. *)
Inductive errkind :=
| EAssert        (* assert(): the result did not match the expectation *)
| EClient        (* failed(): the client reported an error result *)
| ESetup         (* server could not be started / died / handshake failed *)
| ECouldNotRun   (* &couldNotRunError{...}: the request could not be sent *)
| ENoOutcome     (* &failedToGetResultError{...}: no result arrived *)
| EFeedback      (* errors.New(msg) made from peer feedback alone *)
| EOther.        (* any other non-setup error, e.g. "neither an error nor result" *)

Definition is_cnr (k : errkind) : bool := match k with ECouldNotRun => true | _ => false end.

(* the (setupError, err) pair of setOutcome; setOutcome(_, true, nil) is never called *)
Inductive res := Ok | Fail (setup : bool) (k : errkind).

(* testOutcome *)
Record outcome := mkO { o_fail : option errkind; o_setup : bool; o_kf : bool; o_kfl : bool }.

(* newResults(totalTestCount, knownFailing, knownFlaky, _) *)
Record cfg := mkCfg { c_total : nat; c_kf : name -> bool; c_kfl : name -> bool }.

(* outcomes: map[string]testOutcome as an association list with unique keys (put
   replaces in place or appends); serverSideband: map[string]string, keys only *)
Record state := mkS { outcomes : list (name * outcome); sideband : list name }.
Definition init_state : state := mkS [] [].

Fixpoint lookup (l : list (name * outcome)) (n : name) : option outcome :=
  match l with
  | [] => None
  | (m, o) :: l' => if bytes_eqb n m then Some o else lookup l' n
  end.

Fixpoint put (l : list (name * outcome)) (n : name) (o : outcome) : list (name * outcome) :=
  match l with
  | [] => [(n, o)]
  | (m, o') :: l' => if bytes_eqb n m then (m, o) :: l' else (m, o') :: put l' n o
  end.

Definition mk_outcome (c : cfg) (n : name) (r : res) : outcome :=
  match r with
  | Ok => mkO None false (c.(c_kf) n) (c.(c_kfl) n)
  | Fail s k => mkO (Some k) s (c.(c_kf) n) (c.(c_kfl) n)
  end.

(* setOutcomeLocked: last call wins *)
Definition set_outcome (c : cfg) (st : state) (n : name) (r : res) : state :=
  mkS (put st.(outcomes) n (mk_outcome c n r)) st.(sideband).

Inductive op :=
| OSet (n : name) (r : res)                         (* setOutcome(n, setup, err) *)
| OFailed (n : name)                                (* failed(n, clientErrorResult) *)
| OAssert (n : name) (ok : bool)                    (* assert(n, def, actual): matched or not *)
| OFailedToStart (ns : list name) (k : errkind)     (* failedToStart(cases, err) *)
| OFailRemaining (ns : list name) (k : errkind)     (* failRemaining(cases, err) *)
| OSideband (n : name).                             (* recordSideband(n, msg) *)

Definition step (c : cfg) (st : state) (o : op) : state :=
  match o with
  | OSet n r => set_outcome c st n r
  | OFailed n => set_outcome c st n (Fail false EClient)
  | OAssert n ok => set_outcome c st n (if ok then Ok else Fail false EAssert)
  | OFailedToStart ns k => fold_left (fun s n => set_outcome c s n (Fail true k)) ns st
  | OFailRemaining ns k =>
    fold_left (fun s n => match lookup s.(outcomes) n with
                          | Some _ => s                       (* outcomeExists: continue *)
                          | None => set_outcome c s n (Fail true k)
                          end) ns st
  | OSideband n =>
    mkS st.(outcomes) (if mem_bytes n st.(sideband) then st.(sideband) else st.(sideband) ++ [n])
  end.

Definition run (c : cfg) (h : list op) : state := fold_left (step c) h init_state.

(* processSidebandInfoLocked, one entry: feedback becomes the failure of a passing
   outcome, is prepended (msg; %w — the chain, hence errors.As, is preserved) to an
   existing failure, and makes a fresh non-setup failure when there is no outcome *)
Definition add_feedback (o : outcome) : outcome :=
  mkO (match o.(o_fail) with None => Some EFeedback | Some k => Some k end)
      o.(o_setup) o.(o_kf) o.(o_kfl).

Definition merge_one (c : cfg) (outs : list (name * outcome)) (n : name) : list (name * outcome) :=
  match lookup outs n with
  | Some o => put outs n (add_feedback o)
  | None => put outs n (mk_outcome c n (Fail false EFeedback))
  end.

Definition merged (c : cfg) (st : state) : list (name * outcome) :=
  fold_left (merge_one c) st.(sideband) st.(outcomes).

(* the switch of report() *)
Inductive cls := CPassed | CFailed | CExpected | CNotRun.
Definition cls_eqb (a b : cls) : bool :=
  match a, b with
  | CPassed, CPassed | CFailed, CFailed | CExpected, CExpected | CNotRun, CNotRun => true
  | _, _ => false
  end.

Definition is_some {A} (o : option A) : bool := match o with Some _ => true | None => false end.

Definition classify (o : outcome) : cls :=
  let expect := if o.(o_setup) then false
                else o.(o_kf) || (o.(o_kfl) && is_some o.(o_fail)) in
  match o.(o_fail) with
  | Some k => if is_cnr k then CNotRun            (* errors.As(.., &noRun): couldNotRun++ *)
              else if expect then CExpected       (* INFO: .. failed (as expected) *)
              else CFailed                        (* FAILED: name: *)
  | None => if expect then CFailed                (* FAILED: .. was expected to fail but did not *)
            else CPassed
  end.

Record rep := mkR {
  r_ok : bool;                    (* return value *)
  r_total : nat;                  (* "Total cases: %d" = len(r.outcomes) *)
  r_passed : nat; r_failed : nat; (* "%d passed, %d failed" *)
  r_notrun : nat;                 (* "Another %d could not be run" (0: line absent) *)
  r_expected : nat;               (* "(Another %d failed as expected ..." (0: line absent) *)
  r_failed_names : list name;     (* FAILED: lines, in print order *)
  r_info_names : list name }.     (* INFO: lines, in print order *)

Definition class_in (outs : list (name * outcome)) (n : name) : cls :=
  match lookup outs n with Some o => classify o | None => CPassed (* zero testOutcome *) end.

Definition names_of (outs : list (name * outcome)) (k : cls) (names : list name) : list name :=
  filter (fun n => cls_eqb (class_in outs n) k) names.

(* report(), with the state it leaves behind (sideband merged and cleared).
   `strict` = the return value also requires couldNotRun == 0 (the repaired code);
   strict = false is the formula of the pinned code, `failed == 0`. *)
Definition report_gen (strict : bool) (c : cfg) (st : state) : rep * state :=
  let outs := merged c st in
  let names := sort_bytes (map fst outs) in
  let cnt k := length (names_of outs k names) in
  let notrun := (c.(c_total) - length names) + cnt CNotRun in
  (mkR ((cnt CFailed =? 0) && (if strict then notrun =? 0 else true))
       (length outs) (cnt CPassed) (cnt CFailed) notrun (cnt CExpected)
       (names_of outs CFailed names) (names_of outs CExpected names),
   mkS outs []).

Definition report (c : cfg) (st : state) : rep := fst (report_gen true c st).
Definition report_pinned (c : cfg) (st : state) : rep := fst (report_gen false c st).
Definition after_report (c : cfg) (st : state) : state := snd (report_gen true c st).

(* Run: `results.report(logPrinter) && err == nil`; main: os.Exit(1) unless ok *)
Definition verdict (c : cfg) (st : state) (run_err : bool) : bool :=
  (report c st).(r_ok) && negb run_err.
Definition exit_status (v : bool) : nat := if v then 0 else 1.

(* ====================================================================== *)
(* A run as a sequence of batches (run() + runTestCasesForServer with a    *)
(* client whose replies are scripted and whose exit point is forced)       *)
(* ====================================================================== *)
Inductive reply :=
| RPass      (* response that matches the expectation *)
| RWrong     (* response that does not match *)
| RErr       (* ClientErrorResult *)
| RNeither   (* neither error nor response *)
| RSilent.   (* reads the request and never answers (only at the exit point) *)

Record rcase := mkRC { rc_name : name; rc_reply : reply }.
Record batch := mkB { b_server_ok : bool; b_cases : list rcase }.
Record scen := mkSc {
  s_batches : list batch;
  s_exit_after : option nat;   (* the client ends right after its k-th request (None: at end of input) *)
  s_exit_err : bool }.         (* ... with a non-nil result / non-zero status *)

Definition reply_op (c : rcase) : op :=
  match c.(rc_reply) with
  | RPass => OAssert c.(rc_name) true
  | RWrong => OAssert c.(rc_name) false
  | RErr => OFailed c.(rc_name)
  | RNeither => OSet c.(rc_name) (Fail false EOther)
  | RSilent => OSet c.(rc_name) (Fail true ENoOutcome)   (* cleanup of consumeOutput *)
  end.

Definition exits_at (ex : option nat) (k : nat) : bool :=
  match ex with Some e => e =? k | None => false end.

(* the send loop: once the client's send side is closed every remaining case of the batch
   is marked could-not-run and the loop breaks *)
Fixpoint send_loop (ex : option nat) (cs : list rcase) (got : nat) (closed : bool)
  : list op * nat * bool :=
  match cs with
  | [] => ([], got, closed)
  | c :: rest =>
    if closed then (map (fun c' => OSet c'.(rc_name) (Fail true ECouldNotRun)) cs, got, closed)
    else let '(ops, g, cl) := send_loop ex rest (S got) (exits_at ex (S got)) in
         (reply_op c :: ops, g, cl)
  end.

Definition run_batch (ex : option nat) (b : batch) (got : nat) (closed : bool)
  : list op * nat * bool :=
  let ns := map rc_name b.(b_cases) in
  if b.(b_server_ok) then
    let '(ops, g, cl) := send_loop ex b.(b_cases) got closed in
    (ops ++ [OFailRemaining ns ENoOutcome], g, cl)
  else ([OFailedToStart ns ESetup], got, closed).

Fixpoint run_batches (ex : option nat) (bs : list batch) (got : nat) (closed : bool) : list op :=
  match bs with
  | [] => []
  | b :: rest =>
    let '(ops, g, cl) := run_batch ex b got closed in ops ++ run_batches ex rest g cl
  end.

Definition scen_ops (s : scen) : list op :=
  run_batches s.(s_exit_after) s.(s_batches) 0 (exits_at s.(s_exit_after) 0).
Definition scen_names (s : scen) : list name :=
  flat_map (fun b => map rc_name b.(b_cases)) s.(s_batches).
(* waitForResponses: c.err stays nil on EOF, so the run error is the client's own result *)
Definition scen_err (s : scen) : bool := s.(s_exit_err).

Definition scen_cfg (kf kfl : name -> bool) (s : scen) : cfg :=
  mkCfg (length (scen_names s)) kf kfl.
Definition scen_verdict (kf kfl : name -> bool) (s : scen) : bool :=
  verdict (scen_cfg kf kfl s) (run (scen_cfg kf kfl s) (scen_ops s)) (scen_err s).

(* ====================================================================== *)
(* Peer feedback of the in-process reference server (client mode):         *)
(*   referenceserver/server.go run():  errPrinter := NewPrinter(errWriter), *)
(*     handed to createServer -> referenceServerChecks (feedbackPrinter);   *)
(*   connectconformance.go run(): runInProcess(reference-server, ...) with  *)
(*     the three pipes of process.go;                                       *)
(*   server_runner.go: the stderr reader installed `if isReferenceServer`.  *)
(* ====================================================================== *)
(* internal.Printer.PrefixPrintf(name, msg) prints "<name>: <msg>" *)
Definition fb_line (n : name) (msg : bytes) : bytes := n ++ 58%N :: 32%N :: msg.

Fixpoint has_sep (s : bytes) : bool :=
  match s with
  | a :: t => match t with
              | b :: _ => ((a =? 58)%N && (b =? 32)%N) || has_sep t
              | [] => false
              end
  | [] => false
  end.

(* strings.SplitN(line, ": ", 2)[0] when there are two parts: the text before the first ": " *)
Fixpoint before_sep (s : bytes) : option bytes :=
  match s with
  | a :: t => match t with
              | b :: _ => if ((a =? 58)%N && (b =? 32)%N) then Some []
                          else option_map (cons a) (before_sep t)
              | [] => None
              end
  | [] => None
  end.

(* the stderr reader: a line is feedback exactly when the text before its first ": " names
   a case of this batch (testCaseNameSet); anything else is passed on to the user *)
Definition read_line (batch_names : list name) (line : bytes) : option name :=
  match before_sep line with
  | Some p => if mem_bytes p batch_names then Some p else None
  | None => None
  end.

(* the writers an in-process peer is started with, and the runner's own stderr *)
Inductive writer := WOut | WErr | WOwnStderr.
Definition writer_eqb (a b : writer) : bool :=
  match a, b with WOut, WOut | WErr, WErr | WOwnStderr, WOwnStderr => true | _, _ => false end.
(* the reference server builds its feedback printer on the errWriter it was handed *)
Definition server_feedback_writer : writer := WErr.
(* the runner reads the other end of that writer, for a reference server only *)
Definition runner_feedback_source (is_reference : bool) : option writer :=
  if is_reference then Some WErr else None.

(* a case of a client-mode run: what the client under test reports, and what the server
   had to say about the request it saw (nothing: the request was as the case demands) *)
Record pcase := mkPC { pc_rc : rcase; pc_msgs : list bytes }.
Record pbatch := mkPB { pb_reference : bool; pb_cases : list pcase }.
Definition pc_name (c : pcase) : name := c.(pc_rc).(rc_name).

Definition batch_lines (b : pbatch) : list bytes :=
  flat_map (fun c => map (fb_line (pc_name c)) c.(pc_msgs)) b.(pb_cases).

Definition heard (b : pbatch) : list name :=
  match runner_feedback_source b.(pb_reference) with
  | Some src =>
    if writer_eqb src server_feedback_writer
    then flat_map (fun l => match read_line (map pc_name b.(pb_cases)) l with
                            | Some n => [n] | None => [] end) (batch_lines b)
    else []
  | None => []
  end.

Definition peer_feedback (ps : list pbatch) : list name := flat_map heard ps.

(* the client under test is an OS process that answers every request and ends at end of
   input; the in-process reference servers start *)
Definition strip (ps : list pbatch) (exit_err : bool) : scen :=
  mkSc (map (fun b => mkB true (map pc_rc b.(pb_cases))) ps) None exit_err.

(* feedback is recorded while the batch runs; report() merges it at the end, so where the
   recordSideband calls stand among the other operations does not matter (outcome_on_record) *)
Definition peer_ops (ps : list pbatch) (exit_err : bool) : list op :=
  scen_ops (strip ps exit_err) ++ map OSideband (peer_feedback ps).

Definition peer_cfg (kf kfl : name -> bool) (ps : list pbatch) : cfg :=
  scen_cfg kf kfl (strip ps false).
Definition peer_verdict (kf kfl : name -> bool) (ps : list pbatch) (exit_err : bool) : bool :=
  verdict (peer_cfg kf kfl ps) (run (peer_cfg kf kfl ps) (peer_ops ps exit_err)) exit_err.

(* ====================================================================== *)
(* case decoding / result encoding (extracted glue)                        *)
(* ====================================================================== *)
Definition un_kind (s : sx) : option errkind :=
  match s with
  | I 0%Z => Some EAssert | I 1%Z => Some EClient | I 2%Z => Some ESetup
  | I 3%Z => Some ECouldNotRun | I 4%Z => Some ENoOutcome | I 5%Z => Some EFeedback
  | I 6%Z => Some EOther
  | I 7%Z => Some ECouldNotRun      (* the same, wrapped once more with %w on the Go side *)
  | _ => None
  end.

Definition un_res (s : sx) : option res :=
  match s with
  | L [] => Some Ok
  | L [I su; k] => do k <- un_kind k; ret (Fail (negb (Z.eqb su 0)) k)
  | _ => None
  end.

Definition un_op (s : sx) : option op :=
  match s with
  | L [I 0%Z; B n; r] => do r <- un_res r; ret (OSet n r)
  | L [I 1%Z; B n] => Some (OFailed n)
  | L [I 2%Z; B n; I ok] => Some (OAssert n (negb (Z.eqb ok 0)))
  | L [I 3%Z; ns; k] => do ns <- un_listof un_B ns; do k <- un_kind k; ret (OFailedToStart ns k)
  | L [I 4%Z; ns; k] => do ns <- un_listof un_B ns; do k <- un_kind k; ret (OFailRemaining ns k)
  | L [I 5%Z; B n] => Some (OSideband n)
  | _ => None
  end.

Definition sx_rep (r : rep) : sx :=
  L [ sx_bool r.(r_ok); sx_nat r.(r_total); sx_nat r.(r_passed); sx_nat r.(r_failed);
      sx_nat r.(r_notrun); sx_nat r.(r_expected);
      L (map B r.(r_failed_names)); L (map B r.(r_info_names)) ].

Definition marks (l : list name) : name -> bool := fun n => mem_bytes n l.

(* total (known-failing names) (known-flaky names) (ops)
     -> (report, report once more on the state left behind) *)
Definition run_c04_results (args : list sx) : sx :=
  or_bad (match args with
  | [I total; kf; kfl; ops] =>
    do kf <- un_listof un_B kf; do kfl <- un_listof un_B kfl; do ops <- un_listof un_op ops;
    let c := mkCfg (Z.to_nat total) (marks kf) (marks kfl) in
    let st := run c ops in
    ret (L [sx_rep (report c st); sx_rep (report c (after_report c st))])
  | _ => None end).

Definition un_reply (s : sx) : option reply :=
  match s with
  | I 0%Z => Some RPass | I 1%Z => Some RWrong | I 2%Z => Some RErr
  | I 3%Z => Some RNeither | I 4%Z => Some RSilent | _ => None
  end.
Definition un_rcase (s : sx) : option rcase :=
  match s with L [B n; r] => do r <- un_reply r; ret (mkRC n r) | _ => None end.
Definition un_batch (s : sx) : option batch :=
  match s with
  | L [I ok; cs] => do cs <- un_listof un_rcase cs; ret (mkB (negb (Z.eqb ok 0)) cs)
  | _ => None
  end.

(* (known-failing) (known-flaky) (batches) exit_after(-1: none) exit_err
     -> (verdict exit-status report) *)
Definition run_c04_flow (args : list sx) : sx :=
  or_bad (match args with
  | [kf; kfl; bs; I ex; I ee] =>
    do kf <- un_listof un_B kf; do kfl <- un_listof un_B kfl; do bs <- un_listof un_batch bs;
    let s := mkSc bs (if (ex <? 0)%Z then None else Some (Z.to_nat ex)) (negb (Z.eqb ee 0)) in
    let c := scen_cfg (marks kf) (marks kfl) s in
    let v := scen_verdict (marks kf) (marks kfl) s in
    ret (L [sx_bool v; sx_nat (exit_status v); sx_rep (report c (run c (scen_ops s)))])
  | _ => None end).

(* (known-failing) (known-flaky) (batches: (is-reference ((name reply defect) ...))) exit_err
     -> (verdict exit-status report), through the real Run() in client mode *)
Definition un_pcase (s : sx) : option pcase :=
  match s with
  | L [B n; r; I d] => do r <- un_reply r;
      ret (mkPC (mkRC n r) (if (d =? 0)%Z then [] else [bs "m"]))
  | _ => None
  end.
Definition un_pbatch (s : sx) : option pbatch :=
  match s with
  | L [I rf; cs] => do cs <- un_listof un_pcase cs; ret (mkPB (negb (Z.eqb rf 0)) cs)
  | _ => None
  end.
Definition run_c04_peer (args : list sx) : sx :=
  or_bad (match args with
  | [kf; kfl; bs; I ee] =>
    do kf <- un_listof un_B kf; do kfl <- un_listof un_B kfl; do bs <- un_listof un_pbatch bs;
    let e := negb (Z.eqb ee 0) in
    let c := peer_cfg (marks kf) (marks kfl) bs in
    let v := peer_verdict (marks kf) (marks kfl) bs e in
    match sx_rep (report c (run c (peer_ops bs e))) with
    | L (_ :: rep) => ret (L [sx_bool v; sx_nat (exit_status v); L (sx_bool v :: rep)])
    | x => ret x
    end
  | _ => None end).

(* the same through the real Run(), which does not expose report()'s own return value:
   the first field of the report part carries the verdict *)
Definition run_c04_run (args : list sx) : sx :=
  match run_c04_flow args with
  | L [v; st; L (_ :: rep)] => L [v; st; L (v :: rep)]
  | x => x
  end.

(* c04.srvexit: one batch through the real Run() in server mode; the server under test (a real OS
   process) exits with status 0 while the runner is about to send the request with index k: the
   requests 0..k are sent (the check of the server's fate precedes the send), every later case is
   given the set-up error "server process terminated unexpectedly".
   (known-failing) (known-flaky) ((name reply) ...) k -> (verdict exit-status report) *)
Definition srvexit_ops (cs : list rcase) (k : nat) : list op :=
  map reply_op (firstn (S k) cs)
  ++ map (fun c => OSet c.(rc_name) (Fail true ESetup)) (skipn (S k) cs)
  ++ [OFailRemaining (map rc_name cs) ENoOutcome].

Definition run_c04_srvexit (args : list sx) : sx :=
  or_bad (match args with
  | [kf; kfl; cs; I k] =>
    do kf <- un_listof un_B kf; do kfl <- un_listof un_B kfl; do cs <- un_listof un_rcase cs;
    if (k <? 0)%Z then None else
    let c := mkCfg (length cs) (marks kf) (marks kfl) in
    let st := run c (srvexit_ops cs (Z.to_nat k)) in
    let v := verdict c st false in
    (* the order of the cases inside a batch is Go's map order: the cases are all alike (generator)
       and the FAILED / INFO names are compared by number only *)
    let r := report c st in
    ret (L [sx_bool v; sx_nat (exit_status v);
            L [ sx_bool v; sx_nat r.(r_total); sx_nat r.(r_passed); sx_nat r.(r_failed);
                sx_nat r.(r_notrun); sx_nat r.(r_expected);
                sx_nat (length r.(r_failed_names)); sx_nat (length r.(r_info_names)) ]])
  | _ => None end).

Definition c04_table : list (bytes * (list sx -> sx)) :=
  [ (bs "c04.results", run_c04_results);
    (bs "c04.flow", run_c04_flow);
    (bs "c04.run", run_c04_run);
    (bs "c04.srvexit", run_c04_srvexit);
    (bs "c04.peer", run_c04_peer) ].
