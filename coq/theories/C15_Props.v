(* C15_Props.v — the property theorems of C15 and nothing else.
   Each is closed by `exact <lemma>` and followed by Print Assumptions. *)
From V Require Import C15_Spec C15_Proofs C15_ProofsL3.
Open Scope N_scope.

(* ---- L1: transparency.  Whatever state the tracer is in (any conn value, reachable or not), whatever
   bytes arrive and whatever the HPACK decoders say, the caller of Read/Write/Close gets exactly the inner
   conn's bytes, count and error. *)
Theorem transparent : forall dec_r dec_w c o c' r,
  conn_op dec_r dec_w c o = Some (c', r) -> transparent_res o r.
Proof. exact transparent_op_proof. Qed.
Print Assumptions transparent.

Theorem transparent_run : forall dec_r dec_w ops c c' rs,
  conn_run dec_r dec_w c ops = Some (c', rs) -> Forall2 transparent_res ops rs.
Proof. exact transparent_run_proof. Qed.
Print Assumptions transparent_run.

(* a broken tracer neither interferes nor moves *)
Theorem broken_conn_transparent : forall dec_r dec_w c data e c' r,
  f_broken (c_rd c) = true -> conn_op dec_r dec_w c (ORead data e) = Some (c', r) ->
  r = RRead data e /\ c_rd c' = c_rd c.
Proof. exact broken_conn_transparent_proof. Qed.
Print Assumptions broken_conn_transparent.

(* ---- L2: chunking independence.  For ALL byte streams, ALL partitions into chunks and ANY HPACK decoder:
   feeding the chunks one by one leaves the frame tracer in the same state and emits the same decoded frames,
   in the same order, as one trace() call on the concatenation. *)
Theorem chunking_independent : forall dec isreq chunks,
  ft_feed dec (ft_init isreq) chunks = ft_trace dec (ft_init isreq) (concat chunks).
Proof. exact chunking_independent_proof. Qed.
Print Assumptions chunking_independent.

Theorem frames_are_the_one_shot_parse : forall dec isreq chunks,
  snd (ft_feed dec (ft_init isreq) chunks) = one_shot dec isreq (concat chunks).
Proof. exact frames_are_the_one_shot_parse_proof. Qed.
Print Assumptions frames_are_the_one_shot_parse.

Theorem same_bytes_same_frames : forall dec isreq chunks chunks',
  concat chunks = concat chunks' ->
  ft_feed dec (ft_init isreq) chunks = ft_feed dec (ft_init isreq) chunks'.
Proof. exact same_bytes_same_frames_proof. Qed.
Print Assumptions same_bytes_same_frames.

(* from any legal tracer state (mid-preface, mid-header, mid-payload, inside a header block) *)
Theorem chunking_independent_from : forall dec chunks st,
  wf st -> ft_feed dec st chunks = ft_trace dec st (concat chunks).
Proof. exact ft_feed_concat. Qed.
Print Assumptions chunking_independent_from.

Theorem broken_absorbing : forall dec st chunks,
  f_broken st = true -> ft_feed dec st chunks = (st, []).
Proof. exact broken_absorbing_proof. Qed.
Print Assumptions broken_absorbing.

(* ---- L1/L3: never crashes.  For ANY op list (any bytes, cut anyhow into Reads and Writes, any inner-conn
   errors, short writes, Close, timer expiry), any HPACK decoders, client or server side: the run exists (no nil
   dereference anywhere in the tracer; in the model a Go panic is the outcome None) and every op returns the
   inner conn's result. *)
Theorem never_crashes : forall dec_r dec_w server ops,
  exists c rs, conn_run dec_r dec_w (conn_init server) ops = Some (c, rs) /\ Forall2 transparent_res ops rs.
Proof. exact never_crashes_proof. Qed.
Print Assumptions never_crashes.

(* ---- L3: attribution.  For ALL lists of decoded frames (any number of concurrent streams, any interleaving,
   well-formed or not): the traces stream s completes, and the state it is left in, are those of the run that
   sees only the frames concerning s (its own frames and GOAWAYs): the trace is a function of the projection
   of the interleaved frame list onto the stream. *)
Theorem stream_independent : forall client fs s,
  exists st1 a1 st2 a2,
    sm_run client sm_init fs = Some (st1, a1) /\
    sm_run client sm_init (filter (concerns s) fs) = Some (st2, a2) /\
    completions_of s a1 = completions_of s a2 /\
    m_get s (m_streams st1) = m_get s (m_streams st2).
Proof. exact stream_independent_proof. Qed.
Print Assumptions stream_independent.

Theorem interleaving_independent : forall client fs fs' s st1 a1 st2 a2,
  filter (concerns s) fs = filter (concerns s) fs' ->
  sm_run client sm_init fs = Some (st1, a1) -> sm_run client sm_init fs' = Some (st2, a2) ->
  completions_of s a1 = completions_of s a2.
Proof. exact interleaving_independent_proof. Qed.
Print Assumptions interleaving_independent.

(* ---- L3: the retry collector.  For ALL action lists around it (mid, mid2: anything that does not name n):
   a retryable completion (REFUSED_STREAM / GOAWAY NO_ERROR) followed by a new attempt with the same test name
   and that attempt's completion delivers exactly the retry's trace for n; the refused attempt's never. *)
Theorem retry_yields_retry_trace : forall r n s1 t1 mid mid2 s2 t2,
  rc_wf r -> retryable (t_err t1) = true -> t_name t1 = n -> t_name t2 = n -> retryable (t_err t2) = false ->
  Forall (quiet n) mid -> Forall (quiet n) mid2 ->
  delivered n (rc_run r (CComplete s1 t1 :: mid ++ CNew n :: mid2 ++ [CComplete s2 t2])) = delivered n r ++ [t2].
Proof. exact retry_yields_retry_trace_proof. Qed.
Print Assumptions retry_yields_retry_trace.

(* without a retry the parked trace is delivered exactly once, by the timer or when the connection ends *)
Theorem unretried_delivered_once : forall r n s1 t1 mid fin,
  rc_wf r -> retryable (t_err t1) = true -> t_name t1 = n -> Forall (quiet n) mid ->
  fin = CTimesUp n \/ fin = CCancel ->
  delivered n (rc_run r (CComplete s1 t1 :: mid ++ [fin])) = delivered n r ++ [t1] /\
  w_get n (r_wait (rc_run r (CComplete s1 t1 :: mid ++ [fin]))) = None.
Proof. exact unretried_delivered_once_proof. Qed.
Print Assumptions unretried_delivered_once.

(* the collector states that occur are well-formed *)
Theorem collector_wf : forall l, rc_wf (rc_run rc_init l).
Proof. exact collector_wf_proof. Qed.
Print Assumptions collector_wf.

(* ---- the hypotheses are inhabited, the statements are not vacuous ---- *)
Definition ex_dec : list bytes -> bytes -> option (list field) :=
  fun _ blk => Some [(bs ":method", bs "POST"); (bs ":path", bs "/s/M"); (bs "x-test-case-name", blk)].
(* HEADERS (END_HEADERS|END_STREAM) on stream 1 with the 1-byte block "a", cut in the middle of the frame header *)
Definition ex_frame : bytes := [0; 0; 1; 1; 5; 0; 0; 0; 1; 97].
Example ex_chunks_emit :
  snd (ft_feed ex_dec (ft_init false) [firstn 4 ex_frame; skipn 4 ex_frame]) =
  [FHeaders 1 true [(bs ":method", bs "POST"); (bs ":path", bs "/s/M"); (bs "x-test-case-name", [97])]].
Proof. vm_compute. reflexivity. Qed.
(* a header block continued in a CONTINUATION frame is one frame for the stream layer *)
Example ex_continuation :
  snd (ft_trace ex_dec (ft_init false) ([0; 0; 1; 1; 1; 0; 0; 0; 1; 97] ++ [0; 0; 1; 9; 4; 0; 0; 0; 1; 98])) =
  [FHeaders 1 true [(bs ":method", bs "POST"); (bs ":path", bs "/s/M"); (bs "x-test-case-name", [97; 98])]].
Proof. vm_compute. reflexivity. Qed.
(* a malformed frame (DATA on stream 0) breaks the direction, nothing else *)
Example ex_broken : f_broken (fst (ft_trace ex_dec (ft_init false) [0; 0; 0; 0; 0; 0; 0; 0; 0])) = true.
Proof. vm_compute. reflexivity. Qed.
(* two interleaved streams: each completes its own trace *)
Definition ex_h (s : N) (n : bytes) := FHeaders s true [(bs ":path", bs "/p"); (bs "x-test-case-name", n)].
Definition ex_r (s : N) := FHeaders s true [(bs ":status", bs "200")].
Example ex_two_streams :
  match sm_run true sm_init [(true, ex_h 1 [97]); (true, ex_h 3 [98]); (false, ex_r 3); (false, ex_r 1)] with
  | Some (st, acts) =>
    map t_name (completions_of 1 acts) = [[97]] /\ map t_name (completions_of 3 acts) = [[98]] /\ m_streams st = []
  | None => False
  end.
Proof. vm_compute. repeat split. Qed.
(* a stream without test name completes nothing; a reset before response headers completes the trace *)
Example ex_unnamed :
  match sm_run true sm_init [(true, FHeaders 1 true [(bs ":path", bs "/p")]); (false, ex_r 1); (false, ex_r 1)] with
  | Some (st, acts) => completions_of 1 acts = [] | None => False end.
Proof. vm_compute. reflexivity. Qed.
Example ex_reset :
  match sm_run true sm_init [(true, ex_h 1 [97]); (false, FRst 1 7)] with
  | Some (st, acts) => map t_err (completions_of 1 acts) = [EStream 7] | None => False end.
Proof. vm_compute. reflexivity. Qed.
Example ex_quiet : quiet [97] (CNew [98]) /\ rc_wf rc_init.
Proof. split; [discriminate|exact rc_init_wf]. Qed.
