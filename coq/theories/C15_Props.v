(* C15_Props.v — the property theorems of C15 and nothing else.
   Each is closed by `exact <lemma>` and followed by Print Assumptions. *)
From V Require Import C15_Spec C15_Proofs.
Open Scope N_scope.

(* ---- L1: transparency.  Whatever state the tracer is in (any conn value, reachable or not), whatever
   bytes arrive and whatever the HPACK decoders say, the caller of Read/Write/Close gets exactly the inner
   conn's bytes, count and error. *)
Theorem transparent : forall dec_r dec_w c o c' r,
  conn_op dec_r dec_w c o = Some (c', r) -> transparent_res o r.
Proof. exact transparent_op_proof. Qed.
Print Assumptions transparent.

Theorem transparent_run : forall dec_r dec_w ops c c' rs,
  conn_run dec_r dec_w c ops = Some (c', rs) -> Forall2 transparent_res ops rs.
Proof. exact transparent_run_proof. Qed.
Print Assumptions transparent_run.

(* a broken tracer neither interferes nor moves *)
Theorem broken_conn_transparent : forall dec_r dec_w c data e c' r,
  f_broken (c_rd c) = true -> conn_op dec_r dec_w c (ORead data e) = Some (c', r) ->
  r = RRead data e /\ c_rd c' = c_rd c.
Proof. exact broken_conn_transparent_proof. Qed.
Print Assumptions broken_conn_transparent.

(* ---- L2: chunking independence.  For ALL byte streams, ALL partitions into chunks and ANY HPACK decoder:
   feeding the chunks one by one leaves the frame tracer in the same state and emits the same decoded frames,
   in the same order, as one trace() call on the concatenation. *)
Theorem chunking_independent : forall dec isreq chunks,
  ft_feed dec (ft_init isreq) chunks = ft_trace dec (ft_init isreq) (concat chunks).
Proof. exact chunking_independent_proof. Qed.
Print Assumptions chunking_independent.

Theorem frames_are_the_one_shot_parse : forall dec isreq chunks,
  snd (ft_feed dec (ft_init isreq) chunks) = one_shot dec isreq (concat chunks).
Proof. exact frames_are_the_one_shot_parse_proof. Qed.
Print Assumptions frames_are_the_one_shot_parse.

Theorem same_bytes_same_frames : forall dec isreq chunks chunks',
  concat chunks = concat chunks' ->
  ft_feed dec (ft_init isreq) chunks = ft_feed dec (ft_init isreq) chunks'.
Proof. exact same_bytes_same_frames_proof. Qed.
Print Assumptions same_bytes_same_frames.

(* from any legal tracer state (mid-preface, mid-header, mid-payload, inside a header block) *)
Theorem chunking_independent_from : forall dec chunks st,
  wf st -> ft_feed dec st chunks = ft_trace dec st (concat chunks).
Proof. exact ft_feed_concat. Qed.
Print Assumptions chunking_independent_from.

Theorem broken_absorbing : forall dec st chunks,
  f_broken st = true -> ft_feed dec st chunks = (st, []).
Proof. exact broken_absorbing_proof. Qed.
Print Assumptions broken_absorbing.
