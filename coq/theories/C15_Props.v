(* C15_Props.v — the property theorems of C15 and nothing else.
   Each is closed by `exact <lemma>` and followed by Print Assumptions. *)
From Coq Require Import Permutation.
From V Require Import C15_Spec C15_SpecL2 C15_SpecL3 C15_Proofs C15_ProofsL2b C15_ProofsL3 C15_ProofsL3b C15_Consts C15_Cfg.
Open Scope N_scope.

(* ---- L1: transparency.  Whatever state the tracer is in (any conn value, reachable or not), whatever
   bytes arrive and whatever the HPACK decoders say, the caller of Read/Write/Close gets exactly the inner
   conn's bytes, count and error. *)
Theorem transparent : forall dec_r dec_w c o c' r,
  conn_op dec_r dec_w c o = Some (c', r) -> transparent_res o r.
Proof. exact transparent_op_proof. Qed.
Print Assumptions transparent.

Theorem transparent_run : forall dec_r dec_w ops c c' rs,
  conn_run dec_r dec_w c ops = Some (c', rs) -> Forall2 transparent_res ops rs.
Proof. exact transparent_run_proof. Qed.
Print Assumptions transparent_run.

(* a broken tracer neither interferes nor moves *)
Theorem broken_conn_transparent : forall dec_r dec_w c data e c' r,
  f_broken (c_rd c) = true -> conn_op dec_r dec_w c (ORead data e) = Some (c', r) ->
  r = RRead data e /\ c_rd c' = c_rd c.
Proof. exact broken_conn_transparent_proof. Qed.
Print Assumptions broken_conn_transparent.

(* ---- L2: chunking independence.  For ALL byte streams, ALL partitions into chunks and ANY HPACK decoder:
   feeding the chunks one by one leaves the frame tracer in the same state and emits the same decoded frames,
   in the same order, as one trace() call on the concatenation. *)
Theorem chunking_independent : forall dec isreq chunks,
  ft_feed dec (ft_init isreq) chunks = ft_trace dec (ft_init isreq) (concat chunks).
Proof. exact chunking_independent_proof. Qed.
Print Assumptions chunking_independent.

Theorem frames_are_the_one_shot_parse : forall dec isreq chunks,
  snd (ft_feed dec (ft_init isreq) chunks) = one_shot dec isreq (concat chunks).
Proof. exact frames_are_the_one_shot_parse_proof. Qed.
Print Assumptions frames_are_the_one_shot_parse.

Theorem same_bytes_same_frames : forall dec isreq chunks chunks',
  concat chunks = concat chunks' ->
  ft_feed dec (ft_init isreq) chunks = ft_feed dec (ft_init isreq) chunks'.
Proof. exact same_bytes_same_frames_proof. Qed.
Print Assumptions same_bytes_same_frames.

(* from any legal tracer state (mid-preface, mid-header, mid-payload, inside a header block) *)
Theorem chunking_independent_from : forall dec chunks st,
  wf st -> ft_feed dec st chunks = ft_trace dec st (concat chunks).
Proof. exact ft_feed_concat. Qed.
Print Assumptions chunking_independent_from.

Theorem broken_absorbing : forall dec st chunks,
  f_broken st = true -> ft_feed dec st chunks = (st, []).
Proof. exact broken_absorbing_proof. Qed.
Print Assumptions broken_absorbing.

(* ---- L2 against an independent one-shot specification.  `spec_frames` (C15_SpecL2, from RFC 9113 4.1/3.4/6.10) is a
   function of the direction's whole byte stream: after the 24-byte client preface on the request direction, cut it
   into raw frames by the 9-byte header's length field (`split_frames`; an incomplete frame at the end is no frame),
   join HEADERS + CONTINUATIONs up to END_HEADERS, hand each unit to the framer (`parse_buf`), stop at the first
   rejection.  For ALL byte streams and ANY decoder the tracer emits exactly these frames - and so, for ALL partitions
   into Read/Write chunks too. *)
Theorem frames_are_split_frames : forall dec isreq s, one_shot dec isreq s = spec_frames dec isreq s.
Proof. exact frames_are_split_frames_proof. Qed.
Print Assumptions frames_are_split_frames.

Theorem chunks_are_split_frames : forall dec isreq chunks,
  snd (ft_feed dec (ft_init isreq) chunks) = spec_frames dec isreq (concat chunks).
Proof. exact chunks_are_split_frames_proof. Qed.
Print Assumptions chunks_are_split_frames.

(* ---- L1/L3: never crashes.  For ANY op list (any bytes, cut anyhow into Reads and Writes, any inner-conn
   errors, short writes, Close, timer expiry), any HPACK decoders, client or server side: the run exists (no nil
   dereference anywhere in the tracer; in the model a Go panic is the outcome None) and every op returns the
   inner conn's result. *)
Theorem never_crashes : forall dec_r dec_w server ops,
  exists c rs, conn_run dec_r dec_w (conn_init server) ops = Some (c, rs) /\ Forall2 transparent_res ops rs.
Proof. exact never_crashes_proof. Qed.
Print Assumptions never_crashes.

(* ---- L1/L2: no byte escapes the tracer.  For ANY op list (any inner-conn errors, returned WITH or without bytes -
   io.EOF with the last bytes, a deadline firing after part of the data -, short writes, Close, timer): the read
   tracer has been fed exactly the chunks the inner Reads delivered, all of them, in order, and the write tracer
   exactly what the caller handed to Write; on a fresh connection the tracers are where ONE error-free call on the
   concatenation would have left them (with chunking_independent). *)
Theorem all_bytes_traced : forall dec_r dec_w ops c c' rs,
  conn_run dec_r dec_w c ops = Some (c', rs) ->
  c_rd c' = fst (ft_feed dec_r (c_rd c) (read_chunks ops)) /\
  c_wr c' = fst (ft_feed dec_w (c_wr c) (write_chunks ops)).
Proof. exact all_bytes_traced_proof. Qed.
Print Assumptions all_bytes_traced.

Theorem all_bytes_traced_one_shot : forall dec_r dec_w server ops c' rs,
  conn_run dec_r dec_w (conn_init server) ops = Some (c', rs) ->
  c_rd c' = fst (ft_trace dec_r (ft_init server) (concat (read_chunks ops))) /\
  c_wr c' = fst (ft_trace dec_w (ft_init (negb server)) (concat (write_chunks ops))).
Proof. exact all_bytes_traced_one_shot_proof. Qed.
Print Assumptions all_bytes_traced_one_shot.

(* a Read returning bytes together with an error does first exactly what the same Read without the error does
   (bytes through the frame tracer, completed frames to the stream layer), THEN acts on the error (nothing for a
   timeout, cancelAll otherwise); the caller gets both *)
Theorem read_error_after_tracing : forall dec_r dec_w c data e,
  conn_op dec_r dec_w c (ORead data e) =
  match conn_op dec_r dec_w c (ORead data 0) with
  | None => None
  | Some (c1, _) =>
    if read_fatal e
    then match cancel_conn c1 with None => None | Some c2 => Some (c2, RRead data e) end
    else Some (c1, RRead data e)
  end.
Proof. exact read_error_after_tracing_proof. Qed.
Print Assumptions read_error_after_tracing.

(* ---- L3: attribution.  For ALL lists of decoded frames (any number of concurrent streams, any interleaving,
   well-formed or not): the traces stream s completes, and the state it is left in, are those of the run that
   sees only the frames concerning s (its own frames and GOAWAYs): the trace is a function of the projection
   of the interleaved frame list onto the stream. *)
Theorem stream_independent : forall client fs s,
  exists st1 a1 st2 a2,
    sm_run client sm_init fs = Some (st1, a1) /\
    sm_run client sm_init (filter (concerns s) fs) = Some (st2, a2) /\
    completions_of s a1 = completions_of s a2 /\
    m_get s (m_streams st1) = m_get s (m_streams st2).
Proof. exact stream_independent_proof. Qed.
Print Assumptions stream_independent.

Theorem interleaving_independent : forall client fs fs' s st1 a1 st2 a2,
  filter (concerns s) fs = filter (concerns s) fs' ->
  sm_run client sm_init fs = Some (st1, a1) -> sm_run client sm_init fs' = Some (st2, a2) ->
  completions_of s a1 = completions_of s a2.
Proof. exact interleaving_independent_proof. Qed.
Print Assumptions interleaving_independent.

(* ---- L3: content.  `exchange sid frames o` (C15_SpecL3) is the grammar of a well-formed stream over decoded
   frames: request HEADERS, request DATA*, END_STREAM on a DATA / on trailers / on the HEADERS; response HEADERS,
   DATA*, END_STREAM on a DATA / on trailers / on the HEADERS (trailers-only); the two directions interleaved in
   any order; RST_STREAM by either peer at any point; late DATA/RST after the end.  It generates the expected
   outcome with the frames: Done t (t = request line and headers, messages of both directions numbered in order,
   status, response headers, trailers, end or reset) or Open (not over yet).  For EVERY exchange of the grammar,
   alone on a connection: the run exists, the traces handed to the collector - by this stream and in total - are
   exactly `traces_of o`: the one trace t if the request carries a test name and the stream is over, none
   otherwise; and the stream is gone from the table afterwards. *)
Theorem single_stream_trace_content : forall client sid frames o,
  exchange sid frames o ->
  exists st acts, sm_run client sm_init frames = Some (st, acts) /\
    all_completions acts = traces_of o /\ completions_of sid acts = traces_of o /\
    (forall t, o = Done t -> is_nil (t_name t) = false -> m_get sid (m_streams st) = None).
Proof. exact single_stream_trace_content_proof. Qed.
Print Assumptions single_stream_trace_content.

(* ... and so, with stream_independent, for ANY interleaving (interleaving_of: distinct stream ids; the frames of
   each stream, in order, are an exchange of the grammar; anything else on the connection is a frame handleFrame
   ignores) of ANY number of concurrent well-formed streams: every stream completes exactly its expected traces,
   and the multiset of all traces completed on the connection is the multiset of the expected ones - one per
   finished stream with a test name, none for streams without. *)
Theorem wellformed_interleaving_traces : forall client xs fs,
  interleaving_of xs fs ->
  exists st acts, sm_run client sm_init fs = Some (st, acts) /\
    (forall e, In e xs -> completions_of (xc_sid e) acts = traces_of (xc_out e)) /\
    Permutation (all_completions acts) (flat_map (fun e => traces_of (xc_out e)) xs).
Proof. exact wellformed_interleaving_traces_proof. Qed.
Print Assumptions wellformed_interleaving_traces.

(* ---- L3: no test name, no trace.  For ALL frame lists (any streams, any interleaving, well-formed or not, GOAWAYs
   included): a stream id on which no request HEADERS carries a test name never completes a trace. *)
Theorem no_name_no_trace : forall client fs s,
  no_name_on s fs ->
  exists st acts, sm_run client sm_init fs = Some (st, acts) /\ completions_of s acts = [].
Proof. exact no_name_no_trace_proof. Qed.
Print Assumptions no_name_no_trace.

(* ---- L3: GOAWAY.  For ALL frame lists before and after it: a GOAWAY leaves every stream at or below its
   last-stream-id exactly as it would be without the GOAWAY - same traces, same final state.  (`spares s`: no
   earlier GOAWAY has cut s off already; a later GOAWAY with a higher id would lift that, as the code overwrites
   maxStreamID.) *)
Theorem goaway_keeps_lower : forall client pre d last code post s,
  s <= last -> Forall (spares s) pre ->
  exists st1 a1 st2 a2,
    sm_run client sm_init (pre ++ (d, FGoAway last code) :: post) = Some (st1, a1) /\
    sm_run client sm_init (pre ++ post) = Some (st2, a2) /\
    completions_of s a1 = completions_of s a2 /\
    m_get s (m_streams st1) = m_get s (m_streams st2).
Proof. exact goaway_keeps_lower_proof. Qed.
Print Assumptions goaway_keeps_lower.

(* a stream above a (non-zero) last-stream-id is abandoned exactly as setMaxStreamIDLocked does (abandon_resp on
   its table entry, if it has one), is gone afterwards, and nothing that follows on the connection (short of
   another GOAWAY) makes it complete anything or reappear *)
Theorem goaway_cancels_higher_any : forall client pre d last code post s,
  last < s -> last <> 0 -> Forall (fun f => is_goaway (snd f) = false) post ->
  exists st0 a0 st1 a1,
    sm_run client sm_init pre = Some (st0, a0) /\
    sm_run client sm_init (pre ++ (d, FGoAway last code) :: post) = Some (st1, a1) /\
    completions_of s a1 =
      completions_of s a0 ++
      flat_map (fun e => match abandon_resp (fst e) (snd e) (EConn code) with Some x => completions_of s x | None => [] end)
               (filter (fun e => fst e =? s) (m_streams st0)) /\
    m_get s (m_streams st1) = None.
Proof. exact goaway_cancels_higher_any_proof. Qed.
Print Assumptions goaway_cancels_higher_any.

(* in terms of the grammar: a well-formed stream still open, in whatever phase, when a GOAWAY with a lower non-zero
   last-stream-id arrives yields exactly one trace if it carries a test name - what was gathered so far, cut-off
   messages reported, ended by the connection error - and ignores what its peers still send on it *)
Theorem goaway_cancels_higher : forall client sid frames x d last code post,
  exchange sid frames (Open x) -> last < sid -> last <> 0 -> Forall (fun f => own sid f = true) post ->
  exists st acts,
    sm_run client sm_init (frames ++ (d, FGoAway last code) :: post) = Some (st, acts) /\
    completions_of sid acts = x_abandoned x (EConn code) /\
    m_get sid (m_streams st) = None.
Proof. exact goaway_cancels_higher_proof. Qed.
Print Assumptions goaway_cancels_higher.

(* ---- L3: the retry collector.  For ALL action lists around it (mid, mid2: anything that does not name n):
   a retryable completion (REFUSED_STREAM / GOAWAY NO_ERROR) followed by a new attempt with the same test name
   and that attempt's completion delivers exactly the retry's trace for n; the refused attempt's never. *)
Theorem retry_yields_retry_trace : forall r n s1 t1 mid mid2 s2 t2,
  rc_wf r -> retryable (t_err t1) = true -> t_name t1 = n -> t_name t2 = n -> retryable (t_err t2) = false ->
  Forall (quiet n) mid -> Forall (quiet n) mid2 ->
  delivered n (rc_run r (CComplete s1 t1 :: mid ++ CNew n :: mid2 ++ [CComplete s2 t2])) = delivered n r ++ [t2].
Proof. exact retry_yields_retry_trace_proof. Qed.
Print Assumptions retry_yields_retry_trace.

(* without a retry the parked trace is delivered exactly once, by the timer or when the connection ends *)
Theorem unretried_delivered_once : forall r n s1 t1 mid fin,
  rc_wf r -> retryable (t_err t1) = true -> t_name t1 = n -> Forall (quiet n) mid ->
  fin = CTimesUp n \/ fin = CCancel ->
  delivered n (rc_run r (CComplete s1 t1 :: mid ++ [fin])) = delivered n r ++ [t1] /\
  w_get n (r_wait (rc_run r (CComplete s1 t1 :: mid ++ [fin]))) = None.
Proof. exact unretried_delivered_once_proof. Qed.
Print Assumptions unretried_delivered_once.

(* the collector states that occur are well-formed *)
Theorem collector_wf : forall l, rc_wf (rc_run rc_init l).
Proof. exact collector_wf_proof. Qed.
Print Assumptions collector_wf.

(* ---- the hypotheses are inhabited, the statements are not vacuous ---- *)
Definition ex_dec : list bytes -> bytes -> option (list field) :=
  fun _ blk => Some [(bs ":method", bs "POST"); (bs ":path", bs "/s/M"); (bs "x-test-case-name", blk)].
(* HEADERS (END_HEADERS|END_STREAM) on stream 1 with the 1-byte block "a", cut in the middle of the frame header *)
Definition ex_frame : bytes := [0; 0; 1; 1; 5; 0; 0; 0; 1; 97].
Example ex_chunks_emit :
  snd (ft_feed ex_dec (ft_init false) [firstn 4 ex_frame; skipn 4 ex_frame]) =
  [FHeaders 1 true [(bs ":method", bs "POST"); (bs ":path", bs "/s/M"); (bs "x-test-case-name", [97])]].
Proof. vm_compute. reflexivity. Qed.
(* a header block continued in a CONTINUATION frame is one frame for the stream layer *)
Example ex_continuation :
  snd (ft_trace ex_dec (ft_init false) ([0; 0; 1; 1; 1; 0; 0; 0; 1; 97] ++ [0; 0; 1; 9; 4; 0; 0; 0; 1; 98])) =
  [FHeaders 1 true [(bs ":method", bs "POST"); (bs ":path", bs "/s/M"); (bs "x-test-case-name", [97; 98])]].
Proof. vm_compute. reflexivity. Qed.
(* a malformed frame (DATA on stream 0) breaks the direction, nothing else *)
Example ex_broken : f_broken (fst (ft_trace ex_dec (ft_init false) [0; 0; 0; 0; 0; 0; 0; 0; 0])) = true.
Proof. vm_compute. reflexivity. Qed.
(* two interleaved streams: each completes its own trace *)
Definition ex_h (s : N) (n : bytes) := FHeaders s true [(bs ":path", bs "/p"); (bs "x-test-case-name", n)].
Definition ex_r (s : N) := FHeaders s true [(bs ":status", bs "200")].
Example ex_two_streams :
  match sm_run true sm_init [(true, ex_h 1 [97]); (true, ex_h 3 [98]); (false, ex_r 3); (false, ex_r 1)] with
  | Some (st, acts) =>
    map t_name (completions_of 1 acts) = [[97]] /\ map t_name (completions_of 3 acts) = [[98]] /\ m_streams st = []
  | None => False
  end.
Proof. vm_compute. repeat split. Qed.
(* a stream without test name completes nothing; a reset before response headers completes the trace *)
Example ex_unnamed :
  match sm_run true sm_init [(true, FHeaders 1 true [(bs ":path", bs "/p")]); (false, ex_r 1); (false, ex_r 1)] with
  | Some (st, acts) => completions_of 1 acts = [] | None => False end.
Proof. vm_compute. reflexivity. Qed.
Example ex_reset :
  match sm_run true sm_init [(true, ex_h 1 [97]); (false, FRst 1 7)] with
  | Some (st, acts) => map t_err (completions_of 1 acts) = [EStream 7] | None => False end.
Proof. vm_compute. reflexivity. Qed.
Example ex_quiet : quiet [97] (CNew [98]) /\ rc_wf rc_init.
Proof. split; [discriminate|exact rc_init_wf]. Qed.

(* ---- the grammar is inhabited: two concurrent gRPC-style streams, interleaved, with DATA and trailers ---- *)
Definition ex_ct : field := (bs "content-type", bs "application/grpc").
Definition ex_req (n : bytes) : list field :=
  [(bs ":method", bs "POST"); (bs ":path", bs "/s/M?x"); ex_ct; (bs "x-test-case-name", n)].
Definition ex_resp : list field := [(bs ":status", bs "200"); ex_ct].
Definition ex_trailers : list field := [(bs "grpc-status", bs "0")].
(* stream 1: request message "hi" in one DATA, response message cut over two DATA frames, trailers *)
Definition ex_s1 : list (bool * dframe) :=
  [(true, FHeaders 1 false (ex_req [97])); (true, FData 1 true [0; 0; 0; 0; 2; 104; 105]);
   (false, FHeaders 1 false ex_resp); (false, FData 1 false [0; 0; 0; 0; 3; 1]); (false, FData 1 false [2; 3]);
   (false, FHeaders 1 true ex_trailers)].
(* stream 3: request without body, response headers, reset by the server in the middle of a message; a late DATA *)
Definition ex_s3 : list (bool * dframe) :=
  [(true, FHeaders 3 true (ex_req [98])); (false, FHeaders 3 false ex_resp); (false, FData 3 false [0; 0; 0; 0; 9; 7]);
   (false, FRst 3 2); (true, FData 3 false [1])].
(* stream 5 carries no test name *)
Definition ex_s5 : list (bool * dframe) :=
  [(true, FHeaders 5 true [(bs ":path", bs "/p")]); (false, FHeaders 5 true ex_resp)].
Definition ex_mix : list (bool * dframe) :=
  [(true, FHeaders 1 false (ex_req [97])); (true, FHeaders 3 true (ex_req [98])); (false, FOther);
   (true, FHeaders 5 true [(bs ":path", bs "/p")]);
   (false, FHeaders 3 false ex_resp); (true, FData 1 true [0; 0; 0; 0; 2; 104; 105]);
   (false, FHeaders 1 false ex_resp); (false, FData 3 false [0; 0; 0; 0; 9; 7]); (false, FData 1 false [0; 0; 0; 0; 3; 1]);
   (false, FHeaders 5 true ex_resp);
   (false, FRst 3 2); (false, FData 1 false [2; 3]); (true, FData 3 false [1]); (false, FHeaders 1 true ex_trailers)].

Lemma ex_s1_exchange : exists t, exchange 1 ex_s1 (Done t) /\
  t_name t = [97] /\ q_path (t_req t) = bs "/s/M" /\ q_query (t_req t) = bs "x" /\
  t_resp t = Some (200, [ex_ct], ex_trailers) /\ t_err t = ENil /\
  t_events t = [TReqStart; TReqData 0 (Some (0, 2)) 2; TReqEnd ENil; TRespStart 200 [ex_ct];
                TRespData 0 (Some (0, 3)) 3; TRespEnd ENil].
Proof.
  eexists. split.
  - unfold ex_s1. eapply X_headers. eapply S_req_data_end; [reflexivity|].
    eapply S_resp_headers; [reflexivity|]. eapply S_resp_data; [reflexivity|]. eapply S_resp_data; [reflexivity|].
    eapply S_resp_trailers; [reflexivity|constructor].
  - vm_compute. repeat split.
Qed.

Lemma ex_s3_exchange : exists t, exchange 3 ex_s3 (Done t) /\
  t_name t = [98] /\ t_err t = EStream 2 /\
  t_events t = [TReqStart; TReqEnd ENil; TRespStart 200 [ex_ct]; TRespData 0 (Some (0, 9)) 1; TRespEnd (EStream 2)].
Proof.
  eexists. split.
  - unfold ex_s3. eapply X_headers_end. eapply S_resp_headers; [reflexivity|]. eapply S_resp_data; [reflexivity|].
    eapply S_rst_server. repeat constructor.
  - vm_compute. repeat split.
Qed.

Lemma ex_s5_exchange : exists t, exchange 5 ex_s5 (Done t) /\ t_name t = [].
Proof.
  eexists. split.
  - unfold ex_s5. eapply X_headers_end. eapply S_resp_only; [reflexivity|constructor].
  - reflexivity.
Qed.

(* the hypotheses of wellformed_interleaving_traces are met by a concrete three-stream interleaving *)
Example ex_interleaving : exists t1 t3 t5,
  interleaving_of [mkXch 1 ex_s1 (Done t1); mkXch 3 ex_s3 (Done t3); mkXch 5 ex_s5 (Done t5)] ex_mix /\
  flat_map (fun e => traces_of (xc_out e)) [mkXch 1 ex_s1 (Done t1); mkXch 3 ex_s3 (Done t3); mkXch 5 ex_s5 (Done t5)]
  = [t1; t3].
Proof.
  destruct ex_s1_exchange as (t1 & X1 & N1 & _). destruct ex_s3_exchange as (t3 & X3 & N3 & _).
  destruct ex_s5_exchange as (t5 & X5 & T5).
  exists t1, t3, t5. split.
  - split; [|split].
    + cbn. repeat (apply NoDup_cons; [cbn; intuition discriminate|]). apply NoDup_nil.
    + constructor; [split; [exact X1|reflexivity]|]. constructor; [split; [exact X3|reflexivity]|].
      constructor; [split; [exact X5|reflexivity]|constructor].
    + unfold ex_mix.
      repeat (apply Forall_cons; [split; [reflexivity|cbn; intros t E; inversion E; subst; cbn; auto 6]|]).
      apply Forall_nil.
  - unfold flat_map, traces_of, xc_out. rewrite T5, N1, N3. reflexivity.
Qed.

(* an exchange left open, and the GOAWAY hypotheses *)
Example ex_open : exists x, exchange 3 (firstn 3 ex_s3) (Open x) /\ 1 < 3 /\ 1 <> 0 /\
  map t_events (x_abandoned x (EConn 0)) =
  [[TReqStart; TReqEnd ENil; TRespStart 200 [ex_ct]; TRespData 0 (Some (0, 9)) 1; TRespEnd (EConn 0)]].
Proof.
  eexists. split; [|split; [reflexivity|split; [discriminate|]]].
  - cbn [firstn ex_s3]. eapply X_headers_end. eapply S_resp_headers; [reflexivity|]. eapply S_resp_data; [reflexivity|].
    apply S_open.
  - vm_compute. reflexivity.
Qed.
Example ex_spares : Forall (spares 1) (firstn 4 ex_mix) /\ no_name_on 5 ex_mix.
Proof.
  split; [repeat constructor|].
  intros es fields I. cbn in I.
  repeat (destruct I as [I|I]; [inversion I; subst; reflexivity|]). destruct I.
Qed.
(* a read that delivers the rest of a frame together with io.EOF: the frame is still traced *)
Example ex_bytes_with_eof :
  match conn_run ex_dec ex_dec (conn_init true) [ORead preface 0; ORead (firstn 4 ex_frame) 2; ORead (skipn 4 ex_frame) 1] with
  | Some (c, _) => map (fun t => (t_name t, t_err t)) (r_out (c_rc c)) = [([97], EOther)] /\ f_broken (c_rd c) = false
  | None => False
  end.
Proof. vm_compute. split; reflexivity. Qed.
(* the one-shot spec on the request direction: preface, a HEADERS+CONTINUATION block, a frame cut short at the end *)
Example ex_spec_frames :
  spec_frames ex_dec true (preface ++ [0; 0; 1; 1; 1; 0; 0; 0; 1; 97] ++ [0; 0; 1; 9; 4; 0; 0; 0; 1; 98] ++ [0; 0; 5; 0; 0; 0]) =
  [FHeaders 1 true [(bs ":method", bs "POST"); (bs ":path", bs "/s/M"); (bs "x-test-case-name", [97; 98])]] /\
  split_frames 30 ([0; 0; 1; 1; 1; 0; 0; 0; 1; 97] ++ [0; 0; 0; 4; 1; 0; 0; 0; 0] ++ [0; 0; 5; 0]) =
  [[0; 0; 1; 1; 1; 0; 0; 0; 1; 97]; [0; 0; 0; 4; 1; 0; 0; 0; 0]] /\
  spec_frames ex_dec true (bs "GET / HTTP/1.1" ++ preface) = [].
Proof. vm_compute. repeat split. Qed.

(* ---- the configuration of the HPACK decoders (TracingHTTP2Conn -> hpack.NewDecoder).  What a block's fields ARE is the
   oracle `dec`; which blocks a decoder refuses because of the dynamic-table limit it was built with is modelled:
   `cfg_dec limit dec` refuses a block that opens with a dynamic table size update above `limit` (hpack: "dynamic table
   size update too large").  Well-formed traffic: the receiver of the direction announced SETTINGS_HEADER_TABLE_SIZE =
   allowed - any 32-bit value (`negotiable`) - and every block's size updates stay <= allowed: the receiver's own decoder
   is `cfg_dec allowed dec`.  With decoders built unlimited (hpack_unlimited = math.MaxUint32, what run_c15_conn gives the
   model) the tracer decodes, for EVERY negotiable size and ANY oracle, exactly what the receiver decodes; so it emits the
   receiver's frames for all byte streams and chunkings, and whole runs coincide - every theorem above holds for ANY
   decoder, so all of them speak about the fields the receiver sees. *)
Theorem unlimited_decodes_what_the_receiver_decodes : forall allowed dec, negotiable allowed ->
  dec_eq (cfg_dec hpack_unlimited (cfg_dec allowed dec)) (cfg_dec allowed dec).
Proof. exact unlimited_decodes_what_the_receiver_decodes_proof. Qed.
Print Assumptions unlimited_decodes_what_the_receiver_decodes.

Theorem tracer_frames_are_the_receivers_frames : forall allowed dec isreq chunks, negotiable allowed ->
  snd (ft_feed (cfg_dec hpack_unlimited (cfg_dec allowed dec)) (ft_init isreq) chunks) =
  spec_frames (cfg_dec allowed dec) isreq (concat chunks).
Proof. exact tracer_frames_are_the_receivers_frames_proof. Qed.
Print Assumptions tracer_frames_are_the_receivers_frames.

Theorem tracer_runs_as_with_the_receivers_decoders : forall ar aw dr dw ops c, negotiable ar -> negotiable aw ->
  conn_run (cfg_dec hpack_unlimited (cfg_dec ar dr)) (cfg_dec hpack_unlimited (cfg_dec aw dw)) c ops =
  conn_run (cfg_dec ar dr) (cfg_dec aw dw) c ops.
Proof. exact tracer_runs_as_with_the_receivers_decoders_proof. Qed.
Print Assumptions tracer_runs_as_with_the_receivers_decoders.

(* a limit does for every negotiable size and every oracle iff no 32-bit announcement can exceed it *)
Theorem limit_suffices_iff : forall limit, suffices limit <-> 4294967295 <= limit.
Proof. exact limit_suffices_iff_proof. Qed.
Print Assumptions limit_suffices_iff.

(* the limits the compiled code hands to its four decoders (client read/write, server read/write; C15_Consts.v is read
   off the constructed connection on every run) all do, and no decoder starts below the protocol's initial 4096 *)
Theorem configured_decoders_suffice : forall limit, In limit go_hpack_allowed -> suffices limit.
Proof. exact configured_decoders_suffice_proof. Qed.
Print Assumptions configured_decoders_suffice.

Theorem configured_decoders_complete :
  length go_hpack_allowed = 4%nat /\ length go_hpack_initial = 4%nat /\ Forall (fun m => 4096 <= m) go_hpack_initial.
Proof. exact configured_decoders_complete_proof. Qed.
Print Assumptions configured_decoders_complete.

(* the protocol default 4096 as the limit is refuted: the receiver announced 8192, the sender's first block opens with
   the size update 3f e1 3f (= 8192) before its fields; the receiver decodes it, a tracer limited to 4096 gives the
   direction up and emits nothing, the unlimited one emits the HEADERS frame *)
Definition ex_blk_8192 : bytes := [63; 225; 63; 130].
Definition ex_hdrs_8192 : bytes := [0; 0; 4; 1; 5; 0; 0; 0; 1] ++ ex_blk_8192.
Example limit_4096_refuted :
  negotiable 8192 /\ leading_updates ex_blk_8192 = [8192] /\
  cfg_dec 8192 ex_dec [] ex_blk_8192 = ex_dec [] ex_blk_8192 /\
  cfg_dec 4096 (cfg_dec 8192 ex_dec) [] ex_blk_8192 = None /\
  spec_frames (cfg_dec 8192 ex_dec) false ex_hdrs_8192 =
    [FHeaders 1 true [(bs ":method", bs "POST"); (bs ":path", bs "/s/M"); (bs "x-test-case-name", ex_blk_8192)]] /\
  snd (ft_trace (cfg_dec hpack_unlimited (cfg_dec 8192 ex_dec)) (ft_init false) ex_hdrs_8192) =
    spec_frames (cfg_dec 8192 ex_dec) false ex_hdrs_8192 /\
  snd (ft_trace (cfg_dec 4096 (cfg_dec 8192 ex_dec)) (ft_init false) ex_hdrs_8192) = [] /\
  f_broken (fst (ft_trace (cfg_dec 4096 (cfg_dec 8192 ex_dec)) (ft_init false) ex_hdrs_8192)) = true /\
  ~ suffices 4096.
Proof.
  split. { unfold negotiable. apply N.leb_le. vm_compute. reflexivity. }
  split. { vm_compute. reflexivity. }
  split. { vm_compute. reflexivity. }
  split. { vm_compute. reflexivity. }
  split. { vm_compute. reflexivity. }
  split. { vm_compute. reflexivity. }
  split. { vm_compute. reflexivity. }
  split. { vm_compute. reflexivity. }
  intros H. apply limit_suffices_iff in H. apply N.leb_le in H. vm_compute in H. discriminate H.
Qed.
(* both sides of `hp_allows`: sizes up to the limit pass, 2^32 (3f e1 ff ff ff 0f) does not even pass the unlimited decoder *)
Example ex_updates :
  leading_updates [63; 225; 31; 63; 225; 255; 3; 130] = [4096; 65536] /\
  leading_updates [32; 63; 0; 130] = [0; 31] /\ leading_updates [130; 63; 225; 63] = [] /\
  hp_allows hpack_unlimited [63; 224; 255; 255; 255; 15] = true /\
  hp_allows hpack_unlimited [63; 225; 255; 255; 255; 15] = false.
Proof. vm_compute. repeat split. Qed.
