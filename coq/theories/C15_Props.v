(* C15_Props.v — the property theorems of C15 and nothing else.
   Each is closed by `exact <lemma>` and followed by Print Assumptions. *)
From V Require Import C15_Spec C15_Proofs C15_ProofsL3.
Open Scope N_scope.

(* ---- L1: transparency.  Whatever state the tracer is in (any conn value, reachable or not), whatever
   bytes arrive and whatever the HPACK decoders say, the caller of Read/Write/Close gets exactly the inner
   conn's bytes, count and error. *)
Theorem transparent : forall dec_r dec_w c o c' r,
  conn_op dec_r dec_w c o = Some (c', r) -> transparent_res o r.
Proof. exact transparent_op_proof. Qed.
Print Assumptions transparent.

Theorem transparent_run : forall dec_r dec_w ops c c' rs,
  conn_run dec_r dec_w c ops = Some (c', rs) -> Forall2 transparent_res ops rs.
Proof. exact transparent_run_proof. Qed.
Print Assumptions transparent_run.

(* a broken tracer neither interferes nor moves *)
Theorem broken_conn_transparent : forall dec_r dec_w c data e c' r,
  f_broken (c_rd c) = true -> conn_op dec_r dec_w c (ORead data e) = Some (c', r) ->
  r = RRead data e /\ c_rd c' = c_rd c.
Proof. exact broken_conn_transparent_proof. Qed.
Print Assumptions broken_conn_transparent.

(* ---- L2: chunking independence.  For ALL byte streams, ALL partitions into chunks and ANY HPACK decoder:
   feeding the chunks one by one leaves the frame tracer in the same state and emits the same decoded frames,
   in the same order, as one trace() call on the concatenation. *)
Theorem chunking_independent : forall dec isreq chunks,
  ft_feed dec (ft_init isreq) chunks = ft_trace dec (ft_init isreq) (concat chunks).
Proof. exact chunking_independent_proof. Qed.
Print Assumptions chunking_independent.

Theorem frames_are_the_one_shot_parse : forall dec isreq chunks,
  snd (ft_feed dec (ft_init isreq) chunks) = one_shot dec isreq (concat chunks).
Proof. exact frames_are_the_one_shot_parse_proof. Qed.
Print Assumptions frames_are_the_one_shot_parse.

Theorem same_bytes_same_frames : forall dec isreq chunks chunks',
  concat chunks = concat chunks' ->
  ft_feed dec (ft_init isreq) chunks = ft_feed dec (ft_init isreq) chunks'.
Proof. exact same_bytes_same_frames_proof. Qed.
Print Assumptions same_bytes_same_frames.

(* from any legal tracer state (mid-preface, mid-header, mid-payload, inside a header block) *)
Theorem chunking_independent_from : forall dec chunks st,
  wf st -> ft_feed dec st chunks = ft_trace dec st (concat chunks).
Proof. exact ft_feed_concat. Qed.
Print Assumptions chunking_independent_from.

Theorem broken_absorbing : forall dec st chunks,
  f_broken st = true -> ft_feed dec st chunks = (st, []).
Proof. exact broken_absorbing_proof. Qed.
Print Assumptions broken_absorbing.

(* ---- L1/L3: never crashes.  For ANY op list (any bytes, cut anyhow into Reads and Writes, any inner-conn
   errors, short writes, Close, timer expiry), any HPACK decoders, client or server side: the run exists (no nil
   dereference anywhere in the tracer; in the model a Go panic is the outcome None) and every op returns the
   inner conn's result. *)
Theorem never_crashes : forall dec_r dec_w server ops,
  exists c rs, conn_run dec_r dec_w (conn_init server) ops = Some (c, rs) /\ Forall2 transparent_res ops rs.
Proof. exact never_crashes_proof. Qed.
Print Assumptions never_crashes.

(* ---- L3: attribution.  For ALL lists of decoded frames (any number of concurrent streams, any interleaving,
   well-formed or not): the traces stream s completes, and the state it is left in, are those of the run that
   sees only the frames concerning s (its own frames and GOAWAYs): the trace is a function of the projection
   of the interleaved frame list onto the stream. *)
Theorem stream_independent : forall client fs s,
  exists st1 a1 st2 a2,
    sm_run client sm_init fs = Some (st1, a1) /\
    sm_run client sm_init (filter (concerns s) fs) = Some (st2, a2) /\
    completions_of s a1 = completions_of s a2 /\
    m_get s (m_streams st1) = m_get s (m_streams st2).
Proof. exact stream_independent_proof. Qed.
Print Assumptions stream_independent.

Theorem interleaving_independent : forall client fs fs' s st1 a1 st2 a2,
  filter (concerns s) fs = filter (concerns s) fs' ->
  sm_run client sm_init fs = Some (st1, a1) -> sm_run client sm_init fs' = Some (st2, a2) ->
  completions_of s a1 = completions_of s a2.
Proof. exact interleaving_independent_proof. Qed.
Print Assumptions interleaving_independent.
