From V Require Import C15_Spec C15_Proofs.
