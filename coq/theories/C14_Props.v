(* C14_Props.v — the property theorems of C14 and nothing else.
   Each is closed by `exact <lemma>` and followed by Print Assumptions.
   `decompress` stands for the negotiated decompressor run to completion (an oracle: C20's domain);
   every theorem holds for every such function. *)
From Coq Require Import Lia.
From V Require Import C14_Spec C14_Proofs C14_Alias C14_HttpProofs C14_ServerProofs.
Open Scope N_scope.

(* Chunking never matters (raw dataTracer + builder): for EVERY configuration, EVERY list of chunks
   (empty and one-byte chunks included) of EVERY byte string - well-formed, truncated anywhere or
   garbage - the delivered events are the numbered events of the one-shot declarative parse of the
   concatenation, followed by one body-end event. *)
Theorem chunk_invariant : forall decompress c chunks,
  raw_events decompress c chunks = expected_events decompress c (concat chunks) ENil.
Proof. exact raw_events_proof. Qed.
Print Assumptions chunk_invariant.

(* the same through tracingReader: any reads without error, then a read that returns (last, err)
   with err = EOF or another error, then any number of Close calls *)
Theorem reader_chunk_invariant : forall decompress c chunks last e fl,
  e <> IoNone ->
  reader_events decompress c (reads chunks ++ [RRead last e] ++ closes fl) =
  expected_events decompress c (concat (chunks ++ [last])) (errk_of e).
Proof. exact reader_chunks_proof. Qed.
Print Assumptions reader_chunk_invariant.

(* ... or closed before the end was seen: the bytes read so far, then the body-end with the close error *)
Theorem reader_closed_early : forall decompress c chunks f fl,
  reader_events decompress c (reads chunks ++ closes (f :: fl)) =
  expected_events decompress c (concat chunks) (if f then EScripted else EOther).
Proof. exact reader_close_proof. Qed.
Print Assumptions reader_closed_early.

(* through tracingResponseWriter: what is traced is what the inner writer ACCEPTED (data[:n]) *)
Theorem writer_chunk_invariant : forall decompress c l,
  writer_events decompress c (writes l) = expected_events decompress c (concat (accepted l)) ENil.
Proof. exact writer_ok_proof. Qed.
Print Assumptions writer_chunk_invariant.

Theorem writer_failed_write : forall decompress c l data n,
  writer_events decompress c (writes l ++ [WWrite data n true]) =
  expected_events decompress c (concat (accepted l ++ [firstn n data])) EScripted.
Proof. exact writer_fail_proof. Qed.
Print Assumptions writer_failed_write.

(* pass-through: for ANY script of calls the caller gets exactly the inner bytes / counts / errors *)
Theorem reader_transparent : forall decompress c ops s,
  snd (reader_run decompress c s ops) = map rres_of ops.
Proof. exact reader_transparent_proof. Qed.
Print Assumptions reader_transparent.

Theorem writer_transparent : forall decompress c ops s,
  snd (writer_run decompress c s ops) = map wres_of ops.
Proof. exact writer_transparent_proof. Qed.
Print Assumptions writer_transparent.

(* a single body-end event for ANY script (reads after the end, repeated Close, writes after a
   failed write, ...): exactly one once anything ended the body, none before *)
Theorem reader_single_body_end : forall decompress c ops,
  count_end (reader_events decompress c ops) = if existsb finishing ops then 1%nat else O.
Proof. exact reader_single_end_proof. Qed.
Print Assumptions reader_single_body_end.

Theorem writer_single_body_end : forall decompress c ops,
  count_end (writer_events decompress c ops) = 1%nat.
Proof. exact writer_single_end_proof. Qed.
Print Assumptions writer_single_body_end.

(* data events are numbered 0,1,2,... in order, for every body *)
Theorem consecutive_numbering : forall decompress c chunks,
  data_indices (raw_events decompress c chunks) =
  seqN 0 (count_data (parse_body decompress c (concat chunks))).
Proof. exact consecutive_proof. Qed.
Print Assumptions consecutive_numbering.

(* one data event per enveloped message with its exact flags and declared length *)
Theorem one_per_message : forall decompress c, c_stream c = true -> forall msgs chunks,
  Forall fits msgs -> concat chunks = encode_all msgs ->
  raw_events decompress c chunks =
  number (c_req c) 0 (flat_map (msg_events decompress c) msgs) ++ [EvEnd (c_req c) ENil].
Proof. exact one_per_message_proof. Qed.
Print Assumptions one_per_message.

(* a body cut after j bytes of a message: the complete messages, then the partial event with the
   count actually seen (see partial_events for the cut exactly after a prefix) *)
Theorem truncation : forall decompress c, c_stream c = true -> forall msgs fl p j chunks,
  Forall fits msgs -> fits (fl, p) -> (0 < j < length (encode fl p))%nat ->
  concat chunks = encode_all msgs ++ firstn j (encode fl p) ->
  raw_events decompress c chunks =
  number (c_req c) 0 (flat_map (msg_events decompress c) msgs ++ partial_events fl (blen p) j)
  ++ [EvEnd (c_req c) ENil].
Proof. exact truncation_proof. Qed.
Print Assumptions truncation.

(* end-stream content: shown as it is when the compressed flag is clear, whatever was negotiated *)
Theorem end_stream_uncompressed : forall decompress c, c_stream c = true -> forall msgs fl p chunks,
  c_req c = false -> Forall fits msgs -> fits (fl, p) -> p <> [] ->
  is_end_stream fl = true -> is_compressed fl = false ->
  concat chunks = encode_all msgs ++ encode fl p ->
  raw_events decompress c chunks =
  number false 0 (flat_map (msg_events decompress c) msgs) ++
  [EvData false (N.of_nat (length msgs)) (Some (mk_env fl (blen p))) (blen p); EvEos p; EvEnd false ENil].
Proof. exact end_stream_uncompressed_proof. Qed.
Print Assumptions end_stream_uncompressed.

(* ... and decompressed when it is set *)
Theorem end_stream_compressed : forall decompress c, c_stream c = true -> forall msgs fl p out chunks,
  c_req c = false -> c_dec c = true -> Forall fits msgs -> fits (fl, p) -> p <> [] ->
  is_end_stream fl = true -> is_compressed fl = true ->
  decompress p = Some out -> out <> [] ->
  concat chunks = encode_all msgs ++ encode fl p ->
  raw_events decompress c chunks =
  number false 0 (flat_map (msg_events decompress c) msgs) ++
  [EvData false (N.of_nat (length msgs)) (Some (mk_env fl (blen p))) (blen p); EvEos out; EvEnd false ENil].
Proof. exact end_stream_compressed_proof. Qed.
Print Assumptions end_stream_compressed.

(* a flagged payload the decompressor refuses: the data event, no content, the body-end *)
Theorem end_stream_undecodable : forall decompress c, c_stream c = true -> forall msgs fl p chunks,
  c_req c = false -> c_dec c = true -> Forall fits msgs -> fits (fl, p) ->
  is_end_stream fl = true -> is_compressed fl = true -> decompress p = None ->
  concat chunks = encode_all msgs ++ encode fl p ->
  raw_events decompress c chunks =
  number false 0 (flat_map (msg_events decompress c) msgs) ++
  [EvData false (N.of_nat (length msgs)) (Some (mk_env fl (blen p))) (blen p); EvEnd false ENil].
Proof. exact end_stream_undecodable_proof. Qed.
Print Assumptions end_stream_undecodable.

(* without a streaming content-type: one data event with the total byte count, no envelope *)
Theorem non_stream : forall decompress c chunks,
  c_stream c = false ->
  raw_events decompress c chunks =
  match concat chunks with
  | [] => [EvEnd (c_req c) ENil]
  | _ :: _ => [EvData (c_req c) 0 None (blen (concat chunks)); EvEnd (c_req c) ENil]
  end.
Proof. exact non_stream_proof. Qed.
Print Assumptions non_stream.

(* The aliasing assumption.  Everything above is about a model whose state holds VALUES: what the
   tracer keeps of a chunk is unaffected by what happens later to the array the chunk was a window
   of.  A Go slice is not a value; the code implements value semantics only by COPYING what it
   keeps (`append(d.prefix, data...)` into storage of its own, bytes.Buffer.Write), as the
   io.Reader / io.Writer contracts demand.  C14_Alias makes the caller's memory explicit: for
   EVERY behaviour of the caller (it rewrites its memory as it likes before each call - new data,
   scribbling, re-use of one buffer - and hands over any window inside it) the copying tracer
   never writes to that memory, the application finds in each window exactly what was handed
   over, and the events are the declarative parse of the handed-over values.  The correspondence
   run checks the Go code against this with a caller of exactly that kind (windows of one re-used
   array with spare capacity, scribbled over between calls, compared with private copies). *)
Theorem copying_is_value_semantics : forall decompress c mem calls,
  windows_inside mem calls ->
  mem_run decompress c false mem calls =
  (expected_events decompress c (concat (handed mem calls)) ENil, handed mem calls, mem_after mem calls).
Proof. exact copying_spec_proof. Qed.
Print Assumptions copying_is_value_semantics.

(* Headers and trailers.  http.Header is a map, i.e. a reference: C14_Http keeps the maps in a heap and
   requests / responses hold addresses, so that "the tracer stored its synthesised Content-Length in the
   very map the application is handed" is expressible (seeded change C14-16 does exactly that).

   Server side (TracingHandler): for EVERY heap, EVERY request (method, ContentLength incl. -1 and 0,
   any headers) and EVERY body script, the wrapped handler is given a request with the same method,
   the same ContentLength and a header map with the same CONTENTS as the one that came in; reading its
   body returns the inner bytes / counts / errors; no map that existed before the call is written to
   (the caller's request is untouched); the trace reports the headers with the synthesised
   Content-Length in a map of its own - distinct from the handler's and from every earlier one, so
   nothing the handler later does to its headers shows in the trace and vice versa. *)
Theorem handler_sees_same_request : forall decompress c s body_ops hp q,
  (q_hdr q < length hp)%nat ->
  let '(hp', q', th) := tracing_handler_entry true hp q in
  req_view hp' q' = req_view hp q /\
  snd (reader_run decompress c s body_ops) = map rres_of body_ops /\
  (forall a, (a < length hp)%nat -> h_at hp' a = h_at hp a) /\
  h_at hp' th = trace_headers (h_at hp (q_hdr q)) (q_clen q) /\
  q_hdr q' <> th /\ (length hp <= th)%nat /\ (length hp <= q_hdr q')%nat.
Proof. exact handler_sees_same_request_proof. Qed.
Print Assumptions handler_sees_same_request.

(* Client side (TracingRoundTripper), for EVERY inner transport that answers by what it is asked (method,
   length, header contents - not by where the caller keeps its maps) and writes only to the headers of
   the request it is given and to maps it allocates: the application gets the status, ContentLength,
   header CONTENTS and trailer contents it would have got from the transport directly; the transport
   is asked the same request; the response handed back is the transport's own record (same Header and
   Trailer maps: trailers the transport stores there when the body reaches EOF are seen as without
   tracing; the body itself is reader_transparent); the caller's request headers are untouched even
   when the transport adds to the ones it was given. *)
Theorem client_sees_same_response : forall transport,
  (forall hp1 q1 hp2 q2, req_view hp1 q1 = req_view hp2 q2 ->
     resp_view (fst (transport hp1 q1)) (snd (transport hp1 q1)) =
     resp_view (fst (transport hp2 q2)) (snd (transport hp2 q2))) ->
  (forall hp q a, (a < length hp)%nat -> a <> q_hdr q -> h_at (fst (transport hp q)) a = h_at hp a) ->
  forall hp q, (q_hdr q < length hp)%nat ->
  let '(hpT, qT, pT) := tracing_round_trip transport hp q in
  let hp1 := hp ++ [h_at hp (q_hdr q)] in
  resp_view hpT pT = resp_view (fst (transport hp q)) (snd (transport hp q)) /\
  req_view hp1 qT = req_view hp q /\
  transport hp1 qT = (hpT, pT) /\
  h_at hpT (q_hdr q) = h_at hp (q_hdr q).
Proof. exact client_sees_same_response_proof. Qed.
Print Assumptions client_sees_same_response.

(* The end-of-stream content is EXACT for every length: whatever the payload's length (up to what the
   uint32 prefix can declare) and however the bytes arrive, the content event carries the whole
   payload - or the whole output of the decompressor run on the whole payload when the compressed bit
   is set and an encoding was negotiated - never a part of it.  (Seeded change C13-17 keeps only the
   first 64 KiB of the capture.) *)
Theorem end_stream_content_exact : forall decompress c, c_stream c = true -> forall msgs fl p chunks,
  c_req c = false -> Forall fits msgs -> fits (fl, p) -> p <> [] -> is_end_stream fl = true ->
  concat chunks = encode_all msgs ++ encode fl p ->
  raw_events decompress c chunks =
  number false 0 (flat_map (msg_events decompress c) msgs) ++
  EvData false (N.of_nat (length msgs)) (Some (mk_env fl (blen p))) (blen p) ::
  match (if is_compressed fl && c_dec c then decompress p else Some p) with
  | Some (x :: r) => [EvEos (x :: r)]
  | _ => []
  end ++ [EvEnd false ENil].
Proof. exact end_stream_content_exact_proof. Qed.
Print Assumptions end_stream_content_exact.

(* The reference server's handler chain (C14_Server: createServer's layers, outermost first; rawResponder
   REPLACES the response of the handler inside it by the raw response a test case asks for).  With the
   order createServer installs - tracing outside rawResponder - what the tracing layer records is what
   leaves the server, for EVERY response: raw or ordinary, reference mode or not, HTTP/1.1 or h2c, whatever
   the handler inside produced.  (Seeded change C14-20 puts the tracing layer inside rawResponder.) *)
Theorem trace_sees_wire_bytes : forall reference h2c raw inner,
  snd (wire_and_seen raw (create_server_chain reference true h2c) inner) =
  Some (fst (wire_and_seen raw (create_server_chain reference true h2c) inner)).
Proof. exact trace_sees_wire_bytes_proof. Qed.
Print Assumptions trace_sees_wire_bytes.

(* ... and for every chain in which, going inward from the wire, a tracing layer comes before any rawResponder *)
Theorem tracing_outside_sees_wire : forall chain raw inner,
  traced_outside_raw chain = true ->
  snd (wire_and_seen raw chain inner) = Some (fst (wire_and_seen raw chain inner)).
Proof. exact tracing_outside_sees_wire_proof. Qed.
Print Assumptions tracing_outside_sees_wire.

(* the raw response a test case asks for is the response on the wire, whatever the handler inside wrote *)
Theorem raw_response_reaches_wire : forall traced h2c r inner,
  fst (wire_and_seen (Some r) (create_server_chain true traced h2c) inner) = r.
Proof. exact raw_response_reaches_wire_proof. Qed.
Print Assumptions raw_response_reaches_wire.

(* hence: the response events of the server's trace are the declarative parse of the body ON THE WIRE,
   however the layers inside the tracing layer cut it into Write calls *)
Theorem server_trace_is_parse_of_wire : forall decompress c reference h2c raw inner seen l,
  snd (wire_and_seen raw (create_server_chain reference true h2c) inner) = Some seen ->
  concat (accepted l) = snd seen ->
  writer_events decompress c (writes l) =
  expected_events decompress c (snd (fst (wire_and_seen raw (create_server_chain reference true h2c) inner))) ENil.
Proof. exact server_trace_is_parse_of_wire_proof. Qed.
Print Assumptions server_trace_is_parse_of_wire.

(* A body WITHOUT bytes (http.NoBody, Content-Length: 0, 204, 304, the answer to HEAD): the application's
   first Read reports (0, EOF); then, and after any Close calls, the trace holds exactly the one body-end
   event, and on the response side the trace is finished (handed to the collector: b_live = false).
   (Seeded change C16-12 does not wrap http.NoBody, so neither happens.) *)
Theorem empty_body_single_body_end : forall decompress c fl,
  let s := fst (reader_run decompress c ws_init (RRead [] IoEOF :: closes fl)) in
  b_events (w_b s) = [EvEnd (c_req c) ENil] /\ b_live (w_b s) = c_req c.
Proof. exact empty_body_proof. Qed.
Print Assumptions empty_body_single_body_end.

(* ---- non-vacuity: the hypotheses are inhabited, both sides of the flag rule occur ---- *)
Definition toy_dec (b : bytes) : option bytes := match b with 90 :: r => Some r | _ => None end.
Definition resp : cfg := mk_cfg false true true.
Definition reqc : cfg := mk_cfg true true true.

(* byte by byte, with empty chunks in between: two messages, the second an uncompressed end-stream *)
Example ex_bytewise :
  raw_events toy_dec resp (flat_map (fun b => [[]; [b]]) (encode 0 [7; 8] ++ encode 2 [123; 125])) =
  [EvData false 0 (Some (mk_env 0 2)) 2; EvData false 1 (Some (mk_env 2 2)) 2; EvEos [123; 125]; EvEnd false ENil].
Proof. vm_compute. reflexivity. Qed.
Example ex_one_chunk_same :
  raw_events toy_dec resp [encode 0 [7; 8] ++ encode 2 [123; 125]] =
  raw_events toy_dec resp (flat_map (fun b => [[]; [b]]) (encode 0 [7; 8] ++ encode 2 [123; 125])).
Proof. vm_compute. reflexivity. Qed.
(* compressed flag set: decompressed; same bytes with the flag clear: as they are; refused: nothing *)
Example ex_flag_set :
  raw_events toy_dec resp [encode 3 [90; 123; 125]] =
  [EvData false 0 (Some (mk_env 3 3)) 3; EvEos [123; 125]; EvEnd false ENil].
Proof. vm_compute. reflexivity. Qed.
Example ex_flag_clear :
  raw_events toy_dec resp [encode 2 [90; 123; 125]] =
  [EvData false 0 (Some (mk_env 2 3)) 3; EvEos [90; 123; 125]; EvEnd false ENil].
Proof. vm_compute. reflexivity. Qed.
Example ex_refused :
  raw_events toy_dec resp [encode 129 [1; 2]] = [EvData false 0 (Some (mk_env 129 2)) 2; EvEnd false ENil].
Proof. vm_compute. reflexivity. Qed.
(* requests never carry end-stream content *)
Example ex_request_side :
  raw_events toy_dec reqc [encode 2 [123; 125]] = [EvData true 0 (Some (mk_env 2 2)) 2; EvEnd true ENil].
Proof. vm_compute. reflexivity. Qed.
(* cuts: inside a prefix, exactly after it (pinned: no partial event), inside the payload *)
Example ex_cut_prefix :
  raw_events toy_dec resp [[0; 0]; [0]] = [EvData false 0 None 3; EvEnd false ENil].
Proof. vm_compute. reflexivity. Qed.
Example ex_cut_after_prefix :
  raw_events toy_dec resp [[0; 0; 0]; [0; 9]] = [EvEnd false ENil].
Proof. vm_compute. reflexivity. Qed.
Example ex_cut_payload :
  raw_events toy_dec resp [[0; 0; 0]; [0; 9; 1]; [2]] = [EvData false 0 (Some (mk_env 0 9)) 2; EvEnd false ENil].
Proof. vm_compute. reflexivity. Qed.
(* zero-length messages each get their event *)
Example ex_zero_length :
  raw_events toy_dec reqc [encode 0 [] ++ encode 1 [] ++ [0]] =
  [EvData true 0 (Some (mk_env 0 0)) 0; EvData true 1 (Some (mk_env 1 0)) 0; EvData true 2 None 1; EvEnd true ENil].
Proof. vm_compute. reflexivity. Qed.
(* the reader: data together with EOF, then Close twice - one body-end; a request body whose inner
   reader keeps returning data after EOF still has ONE body-end (later data events follow it) *)
Example ex_reader :
  reader_events toy_dec resp [RRead [0; 0; 0] IoNone; RRead [0; 1; 5] IoEOF; RClose false; RClose true] =
  [EvData false 0 (Some (mk_env 0 1)) 1; EvEnd false ENil].
Proof. vm_compute. reflexivity. Qed.
Example ex_reader_after_end :
  reader_events toy_dec reqc [RRead [] IoEOF; RRead (encode 0 [1]) IoFail] =
  [EvEnd true ENil; EvData true 0 (Some (mk_env 0 1)) 1].
Proof. vm_compute. reflexivity. Qed.
(* the writer traces only what was accepted *)
Example ex_short_write :
  writer_events toy_dec resp [WWrite (encode 0 [1; 2; 3]) 7 true; WWrite [9] 1 false] =
  [EvData false 0 (Some (mk_env 0 3)) 2; EvEnd false EScripted].
Proof. vm_compute. reflexivity. Qed.
Example ex_fits : Forall fits [(0, [1; 2]); (2, [])].
Proof. repeat constructor; unfold fits; cbn; lia. Qed.
(* header detection *)
Example ex_headers :
  props_of_headers (bs "application/connect+json") [] (bs "GZIP") [] = (true, DNamed) /\
  props_of_headers (bs "application/grpc-web+proto") [] [] [] = (true, DIdentity) /\
  props_of_headers (bs "application/grpc") [] [] (bs "lz4") = (true, DBroken) /\
  props_of_headers (bs "application/connect+json") (bs "gzip") [] [] = (false, DBroken) /\
  props_of_headers (bs "application/json") [] [] [] = (false, DBroken).
Proof. vm_compute. repeat split; reflexivity. Qed.

(* ---- the aliasing assumption: the variant that RETAINS the caller's slice for the first
   fragment of a split prefix (`d.prefix = data`, seeded change C14-11) is refuted ---- *)
Definition demo_body : bytes := encode 1 (bs "hello world") ++ encode 0 (bs "xyz").
Definition demo_chunks : list bytes := [firstn 2 demo_body; skipn 2 demo_body].
(* a caller re-using one buffer (at offset 3 of a 40-byte array, scribbled with 0xA5 between calls) *)
Definition demo_reuse : list call := reuse_calls 40 3 165 demo_chunks.
Example ex_windows_inside : windows_inside (repeat 0 40) demo_reuse.
Proof. vm_compute. repeat split; lia. Qed.
(* the copying tracer: events of the whole body, the application sees what was read *)
Example ex_copying_reuse :
  mem_run Some reqc false (repeat 0 40) demo_reuse =
  (expected_events Some reqc demo_body ENil, demo_chunks, mem_after (repeat 0 40) demo_reuse).
Proof. vm_compute. reflexivity. Qed.
(* the retaining variant: the events are not those of the body AND the application's bytes are altered *)
Example alias_variant_refuted :
  fst (fst (mem_run Some reqc true (repeat 0 40) demo_reuse)) <> expected_events Some reqc demo_body ENil /\
  snd (fst (mem_run Some reqc true (repeat 0 40) demo_reuse)) <> demo_chunks.
Proof. split; vm_compute; intro H; discriminate H. Qed.
(* exactly what the Go code with that change does in seeded/C14-11/demo_test.go (io.Copy-like caller,
   no scribbling): first event flags 0 instead of 1, the application receives
   01 00 | 00 00 00 00 03 "llo world" 00 00 00 00 03 "xyz" *)
Example alias_variant_demo :
  fst (mem_run Some reqc true (repeat 0 40) (plain_reuse_calls demo_chunks)) =
  ([EvData true 0 (Some (mk_env 0 11)) 11; EvData true 1 (Some (mk_env 0 3)) 3; EvEnd true ENil],
   [[1; 0]; [0; 0; 0; 0; 3] ++ bs "llo world" ++ [0; 0; 0; 0; 3] ++ bs "xyz"]).
Proof. vm_compute. reflexivity. Qed.
(* why a driver that gives every call a fresh buffer and looks at the bytes only when the call
   returns cannot see it: events and bytes-at-return are right, the damage (a LATE overwrite of
   the first window, and writes into the gap behind it) is only in the memory afterwards *)
Example alias_variant_unnoticed_with_fresh_buffers :
  let r := mem_run Some reqc true (repeat 238 48) (spread_calls 8 3 demo_chunks) in
  fst r = (expected_events Some reqc demo_body ENil, demo_chunks) /\
  snd r <> mem_after (repeat 238 48) (spread_calls 8 3 demo_chunks).
Proof. split; vm_compute; [reflexivity|intro H; discriminate H]. Qed.

(* ---- headers: a Connect GET (no body: ContentLength 0, no Content-Length header) ---- *)
Definition get_hdrs : hmap := [(bs "Accept-Encoding", [bs "gzip"]); (bs "X-Test-Case-Name", [bs "t"])].
Definition get_req : hreq := mk_hreq (bs "GET") 0 0.
Example ex_handler_get :
  let '(hp', q', th) := tracing_handler_entry true [get_hdrs] get_req in
  req_view hp' q' = (bs "GET", 0%Z, get_hdrs) /\ h_at hp' 0 = get_hdrs /\
  h_at hp' th = [(bs "Accept-Encoding", [bs "gzip"]); (CL, [bs "0"]); (bs "X-Test-Case-Name", [bs "t"])].
Proof. vm_compute. repeat split. Qed.
(* the variant that does not clone before synthesising (seeded C14-16): the handler IS given a
   Content-Length header that was never on the wire, and the caller's map is altered too *)
Example handler_variant_refuted :
  let '(hp', q', th) := tracing_handler_entry false [get_hdrs] get_req in
  req_view hp' q' <> req_view [get_hdrs] get_req /\ h_get1 CL (h_at hp' (q_hdr q')) = bs "0" /\ h_at hp' 0 <> get_hdrs.
Proof. vm_compute. repeat split; intro H; discriminate H. Qed.
(* unknown length (chunked) and a declared length: nothing is synthesised *)
Example ex_trace_headers :
  trace_headers get_hdrs (-1) = get_hdrs /\
  trace_headers [(CL, [bs "12"])] 12 = [(CL, [bs "12"])] /\
  trace_headers [] 1205 = [(CL, [bs "1205"])].
Proof. vm_compute. repeat split. Qed.
(* the scripted transport of the differential run satisfies both hypotheses of client_sees_same_response *)
Example ex_transport_hypotheses : forall st clen h t,
  (forall hp1 q1 hp2 q2, req_view hp1 q1 = req_view hp2 q2 ->
     resp_view (fst (scripted_transport st clen h t hp1 q1)) (snd (scripted_transport st clen h t hp1 q1)) =
     resp_view (fst (scripted_transport st clen h t hp2 q2)) (snd (scripted_transport st clen h t hp2 q2))) /\
  (forall hp q a, (a < length hp)%nat -> a <> q_hdr q -> h_at (fst (scripted_transport st clen h t hp q)) a = h_at hp a).
Proof.
  intros. split; intros.
  - apply scripted_by_content.
  - apply scripted_frame. assumption.
Qed.

(* ---- end-stream content beyond 64 KiB: 65537 bytes arriving in three reads, uncompressed and through a
   decompressor (toy_dec strips a leading 90): the content event carries all of them ---- *)
(* the recurrence pat_bytes is built by yields the closed form pat_byte at every index (sampled across two wraps) *)
Example ex_pat_bytes : pat_bytes 700 201 = map (pat_byte 201) (map N.of_nat (seq 0 700)).
Proof. vm_compute. reflexivity. Qed.
Definition long_payload : bytes := pat_bytes 65537 7.
Lemma long_payload_len : blen long_payload = 65537.
Proof. vm_compute. reflexivity. Qed.
Lemma long_es_any : forall p decompress i j, blen p = 65537 ->
  (let body := encode 2 p in
   raw_events decompress resp [firstn i body; firstn j (skipn i body); skipn j (skipn i body)]) =
  [EvData false 0 (Some (mk_env 2 65537)) 65537; EvEos p; EvEnd false ENil].
Proof.
  intros p decompress i j L. cbv zeta.
  assert (NE : p <> []) by (intro H; subst p; discriminate L).
  rewrite (end_stream_content_exact decompress resp eq_refl [] 2 p); try reflexivity; try exact NE.
  - cbn [flat_map number app length N.of_nat]. rewrite L.
    destruct p; [congruence|reflexivity].
  - constructor.
  - unfold fits. cbn [snd]. rewrite L. reflexivity.
  - cbn [concat encode_all map app]. rewrite app_nil_r, firstn_skipn, firstn_skipn. reflexivity.
Qed.
Example ex_long_end_stream : forall decompress i j,
  (let body := encode 2 long_payload in
   raw_events decompress resp [firstn i body; firstn j (skipn i body); skipn j (skipn i body)]) =
  [EvData false 0 (Some (mk_env 2 65537)) 65537; EvEos long_payload; EvEnd false ENil].
Proof. intros. apply long_es_any. exact long_payload_len. Qed.
(* flagged compressed, through a decompressor (toy_dec strips a leading 90) *)
Lemma long_es_compressed_any : forall p chunks, blen p = 65537 ->
  concat chunks = encode 3 (90 :: p) ->
  raw_events toy_dec resp chunks =
  [EvData false 0 (Some (mk_env 3 65538)) 65538; EvEos p; EvEnd false ENil].
Proof.
  intros p chunks L E.
  assert (L1 : blen (90 :: p) = 65538).
  { change (blen (90 :: p)) with (N.of_nat (S (length p))). rewrite Nat2N.inj_succ. fold (blen p). rewrite L. reflexivity. }
  rewrite (end_stream_content_exact toy_dec resp eq_refl [] 3 (90 :: p)); try reflexivity.
  - cbn [flat_map number app length N.of_nat]. rewrite L1.
    cbn [is_compressed N.testbit c_dec resp andb toy_dec].
    destruct p; [discriminate L|reflexivity].
  - constructor.
  - unfold fits. cbn [snd]. rewrite L1. reflexivity.
  - discriminate.
  - rewrite E. reflexivity.
Qed.
Example ex_long_end_stream_compressed : forall chunks,
  concat chunks = encode 3 (90 :: long_payload) ->
  raw_events toy_dec resp chunks =
  [EvData false 0 (Some (mk_env 3 65538)) 65538; EvEos long_payload; EvEnd false ENil].
Proof. intros. apply long_es_compressed_any; [exact long_payload_len|assumption]. Qed.

(* ---- the handler chain: createServer's order, and the order of seeded change C14-20 ---- *)
Example ex_chain :
  create_server_chain true true false = [LCors; LTracing; LRawResponder; LChecks; LBidiTrick; LMux] /\
  create_server_chain false true true = [LH2c; LCors; LTracing; LTeCheck; LBidiTrick; LMux].
Proof. split; reflexivity. Qed.
Definition seeded_chain : list layer := [LCors; LRawResponder; LChecks; LTracing; LBidiTrick; LMux].
(* a raw response of three messages against the swallowed "use raw response instead" error *)
Definition raw_demo : sresp := (200, encode 0 (bs "one") ++ encode 0 [] ++ encode 2 (bs "{}")).
Definition inner_demo : sresp := (200, encode 2 (bs "use raw response instead")).
Example tracing_inside_raw_refuted :
  fst (wire_and_seen (Some raw_demo) seeded_chain inner_demo) = raw_demo /\
  snd (wire_and_seen (Some raw_demo) seeded_chain inner_demo) = Some inner_demo /\
  inner_demo <> raw_demo /\ traced_outside_raw seeded_chain = false.
Proof. vm_compute. repeat split; try reflexivity. intro H; discriminate H. Qed.
(* with createServer's order the same call is traced as it went over the wire; an ordinary call in both orders *)
Example ex_tracing_outside :
  wire_and_seen (Some raw_demo) (create_server_chain true true false) inner_demo = (raw_demo, Some raw_demo) /\
  wire_and_seen None (create_server_chain true true false) inner_demo = (inner_demo, Some inner_demo) /\
  wire_and_seen None seeded_chain inner_demo = (inner_demo, Some inner_demo).
Proof. vm_compute. repeat split; reflexivity. Qed.
(* a response without a body: one body-end event, trace finished; the request side stays open for the response *)
Example ex_empty_body :
  reader_events toy_dec resp [RRead [] IoEOF; RClose false] = [EvEnd false ENil] /\
  reader_events toy_dec (mk_cfg false false false) [RRead [] IoEOF] = [EvEnd false ENil].
Proof. vm_compute. split; reflexivity. Qed.
