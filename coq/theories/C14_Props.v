From V Require Export C14_Model.
