(* C09_Spec.v — the declarative side: what a reader of a length-prefixed stream must
   report, as a function of the WHOLE byte string the peer produced and of what the
   peer did afterwards (closed the stream, failed, or stalled).  No read schedule
   appears here; the theorems say that the code's result equals this for every schedule. *)
From V Require Export C09_Model.
Open Scope N_scope.

(* the first `want` bytes of d, if d has that many *)
Inductive take_res := TkDone (got rest : bytes) | TkShort (n : nat).
Definition take (want : N) (d : bytes) : take_res :=
  if want <=? N.of_nat (length d)
  then TkDone (firstn (N.to_nat want) d) (skipn (N.to_nat want) d)
  else TkShort (length d).

(* the stream ended (or stalled) after n bytes of a unit of which `expecting` were due *)
Definition short_outcome (tl : tail_t) (in_body : bool) (n : nat) (expecting : N) : final :=
  match tl with
  | TEOF => FErr (if in_body || (0 <? n)%nat then MUnexpected else MEOF) 0
  | TFail => FErr MIO 0
  | TBlock => FTimeout in_body n expecting
  end.

Definition over (max : option N) (size : N) : bool :=
  match max with Some mx => mx <? size | None => false end.

(* greedy parse of the whole stream: messages, then how it ends *)
Fixpoint spec_read (fuel : nat) (max : option N) (tl : tail_t) (d : bytes) : list bytes * final :=
  match fuel with
  | O => ([], FFuel)
  | S f =>
    match take 4 d with
    | TkShort n => ([], short_outcome tl false n 4)
    | TkDone p r =>
      let size := be_decode p 0 in
      if over max size then ([], FErr MOversize (length r))
      else match take size r with
           | TkShort n => ([], short_outcome tl true n size)
           | TkDone m r' => let (ms, e) := spec_read f max tl r' in (m :: ms, e)
           end
    end
  end.

Definition expected (max : option N) (tl : tail_t) (d : bytes) : list bytes * final :=
  spec_read (S (length d)) max tl d.

(* JSON variant: what is asked of the scanner ORACLE (encoding/json) for a value v an
   encoder wrote: it is recognised as soon as its last byte is buffered, whatever
   follows, and no proper prefix of it is taken for a value; and the newline the
   encoder puts between values is skipped. *)
Definition scanner_ok (scan : bytes -> scan_res) (v : bytes) : Prop :=
  (forall rest, scan (v ++ rest) = SComplete v rest) /\
  (forall k, (k < length v)%nat -> scan (firstn k v) = SNeedMore).
Definition scanner_skips_newline (scan : bytes -> scan_res) : Prop :=
  scan [] = SNeedMore /\ forall rest, scan (10 :: rest) = scan rest.

(* ---------- writer side ----------
   What can be on the wire after a sender encoded the messages ms into a writer that
   accepted at most `room` bytes (None: all of them): a prefix of the proper stream. *)
Definition cut_to (room : option nat) (stream : bytes) : bytes :=
  match room with None => stream | Some r => firstn r stream end.
Definition wire_spec (ms : list bytes) (room : option nat) : bytes := cut_to room (write_all ms).
Definition json_wire_spec (vs : list bytes) (room : option nat) : bytes := cut_to room (json_write_all vs).

(* ---------- JSON: the schedule-free expected result for ANY byte string ----------
   What is asked of the scanner oracle here is only that its verdict on a buffer is not
   revised when more bytes arrive behind it. *)
Definition scanner_stable (scan : bytes -> scan_res) : Prop :=
  (forall b v rest x, scan b = SComplete v rest -> scan (b ++ x) = SComplete v (rest ++ x)) /\
  (forall b x, scan b = SInvalid -> scan (b ++ x) = SInvalid).

Definition json_ending (t : tail_t) (pending_non_space : bool) : jfinal :=
  match t with
  | TEOF => JFErr (if pending_non_space then MUnexpected else MEOF)
  | TFail => JFErr MIO
  | TBlock => JFBlock
  end.

Fixpoint json_spec (scan : bytes -> scan_res) (fuel : nat) (t : tail_t) (d : bytes) : list bytes * jfinal :=
  match fuel with
  | O => ([], JFFuel)
  | S f =>
    match scan d with
    | SComplete v rest => let (vs, e) := json_spec scan f t rest in (v :: vs, e)
    | SInvalid => ([], JFSyntax)
    | SNeedMore => ([], json_ending t (non_space d))
    end
  end.
Definition json_expected (scan : bytes -> scan_res) (t : tail_t) (d : bytes) : list bytes * jfinal :=
  json_spec scan (S (length d)) t d.

(* ---------- the two documented limits of the runner ----------
   client_runner.go: "maxClientResponseSize = 16 * 1024 * 1024 // 16 MB" for what a client under test
   writes; server_runner.go: "maxServerResponseSize = 1024 * 1024 // 1 MB" for the one response of a
   server under test.  Written here from the documentation, independent of the regenerated constants. *)
Definition documented_limit (r : reader) : N :=
  match r with
  | ReadsClientOutput => 16 * 1024 * 1024
  | ReadsServerResponse => 1024 * 1024
  end.
