(* C09_Spec.v — placeholder, filled in below *)
From V Require Export C09_Model.
