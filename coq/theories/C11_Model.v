(* C11_Model.v — executable model of
     internal/app/connectconformance/server_runner.go  (runTestCasesForServer and its
     stderr side-band goroutine)
   as a function of a FAULT SCRIPT: what the server process does (start error, stdin
   write/close error, good/bad response, certificate or not, exit after k sends, stderr
   stream) and what the client runner does for each case (sendRequest error, the answer
   handed to the callback, WHEN the callback fires, the name it reports, feedback).
   results.go is modelled only as far as server_runner.go uses it: the LOG of
   setOutcome calls (failedToStart / setOutcome / failed / assert / failRemaining) and of
   recordSideband calls.  client_runner.go is the scripted interface, not modelled.
   The loop is structural recursion over the batch: no fuel.  No proofs here. *)
From V Require Export Base C11_Consts C11_Proc C11_Start C11_Printer C11_InProc.
Open Scope N_scope.

(* ---------- outcomes ---------- *)
(* what setOutcome stored: (setupError, actualFailure) projected to
   KPass        actualFailure == nil
   KFail        setupError = false, failure non-nil (client error / assert mismatch / "neither")
   KSetup       setupError = true  (failedToStart, "server process terminated unexpectedly")
   KCouldNotRun setupError = true, failure is a couldNotRunError (sendRequest failed)
   KNoResult    setupError = true, failure is a failedToGetResultError (failRemaining, or the
                client runner's own drain)
   KCbErr       setupError = true, failure is the error the client runner gave the callback *)
Inductive okind := KPass | KFail | KSetup | KCouldNotRun | KNoResult | KCbErr.
Definition is_setup (k : okind) : bool :=
  match k with KPass | KFail => false | _ => true end.

(* what the client runner hands to the callback *)
Inductive ans := APass | AFail | AClientErr | ANeither | ACbErr | ANoResult.

(* the switch in the callback *)
Definition verdict (a : ans) : okind :=
  match a with
  | ACbErr => KCbErr                       (* err != nil: setOutcome(name, true, err) *)
  | ANoResult => KNoResult                 (* err is a failedToGetResultError *)
  | AClientErr => KFail                    (* results.failed *)
  | APass => KPass | AFail => KFail        (* results.assert *)
  | ANeither => KFail                      (* "neither an error nor result" *)
  end.
Definition has_response (a : ans) : bool :=
  match a with APass | AFail => true | _ => false end.

(* one case of the batch with the client runner's script for it *)
Record case := mkCase {
  c_name : bytes;            (* testCase.Request.TestName *)
  c_send : bool;             (* sendRequest returns nil (true) or an error (false) *)
  c_ans : ans;               (* what the callback receives *)
  c_delay : nat;             (* the callback fires inside the c_delay-th LATER sendRequest
                                (0 = inside its own); beyond the last send = while the
                                function sits in wg.Wait *)
  c_report : bytes;          (* the name the client runner reports (its own, if well-behaved) *)
  c_feedback : list bytes }. (* ClientResponseResult.Feedback *)

(* ---------- server script ---------- *)
Inductive wfault := WOk | WWriteErr | WCloseErr.
(* ReadDelimitedMessage + the certificate check: every failure of the read (EOF, short
   prefix, short body, oversize, unmarshal error, time-out) is RBad *)
Inductive resp := RValid (cert : bool) | RBad.

Record server := mkServer {
  s_start : bool;            (* startServer succeeded *)
  s_write : wfault;
  s_resp : resp;
  s_tls : bool;              (* meta.useTLS *)
  s_dead : option nat;       (* the process exits when this many sendRequest calls have
                                returned (Some 0: while the response is being read) *)
  s_refsrv : bool;           (* isReferenceServer: stderr is piped and parsed *)
  s_refcli : bool;           (* isReferenceClient: response feedback is recorded *)
  s_stderr : bytes;
  s_clean : bool }.          (* how it exits at s_dead: true = exit status 0 (result() is nil),
                                false = with an error.  whenDone's action ignores the result:
                                the model does too — both flavours are a dead server *)

(* ---------- the stderr side-band goroutine ---------- *)
(* bufio.Reader.ReadString('\n') until error: complete lines WITH their newline, then the
   final fragment (possibly empty) *)
Fixpoint lines_keep (s : bytes) : list bytes :=
  match s with
  | [] => [[]]
  | c :: r =>
    if c =? 10 then [c] :: lines_keep r
    else match lines_keep r with
         | [] => [[c]]
         | l :: ls => (c :: l) :: ls
         end
  end.

(* strings.SplitN(str, ": ", 2): split at the FIRST ": " *)
Fixpoint split_cs (s : bytes) : option (bytes * bytes) :=
  match s with
  | [] => None
  | c :: r =>
    match r with
    | d :: r' =>
      if (c =? 58) && (d =? 32) then Some ([], r')
      else match split_cs r with
           | Some (a, b) => Some (c :: a, b)
           | None => None
           end
    | [] => None
    end
  end.

Inductive lclass := LBlank | LSide (n m : bytes) | LPass.
Definition classify (names : list bytes) (line : bytes) : lclass :=
  match trim_space line with
  | [] => LBlank
  | str =>
    match split_cs str with
    | Some (n, m) => if mem_bytes n names then LSide n m else LPass
    | None => LPass
    end
  end.

(* (recordSideband calls, lines handed to errPrinter) in stream order *)
Fixpoint parse_lines (names : list bytes) (ls : list bytes)
  : list (bytes * bytes) * list bytes :=
  match ls with
  | [] => ([], [])
  | l :: r =>
    let '(sb, fw) := parse_lines names r in
    match classify names l with
    | LBlank => (sb, fw)
    | LSide n m => ((n, m) :: sb, fw)
    | LPass => (sb, l :: fw)
    end
  end.
Definition parse_stderr (names : list bytes) (s : bytes) := parse_lines names (lines_keep s).

(* ---------- the send loop ---------- *)
Record lstate := mkL {
  l_log : list (bytes * okind);   (* setOutcome calls, oldest first *)
  l_pend : list (nat * case);     (* callbacks registered with the client runner, not fired yet *)
  l_sent : list bytes;            (* names for which sendRequest was called *)
  l_sbc : list (bytes * bytes);   (* recordSideband calls from response feedback *)
  l_alive : bool;                 (* procCtx.Err() == nil *)
  l_ends : nat }.                 (* transitions of the process to "done" *)

Definition entry (c : case) : bytes * okind := (c.(c_report), verdict c.(c_ans)).
Definition mark (k : okind) (c : case) : bytes * okind := (c.(c_name), k).

(* the callback body *)
Definition fire (refcli : bool) (c : case) (l : lstate) : lstate :=
  mkL (l.(l_log) ++ [entry c]) l.(l_pend) l.(l_sent)
      (if refcli && has_response c.(c_ans)
       then l.(l_sbc) ++ map (fun m => (c.(c_report), m)) c.(c_feedback) else l.(l_sbc))
      l.(l_alive) l.(l_ends).

(* one sendRequest has been accepted: callbacks whose count-down is 0 fire (in registration
   order), the others move one step closer *)
Fixpoint tick (refcli : bool) (p : list (nat * case)) (l : lstate) : list (nat * case) * lstate :=
  match p with
  | [] => ([], l)
  | (O, c) :: r => tick refcli r (fire refcli c l)
  | (S k, c) :: r => let '(r', l') := tick refcli r l in ((k, c) :: r', l')
  end.
Definition set_pend (l : lstate) (p : list (nat * case)) : lstate :=
  mkL l.(l_log) p l.(l_sent) l.(l_sbc) l.(l_alive) l.(l_ends).
Definition tick_all (refcli : bool) (l : lstate) : lstate :=
  let '(p', l') := tick refcli l.(l_pend) (set_pend l []) in set_pend l' p'.

(* wg.Wait(): every registered callback has fired when it returns *)
Fixpoint fire_all (refcli : bool) (p : list (nat * case)) (l : lstate) : lstate :=
  match p with
  | [] => l
  | (_, c) :: r => fire_all refcli r (fire refcli c l)
  end.
Definition wait_all (refcli : bool) (l : lstate) : lstate :=
  fire_all refcli l.(l_pend) (set_pend l []).

(* for j := i; j < len(testCases); j++ { results.setOutcome(name_j, true, err) } *)
Definition mark_all (k : okind) (cs : list case) (l : lstate) : lstate :=
  mkL (l.(l_log) ++ map (mark k) cs) l.(l_pend) l.(l_sent) l.(l_sbc) l.(l_alive) l.(l_ends).

Definition die (l : lstate) : lstate :=
  if l.(l_alive) then mkL l.(l_log) l.(l_pend) l.(l_sent) l.(l_sbc) false (S l.(l_ends)) else l.

Definition is_zero (d : option nat) : bool := match d with Some O => true | _ => false end.
Definition count_down (d : option nat) : option nat := option_map Nat.pred d.

Inductive exit := ExDone | ExDied | ExSendErr.

(* `dead` counts the sendRequest calls still to return before the process exits *)
Fixpoint send_loop (refcli : bool) (dead : option nat) (cs : list case) (l : lstate)
  : lstate * exit :=
  match cs with
  | [] => (l, ExDone)
  | c :: rest =>
    if negb l.(l_alive) then (mark_all KSetup (c :: rest) l, ExDied)     (* procCtx.Err() != nil *)
    else
      let l1 := mkL l.(l_log) l.(l_pend) (l.(l_sent) ++ [c.(c_name)]) l.(l_sbc) l.(l_alive) l.(l_ends) in
      if c.(c_send) then
        let l2 := tick_all refcli (set_pend l1 (l1.(l_pend) ++ [(c.(c_delay), c)])) in
        let dead' := count_down dead in
        let l3 := if is_zero dead' then die l2 else l2 in
        send_loop refcli dead' rest l3
      else (mark_all KCouldNotRun (c :: rest) l1, ExSendErr)             (* break *)
  end.

(* results.failRemaining *)
Definition has_outcome (n : bytes) (log : list (bytes * okind)) : bool :=
  existsb (fun e => bytes_eqb n (fst e)) log.
Fixpoint fail_remaining (cs : list case) (log : list (bytes * okind)) : list (bytes * okind) :=
  match cs with
  | [] => log
  | c :: r =>
    fail_remaining r (if has_outcome c.(c_name) log then log else log ++ [(c.(c_name), KNoResult)])
  end.

(* ---------- the whole function ---------- *)
Record result := mkRes {
  r_log : list (bytes * okind);       (* every setOutcome call made before the function returned *)
  r_pend : list (nat * case);         (* callbacks still outstanding when it returned *)
  r_sent : list bytes;
  r_sbc : list (bytes * bytes);       (* side-band from response feedback *)
  r_sbs : list (bytes * bytes);       (* side-band from the server's stderr *)
  r_fwd : list bytes;                 (* stderr lines passed through to errPrinter *)
  r_started : bool;
  r_alive : bool;                     (* process still running at return *)
  r_aborts : nat;                     (* calls of serverProcess.abort() *)
  r_ends : nat }.

(* serverProcess.abort() on the state of the process *)
Definition abort_proc (l : lstate) : lstate := die l.

(* an early `return` after the process exists: failedToStart for every case, then the
   deferred function (abort, then wait for the process to end: no step of its own in the
   model, an aborted process is done) *)
Definition early (cs : list case) (sbs : list (bytes * bytes)) (fwd : list bytes)
                 (alive : bool) : result :=
  let l := abort_proc (mkL (map (mark KSetup) cs) [] [] [] alive (if alive then 0 else 1)%nat) in
  mkRes l.(l_log) [] [] [] sbs fwd true l.(l_alive) 1 l.(l_ends).

(* `early_return` = true is the code as pinned (server_runner.go returned from inside the
   loop when the server had died); false is the repaired code (break). *)
Definition run_batch (early_return : bool) (sv : server) (cs : list case) : result :=
  let names := map c_name cs in
  if negb sv.(s_start) then
    mkRes (map (mark KSetup) cs) [] [] [] [] [] false false 0 0
  else
    let '(sbs, fwd) := if sv.(s_refsrv) then parse_stderr names sv.(s_stderr) else ([], []) in
    match sv.(s_write) with
    | WWriteErr | WCloseErr => early cs sbs fwd true
    | WOk =>
      let alive := negb (is_zero sv.(s_dead)) in
      match sv.(s_resp) with
      | RBad => early cs sbs fwd alive
      | RValid cert =>
        if sv.(s_tls) && negb cert then early cs sbs fwd alive
        else
          let l0 := mkL [] [] [] [] alive (if alive then 0 else 1)%nat in
          let '(l1, ex) := send_loop sv.(s_refcli) sv.(s_dead) cs l0 in
          match ex, early_return with
          | ExDied, true =>
            (* return: only the deferred abort runs *)
            let l2 := abort_proc l1 in
            mkRes l2.(l_log) l2.(l_pend) l2.(l_sent) l2.(l_sbc) sbs fwd true l2.(l_alive) 1 l2.(l_ends)
          | _, _ =>
            let l2 := wait_all sv.(s_refcli) l1 in          (* wg.Wait() *)
            let l3 := abort_proc l2 in                      (* serverProcess.abort(); result() *)
            (* <-refServerFinished *)
            let log := fail_remaining cs l3.(l_log) in      (* failRemaining *)
            let l4 := abort_proc l3 in                      (* deferred abort *)
            mkRes log l4.(l_pend) l4.(l_sent) l4.(l_sbc) sbs fwd true l4.(l_alive) 2 l4.(l_ends)
          end
      end
    end.

(* ---------- observations ---------- *)
(* outcomes is a map: the last setOutcome for a name wins *)
Fixpoint final (n : bytes) (log : list (bytes * okind)) : option okind :=
  match log with
  | [] => None
  | (m, k) :: r =>
    match final n r with
    | Some v => Some v
    | None => if bytes_eqb n m then Some k else None
    end
  end.
Definition count (n : bytes) (log : list (bytes * okind)) : nat :=
  length (filter (fun e => bytes_eqb n (fst e)) log).
Fixpoint final_sb (n : bytes) (sb : list (bytes * bytes)) : option bytes :=
  match sb with
  | [] => None
  | (m, v) :: r =>
    match final_sb n r with
    | Some x => Some x
    | None => if bytes_eqb n m then Some v else None
    end
  end.

Fixpoint dedup_first (l : list bytes) (seen : list bytes) : list bytes :=
  match l with
  | [] => []
  | x :: r => if mem_bytes x seen then dedup_first r seen else x :: dedup_first r (x :: seen)
  end.

(* ---------- case decoding / result encoding (extracted glue) ---------- *)
Definition un_ans (s : sx) : option ans :=
  match s with
  | I 0%Z => Some APass | I 1%Z => Some AFail | I 2%Z => Some AClientErr
  | I 3%Z => Some ANeither | I 4%Z => Some ACbErr | I 5%Z => Some ANoResult
  | _ => None
  end.

(* (name send_ok ans delay report (feedback...)) *)
Definition un_case (s : sx) : option case :=
  match s with
  | L [B n; snd; a; I d; B rp; fb] =>
    do snd <- un_bool snd; do a <- un_ans a; do fb <- un_listof un_B fb;
    ret (mkCase n snd a (Z.to_nat d) rp fb)
  | _ => None
  end.

Definition un_wfault (s : sx) : option wfault :=
  match s with
  | I 0%Z => Some WOk | I 1%Z => Some WWriteErr | I 2%Z => Some WWriteErr | I 3%Z => Some WCloseErr
  | _ => None
  end.

(* (code param): 0 valid+cert, 1 valid without cert, 2 valid zero-length message (no cert);
   10.. the bad ones (empty, cut at param, oversize, garbage, never answers) *)
Definition un_resp (s : sx) : option resp :=
  match s with
  | L [I 0%Z; I _] => Some (RValid true)
  | L [I 1%Z; I _] => Some (RValid false)
  | L [I 2%Z; I _] => Some (RValid false)
  | L [I 10%Z; I _] | L [I 11%Z; I _] | L [I 12%Z; I _] | L [I 13%Z; I _] | L [I 14%Z; I _] => Some RBad
  | _ => None
  end.

Definition un_dead (s : sx) : option (option nat) :=
  match s with I z => Some (if (z <? 0)%Z then None else Some (Z.to_nat z)) | _ => None end.

Definition sx_kind (o : option okind) : sx :=
  I (match o with
     | None => 0 | Some KPass => 1 | Some KFail => 2 | Some KSetup => 3
     | Some KCouldNotRun => 4 | Some KNoResult => 5 | Some KCbErr => 6
     end)%Z.

(* (refsrv refcli tls [clean]) start wfault (resp) dead stderr chunk wait (cases)
     -> ((per name: kind count sideband) returned started asked alive ends (sent) (forwarded))
   `chunk` (read sizes of the fake stderr) and `wait` (a marker line the harness waits for
   before it reads the side-band) only steer the Go side. *)
Definition run_c11_batch (args : list sx) : sx :=
  or_bad (match args with
  | [L (rs :: rc :: tls :: cl); st; wf; rp; dd; B se; I _; B _; cs] =>
    do rs <- un_bool rs; do rc <- un_bool rc; do tls <- un_bool tls; do st <- un_bool st;
    do cl <- (match cl with [] => Some false | [c] => un_bool c | _ => None end);
    do wf <- un_wfault wf; do rp <- un_resp rp; do dd <- un_dead dd; do cs <- un_listof un_case cs;
    let sv := mkServer st wf rp tls dd rs rc se cl in
    let r := run_batch false sv cs in
    let sb := r.(r_sbs) ++ r.(r_sbc) in
    let names := dedup_first (map c_name cs ++ map c_report cs) [] in
    ret (L [ L (map (fun n => L [sx_kind (final n r.(r_log)); sx_nat (count n r.(r_log));
                                  sx_opt B (final_sb n sb)]) names);
             sx_bool true; sx_bool r.(r_started); sx_bool (0 <? r.(r_aborts))%nat;
             sx_bool r.(r_alive); sx_nat r.(r_ends);
             L (map B r.(r_sent)); L (map B r.(r_fwd)) ])
  | _ => None end).

(* ---------- stopping the server process: process.go under runTestCasesForServer ---------- *)
(* every serverProcess.abort() of the function is followed by serverProcess.result() *)
Definition batch_stop_time (P : params) (pk : pkind) (r : result) : option N :=
  if r.(r_started) then stop_time P pk r.(r_aborts) else Some 0.

(* the durations the compiled code uses (C11_Consts.v) *)
Definition code_params (wd : N) : params := mkP c11_grace_ms c11_grace2_ms wd true.
(* the harness's patience: three times the longest wait of abort's goroutine *)
Definition patience : N := 3 * (c11_grace_ms + c11_grace2_ms).
Definition in_time (o : option N) : bool := match o with Some t => t <=? patience | None => false end.

Fixpoint plain_cases (n : nat) : list case :=
  match n with
  | O => []
  | S m => plain_cases m ++ [let nm := bs "P/" ++ [48 + N.of_nat m] in mkCase nm true APass 0 nm []]
  end.
Definition plain_server : server := mkServer true WOk (RValid false) false None false false [] false.

(* mode aborts (script) -> (in-time class child-gone forced-closes passes)
   mode 0: a real OS process through runCommand (WaitDelay: the code's)
        1: the methods of cmdProcess over a scripted operating system (WaitDelay: the script's)
        2: localProcess through runInProcess
        3, 4: runTestCasesForServer over 1 resp. 2 with a batch of n passing cases *)
(* mode 5: the real runTestCasesForServer over the REAL runCommand around a child that is scripted in
   what it does with its stdin (C11_Start): (in-time 0 child-gone 0 passes setups).  The child reacts to
   SIGTERM by exiting at once; the plumbing is the one bounded termination needs (repaired_plumbing: for
   children that let go of their stdin by exiting it is the code's, see start_write_code). *)
Definition okind_eqb (a b : okind) : bool :=
  match a, b with
  | KPass, KPass | KFail, KFail | KSetup, KSetup | KCouldNotRun, KCouldNotRun | KNoResult, KNoResult | KCbErr, KCbErr => true
  | _, _ => false
  end.
Definition sigterm_exits : child := mkChild None (TExit 0 0) None true false.
Definition one_count (k : okind) (cs : list case) (r : result) : nat :=
  length (filter (fun c => match final c.(c_name) r.(r_log) with
                           | Some k' => okind_eqb k k' && Nat.eqb (count c.(c_name) r.(r_log)) 1
                           | None => false end) cs).
Definition run_c11_start (sc : sx) : option sx :=
  do ss <- un_sscript sc;
  let P := code_params c11_wait_delay_ms in
  let ch := ss.(ss_child) in
  let cs := plain_cases ss.(ss_n) in
  let out (it dead : bool) (r : result) :=
    ret (L [sx_bool it; I 0%Z; sx_bool dead; I 0%Z; sx_nat (one_count KPass cs r); sx_nat (one_count KSetup cs r)]) in
  if start_succeeds ch then
    (* the ordinary full path: every case passes, then the child is told to stop *)
    let r := run_batch false (mkServer true WOk (RValid true) true None false false [] false) cs in
    let t := batch_stop_time P (PCmd sigterm_exits) r in
    out (in_time (option_map (N.add ss.(ss_sd)) t)) (cmd_stop P sigterm_exits).(pr_dead) r
  else
    let t := start_fault_return repaired_plumbing P ss.(ss_cap) ss.(ss_len) ss.(ss_sd) c11_response_timeout_ms ch sigterm_exits in
    let sv := match start_write repaired_plumbing ss.(ss_cap) ss.(ss_len) ss.(ss_sd) ch with
              | WFail _ => mkServer true WWriteErr RBad true None false false [] false
              | _ => mkServer true WOk RBad true None false false [] false
              end in
    let r := run_batch false sv cs in
    match t with
    | Some _ =>
      let at_ := match start_failed_at repaired_plumbing ss.(ss_cap) ss.(ss_len) ss.(ss_sd) c11_response_timeout_ms ch with
                 | Some x => x | None => 0 end in
      out (in_time t) (cmd_stop P (child_at ss.(ss_sd) at_ ch sigterm_exits)).(pr_dead) r
    | None => ret (L [sx_bool false; I 0%Z; sx_bool false; I 0%Z; I 0%Z; I 0%Z])
    end.

(* mode 6: the real runTestCasesForServer over a REAL server process that gives up by itself:
   (flavour when code k n own) -> (in-time passes setups (lines handed to the error printer))
   flavour 0 a real OS child of runCommand (cmdProcess), 1 a server function under runInProcess (isReferenceServer:
   its stderr is parsed; C11_InProc gives the stream) · when 0 it gives up at once (the request cannot be written),
   1 after it has read the request (no response), 2 after the handshake when k sendRequest calls have returned (k > n:
   never) · code 0 exit status 0 / nil, else an exit status / the scripted error · own lines it writes itself first *)
Definition run_c11_live (sc : sx) : option sx :=
  match sc with
  | L [I fl; I wh; I code; I k; I n; I own] =>
    if ((fl <? 0) || (1 <? fl) || (wh <? 0) || (2 <? wh) || (code <? 0) || (125 <? code) || (k <? 0) || (9 <? k)
        || (n <? 0) || (8 <? n) || (own <? 0) || (3 <? own)
        || ((fl =? 0) && (negb (wh =? 2) || negb (own =? 0)))
        || ((wh =? 2) && (k <? 1)) || (negb (wh =? 2) && negb (k =? 0)))%Z
    then None
    else
      let cs := plain_cases (Z.to_nat n) in
      let inproc := (fl =? 1)%Z in
      let clean := (code =? 0)%Z in
      let goes := (negb (wh =? 2) || (k <=? n))%Z in        (* it is gone before the runner asks it to stop *)
      let im := mkImpl (own_lines (Z.to_nat own)) (if clean then None else Some scripted_error) in
      let sv := mkServer true (if (wh =? 0)%Z then WWriteErr else WOk)
                         (if (wh =? 2)%Z then RValid false else RBad) false
                         (noticed_dead WdAlways clean (if ((wh =? 2) && (k <=? n))%Z then Some (Z.to_nat k) else None))
                         inproc false
                         (if inproc then inproc_stream im else []) clean in
      let r := run_batch false sv cs in
      let pk := if inproc then PLocal (mkLc goes (Some 0) (negb clean))
                else PCmd (mkChild (if goes then Some (Z.to_N code) else None) (TExit 0 0) None true false) in
      let t := batch_stop_time (code_params c11_wait_delay_ms) pk r in
      ret (L [sx_bool (in_time t); sx_nat (one_count KPass cs r); sx_nat (one_count KSetup cs r);
              L (map B r.(r_fwd))])
  | _ => None
  end.

Definition run_c11_proc (args : list sx) : sx :=
  or_bad (match args with
  | [I 5%Z; I 1%Z; sc] => run_c11_start sc
  | [I 6%Z; I 1%Z; sc] => run_c11_live sc
  | [I mode; I k; sc] =>
    do ps <- un_pscript sc;
    let ch := child_of ps in
    let lc := lchild_of ps in
    let out (it : bool) (c : option rclass) (dead : bool) (force : nat) (np : nat) :=
      ret (L [sx_bool it; match c with Some c => sx_class c | None => I 0%Z end; sx_bool dead; sx_nat force; sx_nat np]) in
    let batch (P : params) (pk : pkind) :=
      let cs := plain_cases ps.(ps_n) in
      let r := run_batch false plain_server cs in
      let t := batch_stop_time P pk r in
      let np := length (filter (fun c => match final c.(c_name) r.(r_log) with
                                          | Some KPass => Nat.eqb (count c.(c_name) r.(r_log)) 1 | _ => false end) cs) in
      let dead := match pk, t with
                  | PCmd _, _ => (stop P pk).(pr_dead)
                  | PLocal l, Some t => l.(lc_pre) || match l.(lc_cancel) with Some d => d <=? t | None => false end
                  | _, None => false
                  end in
      out (in_time t) None dead (stop P pk).(pr_force) np in
    if (k <? 1)%Z || (3 <? k)%Z then None
    else if (mode =? 0)%Z then
      if negb (ps.(ps_wd) =? 0) || negb (ps.(ps_cmode) =? 0) || negb ps.(ps_killable) || negb (Nat.eqb ps.(ps_n) 0)
         || (ps.(ps_pre) && ps.(ps_holds)) then None
      else let r := cmd_stop (code_params c11_wait_delay_ms) ch in
           out (in_time r.(pr_ret)) (Some r.(pr_class)) r.(pr_dead) 0%nat 0%nat
    else if (mode =? 1)%Z then
      if ps.(ps_holds) || negb (Nat.eqb ps.(ps_n) 0) then None
      else let r := cmd_stop (code_params ps.(ps_wd)) ch in
           out (in_time r.(pr_ret)) (Some r.(pr_class)) r.(pr_dead) r.(pr_force) 0%nat
    else if (mode =? 2)%Z || (mode =? 4)%Z then
      if negb (ps.(ps_wd) =? 0) || negb (ps.(ps_cmode) =? 0) || ps.(ps_killable) || ps.(ps_holds) || (ps.(ps_tmode) =? 1)
      then None
      else if (mode =? 2)%Z then
        if negb (Nat.eqb ps.(ps_n) 0) then None
        else let r := local_stop (code_params 0) lc in
             out (in_time r.(pr_ret)) (Some r.(pr_class)) r.(pr_dead) 0%nat 0%nat
      else if ps.(ps_pre) then None else batch (code_params 0) (PLocal lc)
    else if (mode =? 3)%Z then
      if ps.(ps_holds) || ps.(ps_pre) then None else batch (code_params ps.(ps_wd)) (PCmd ch)
    else None
  | _ => None end).

(* ---------- which reader gets which size limit (the constants handed across files) ---------- *)
(* client_runner.go declares maxClientResponseSize and reads the client's output with it;
   server_runner.go declares maxServerResponseSize and reads the server's one response with it.
   Both values are regenerated into C11_Consts.v from the compiled code. *)
Inductive reader := RdClientOutput | RdServerResponse.
Definition limit_of (r : reader) : N :=
  match r with
  | RdClientOutput => c11_max_client_response
  | RdServerResponse => c11_max_server_response
  end.
(* ReadDelimitedMessage: the body is asked for (and a buffer allocated) iff the announced size does
   not exceed the reader's limit; otherwise the read fails at the prefix *)
Definition asks_for_body (r : reader) (size : N) : bool := size <=? limit_of r.
(* the response of the start phase, read by runTestCasesForServer: a stream that announces `size`
   bytes and then delivers a valid message of that size (with certificate) or nothing at all *)
Definition server_resp (size : N) (body : bool) : resp :=
  if asks_for_body RdServerResponse size && body then RValid true else RBad.

Definition limit_server (size : N) (body tls : bool) : server :=
  mkServer true WOk (server_resp size body) tls None false false [] false.

(* size body n tls -> ((kind count) per case, returned, a read was made beyond the prefix) *)
Definition run_c11_limit (args : list sx) : sx :=
  or_bad (match args with
  | [I size; body; I n; tls] =>
    do body <- un_bool body; do tls <- un_bool tls;
    if (size <? 1)%Z || (n <? 0)%Z || (9 <? n)%Z then None else
    let size := Z.to_N size in
    let cs := plain_cases (Z.to_nat n) in
    let r := run_batch false (limit_server size body tls) cs in
    ret (L [ L (map (fun c => L [sx_kind (final c.(c_name) r.(r_log)); sx_nat (count c.(c_name) r.(r_log))]) cs);
             sx_bool true; sx_bool (asks_for_body RdServerResponse size) ])
  | _ => None end).

(* ---------- the printer in front of the stderr parser ---------- *)
Definition un_pcall (s : sx) : option pcall :=
  match s with L [B p; B m] => Some (mkCall p m) | _ => None end.

(* (batch names) ((goroutine: (prefix message)...)...) rounds mode
     -> per round: ((side-band record per name) (lines passed through, sorted))
   Goroutines call PrefixPrintf of the real printer concurrently; its stream is the stderr the
   real runTestCasesForServer parses.  Evaluated under the sequential schedule; by
   printer_feedback_attributed the records and the passed-through lines (as a multiset) are the
   same under every schedule as long as no two submitted lines are attributed to the same name
   (the generator's and the harness's precondition). `mode` only steers the Go side. *)
Definition run_c11_printer (args : list sx) : sx :=
  or_bad (match args with
  | [names; progs; I rounds; I _] =>
    do names <- un_listof un_B names;
    do progs <- un_listof (un_listof un_pcall) progs;
    if (rounds <? 1)%Z || (4 <? rounds)%Z then None else
    let s := prun false (seq_sched 0 progs) (pinit progs) in
    let '(sbs, fwd) := parse_stderr names s.(ps_out) in
    let one := L [ L (map (fun n => sx_opt B (final_sb n sbs)) names); L (map B (sort_bytes fwd)) ] in
    ret (L (repeat one (Z.to_nat rounds)))
  | _ => None end).

Definition c11_table : list (bytes * (list sx -> sx)) :=
  [ (bs "c11.batch", run_c11_batch); (bs "c11.proc", run_c11_proc);
    (bs "c11.limit", run_c11_limit); (bs "c11.printer", run_c11_printer) ].
