(* C18_Consts.v - REGENERATED on every run from the compiled Go code by TestVerifConsts
   (harness/C18); do not edit. *)
From Coq Require Import ZArith NArith List.
Import ListNotations.
Definition c18_codec_registrations : list (Z * Z * Z) := [(1, 1, 0); (2, 1, 1)]%Z.
