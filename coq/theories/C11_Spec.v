(* C11_Spec.v — what the property text promises about a server batch, written from the
   text: which cases a fault affects, what an affected case must be recorded as, what an
   unaffected one keeps, and what a stderr line must look like to be attributed.  No
   reference to the loop, the pending callbacks, the wait group or the log. *)
From V Require Export C11_Model.
Open Scope N_scope.

(* ---------- which cases does a fault affect? ---------- *)
(* the batch never gets as far as sending anything: the server could not be started, did
   not take its request, gave no usable answer (never answered, cut short, too large,
   garbage), or omitted the certificate although TLS is on *)
Definition prefault (sv : server) : bool :=
  negb sv.(s_start)
  || match sv.(s_write) with WOk => false | _ => true end
  || match sv.(s_resp) with RBad => true | RValid cert => sv.(s_tls) && negb cert end.

(* how many cases from the front the client runner accepts *)
Fixpoint sends_ok (cs : list case) : nat :=
  match cs with
  | c :: r => if c.(c_send) then S (sends_ok r) else 0%nat
  | [] => 0%nat
  end.

(* index of the first affected case: the server is gone after s_dead sends, or the client
   runner refuses a request — whichever comes first *)
Definition fault_point (sv : server) (cs : list case) : nat :=
  match sv.(s_dead) with
  | Some d => Nat.min d (sends_ok cs)
  | None => sends_ok cs
  end.

(* what the affected cases are recorded as.  A dead server is looked for before a case is
   sent, so on a tie it is the server's death that is recorded. *)
Definition fault_kind (sv : server) (cs : list case) : okind :=
  match sv.(s_dead) with
  | Some d => if (d <=? sends_ok cs)%nat then KSetup else KCouldNotRun
  | None => KCouldNotRun
  end.

(* the one outcome case number i must have when the batch has ended *)
Definition expected (sv : server) (cs : list case) (i : nat) (c : case) : okind :=
  if prefault sv then KSetup
  else if (i <? fault_point sv cs)%nat then verdict c.(c_ans)
  else fault_kind sv cs.

Definition names (cs : list case) : list bytes := map c_name cs.
Definition distinct (cs : list case) : Prop := NoDup (names cs).
(* the client runner reports results under the name it was given (C10's contract) *)
Definition well_named (cs : list case) : Prop := Forall (fun c => c.(c_report) = c.(c_name)) cs.

(* ---------- stderr side-band ---------- *)
Definition colon_space : bytes := [58; 32].
Definition infix (p s : bytes) : Prop := exists a b, s = a ++ p ++ b.

(* `line` reads "<n>: <m>" (surrounding white space aside) with n a case of the batch; n is
   what stands before the FIRST ": " *)
Definition side_of (batch : list bytes) (line n m : bytes) : Prop :=
  trim_space line = n ++ colon_space ++ m /\ ~ infix colon_space n /\ In n batch.
Definition blank (line : bytes) : Prop := trim_space line = [].
Definition attributed (batch : list bytes) (line : bytes) : Prop := exists n m, side_of batch line n m.

(* order-preserving selection *)
Inductive subseq {A} : list A -> list A -> Prop :=
| ss_nil : subseq [] []
| ss_take x l l' : subseq l l' -> subseq (x :: l) (x :: l')
| ss_skip x l l' : subseq l l' -> subseq l (x :: l').

(* how a byte stream falls into lines: every line but the last ends with its newline and
   has no other; the last has none; nothing is lost *)
Definition is_line (l : bytes) : Prop := exists body, l = body ++ [10] /\ ~ In 10 body.
Definition lines_of (s : bytes) (ls : list bytes) : Prop :=
  concat ls = s /\ exists init last, ls = init ++ [last] /\ Forall is_line init /\ ~ In 10 last.

(* ---------- stopping the server process ---------- *)
(* "ends in bounded time ... the server is asked to stop afterwards": whatever the child
   process does, the wait for it is over after the two periods abort's goroutine waits, and
   once WaitDelay has passed as well the child is gone or has been sent SIGKILL *)
Definition stop_deadline (P : params) : N := P.(p_grace) + P.(p_grace2) + P.(p_wd).
Definition returns_by (o : option N) (bound : N) : Prop := exists t, o = Some t /\ t <= bound.
