(* C11_Spec.v placeholder, replaced below *)
From V Require Export C11_Model.
