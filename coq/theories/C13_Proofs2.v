(* C13_Proofs2.v — the remaining malformation classes of the gRPC-Web trailer block parser
   (examineGRPCEndStream): missing final CRLF, blank lines, obs-fold / leading-whitespace
   lines, lines without a colon.  Each is "any block with that malformation yields feedback
   of that class", over all blocks. *)
From Coq Require Import Lia.
From V Require Import C13_Consts C13_Model C13_Spec C13_Proofs.
Open Scope N_scope.

(* ====================================================================== *)
(* one step of the loop: what it can and cannot change                     *)
(* ====================================================================== *)
Definition line_fb (f : fb) : Prop := f = EosNoColon \/ f = EosName \/ f = EosUpper \/ f = EosValue.

Ltac lfb := first [apply Forall_nil | apply Forall_cons; [unfold line_fb; auto | apply Forall_nil]].
Lemma field_fb_line key v line : Forall line_fb (fst (field_fb key v line)).
Proof.
  unfold field_fb. cbn [fst].
  apply Forall_app. split; [destruct (valid_field_name key); lfb|].
  apply Forall_app. split; [destruct (not_lower key); lfb|].
  destruct (valid_field_value (trim_ws v)); lfb.
Qed.

(* the part of an iteration after the line ending has been dealt with *)
Definition step_body (n i : nat) (line : bytes) (nocr : N) (s : est) : outcome est :=
  if is_nil line then
    Done (mk_est (e_tr s) nocr (S (e_blanks s)) (e_crlf s)
                 (if Nat.eqb (i + 2) n then true else e_blank_end s) (e_folds s) (e_prev s) (e_out s))
  else
    match split_n2 line with
    | [] => Crash
    | key :: rest =>
      if Nat.ltb (e_blanks s) i && starts_ws key then
        let vals := hget (e_tr s) (e_prev s) in
        let t := trim_ws line in
        let tr' := match vals with
                   | [] => hput (e_tr s) (canonical_key (e_prev s)) [t]
                   | _ => hput (e_tr s) (e_prev s) (removelast vals ++ [last vals [] ++ 32 :: t])
                   end in
        Done (mk_est tr' nocr (e_blanks s) (e_crlf s) (e_blank_end s) (e_folds s + 1) (e_prev s) (e_out s))
      else
        let ck := canonical_key key in
        match rest with
        | [v] =>
          let '(fbs, val) := field_fb key v line in
          Done (mk_est (happend (e_tr s) ck val) nocr (e_blanks s) (e_crlf s) (e_blank_end s) (e_folds s)
                       ck (e_out s ++ fbs))
        | _ =>
          Done (mk_est (happend (e_tr s) ck []) nocr (e_blanks s) (e_crlf s) (e_blank_end s) (e_folds s)
                       ck (e_out s ++ [EosNoColon]))
        end
    end.

Definition line_of (l : bytes) : bytes := if ends_cr l then strip_cr l else l.

Lemma step_nonlast n i l s : Nat.eqb (i + 1) n = false ->
  eos_step n i l s = step_body n i (line_of l) (if ends_cr l then e_nocr s else e_nocr s + 1) s.
Proof. intros H. unfold eos_step, step_body, line_of. rewrite H. cbn [andb]. destruct (ends_cr l); reflexivity. Qed.

Lemma step_last_form n i l s : Nat.eqb (i + 1) n = true ->
  eos_step n i l s =
  if is_nil l then Done (mk_est (e_tr s) (e_nocr s) (e_blanks s) true (e_blank_end s) (e_folds s) (e_prev s) (e_out s))
  else step_body n i l (e_nocr s) s.
Proof. intros H. unfold eos_step, step_body. rewrite H. cbn [andb]. destruct l; reflexivity. Qed.

Definition mono_facts (s s' : est) : Prop :=
  (e_blanks s <= e_blanks s' <= S (e_blanks s))%nat /\ e_folds s <= e_folds s' /\
  (e_blank_end s' = true -> e_blank_end s = true \/ (e_blanks s < e_blanks s')%nat) /\
  (Forall line_fb (e_out s) -> Forall line_fb (e_out s')).

Lemma step_body_mono n i line nocr s :
  exists s', step_body n i line nocr s = Done s' /\ mono_facts s s' /\ e_crlf s' = e_crlf s.
Proof.
  unfold step_body, mono_facts. destruct (is_nil line).
  { eexists. split; [reflexivity|]. cbn [e_blanks e_folds e_blank_end e_crlf e_out].
    split; [|reflexivity]. split; [lia|]. split; [lia|]. split; [right; lia|auto]. }
  destruct (split_n2_cons line) as (k & rest & E). rewrite E.
  destruct (Nat.ltb (e_blanks s) i && starts_ws k).
  { eexists. split; [reflexivity|]. cbn [e_blanks e_folds e_blank_end e_crlf e_out].
    split; [|reflexivity]. split; [lia|]. split; [lia|]. split; [left; assumption|auto]. }
  assert (NC : forall tr ck, exists s',
     Done (mk_est tr nocr (e_blanks s) (e_crlf s) (e_blank_end s) (e_folds s) ck (e_out s ++ [EosNoColon])) = Done s' /\
     ((e_blanks s <= e_blanks s' <= S (e_blanks s))%nat /\ e_folds s <= e_folds s' /\
      (e_blank_end s' = true -> e_blank_end s = true \/ (e_blanks s < e_blanks s')%nat) /\
      (Forall line_fb (e_out s) -> Forall line_fb (e_out s'))) /\ e_crlf s' = e_crlf s).
  { intros tr ck. eexists. split; [reflexivity|]. cbn [e_blanks e_folds e_blank_end e_crlf e_out].
    split; [|reflexivity]. split; [lia|]. split; [lia|]. split; [left; assumption|].
    intros H. apply Forall_app. split; [exact H|]. lfb. }
  destruct rest as [|v [|v' rest']]; [apply NC| |apply NC].
  pose proof (field_fb_line k v line) as F. destruct (field_fb k v line) as [fbs val]. cbn [fst] in F.
  eexists. split; [reflexivity|]. cbn [e_blanks e_folds e_blank_end e_crlf e_out].
  split; [|reflexivity]. split; [lia|]. split; [lia|]. split; [left; assumption|].
  intros H. apply Forall_app. split; assumption.
Qed.

Lemma eos_step_mono n i l s :
  exists s', eos_step n i l s = Done s' /\ mono_facts s s' /\
    (Nat.eqb (i + 1) n = false -> e_crlf s' = e_crlf s).
Proof.
  destruct (Nat.eqb (i + 1) n) eqn:EL.
  - rewrite step_last_form by exact EL. destruct (is_nil l).
    + eexists. split; [reflexivity|]. unfold mono_facts. cbn [e_blanks e_folds e_blank_end e_crlf e_out].
      split; [|discriminate]. split; [lia|]. split; [lia|]. split; [left; assumption|auto].
    + destruct (step_body_mono n i l (e_nocr s) s) as (s' & E & M & _). exists s'. split; [exact E|]. split; [exact M|discriminate].
  - rewrite step_nonlast by exact EL.
    destruct (step_body_mono n i (line_of l) (if ends_cr l then e_nocr s else e_nocr s + 1) s) as (s' & E & M & C).
    exists s'. split; [exact E|]. split; [exact M|]. intros _. exact C.
Qed.

Lemma eos_loop_mono n : forall lines i s,
  exists s', eos_loop n i lines s = Done s' /\
    (e_blanks s <= e_blanks s' <= e_blanks s + length lines)%nat /\ e_folds s <= e_folds s' /\
    (e_blank_end s' = true -> e_blank_end s = true \/ (e_blanks s < e_blanks s')%nat) /\
    ((i + length lines < n)%nat -> e_crlf s' = e_crlf s) /\
    (Forall line_fb (e_out s) -> Forall line_fb (e_out s')).
Proof.
  induction lines as [|l lines IH]; intros i s.
  - exists s. cbn. repeat split; auto; lia.
  - cbn [eos_loop]. destruct (eos_step_mono n i l s) as (s1 & E1 & (B1 & F1 & BE1 & O1) & C1). rewrite E1.
    destruct (IH (S i) s1) as (s2 & E2 & B2 & F2 & BE2 & C2 & O2). exists s2. split; [exact E2|].
    cbn [length]. repeat split; try lia; auto.
    + intros H. destruct (BE2 H) as [H1|H1]; [destruct (BE1 H1); [auto|right; lia]|right; lia].
    + intros H. rewrite C2 by lia. apply C1. apply Nat.eqb_neq. lia.
Qed.

(* ---------- specific steps ---------- *)
Lemma strip_cr_cons c r : ends_cr (c :: r) = true -> c <> 13 -> exists r', strip_cr (c :: r) = c :: r'.
Proof.
  rewrite ends_cr_eq, strip_cr_eq. cbn [rev]. destruct (rev r) as [|x t] eqn:R; cbn [app].
  - destruct (N.eqb_spec c 13); [congruence|].
    destruct c as [|p]; [discriminate|]. repeat (destruct p as [p|p|]; try discriminate); congruence.
  - destruct x as [|p]; [discriminate|]. intros H NE.
    repeat (destruct p as [p|p|]; try discriminate).
    exists (rev t). rewrite rev_app_distr. reflexivity.
Qed.

Lemma line_of_blank l : l = [] \/ l = [13] -> is_nil (line_of l) = true.
Proof. intros [->| ->]; reflexivity. Qed.

Lemma line_of_nonblank l : l <> [] -> l <> [13] -> is_nil (line_of l) = false.
Proof.
  intros N1 N2. unfold line_of. destruct (ends_cr l) eqn:EC; [|destruct l; [congruence|reflexivity]].
  rewrite ends_cr_eq in EC. rewrite strip_cr_eq. destruct (rev l) as [|x t] eqn:R; [discriminate|].
  destruct (N.eqb_spec x 13) as [->|NE].
  - destruct t as [|y t']; [|cbn; destruct (rev t'); reflexivity].
    exfalso. apply N2. rewrite <- (rev_involutive l), R. reflexivity.
  - destruct x as [|p]; [discriminate|]. repeat (destruct p as [p|p|]; try discriminate). congruence.
Qed.

Lemma step_blank n i l s : Nat.eqb (i + 1) n = false -> l = [] \/ l = [13] ->
  exists s', eos_step n i l s = Done s' /\ e_blanks s' = S (e_blanks s) /\
             e_blank_end s' = (if Nat.eqb (i + 2) n then true else e_blank_end s) /\
             e_out s' = e_out s.
Proof.
  intros H B. rewrite step_nonlast by exact H. unfold step_body. rewrite (line_of_blank l B).
  eexists. split; [reflexivity|]. cbn [e_blanks e_blank_end e_out]. auto.
Qed.

Lemma step_nonblank n i l s : Nat.eqb (i + 1) n = false -> l <> [] -> l <> [13] ->
  exists s', eos_step n i l s = Done s' /\ e_blanks s' = e_blanks s.
Proof.
  intros H N1 N2. rewrite step_nonlast by exact H. unfold step_body. rewrite (line_of_nonblank l N1 N2).
  destruct (split_n2_cons (line_of l)) as (k & rest & E). rewrite E.
  destruct (Nat.ltb (e_blanks s) i && starts_ws k); [eexists; split; reflexivity|].
  destruct rest as [|v [|? ?]]; try (eexists; split; reflexivity).
  all: destruct (field_fb k v (line_of l)); eexists; split; reflexivity.
Qed.

Lemma ws_not_token c : is_ws c = true -> is_token_char c = false /\ c <> 13 /\ c <> 58.
Proof.
  unfold is_ws. intros H. apply orb_true_iff in H as [H|H]; apply N.eqb_eq in H; subst c;
    (split; [vm_compute; reflexivity|split; discriminate]).
Qed.

Lemma line_of_ws c r : is_ws c = true -> exists r', line_of (c :: r) = c :: r'.
Proof.
  intros W. destruct (ws_not_token c W) as (_ & N13 & _). unfold line_of.
  destruct (ends_cr (c :: r)) eqn:EC; [apply strip_cr_cons; assumption|eauto].
Qed.

Lemma split_ws c r : is_ws c = true ->
  (exists a v, split_n2 (c :: r) = [c :: a; v]) \/ split_n2 (c :: r) = [c :: r].
Proof.
  intros W. destruct (ws_not_token c W) as (_ & _ & N58). unfold split_n2. cbn [cut_colon].
  destruct (N.eqb_spec c 58); [congruence|].
  destruct (cut_colon r) as [[a b]|]; [left; eauto|right; reflexivity].
Qed.

(* a line that begins with SP / HTAB (not the last piece of the LF split) *)
Lemma step_ws n i c r s : Nat.eqb (i + 1) n = false -> is_ws c = true ->
  exists s', eos_step n i (c :: r) s = Done s' /\
    ((e_blanks s < i)%nat -> e_folds s' = e_folds s + 1) /\
    (~ (e_blanks s < i)%nat -> exists f, (f = EosName \/ f = EosNoColon) /\ exists x y, e_out s' = x ++ f :: y).
Proof.
  intros H W. rewrite step_nonlast by exact H. unfold step_body.
  destruct (line_of_ws c r W) as (r' & L). rewrite L. cbn [is_nil].
  destruct (ws_not_token c W) as (NT & _ & _).
  destruct (split_ws c r' W) as [(a & v & E)|E]; rewrite E; cbn [starts_ws]; rewrite W, andb_true_r;
    destruct (Nat.ltb_spec (e_blanks s) i).
  - eexists. split; [reflexivity|]. cbn [e_folds e_out]. split; [reflexivity|lia].
  - unfold field_fb, valid_field_name. cbn [forallb]. rewrite NT. cbn [andb].
    eexists. split; [reflexivity|]. cbn [e_folds e_out]. split; [lia|]. intros _.
    exists EosName. split; [auto|]. exists (e_out s). eexists. cbn [app]. reflexivity.
  - eexists. split; [reflexivity|]. cbn [e_folds e_out]. split; [reflexivity|lia].
  - eexists. split; [reflexivity|]. cbn [e_folds e_out]. split; [lia|]. intros _.
    exists EosNoColon. split; [auto|]. exists (e_out s), []. reflexivity.
Qed.

(* the last piece of the LF split *)
Lemma step_last n i l s : Nat.eqb (i + 1) n = true ->
  exists s', eos_step n i l s = Done s' /\ e_crlf s' = (is_nil l || e_crlf s)%bool.
Proof.
  intros H. rewrite step_last_form by exact H. destruct (is_nil l); cbn [orb].
  - eexists. split; reflexivity.
  - destruct (step_body_mono n i l (e_nocr s) s) as (s' & E & _ & C). exists s'. split; [exact E|exact C].
Qed.

(* ====================================================================== *)
(* position bookkeeping for a line inside the block                        *)
(* ====================================================================== *)
Lemma not_last_index {A} (l1 : list A) (l : A) l2 : l2 <> [] ->
  Nat.eqb (0 + length l1 + 1) (length (l1 ++ l :: l2)) = false.
Proof.
  intros NE. apply Nat.eqb_neq. rewrite app_length. cbn [length]. destruct l2; [congruence|]. cbn [length]. lia.
Qed.

Lemma tail_in f s : In f (eos_tail s) -> forall o hs, exists fbs (m : hmap), Done (o ++ eos_tail s, hs) = Done (fbs, m) /\ In f fbs.
Proof. intros H o hs. exists (o ++ eos_tail s), hs. split; [reflexivity|]. apply in_or_app. right. exact H. Qed.

(* ====================================================================== *)
(* blank lines                                                             *)
(* ====================================================================== *)
Lemma blank_tail s : (1 <= e_blanks s)%nat ->
  (In EosBlank (eos_tail s) \/ In EosBlankEnd (eos_tail s)) /\
  ((e_blank_end s = false \/ 2 <= e_blanks s)%nat -> In EosBlank (eos_tail s)).
Proof.
  intros H. unfold eos_tail. destruct (Nat.ltb_spec 0 (e_blanks s)); [|lia].
  destruct (Nat.eqb_spec (e_blanks s) 1) as [E|NE]; cbn [andb].
  - destruct (e_blank_end s); split.
    + right. rewrite !in_app_iff. right. left. left. reflexivity.
    + intros [C|C]; [discriminate|lia].
    + left. rewrite !in_app_iff. right. left. left. reflexivity.
    + intros _. rewrite !in_app_iff. right. left. left. reflexivity.
  - split; [left|intros _]; rewrite !in_app_iff; right; left; left; reflexivity.
Qed.

Lemma blank_line_state content l1 l l2 :
  split_on 10 content = l1 ++ l :: l2 -> l2 <> [] -> l = [] \/ l = [13] ->
  exists s, eos_loop (length (split_on 10 content)) 0 (split_on 10 content) est0 = Done s /\
    (1 <= e_blanks s)%nat /\
    ((2 <= length l2)%nat -> e_blank_end s = false \/ (2 <= e_blanks s)%nat).
Proof.
  intros SP NE B. rewrite SP. set (n := length (l1 ++ l :: l2)).
  rewrite eos_loop_app. destruct (eos_loop_mono n l1 0 est0) as (s1 & E1 & B1 & _ & BE1 & _). rw_loop E1.
  cbn [eos_loop].
  pose proof (not_last_index l1 l l2 NE) as Hi. fold n in Hi.
  destruct (step_blank n (0 + length l1) l s1 Hi B) as (s2 & E2 & B2 & BE2 & _). rw_step E2.
  destruct (eos_loop_mono n l2 (S (0 + length l1)) s2) as (s3 & E3 & B3 & _ & BE3 & _). rw_loop E3.
  exists s3. split; [reflexivity|]. split; [lia|]. intros L2.
  assert (NE2 : Nat.eqb (0 + length l1 + 2) n = false).
  { apply Nat.eqb_neq. unfold n. rewrite app_length. cbn [length]. lia. }
  rewrite NE2 in BE2. cbn [est0 e_blanks e_blank_end] in *.
  destruct (e_blank_end s3) eqn:F; [|auto]. right.
  destruct (BE3 eq_refl) as [H|H]; [|lia].
  rewrite BE2 in H. destruct (BE1 H) as [C|C]; [discriminate|lia].
Qed.

(* any blank line in the block is reported (as "blank lines" or "extra blank line at the end") *)
Lemma flags_blank_line_proof : forall content l1 l l2,
  split_on 10 content = l1 ++ l :: l2 -> l2 <> [] -> l = [] \/ l = [13] ->
  exists fbs m, examine_grpc_end_stream content = Done (fbs, m) /\ (In EosBlank fbs \/ In EosBlankEnd fbs).
Proof.
  intros content l1 l l2 SP NE B. unfold examine_grpc_end_stream. cbv zeta.
  destruct (blank_line_state content l1 l l2 SP NE B) as (s & E & B1 & _). rewrite E.
  eexists. eexists. split; [reflexivity|]. destruct (blank_tail s B1) as [[H|H] _]; [left|right];
    apply in_or_app; right; exact H.
Qed.

(* a blank line that is followed by another line of the block is reported as "blank lines" *)
Lemma flags_blank_line_inside_proof : forall content l1 l l2 x y,
  split_on 10 content = l1 ++ l :: x :: y :: l2 -> l = [] \/ l = [13] ->
  exists fbs m, examine_grpc_end_stream content = Done (fbs, m) /\ In EosBlank fbs.
Proof.
  intros content l1 l l2 x y SP B. unfold examine_grpc_end_stream. cbv zeta.
  destruct (blank_line_state content l1 l (x :: y :: l2) SP ltac:(discriminate) B) as (s & E & B1 & B2). rewrite E.
  eexists. eexists. split; [reflexivity|]. apply in_or_app. right.
  apply (blank_tail s B1). apply B2. cbn [length]. lia.
Qed.

(* ====================================================================== *)
(* obs-fold / leading white space                                          *)
(* ====================================================================== *)
Lemma fold_tail s : 0 < e_folds s -> In EosObsFold (eos_tail s).
Proof.
  intros H. unfold eos_tail. destruct (N.ltb_spec 0 (e_folds s)); [|lia].
  apply in_or_app. left. left. reflexivity.
Qed.

(* a line that starts with SP / HTAB is reported: as obsolete line folding when a field line
   came before it, as an invalid field name (or a line without colon) otherwise *)
Lemma flags_leading_whitespace_proof : forall content l1 c r l2,
  split_on 10 content = l1 ++ (c :: r) :: l2 -> l2 <> [] -> is_ws c = true ->
  exists fbs m, examine_grpc_end_stream content = Done (fbs, m) /\
    (In EosObsFold fbs \/ In EosName fbs \/ In EosNoColon fbs).
Proof.
  intros content l1 c r l2 SP NE W. unfold examine_grpc_end_stream. cbv zeta. rewrite SP.
  set (n := length (l1 ++ (c :: r) :: l2)).
  rewrite eos_loop_app. destruct (eos_loop_facts n l1 0 est0) as (s1 & E1 & _). rw_loop E1.
  cbn [eos_loop].
  pose proof (not_last_index l1 (c :: r) l2 NE) as Hi. fold n in Hi.
  destruct (step_ws n (0 + length l1) c r s1 Hi W) as (s2 & E2 & F2 & O2). rw_step E2.
  destruct (eos_loop_mono n l2 (S (0 + length l1)) s2) as (s3 & E3 & _ & F3 & _).
  destruct (eos_loop_facts n l2 (S (0 + length l1)) s2) as (s3' & E3' & _ & (x3 & O3)).
  rewrite E3 in E3'. inversion E3'; subst s3'. rw_loop E3.
  eexists. eexists. split; [reflexivity|].
  destruct (Nat.ltb_spec (e_blanks s1) (0 + length l1)) as [LT|GE].
  - left. apply in_or_app. right. apply fold_tail. rewrite (F2 LT) in F3. lia.
  - right. destruct O2 as (f & Hf & x & y & O2); [lia|]. rewrite O3, O2.
    destruct Hf as [-> | ->]; [left|right]; rewrite !in_app_iff; left; left; right; left; reflexivity.
Qed.

(* ... and when some earlier line of the block is not blank, it is obsolete line folding *)
Lemma blanks_below n : forall lines i s, (i + length lines < n)%nat ->
  (e_blanks s <= i)%nat ->
  exists s', eos_loop n i lines s = Done s' /\ (e_blanks s' <= i + length lines)%nat /\
    ((e_blanks s < i)%nat \/ (exists l, In l lines /\ l <> [] /\ l <> [13]) -> (e_blanks s' < i + length lines)%nat).
Proof.
  induction lines as [|l lines IH]; intros i s Hn Hb.
  - exists s. cbn. split; [reflexivity|]. split; [lia|]. intros [H|(l & [] & _)]. lia.
  - cbn [eos_loop length] in *.
    destruct (eos_step_mono n i l s) as (s1 & E1 & (B1 & _) & _). rewrite E1.
    destruct (IH (S i) s1) as (s2 & E2 & B2 & S2); [lia|lia|]. exists s2. split; [exact E2|]. split; [lia|].
    intros H. assert (LT : (e_blanks s1 < S i)%nat \/ exists l0, In l0 lines /\ l0 <> [] /\ l0 <> [13]).
    { destruct H as [H|(l0 & [<-|Hin] & N1 & N2)].
      - left. lia.
      - left. destruct (step_nonblank n i l s) as (s1' & E1' & B1'); [apply Nat.eqb_neq; lia|assumption|assumption|].
        rewrite E1 in E1'. inversion E1'; subst s1'. lia.
      - right. eauto. }
    specialize (S2 LT). lia.
Qed.

Lemma flags_obs_fold_proof : forall content l1 c r l2 p,
  split_on 10 content = l1 ++ (c :: r) :: l2 -> l2 <> [] -> is_ws c = true ->
  In p l1 -> p <> [] -> p <> [13] ->
  exists fbs m, examine_grpc_end_stream content = Done (fbs, m) /\ In EosObsFold fbs.
Proof.
  intros content l1 c r l2 p SP NE W Hp N1 N2. unfold examine_grpc_end_stream. cbv zeta. rewrite SP.
  set (n := length (l1 ++ (c :: r) :: l2)).
  rewrite eos_loop_app.
  destruct (blanks_below n l1 0 est0) as (s1 & E1 & _ & LT).
  { unfold n. rewrite app_length. cbn [length]. unfold bytes. lia. }
  { cbn. lia. }
  rw_loop E1. cbn [eos_loop].
  pose proof (not_last_index l1 (c :: r) l2 NE) as Hi. fold n in Hi.
  destruct (step_ws n (0 + length l1) c r s1 Hi W) as (s2 & E2 & F2 & _). rw_step E2.
  destruct (eos_loop_mono n l2 (S (0 + length l1)) s2) as (s3 & E3 & _ & F3 & _). rw_loop E3.
  eexists. eexists. split; [reflexivity|]. apply in_or_app. right. apply fold_tail.
  rewrite F2 in F3; [lia|]. apply LT. right. exists p. auto.
Qed.

(* ====================================================================== *)
(* a field line without a colon                                            *)
(* ====================================================================== *)
Lemma cut_colon_none s : ~ In 58 s -> cut_colon s = None.
Proof.
  induction s as [|c r IH]; intros H; [reflexivity|]. cbn.
  destruct (N.eqb_spec c 58) as [->|_]; [exfalso; apply H; left; reflexivity|].
  rewrite IH; [reflexivity|]. intros HI. apply H. right. exact HI.
Qed.

Lemma flags_no_colon_proof : forall content l1 l2 c r,
  split_on 10 content = l1 ++ ((c :: r) ++ [13]) :: l2 -> l2 <> [] ->
  ~ In 58 (c :: r) -> is_ws c = false ->
  exists fbs m, examine_grpc_end_stream content = Done (fbs, m) /\ In EosNoColon fbs.
Proof.
  intros content l1 l2 c r SP NE C58 W. unfold examine_grpc_end_stream. cbv zeta. rewrite SP.
  set (n := length (l1 ++ ((c :: r) ++ [13]) :: l2)).
  rewrite eos_loop_app. destruct (eos_loop_facts n l1 0 est0) as (s1 & E1 & _). rw_loop E1.
  cbn [eos_loop].
  pose proof (not_last_index l1 ((c :: r) ++ [13]) l2 NE) as Hi. fold n in Hi.
  assert (ST : exists s2, eos_step n (0 + length l1) ((c :: r) ++ [13]) s1 = Done s2 /\
                          e_out s2 = e_out s1 ++ [EosNoColon]).
  { rewrite step_nonlast by exact Hi. unfold step_body, line_of.
    destruct (ends_cr_app (c :: r)) as [EC SC]. rewrite EC, SC. cbn [is_nil].
    unfold split_n2. rewrite cut_colon_none by exact C58. cbn [starts_ws]. rewrite W, andb_false_r.
    eexists. split; reflexivity. }
  destruct ST as (s2 & E2 & O2). rw_step E2.
  destruct (eos_loop_facts n l2 (S (0 + length l1)) s2) as (s3 & E3 & _ & (x & O3)). rw_loop E3.
  eexists. eexists. split; [reflexivity|]. rewrite O3, O2. rewrite !in_app_iff. left. left. right. left. reflexivity.
Qed.

(* ====================================================================== *)
(* the block has to end with CRLF                                          *)
(* ====================================================================== *)
Lemma pieces_nosep sep : forall s, Forall (no_sep sep) (split_on sep s).
Proof.
  induction s as [|c s IH]; [repeat constructor; intros []|].
  cbn [split_on]. destruct (N.eqb_spec c sep) as [->|NE].
  - constructor; [intros []|exact IH].
  - destruct (split_on sep s) as [|w ws]; [repeat constructor; intros [E|[]]; congruence|].
    inversion IH as [|? ? Hw Hws]; subst. constructor; [|exact Hws].
    intros [E|HI]; [congruence|exact (Hw HI)].
Qed.

Lemma join_snoc sep : forall init lst,
  join sep (init ++ [lst]) = match init with [] => lst | _ => join sep init ++ sep :: lst end.
Proof.
  induction init as [|w init IH]; intros lst; [reflexivity|].
  cbn [app]. rewrite join_cons by (destruct init; discriminate). rewrite IH.
  destruct init as [|w' init']; [reflexivity|].
  rewrite (join_cons sep w (w' :: init')) by discriminate. rewrite <- app_assoc. reflexivity.
Qed.

Lemma snoc_cases {A} (l : list A) : l = [] \/ exists init lst, l = init ++ [lst].
Proof. destruct l as [|x l]; [left; reflexivity|right]. exists (removelast (x :: l)), (last (x :: l) x). apply app_removelast_last. discriminate. Qed.

(* the last piece of the LF split is empty exactly when the text is empty or ends in LF *)
Lemma last_piece content init lst : split_on 10 content = init ++ [lst] ->
  (lst = [] <-> content = [] \/ exists pre, content = pre ++ [10]).
Proof.
  intros SP. pose proof (join_split 10 content) as J. rewrite SP, join_snoc in J.
  pose proof (pieces_nosep 10 content) as NS. rewrite SP in NS. apply Forall_app in NS as [_ NS].
  pose proof (Forall_inv NS) as Hl. split.
  - intros ->. destruct init; [left; symmetry; exact J|right]. eexists. symmetry. exact J.
  - intros [->|(pre & E)].
    + destruct init as [|b0 init0]; [exact J|]. destruct (join 10 (b0 :: init0)); discriminate J.
    + destruct (snoc_cases lst) as [->|(i' & c & ->)]; [reflexivity|]. exfalso.
      assert (c = 10).
      { destruct init.
        - rewrite <- J in E. apply app_inj_tail in E as [_ E]. exact E.
        - rewrite <- J in E. change (10 :: i' ++ [c]) with ((10 :: i') ++ [c]) in E.
          rewrite app_assoc in E. apply app_inj_tail in E as [_ E]. exact E. }
      subst c. apply Hl. apply in_or_app. right. left. reflexivity.
Qed.

Lemma nocrlf_tail s : In EosNoCRLF (eos_tail s) <-> e_crlf s = false.
Proof.
  unfold eos_tail. rewrite !in_app_iff.
  destruct (0 <? e_folds s); destruct (Nat.ltb 0 (e_blanks s)); destruct (Nat.eqb (e_blanks s) 1 && e_blank_end s);
    destruct (0 <? e_nocr s); destruct (e_crlf s); cbn; intuition congruence.
Qed.

Lemma crlf_state content init lst : split_on 10 content = init ++ [lst] ->
  exists s, eos_loop (length (split_on 10 content)) 0 (split_on 10 content) est0 = Done s /\
            e_crlf s = is_nil lst /\ Forall line_fb (e_out s).
Proof.
  intros SP. rewrite SP. set (n := length (init ++ [lst])).
  rewrite eos_loop_app. destruct (eos_loop_mono n init 0 est0) as (s1 & E1 & _ & _ & _ & C1 & O1). rw_loop E1.
  cbn [eos_loop].
  assert (Hi : Nat.eqb (0 + length init + 1) n = true).
  { apply Nat.eqb_eq. unfold n. rewrite app_length. cbn [length]. lia. }
  destruct (step_last n (0 + length init) lst s1 Hi) as (s2 & E2 & C2).
  destruct (eos_step_mono n (0 + length init) lst s1) as (s2' & E2' & (_ & _ & _ & O2) & _).
  rewrite E2 in E2'. inversion E2'; subst s2'. rw_step E2.
  exists s2. split; [reflexivity|]. split.
  - rewrite C2, C1; [cbn; apply orb_false_r|]. unfold n. rewrite app_length. cbn [length]. lia.
  - apply O2, O1. constructor.
Qed.

(* EosNoCRLF is reported exactly for a non-empty block whose last byte is not LF *)
Lemma no_crlf_iff_proof : forall content fbs m, examine_grpc_end_stream content = Done (fbs, m) ->
  (In EosNoCRLF fbs <-> exists pre c, content = pre ++ [c] /\ c <> 10).
Proof.
  intros content fbs m. unfold examine_grpc_end_stream. cbv zeta.
  destruct (snoc_cases (split_on 10 content)) as [E|(init & lst & SP)]; [exfalso; eapply split_on_nonempty; exact E|].
  destruct (crlf_state content init lst SP) as (s & E & C & O). rewrite E. intros H. inversion H; subst fbs m.
  rewrite in_app_iff, nocrlf_tail, C.
  assert (NO : ~ In EosNoCRLF (e_out s)).
  { intros HI. rewrite Forall_forall in O. destruct (O _ HI) as [X|[X|[X|X]]]; discriminate X. }
  pose proof (last_piece content init lst SP) as LP.
  split.
  - intros [HI|HN]; [contradiction|]. destruct lst as [|b0 lst0]; [discriminate|].
    destruct (snoc_cases content) as [->|(pre & c & ->)].
    + exfalso. assert (X : b0 :: lst0 = []) by (apply LP; left; reflexivity). discriminate X.
    + exists pre, c. split; [reflexivity|]. intros ->.
      assert (X : b0 :: lst0 = []) by (apply LP; right; eauto). discriminate X.
  - intros (pre & c & -> & NE). right. destruct lst as [|b0 lst0]; [|reflexivity]. exfalso.
    destruct LP as [LP _]. destruct (LP eq_refl) as [X|(p & X)].
    + destruct pre; discriminate X.
    + apply app_inj_tail in X as [_ X]. congruence.
Qed.

Lemma flags_missing_final_crlf_proof : forall pre c, c <> 10 ->
  exists fbs m, examine_grpc_end_stream (pre ++ [c]) = Done (fbs, m) /\ In EosNoCRLF fbs.
Proof.
  intros pre c NE. destruct (examine_total_proof (pre ++ [c])) as (fbs & m & E).
  exists fbs, m. split; [exact E|]. apply (no_crlf_iff_proof _ _ _ E). eauto.
Qed.
