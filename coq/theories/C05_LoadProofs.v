(* C05_LoadProofs.v — no --test-file is dropped by the loader: the map has one entry per
   distinct path, holding that file's content. *)
From Coq Require Import Lia Permutation.
From V Require Import C05_Load.
Open Scope nat_scope.

Section P.
Context {A : Type}.
Implicit Types (m : list (path * A)) (read : path -> option A).

Definition fkeys m : list path := map fst m.

Lemma lookup_put_file m k d p :
  lookup_file (put_file m k d) p = if bytes_eqb p k then Some d else lookup_file m p.
Proof.
  induction m as [|[q d'] m IH]; simpl.
  - reflexivity.
  - destruct (bytes_eqb_spec k q) as [->|N]; simpl.
    + destruct (bytes_eqb p q); reflexivity.
    + destruct (bytes_eqb_spec p q) as [->|N2].
      * destruct (bytes_eqb_spec q k) as [E|_]; [congruence|reflexivity].
      * exact IH.
Qed.

Lemma keys_put_file m k d q : In q (fkeys (put_file m k d)) <-> q = k \/ In q (fkeys m).
Proof.
  unfold fkeys. induction m as [|[q' d'] m IH]; simpl.
  - intuition.
  - destruct (bytes_eqb_spec k q') as [->|N]; simpl; [intuition|]. rewrite IH. intuition.
Qed.

Lemma nodup_put_file m k d : NoDup (fkeys m) -> NoDup (fkeys (put_file m k d)).
Proof.
  unfold fkeys. induction m as [|[q' d'] m IH]; simpl; intros H.
  - repeat constructor. intros [].
  - inversion H as [|? ? NI ND]; subst.
    destruct (bytes_eqb_spec k q') as [->|N]; simpl; [constructor; assumption|].
    constructor; [|apply IH, ND]. intros I. apply (keys_put_file m k d q') in I.
    destruct I as [E|I]; [congruence|contradiction].
Qed.

Lemma put_file_fresh m k d : ~ In k (fkeys m) -> put_file m k d = m ++ [(k, d)].
Proof.
  unfold fkeys. induction m as [|[q d'] m IH]; simpl; intros NI; [reflexivity|].
  destruct (bytes_eqb_spec k q) as [->|N]; [exfalso; apply NI; left; reflexivity|].
  rewrite IH; [reflexivity|]. intros I. apply NI. right. exact I.
Qed.

(* any list of paths, repetitions included *)
Lemma load_from_spec read paths : forall m0 m,
  load_from (fun p => p) read paths m0 = Loaded m ->
  (NoDup (fkeys m0) -> NoDup (fkeys m)) /\
  (forall q, In q (fkeys m) <-> In q (fkeys m0) \/ In q paths) /\
  (forall q, lookup_file m q = if mem_bytes q paths then read q else lookup_file m0 q) /\
  (forall q, In q paths -> read q <> None /\ is_yaml q = true).
Proof.
  induction paths as [|p rest IH]; intros m0 m; cbn [load_from].
  - intros E. inversion E; subst. split; [auto|]. split; [|split].
    + intros q. simpl. tauto.
    + intros q. reflexivity.
    + intros q [].
  - destruct (read p) as [d|] eqn:R; [|discriminate].
    destruct (is_yaml p) eqn:Y; [|discriminate]. intros E.
    destruct (IH _ _ E) as (I1 & I2 & I3 & I4). split; [|split; [|split]].
    + intros ND. apply I1, nodup_put_file, ND.
    + intros q. rewrite I2, keys_put_file. simpl. intuition.
    + intros q. rewrite I3, lookup_put_file.
      change (mem_bytes q (p :: rest)) with (bytes_eqb q p || mem_bytes q rest).
      destruct (mem_bytes q rest) eqn:Mq.
      * rewrite orb_true_r. reflexivity.
      * rewrite orb_false_r. destruct (bytes_eqb_spec q p) as [->|N]; [symmetry; exact R|reflexivity].
    + intros q [<-|H]; [split; [congruence|exact Y]|apply (I4 q H)].
Qed.

Lemma loader_keeps_every_path_proof read paths m :
  load_files read paths = Loaded m ->
  NoDup (fkeys m) /\
  (forall p, In p (fkeys m) <-> In p paths) /\
  (forall p, In p paths -> exists d, read p = Some d /\ lookup_file m p = Some d).
Proof.
  intros E. destruct (load_from_spec read paths [] m E) as (I1 & I2 & I3 & I4).
  split; [apply I1; constructor|]. split.
  - intros p. rewrite I2. simpl. tauto.
  - intros p I. destruct (read p) as [d|] eqn:R; [|exfalso; apply (proj1 (I4 p I)), R].
    exists d. split; [reflexivity|]. rewrite I3.
    apply mem_bytes_in in I. rewrite I. exact R.
Qed.

(* the entries the given paths stand for, in the order given *)
Definition entries read (paths : list path) : list (path * A) :=
  flat_map (fun p => match read p with Some d => [(p, d)] | None => [] end) paths.

Lemma load_from_distinct read paths : forall m0 m,
  load_from (fun p => p) read paths m0 = Loaded m ->
  NoDup paths -> (forall p, In p paths -> ~ In p (fkeys m0)) ->
  m = m0 ++ entries read paths /\ map fst (entries read paths) = paths.
Proof.
  induction paths as [|p rest IH]; intros m0 m; cbn [load_from].
  - intros E _ _. inversion E; subst. simpl. rewrite app_nil_r. auto.
  - destruct (read p) as [d|] eqn:R; [|discriminate].
    destruct (is_yaml p); [|discriminate]. intros E ND FR.
    inversion ND as [|? ? NI ND']; subst.
    rewrite put_file_fresh in E by (apply FR; left; reflexivity).
    destruct (IH _ _ E ND') as (E1 & E2).
    + intros q Iq. unfold fkeys. rewrite map_app, in_app_iff. simpl.
      intros [H|[H|[]]]; [apply (FR q (or_intror Iq)), H|subst; contradiction].
    + assert (EN : entries read (p :: rest) = (p, d) :: entries read rest).
      { unfold entries. cbn [flat_map]. rewrite R. reflexivity. }
      rewrite EN. split.
      * rewrite E1, <- app_assoc. reflexivity.
      * simpl. rewrite E2. reflexivity.
Qed.

Lemma no_file_dropped_proof read paths m :
  NoDup paths -> load_files read paths = Loaded m ->
  map fst m = paths /\ forall p d, In (p, d) m <-> In p paths /\ read p = Some d.
Proof.
  intros ND E. destruct (load_from_distinct read paths [] m E ND) as (E1 & E2); [intros ? _ []|].
  simpl in E1. subst m. split; [exact E2|]. intros p d. unfold entries. rewrite in_flat_map. split.
  - intros (q & Iq & I). destruct (read q) as [d'|] eqn:R; [|destruct I].
    destruct I as [X|[]]. inversion X; subst. auto.
  - intros (I & R). exists p. split; [exact I|]. rewrite R. left. reflexivity.
Qed.

Lemma load_succeeds_iff_proof read paths :
  (exists m, load_files read paths = Loaded m) <->
  forall p, In p paths -> read p <> None /\ is_yaml p = true.
Proof.
  split.
  - intros (m & E). apply (load_from_spec read paths [] m E).
  - unfold load_files. generalize (@nil (path * A)) as m0.
    induction paths as [|p rest IH]; intros m0 H; cbn [load_from]; [eexists; reflexivity|].
    destruct (H p (or_introl eq_refl)) as (R & Y). destruct (read p) as [d|]; [|congruence].
    rewrite Y. apply IH. intros q Iq. apply H. right. exact Iq.
Qed.
End P.

(* every file's cases are among the permutations of the run, each file once *)
Lemma every_suite_file_takes_part_proof (read : path -> option sfile) paths m :
  NoDup paths -> load_files read paths = Loaded m ->
  loaded_names m =
  flat_map (fun p => match read p with Some f => names_of_file f | None => [] end) paths.
Proof.
  intros ND E. destruct (load_from_distinct read paths [] m E ND) as (E1 & _); [intros ? _ []|].
  simpl in E1. subst m. clear E ND. unfold loaded_names, entries.
  induction paths as [|p rest IH]; [reflexivity|]. cbn [flat_map].
  rewrite flat_map_app, IH.
  destruct (read p); simpl; rewrite ?app_nil_r; reflexivity.
Qed.
