(* C05_Load.v — which suite files take part in a run: executable model of
     internal/app/connectconformance/testsuites/testsuites.go  (LoadTestSuitesFromFiles:
         for each --test-file path in order: os.ReadFile, extension check, testSuites[path] = data)
     internal/app/connectconformance/connectconformance.go  (Run: the map goes to parseTestSuites,
         which keeps one suite per key; newTestCaseLibrary rejects two files that define a suite
         of the same name and expands every suite)
   The map is an association list with unique keys (assignment replaces in place or appends);
   Go's iteration order is arbitrary, results are compared sorted.  No proofs here. *)
From V Require Export Base.
Open Scope nat_scope.

Definition path := bytes.

Section LOAD.
Context {A : Type}.

Fixpoint lookup_file (m : list (path * A)) (p : path) : option A :=
  match m with
  | [] => None
  | (q, d) :: m' => if bytes_eqb p q then Some d else lookup_file m' p
  end.

(* testSuites[key] = data *)
Fixpoint put_file (m : list (path * A)) (k : path) (d : A) : list (path * A) :=
  match m with
  | [] => [(k, d)]
  | (q, d') :: m' => if bytes_eqb k q then (q, d) :: m' else (q, d') :: put_file m' k d
  end.

Inductive load_result :=
| LoadNotReadable (p : path)     (* os.ReadFile failed: not found, a directory ... *)
| LoadNotYaml (p : path)         (* filepath.Ext(path) != ".yaml" *)
| Loaded (m : list (path * A)).

(* filepath.Ext(p) == ".yaml"  <->  p ends in ".yaml" (the suffix has one dot and no separator) *)
Definition is_yaml (p : path) : bool := has_prefix (rev (bs ".yaml")) (rev p).

(* the loop of LoadTestSuitesFromFiles; `key` is what the data is filed under: the path itself *)
Fixpoint load_from (key : path -> path) (read : path -> option A) (paths : list path)
                   (m : list (path * A)) : load_result :=
  match paths with
  | [] => Loaded m
  | p :: rest =>
    match read p with
    | None => LoadNotReadable p
    | Some d => if is_yaml p then load_from key read rest (put_file m (key p) d)
                else LoadNotYaml p
    end
  end.

Definition load_files (read : path -> option A) (paths : list path) : load_result :=
  load_from (fun p => p) read paths [].
End LOAD.

(* ---- what Run makes of the loaded map ---- *)
(* a suite file, as far as this property is concerned: the suite's name and its cases *)
Record sfile := mkSF { sf_suite : bytes; sf_cases : list bytes }.

(* parseTestSuites keeps the key; newTestCaseLibrary: suitesIndex rejects a second file
   defining a suite of the same name *)
Fixpoint dup_suite (seen : list bytes) (m : list (path * sfile)) : bool :=
  match m with
  | [] => false
  | (_, f) :: m' => mem_bytes f.(sf_suite) seen || dup_suite (f.(sf_suite) :: seen) m'
  end.

(* the permutations of the loaded suites (one config case: <suite>/<case>), every file's *)
Definition names_of_file (f : sfile) : list bytes :=
  map (fun c => f.(sf_suite) ++ 47%N :: c) f.(sf_cases).
Definition loaded_names (m : list (path * sfile)) : list bytes :=
  flat_map (fun e => names_of_file (snd e)) m.

(* ---- case decoding ---- *)
Definition un_sfile (s : sx) : option (path * sfile) :=
  match s with
  | L [B p; B n; cs] => do cs <- un_listof un_B cs; ret (p, mkSF n cs)
  | _ => None
  end.

(* the loaded suites without the keys they are filed under (keys only show in messages),
   in a canonical order: by suite name, then by number of cases *)
Definition entry_leb (a b : sfile) : bool :=
  if bytes_eqb a.(sf_suite) b.(sf_suite) then Nat.leb (length a.(sf_cases)) (length b.(sf_cases))
  else bytes_leb a.(sf_suite) b.(sf_suite).
Fixpoint insert_entry (e : sfile) (l : list sfile) : list sfile :=
  match l with
  | [] => [e]
  | h :: t => if entry_leb e h then e :: l else h :: insert_entry e t
  end.
Definition sort_entries (l : list sfile) : list sfile := fold_right insert_entry [] l.

Definition sx_entry (e : sfile) : sx := L [B e.(sf_suite); sx_nat (length e.(sf_cases))].

(* mode (files on disk: (relative path, suite name, (case names))) (paths given as --test-file)
   mode 0: LoadTestSuitesFromFiles + parseTestSuites -> the suites loaded (name, number of cases)
   mode 1: Run -> the names handed to the client (sorted) and the printed total *)
Definition run_c05_load (args : list sx) : sx :=
  or_bad (match args with
  | [I mode; files; paths] =>
    do files <- un_listof un_sfile files; do paths <- un_listof un_B paths;
    match load_files (lookup_file files) paths with
    | LoadNotReadable _ => ret (if (mode =? 0)%Z then sx_err "not-readable" else sx_err "run-error")
    | LoadNotYaml _ => ret (if (mode =? 0)%Z then sx_err "not-yaml" else sx_err "run-error")
    | Loaded m =>
      if (mode =? 0)%Z then ret (L (map sx_entry (sort_entries (map snd m))))
      else if dup_suite [] m then ret (sx_err "run-error")
      else match m with
           | [] => None                       (* no --test-file: the embedded suites *)
           | _ => ret (L [sx_nat (length (loaded_names m));
                          L (map B (sort_bytes (loaded_names m)))])
           end
    end
  | _ => None end).
