(* C18_Model.v — executable model of
     internal/errors.go            (ConvertConnectToProtoError, ConvertProtoToConnectError,
                                    ConvertErrorToProtoError, ConvertErrorToConnectError)
     internal/grpcutil/errors.go   (ConvertProtoToGrpcError, ConvertGrpcToProtoError)
     internal/grpcutil/metadata.go (ConvertMetadataToProtoHeader, ConvertProtoHeaderToMetadata,
                                    AppendToOutgoingContext, PercentEncodeMessage,
                                    ShouldEscapeByteInMessage)
     internal/headers.go           (AddHeaders, ConvertToProtoHeader)
     internal/codec.go             (StrictJSONCodec, StrictProtoCodec)
   External behaviour (base64, connect.NewErrorDetail, protobuf / protojson
   marshalling) enters as Section variables; the instances used for the
   extracted model are at the end of the file.  No proofs here. *)
From V Require Export Base.
Open Scope N_scope.

Definition has_suffix (suf s : bytes) : bool := has_prefix (rev suf) (rev s).
Definition bin_suffix : bytes := bs "-bin".
Definition is_bin (key : bytes) : bool := has_suffix bin_suffix key.
Definition is_nil {A} (l : list A) : bool := match l with [] => true | _ => false end.

(* ====================================================================== *)
(* 1. The three error forms and the six conversions                        *)
(* ====================================================================== *)
Definition any := (bytes * bytes)%type.                 (* anypb.Any: type_url, value *)
Definition slash : N := 47.
Definition default_prefix : bytes := bs "type.googleapis.com/".   (* DefaultAnyResolverPrefix *)

(* connect: typeNameFromURL = url[strings.LastIndexByte(url,'/')+1:] *)
Fixpoint type_name (url : bytes) : bytes :=
  match url with
  | [] => []
  | c :: r => if existsb (N.eqb slash) r then type_name r
              else if c =? slash then r else url
  end.

(* test-case form: conformancev1.Error (code is an int32 enum, message optional) *)
Record perr := PErr { p_code : Z; p_msg : option bytes; p_details : list any }.
(* Connect form: *connect.Error; connect.Code is a uint32; a detail keeps the Any it was made of *)
Definition cdetail := any.
Record cerr := CErr { c_code : Z; c_msg : bytes; c_details : list cdetail }.
(* gRPC form: the google.rpc.Status held by a status error (code int32) *)
Record gstat := GStat { g_code : Z; g_msg : bytes; g_details : list any }.

Definition two32 : Z := 4294967296.
Definition two31 : Z := 2147483648.
Definition to_u32 (z : Z) : Z := (z mod two32)%Z.
Definition to_i32 (z : Z) : Z :=
  let u := (z mod two32)%Z in if (u <? two31)%Z then u else (u - two32)%Z.

Definition get_msg (o : option bytes) : bytes := match o with Some m => m | None => [] end.

Section Errors.
  (* connect.NewErrorDetail, ErrorDetail.Type, ErrorDetail.Bytes *)
  Variable new_detail : any -> option cdetail.
  Variable d_type : cdetail -> bytes.
  Variable d_bytes : cdetail -> bytes.

  Fixpoint new_details (ds : list any) : option (list cdetail) :=
    match ds with
    | [] => Some []
    | a :: r =>
      match new_detail a with
      | None => None
      | Some d => match new_details r with Some l => Some (d :: l) | None => None end
      end
    end.

  (* ConvertProtoToConnectError *)
  Definition connect_of_proto (e : perr) : cerr :=
    match new_details (p_details e) with
    | Some ds => CErr (to_u32 (p_code e)) (get_msg (p_msg e)) ds
    | None => CErr 13 [] []       (* connect.NewError(CodeInternal, err); text not modelled *)
    end.

  (* ConvertConnectToProtoError *)
  Definition proto_of_connect (e : cerr) : perr :=
    PErr (to_i32 (c_code e)) (Some (c_msg e))
         (map (fun d => (default_prefix ++ d_type d, d_bytes d)) (c_details e)).

  (* a Go error value as the client sees it: a plain error, a *connect.Error,
     or something that wraps one (errors.As finds it) *)
  Inductive goerr := GoPlain (text : bytes) | GoConnect (e : cerr) | GoWrapped (text : bytes) (e : cerr).

  (* ConvertErrorToConnectError *)
  Definition connect_of_error (g : goerr) : cerr :=
    match g with
    | GoPlain t => CErr 2 t []
    | GoConnect e | GoWrapped _ e => e
    end.

  (* ConvertErrorToProtoError *)
  Definition proto_of_error (g : goerr) : perr :=
    match g with
    | GoPlain t => PErr 2 (Some t) []
    | GoConnect e | GoWrapped _ e => proto_of_connect e
    end.
End Errors.

(* ConvertProtoToGrpcError: status.ErrorProto(...) is nil for code OK *)
Definition grpc_of_proto (e : perr) : option gstat :=
  if (to_u32 (p_code e) =? 0)%Z then None
  else Some (GStat (p_code e) (get_msg (p_msg e)) (p_details e)).

(* a Go error as grpc-go's status.FromError classifies it *)
Inductive gerr := GrpcStatus (s : gstat) | GrpcPlain (text : bytes) | GrpcWrapped (text : bytes) (s : gstat).

(* ConvertGrpcToProtoError *)
Definition proto_of_grpc (g : gerr) : perr :=
  match g with
  | GrpcStatus s => PErr (to_i32 (to_u32 (g_code s))) (Some (g_msg s)) (g_details s)
  | GrpcPlain t => PErr 2 (Some t) []
  | GrpcWrapped t s => PErr (to_i32 (to_u32 (g_code s))) (Some t) (g_details s)
  end.

(* ====================================================================== *)
(* 2. Header lists <-> gRPC metadata                                       *)
(* ====================================================================== *)
Definition header := (bytes * list bytes)%type.          (* conformancev1.Header *)
(* metadata.MD = map[string][]string: association list with unique keys;
   only the iteration order of the Go map is lost *)
Definition md := list (bytes * list bytes).

Fixpoint md_get (m : md) (k : bytes) : option (list bytes) :=
  match m with
  | [] => None
  | (k', vs) :: m' => if bytes_eqb k k' then Some vs else md_get m' k
  end.

(* m[k] = append(m[k], vs...) *)
Fixpoint md_append (k : bytes) (vs : list bytes) (m : md) : md :=
  match m with
  | [] => [(k, vs)]
  | (k', vs') :: m' =>
    if bytes_eqb k k' then (k', vs' ++ vs) :: m' else (k', vs') :: md_append k vs m'
  end.

(* m[k] = vs *)
Fixpoint md_assign (k : bytes) (vs : list bytes) (m : md) : md :=
  match m with
  | [] => [(k, vs)]
  | (k', vs') :: m' =>
    if bytes_eqb k k' then (k', vs) :: m' else (k', vs') :: md_assign k vs m'
  end.

Section Metadata.
  Variable b64enc : bytes -> bytes.            (* connect.EncodeBinaryHeader *)
  Variable b64dec : bytes -> option bytes.     (* connect.DecodeBinaryHeader *)

  (* "If it's not encoded, then just add the raw value" *)
  Definition decode_or_raw (v : bytes) : bytes :=
    match b64dec v with Some d => d | None => v end.

  (* ConvertProtoHeaderToMetadata.  The pinned code ASSIGNED asMetadata[key] = vals
     (defect #10: `X-A:[1], x-a:[2]` gave {x-a:[2]}); the model appends. *)
  Definition md_step (m : md) (h : header) : md :=
    let key := lower (fst h) in
    md_append key (if is_bin key then map decode_or_raw (snd h) else snd h) m.
  Definition md_of_proto (hs : list header) : md := fold_left md_step hs [].

  (* the behaviour of the pinned code, kept for the refutation example *)
  Definition md_step_assign (m : md) (h : header) : md :=
    let key := lower (fst h) in
    md_assign key (if is_bin key then map decode_or_raw (snd h) else snd h) m.
  Definition md_of_proto_assign (hs : list header) : md := fold_left md_step_assign hs [].

  (* ConvertMetadataToProtoHeader (key tested as it is in the map) *)
  Definition proto_of_md (m : md) : list header :=
    map (fun kv => (fst kv, if is_bin (fst kv) then map b64enc (snd kv) else snd kv)) m.

  (* AppendToOutgoingContext: the key/value pairs handed to grpc-go.  The pinned code
     passed the base64 TEXT of -bin values (defect #13, grpc-go encodes again); the
     model decodes them like ConvertProtoHeaderToMetadata does. *)
  Definition outgoing_pairs (hs : list header) : list (bytes * bytes) :=
    flat_map (fun h => map (fun v => (fst h, if is_bin (lower (fst h)) then decode_or_raw v else v))
                           (snd h)) hs.
  Definition outgoing_pairs_raw (hs : list header) : list (bytes * bytes) :=
    flat_map (fun h => map (fun v => (fst h, v)) (snd h)) hs.

  (* grpc-go: metadata.AppendToOutgoingContext + FromOutgoingContext (modelled third party):
     out[lower k] = append(out[lower k], v) *)
  Definition grpc_outgoing_md (kvs : list (bytes * bytes)) : md :=
    fold_left (fun m kv => md_append (lower (fst kv)) [snd kv] m) kvs [].

  (* what the peer reports for the metadata a client sent *)
  Definition outgoing_reported (hs : list header) : list header :=
    proto_of_md (grpc_outgoing_md (outgoing_pairs hs)).
  Definition outgoing_reported_raw (hs : list header) : list header :=
    proto_of_md (grpc_outgoing_md (outgoing_pairs_raw hs)).
End Metadata.

(* internal/headers.go: AddHeaders into an http.Header (keys canonicalised by
   textproto.CanonicalMIMEHeaderKey), ConvertToProtoHeader back. *)
Definition is_token_char (c : N) : bool :=
  ((48 <=? c) && (c <=? 57)) || ((65 <=? c) && (c <=? 90)) || ((97 <=? c) && (c <=? 122)) ||
  existsb (N.eqb c) [33; 35; 36; 37; 38; 39; 42; 43; 45; 46; 94; 95; 96; 124; 126].
Definition upper_byte (c : N) : N := if (97 <=? c) && (c <=? 122) then c - 32 else c.
Fixpoint canon_go (up : bool) (s : bytes) : bytes :=
  match s with
  | [] => []
  | c :: r => (if up then upper_byte c else lower_byte c) :: canon_go (c =? 45) r
  end.
Definition canonical_key (s : bytes) : bytes :=
  if forallb is_token_char s then canon_go true s else s.

(* dest.Add(key name, val) for every value of every header *)
Definition add_with (keyf : bytes -> bytes) (src : list header) (dest : md) : md :=
  fold_left (fun m h => fold_left (fun m v => md_append (keyf (fst h)) [v] m) (snd h) m) src dest.
(* AddHeaders: dest.Add(header.Name, val); http.Header.Add canonicalises the key *)
Definition add_headers : list header -> md -> md := add_with canonical_key.
(* AddTrailers: dest.Add(http.TrailerPrefix + http.CanonicalHeaderKey(header.Name), val).  (Since
   repair e7bd693 the name is canonicalised first: Add leaves a key with the prefix's colon alone.) *)
Definition trailer_prefix : bytes := bs "Trailer:".
Definition trailer_key (n : bytes) : bytes := canonical_key (trailer_prefix ++ canonical_key n).
Definition add_trailers : list header -> md -> md := add_with trailer_key.
Definition convert_to_proto_header (m : md) : list header := m.

(* ====================================================================== *)
(* 2b. The same conversions with memory made explicit                      *)
(* ====================================================================== *)
(* Above, a header's values and a map entry are VALUES.  In Go they are slices: windows of
   arrays that others may hold too, and into whose spare capacity append() writes.  Here the
   arrays are explicit: `cells h id i` is cell i of array id; every array has spare capacity
   without end, so that append() is ALWAYS in place - the worst case for sharing, and what the
   Go harness arranges (source slices are made with spare capacity).  A conversion that gives
   its result arrays of its own implements the value semantics; one that stores the slice it
   was handed does not (`share = true`: seeded change C18-14, refuted in C18_Props). *)
Record heap := Heap { cells : nat -> nat -> bytes; next : nat }.
Inductive sl := SNil | SRef (id len : nat).                      (* a []string *)
Definition hmap := list (bytes * sl).                            (* map[string][]string, []*Header *)

Definition upd (c : nat -> nat -> bytes) (id i : nat) (x : bytes) : nat -> nat -> bytes :=
  fun id' i' => if Nat.eqb id' id && Nat.eqb i' i then x else c id' i'.
Definition sl_val (h : heap) (s : sl) : list bytes :=
  match s with SNil => [] | SRef id n => map (cells h id) (seq 0 n) end.
(* append(s, x): a nil slice gets a new array, any other is extended in place *)
Definition sl_append (h : heap) (s : sl) (x : bytes) : heap * sl :=
  match s with
  | SNil => (Heap (upd (cells h) (next h) 0 x) (S (next h)), SRef (next h) 1)
  | SRef id n => (Heap (upd (cells h) id n x) (next h), SRef id (S n))
  end.
Definition image (h : heap) (m : hmap) : list header := map (fun ks => (fst ks, sl_val h (snd ks))) m.

(* m[k] = append(m[k], x) *)
Fixpoint hm_add (k x : bytes) (h : heap) (m : hmap) : heap * hmap :=
  match m with
  | [] => let (h', s) := sl_append h SNil x in (h', [(k, s)])
  | (k', s) :: m' =>
    if bytes_eqb k k' then let (h', s') := sl_append h s x in (h', (k', s') :: m')
    else let (h', m'') := hm_add k x h m' in (h', (k', s) :: m'')
  end.
(* m[k] = append(m[k]) with nothing to append: the key exists afterwards *)
Fixpoint hm_touch (k : bytes) (m : hmap) : hmap :=
  match m with
  | [] => [(k, SNil)]
  | (k', s) :: m' => if bytes_eqb k k' then m else (k', s) :: hm_touch k m'
  end.
Definition hm_has (k : bytes) (m : hmap) : bool := existsb (fun ks => bytes_eqb k (fst ks)) m.

Section HeapConv.
  Variable share : bool.                     (* the variant: keep the source's slice for a new key *)
  Variable touch : bool.                     (* the key is created even for an empty value list *)
  Variable keyf : bytes -> bytes.
  Variable valf : bytes -> bytes -> bytes.   (* key, value -> stored value *)

  Definition conv_one (st : heap * hmap) (hd : bytes * sl) : heap * hmap :=
    let k := keyf (fst hd) in
    let vs := sl_val (fst st) (snd hd) in
    if share && negb (is_nil vs) && negb (hm_has k (snd st)) then (fst st, snd st ++ [(k, snd hd)])
    else fold_left (fun st v => hm_add k (valf k v) (fst st) (snd st)) vs
                   (fst st, if touch then hm_touch k (snd st) else snd st).
  Definition conv_h (src : hmap) (st : heap * hmap) : heap * hmap := fold_left conv_one src st.

  (* the value-level conversion all five functions are instances of *)
  Definition conv_v (src : list header) (dest : md) : md :=
    fold_left (fun m h => let k := keyf (fst h) in
                 fold_left (fun m v => md_append k [valf k v] m) (snd h)
                           (if touch then md_append k [] m else m)) src dest.
End HeapConv.

Definition val_id (_ v : bytes) : bytes := v.
(* which conversion: 0 AddHeaders, 1 AddTrailers, 2 ConvertToProtoHeader,
   3 ConvertProtoHeaderToMetadata, 4 ConvertMetadataToProtoHeader *)
Definition fn_touch (fn : Z) : bool := negb ((fn =? 0)%Z || (fn =? 1)%Z).
Definition fn_key (fn : Z) : bytes -> bytes :=
  if (fn =? 0)%Z then canonical_key else if (fn =? 1)%Z then trailer_key
  else if (fn =? 3)%Z then lower else (fun k => k).
Definition fn_val (b64enc : bytes -> bytes) (b64dec : bytes -> option bytes) (fn : Z) : bytes -> bytes -> bytes :=
  if (fn =? 3)%Z then (fun k v => if is_bin k then decode_or_raw b64dec v else v)
  else if (fn =? 4)%Z then (fun k v => if is_bin k then b64enc v else v)
  else val_id.

(* a history in which the converted structures are used further.  The source list is in memory
   (arrays with spare capacity); destination A is filled from it, then a sibling destination B;
   x1 is appended to every value list of A, x2 to every value list of B; then every array of
   the source is scribbled over (which includes appending to the source's slices).  Observed: A
   right after the conversion, A and B at the end. *)
Definition heap0 : heap := Heap (fun _ _ => []) 0.
Definition alloc_list (h : heap) (vs : list bytes) : heap * sl :=
  (Heap (fun id i => if Nat.eqb id (next h) then nth i vs [] else cells h id i) (S (next h)),
   SRef (next h) (length vs)).
Fixpoint alloc_src (h : heap) (hs : list header) : heap * hmap :=
  match hs with
  | [] => (h, [])
  | (n, vs) :: r => let (h1, s) := alloc_list h vs in let (h2, m) := alloc_src h1 r in (h2, (n, s) :: m)
  end.
Fixpoint append_all (x : bytes) (h : heap) (m : hmap) : heap * hmap :=
  match m with
  | [] => (h, [])
  | (k, s) :: m' =>
    let (h1, s') := sl_append h s x in let (h2, m'') := append_all x h1 m' in (h2, (k, s') :: m'')
  end.
Definition scribble_mark : bytes := bs "#".
Definition scribble (h : heap) (ks : bytes * sl) : heap :=
  match snd ks with
  | SNil => h
  | SRef id _ => Heap (fun id' i => if Nat.eqb id' id then scribble_mark else cells h id' i) (next h)
  end.

Definition alias_history (conv : hmap -> heap * hmap -> heap * hmap) (hs : list header) (x1 x2 : bytes)
  : list header * list header * list header :=
  let (h0, src) := alloc_src heap0 hs in
  let (h1, A) := conv src (h0, []) in
  let img0 := image h1 A in
  let (h2, B) := conv src (h1, []) in
  let (h3, A') := append_all x1 h2 A in
  let (h4, B') := append_all x2 h3 B in
  let h5 := fold_left scribble src h4 in
  (img0, image h5 A', image h5 B').

(* ====================================================================== *)
(* 3. Percent-encoding of grpc-message                                     *)
(* ====================================================================== *)
(* ShouldEscapeByteInMessage: char < ' ' || char > '~' || char == '%' *)
Definition should_escape (c : N) : bool := (c <? 32) || (126 <? c) || (c =? 37).
(* upperhex[n] *)
Definition hex_digit (n : N) : N := if n <? 10 then 48 + n else 55 + n.
Definition escape_byte (c : N) : bytes :=
  if should_escape c then [37; hex_digit (c / 16); hex_digit (c mod 16)] else [c].

(* PercentEncodeMessage: count first, return msg itself when nothing is to be escaped *)
Definition percent_encode (m : bytes) : bytes :=
  if existsb should_escape m then flat_map escape_byte m else m.

(* the decoder the repository pairs it with: url.PathUnescape (wire_details.go) *)
Definition unhex (c : N) : option N :=
  if (48 <=? c) && (c <=? 57) then Some (c - 48)
  else if (97 <=? c) && (c <=? 102) then Some (c - 87)
  else if (65 <=? c) && (c <=? 70) then Some (c - 55)
  else None.

Fixpoint percent_decode (s : bytes) : option bytes :=
  match s with
  | [] => Some []
  | c :: r =>
    if c =? 37 then
      match r with
      | a :: b :: r' =>
        match unhex a, unhex b, percent_decode r' with
        | Some x, Some y, Some d => Some ((x * 16 + y) :: d)
        | _, _, _ => None
        end
      | _ => None
      end
    else match percent_decode r with Some d => Some (c :: d) | None => None end
  end.

(* ====================================================================== *)
(* 4. Strict codecs                                                        *)
(* ====================================================================== *)
(* A parsed protobuf message, as far as the codecs care: opaque recognised content,
   the bytes of the unrecognised fields kept at this level (ProtoReflect().GetUnknown()),
   and the populated message-typed fields / list elements / map values below it. *)
Inductive pmsg := PMsg (known : bytes) (unknown : bytes) (subs : list pmsg).

Definition top_unknown (m : pmsg) : bytes := match m with PMsg _ u _ => u end.
Fixpoint clean (m : pmsg) : bool :=
  match m with PMsg _ u subs => is_nil u && forallb clean subs end.
Fixpoint strip (m : pmsg) : pmsg :=
  match m with PMsg k _ subs => PMsg k [] (map strip subs) end.

Inductive codec_result := COk (m : pmsg) | CErrUnknown | CErrMalformed.

Section Codecs.
  Variable wire : Type.
  Variable marshal_bin : pmsg -> wire.                    (* proto.Marshal *)
  Variable unmarshal_bin : wire -> option pmsg.           (* proto.Unmarshal *)
  Variable marshal_json : pmsg -> wire.                   (* protojson.Marshal *)
  Variable unmarshal_json : bool -> wire -> option pmsg.  (* protojson.UnmarshalOptions{DiscardUnknown: b} *)

  (* StrictJSONCodec *)
  Definition strict_json_marshal (m : pmsg) : wire := marshal_json m.
  Definition strict_json_unmarshal (d : wire) : codec_result :=
    match unmarshal_json false d with Some m => COk m | None => CErrMalformed end.

  (* StrictProtoCodec.  The pinned MarshalAppend called protojson (defect #11) and the
     pinned Unmarshal looked at the top-level unknown bytes only (defect #12). *)
  Definition strict_proto_marshal (m : pmsg) : wire := marshal_bin m.
  Definition strict_proto_marshal_pinned (m : pmsg) : wire := marshal_json m.
  Definition strict_proto_unmarshal (d : wire) : codec_result :=
    match unmarshal_bin d with
    | None => CErrMalformed
    | Some m => if clean m then COk m else CErrUnknown
    end.
  Definition strict_proto_unmarshal_pinned (d : wire) : codec_result :=
    match unmarshal_bin d with
    | None => CErrMalformed
    | Some m => if is_nil (top_unknown m) then COk m else CErrUnknown
    end.
End Codecs.

(* A message OBJECT with a history.  Marshal is a function of the value the object holds now.
   protobuf-go keeps hidden state in the object (the size of every nested message as computed
   by the last Size/Marshal); `cached = true` is the variant that trusts it
   (MarshalOptions{UseCachedSize: true}, seeded change C18-11): after a change in a nested
   message the sizes are stale and the encoder reports a size mismatch. *)
Inductive sizing := NotSized | Sized | Stale.
Record mobj := MObj { o_cur : pmsg; o_sizing : sizing }.
Inductive hop := HSet (m : pmsg) | HSize | HMarshal.

Section CodecHist.
  Variable wire : Type.
  Variable marshal : pmsg -> wire.
  Variable unmarshal : wire -> codec_result.
  Variable cached : bool.

  Definition obj_marshal (o : mobj) : option wire :=
    if cached then match o_sizing o with Stale => None | _ => Some (marshal (o_cur o)) end
    else Some (marshal (o_cur o)).
  Definition after_sizing (o : mobj) : mobj :=
    MObj (o_cur o) (if cached then match o_sizing o with Stale => Stale | _ => Sized end else Sized).
  (* the results of the Marshal calls of the history: None = Marshal failed, else what
     Unmarshal makes of the output *)
  Fixpoint run_hist (ops : list hop) (o : mobj) : list (option codec_result) :=
    match ops with
    | [] => []
    | HSet m :: r => run_hist r (MObj m (match o_sizing o with NotSized => NotSized | _ => Stale end))
    | HSize :: r => run_hist r (after_sizing o)
    | HMarshal :: r =>
      match obj_marshal o with
      | Some w => Some (unmarshal w) :: run_hist r (after_sizing o)
      | None => None :: run_hist r o
      end
    end.
End CodecHist.
(* the value the object holds at each Marshal of the history *)
Fixpoint values_at_marshal (ops : list hop) (cur : pmsg) : list pmsg :=
  match ops with
  | [] => []
  | HSet m :: r => values_at_marshal r m
  | HSize :: r => values_at_marshal r cur
  | HMarshal :: r => cur :: values_at_marshal r cur
  end.

(* 4b. The OUTPUTS of the codec are values.  A Go byte slice is a view of an array: what Marshal /
   MarshalAppend / MarshalStable return must stay what it was when later calls are made (the
   reference client encodes a request message, keeps the bytes and encodes the next one).
   Memory of outputs = list of cells; a returned slice = the index of its cell.  `pooled = true`
   is the variant whose result is a view of a scratch buffer that the next call takes again
   (sync.Pool + buf.Bytes(), seeded change C18-27): every call writes the same cell. *)
Section CodecKeep.
  Variable wire : Type.
  Variable marshal : pmsg -> wire.
  Variable unmarshal : wire -> codec_result.
  Variable pooled : bool.

  Definition oheap := list wire.
  Definition out_alloc (h : oheap) (w : wire) : oheap * nat := (h ++ [w], length h).
  Definition out_write (h : oheap) (i : nat) (w : wire) : oheap := firstn i h ++ w :: skipn (S i) h.
  (* state: the cells and the cell of the scratch buffer, once there is one *)
  Definition marshal_call (st : oheap * option nat) (m : pmsg) : (oheap * option nat) * nat :=
    let '(h, scratch) := st in
    if pooled then
      match scratch with
      | Some i => ((out_write h i (marshal m), Some i), i)
      | None => let '(h', i) := out_alloc h (marshal m) in ((h', Some i), i)
      end
    else let '(h', i) := out_alloc h (marshal m) in ((h', scratch), i).
  (* the history of one message object as in section 4; every output is KEPT *)
  Fixpoint run_keep (ops : list hop) (cur : pmsg) (st : oheap * option nat) : oheap * list nat :=
    match ops with
    | [] => (fst st, [])
    | HSet m :: r => run_keep r m st
    | HSize :: r => run_keep r cur st
    | HMarshal :: r =>
      let '(st', i) := marshal_call st cur in
      let '(h, outs) := run_keep r cur st' in (h, i :: outs)
    end.
  (* ... and read again after ALL calls of the history, in the memory as it is then *)
  Definition reread_outputs (ops : list hop) (cur : pmsg) : list (option codec_result) :=
    let '(h, outs) := run_keep ops cur ([], None) in
    map (fun i => option_map unmarshal (nth_error h i)) outs.
End CodecKeep.

(* ====================================================================== *)
(* 5. Instances used by the extracted model                                *)
(* ====================================================================== *)
(* connect-go v1.18: NewErrorDetail keeps an *anypb.Any as it is and never fails on one *)
Definition new_detail_i (a : any) : option cdetail := Some a.
Definition d_type_i (d : cdetail) : bytes := type_name (fst d).
Definition d_bytes_i (d : cdetail) : bytes := snd d.

(* base64 as Go's encoding/base64 behaves under connect.Encode/DecodeBinaryHeader:
   encode = RawStdEncoding; decode = RawStdEncoding when len%4 <> 0, else StdEncoding;
   '\r' and '\n' are skipped; non-zero trailing bits are accepted (non-strict). *)
Definition b64_char (n : N) : N :=
  if n <? 26 then 65 + n else if n <? 52 then 71 + n else if n <? 62 then n - 4
  else if n =? 62 then 43 else 47.
Fixpoint b64_encode (s : bytes) : bytes :=
  match s with
  | a :: b :: c :: r =>
    b64_char (a / 4) :: b64_char ((a mod 4) * 16 + b / 16) :: b64_char ((b mod 16) * 4 + c / 64)
      :: b64_char (c mod 64) :: b64_encode r
  | [a; b] => [b64_char (a / 4); b64_char ((a mod 4) * 16 + b / 16); b64_char ((b mod 16) * 4)]
  | [a] => [b64_char (a / 4); b64_char ((a mod 4) * 16)]
  | [] => []
  end.
Definition b64_val (c : N) : option N :=
  if (65 <=? c) && (c <=? 90) then Some (c - 65)
  else if (97 <=? c) && (c <=? 122) then Some (c - 71)
  else if (48 <=? c) && (c <=? 57) then Some (c + 4)
  else if c =? 43 then Some 62 else if c =? 47 then Some 63 else None.
Fixpoint b64_vals (s : bytes) : option (list N) :=
  match s with
  | [] => Some []
  | c :: r => match b64_val c, b64_vals r with Some v, Some l => Some (v :: l) | _, _ => None end
  end.
Fixpoint b64_groups (l : list N) : option bytes :=
  match l with
  | a :: b :: c :: d :: r =>
    match b64_groups r with
    | Some t => Some ((a * 4 + b / 16) :: ((b mod 16) * 16 + c / 4) :: ((c mod 4) * 64 + d) :: t)
    | None => None
    end
  | [a; b; c] => Some [a * 4 + b / 16; (b mod 16) * 16 + c / 4]
  | [a; b] => Some [a * 4 + b / 16]
  | [_] => None
  | [] => Some []
  end.
Definition b64_decode_raw (s : bytes) : option bytes :=
  match b64_vals s with Some l => b64_groups l | None => None end.
Definition pad : N := 61.
Definition b64_decode_std (s : bytes) : option bytes :=
  let n := N.of_nat (length s) in
  if negb (n mod 4 =? 0) then None
  else match rev s with
       | p1 :: p2 :: body =>
         if (p1 =? pad) && (p2 =? pad) then b64_decode_raw (rev body)
         else if p1 =? pad then b64_decode_raw (rev (p2 :: body))
         else b64_decode_raw s
       | _ => b64_decode_raw s
       end.
Definition is_newline (c : N) : bool := (c =? 10) || (c =? 13).
Definition b64enc_i (s : bytes) : bytes := b64_encode s.
Definition b64dec_i (s : bytes) : option bytes :=
  let t := filter (fun c => negb (is_newline c)) s in
  if N.of_nat (length s) mod 4 =? 0 then b64_decode_std t else b64_decode_raw t.

(* the marshal oracles at contract level: the wire value is the message tagged with its
   format; JSON output carries no unknown fields; strict JSON parsing refuses them *)
Definition wire_i := (N * pmsg)%type.         (* 0 = binary, 1 = JSON *)
Definition marshal_bin_i (m : pmsg) : wire_i := (0, m).
Definition unmarshal_bin_i (w : wire_i) : option pmsg := if fst w =? 0 then Some (snd w) else None.
Definition marshal_json_i (m : pmsg) : wire_i := (1, strip m).
Definition unmarshal_json_i (discard : bool) (w : wire_i) : option pmsg :=
  if fst w =? 1 then
    if discard then Some (strip (snd w)) else if clean (snd w) then Some (snd w) else None
  else None.

(* ====================================================================== *)
(* 6. Case decoding / result encoding                                      *)
(* ====================================================================== *)
Definition un_any (s : sx) : option any :=
  match s with L [B u; B v] => Some (u, v) | _ => None end.
Definition sx_any (a : any) : sx := L [B (fst a); B (snd a)].
Definition un_perr (s : sx) : option perr :=
  match s with
  | L [I c; m; ds] =>
    do m <- un_opt un_B m; do ds <- un_listof un_any ds; ret (PErr c m ds)
  | _ => None
  end.
Definition sx_perr (e : perr) : sx :=
  L [I (p_code e); sx_opt B (p_msg e); sx_list sx_any (p_details e)].
(* a Connect error as an observer sees it: Code(), Message(), (Type(), Bytes()) of each detail *)
Definition sx_cerr (e : cerr) : sx :=
  L [I (c_code e); B (c_msg e); sx_list (fun d => L [B (d_type_i d); B (d_bytes_i d)]) (c_details e)].
Definition sx_gstat (o : option gstat) : sx :=
  match o with
  | None => L []
  | Some s => L [L [I (g_code s); B (g_msg s); sx_list sx_any (g_details s)]]
  end.

Definition c_of_p := connect_of_proto new_detail_i.
Definition p_of_c := proto_of_connect d_type_i d_bytes_i.

(* c18.err_connect: perr -> (connect view, proto again) *)
Definition run_c18_err_connect (args : list sx) : sx :=
  or_bad (match args with
  | [e] => do e <- un_perr e; let c := c_of_p e in ret (L [sx_cerr c; sx_perr (p_of_c c)])
  | _ => None end).

(* c18.err_go: wrap-kind text perr -> (ConvertErrorToConnectError view, ConvertErrorToProtoError) *)
Definition run_c18_err_go (args : list sx) : sx :=
  or_bad (match args with
  | [I k; B text; e] =>
    do e <- un_perr e;
    let c := c_of_p e in
    let g := if (k =? 0)%Z then GoPlain text else if (k =? 1)%Z then GoConnect c else GoWrapped text c in
    ret (L [sx_cerr (connect_of_error g); sx_perr (proto_of_error d_type_i d_bytes_i g)])
  | _ => None end).

(* c18.err_grpc: wrap-kind text perr -> (status view, proto again) *)
Definition run_c18_err_grpc (args : list sx) : sx :=
  or_bad (match args with
  | [I k; B text; e] =>
    do e <- un_perr e;
    let s := grpc_of_proto e in
    ret (L [sx_gstat s;
            match s with
            | None => if (k =? 1)%Z then L [sx_perr (proto_of_grpc (GrpcPlain text))] else L []
            | Some st =>
              L [sx_perr (proto_of_grpc (if (k =? 0)%Z then GrpcStatus st
                                         else if (k =? 1)%Z then GrpcPlain text else GrpcWrapped text st))]
            end])
  | _ => None end).

Definition un_header (s : sx) : option header :=
  match s with L [B n; vs] => do vs <- un_listof un_B vs; ret (n, vs) | _ => None end.
Definition sx_header (h : header) : sx := L [B (fst h); sx_list B (snd h)].

(* Go map iteration order is not observable: both sides print entries sorted by key *)
Fixpoint insert_hdr (h : header) (l : list header) : list header :=
  match l with
  | [] => [h]
  | y :: l' => if bytes_leb (fst h) (fst y) then h :: l else y :: insert_hdr h l'
  end.
Definition sort_hdrs (l : list header) : list header := fold_right insert_hdr [] l.
Definition sx_headers (l : list header) : sx := sx_list sx_header (sort_hdrs l).

Definition md_of_proto_i := md_of_proto b64dec_i.
Definition proto_of_md_i := proto_of_md b64enc_i.

(* c18.md: headers -> (metadata, headers again) *)
Definition run_c18_md (args : list sx) : sx :=
  or_bad (match args with
  | [hs] => do hs <- un_listof un_header hs;
    let m := md_of_proto_i hs in ret (L [sx_headers m; sx_headers (proto_of_md_i m)])
  | _ => None end).

(* c18.md_back: metadata given directly -> headers *)
Definition run_c18_md_back (args : list sx) : sx :=
  or_bad (match args with
  | [hs] => do hs <- un_listof un_header hs;
    let m := fold_left (fun m h => md_assign (fst h) (snd h) m) hs [] in
    ret (sx_headers (proto_of_md_i m))
  | _ => None end).

(* c18.outgoing: headers -> (outgoing metadata, what the peer reports) *)
Definition run_c18_outgoing (args : list sx) : sx :=
  or_bad (match args with
  | [hs] => do hs <- un_listof un_header hs;
    let m := grpc_outgoing_md (outgoing_pairs b64dec_i hs) in
    ret (L [sx_headers m; sx_headers (proto_of_md_i m)])
  | _ => None end).

(* c18.http: AddHeaders / AddTrailers into an empty http.Header, ConvertToProtoHeader back *)
Definition run_c18_http (args : list sx) : sx :=
  or_bad (match args with
  | [I t; hs] => do hs <- un_listof un_header hs;
    ret (sx_headers (convert_to_proto_header
                       (if (t =? 0)%Z then add_headers hs [] else add_trailers hs [])))
  | _ => None end).

(* c18.escape: one byte -> ShouldEscapeByteInMessage *)
Definition run_c18_escape (args : list sx) : sx :=
  or_bad (match args with
  | [I c] => ret (sx_bool (should_escape (Z.to_N c)))
  | _ => None end).

(* c18.percent: msg -> (encoded, decoded-again) *)
Definition run_c18_percent (args : list sx) : sx :=
  or_bad (match args with
  | [B m] => let e := percent_encode m in ret (L [B e; sx_opt B (percent_decode e)])
  | _ => None end).

(* c18.unpercent: arbitrary text -> url.PathUnescape *)
Definition run_c18_unpercent (args : list sx) : sx :=
  or_bad (match args with
  | [B m] => ret (sx_opt B (percent_decode m))
  | _ => None end).

(* c18.b64: text -> DecodeBinaryHeader, and EncodeBinaryHeader of the text *)
Definition run_c18_b64 (args : list sx) : sx :=
  or_bad (match args with
  | [B m] => ret (L [sx_opt B (b64dec_i m); B (b64enc_i m)])
  | _ => None end).

Fixpoint un_pmsg_fuel (fuel : nat) (s : sx) : option pmsg :=
  match fuel with
  | O => None
  | S f =>
    match s with
    | L [B k; B u; L subs] => do subs <- un_list (un_pmsg_fuel f) subs; ret (PMsg k u subs)
    | _ => None
    end
  end.
Definition un_pmsg := un_pmsg_fuel 16.

Definition sx_codec_result (r : codec_result) : sx :=
  match r with
  | COk m => B (bs (if clean m then "ok" else "ok-with-unknown"))
  | CErrUnknown | CErrMalformed => B (bs "err")   (* error texts are not compared *)
  end.

(* c18.codec_rt: codec msg -> (format of Marshal's output, result of Unmarshal on it)
   codec 0 = StrictProtoCodec, 1 = StrictJSONCodec; the message carries no unknown fields *)
Definition run_c18_codec_rt (args : list sx) : sx :=
  or_bad (match args with
  | [I c; m] => do m <- un_pmsg m;
    let m := strip m in
    if (c =? 0)%Z then
      let w := strict_proto_marshal _ marshal_bin_i m in
      ret (L [sx_N (fst w); sx_codec_result (strict_proto_unmarshal _ unmarshal_bin_i w)])
    else
      let w := strict_json_marshal _ marshal_json_i m in
      ret (L [sx_N (fst w); sx_codec_result (strict_json_unmarshal _ unmarshal_json_i w)])
  | _ => None end).

(* c18.codec_unknown: codec msg -> result of Unmarshal on data that encodes msg,
   unknown fields included *)
Definition run_c18_codec_unknown (args : list sx) : sx :=
  or_bad (match args with
  | [I c; m] => do m <- un_pmsg m;
    if (c =? 0)%Z then ret (sx_codec_result (strict_proto_unmarshal _ unmarshal_bin_i (0, m)))
    else ret (sx_codec_result (strict_json_unmarshal _ unmarshal_json_i (1, m)))
  | _ => None end).

(* c18.alias_http (fn 0,1,2) / c18.alias_md (fn 3,4): fn headers x1 x2 -> (A after the conversion,
   A at the end, B at the end).  For the two functions that read a Go map the list is made a map
   first (unique keys, last assignment wins). *)
Definition conv_i (fn : Z) : hmap -> heap * hmap -> heap * hmap :=
  conv_h false (fn_touch fn) (fn_key fn) (fn_val b64enc_i b64dec_i fn).
Definition alias_source (fn : Z) (hs : list header) : list header :=
  if (fn =? 2)%Z || (fn =? 4)%Z then fold_left (fun m h => md_assign (fst h) (snd h) m) hs [] else hs.
Definition run_c18_alias (args : list sx) : sx :=
  or_bad (match args with
  | [I fn; hs; B x1; B x2] => do hs <- un_listof un_header hs;
    if ((fn <? 0) || (4 <? fn))%Z then None else
    let '(a0, a1, b1) := alias_history (conv_i fn) (alias_source fn hs) x1 x2 in
    ret (L [sx_headers a0; sx_headers a1; sx_headers b1])
  | _ => None end).

(* c18.codec_hist: codec family ((k msg)...) -> the result of every Marshal of the history.
   Step k = 0: the object is changed to hold msg, Marshal; 1: changed, Size, Marshal;
   2: changed, Size only.  family (which Go message type carries the tree) is the harness's. *)
Definition un_hstep (s : sx) : option (list hop) :=
  match s with
  | L [I k; m] => do m <- un_pmsg m;
    let m := strip m in
    if (k =? 0)%Z then ret [HSet m; HMarshal]
    else if (k =? 1)%Z then ret [HSet m; HSize; HMarshal]
    else if (k =? 2)%Z then ret [HSet m; HSize] else None
  | _ => None
  end.
Definition sx_hist_result (r : option codec_result) : sx :=
  match r with Some c => sx_codec_result c | None => B (bs "marshal-err") end.
Definition run_c18_codec_hist (args : list sx) : sx :=
  or_bad (match args with
  | [I c; I _; steps] => do steps <- un_listof un_hstep steps;
    let ops := concat steps in
    let o := MObj (PMsg [] [] []) NotSized in
    ret (sx_list sx_hist_result
      (if (c =? 0)%Z then run_hist _ (strict_proto_marshal _ marshal_bin_i) (strict_proto_unmarshal _ unmarshal_bin_i) false ops o
       else run_hist _ (strict_json_marshal _ marshal_json_i) (strict_json_unmarshal _ unmarshal_json_i) false ops o))
  | _ => None end).

(* c18.codec_keep: same case format as c18.codec_hist; every output of the history (Marshal,
   MarshalAppend, MarshalStable of each encoding step) is kept and decoded only after the last call *)
Definition run_c18_codec_keep (args : list sx) : sx :=
  or_bad (match args with
  | [I c; I _; steps] => do steps <- un_listof un_hstep steps;
    let ops := concat steps in
    ret (sx_list sx_hist_result
      (if (c =? 0)%Z then reread_outputs _ (strict_proto_marshal _ marshal_bin_i) (strict_proto_unmarshal _ unmarshal_bin_i) false ops (PMsg [] [] [])
       else reread_outputs _ (strict_json_marshal _ marshal_json_i) (strict_json_unmarshal _ unmarshal_json_i) false ops (PMsg [] [] [])))
  | _ => None end).

Definition c18_table : list (bytes * (list sx -> sx)) :=
  [ (bs "c18.err_connect", run_c18_err_connect);
    (bs "c18.err_go", run_c18_err_go);
    (bs "c18.err_grpc", run_c18_err_grpc);
    (bs "c18.md", run_c18_md);
    (bs "c18.md_back", run_c18_md_back);
    (bs "c18.outgoing", run_c18_outgoing);
    (bs "c18.http", run_c18_http);
    (bs "c18.escape", run_c18_escape);
    (bs "c18.percent", run_c18_percent);
    (bs "c18.unpercent", run_c18_unpercent);
    (bs "c18.b64", run_c18_b64);
    (bs "c18.codec_rt", run_c18_codec_rt);
    (bs "c18.codec_unknown", run_c18_codec_unknown);
    (bs "c18.codec_hist", run_c18_codec_hist);
    (bs "c18.codec_keep", run_c18_codec_keep);
    (bs "c18.alias_http", run_c18_alias);
    (bs "c18.alias_md", run_c18_alias) ].
