(* C12_Consts.v - REGENERATED on every run from the compiled Go code by TestVerifConsts
   (harness/C12); do not edit. *)
From Coq Require Import ZArith NArith List.
Import ListNotations.
Definition c12_http_versions : list Z := [0; 1; 2; 3]%Z.
Definition c12_protocols : list Z := [0; 1; 2; 3]%Z.
Definition c12_codecs : list Z := [0; 1; 2; 3]%Z.
Definition c12_compressions : list Z := [0; 1; 2; 3; 4; 5; 6]%Z.
Definition c12_codec_names : list (Z * list N) := [(1%Z, [112; 114; 111; 116; 111]%N); (2%Z, [106; 115; 111; 110]%N)].
Definition c12_compression_names : list (Z * list N) := [(1%Z, [105; 100; 101; 110; 116; 105; 116; 121]%N); (2%Z, [103; 122; 105; 112]%N); (3%Z, [98; 114]%N); (4%Z, [122; 115; 116; 100]%N); (5%Z, [100; 101; 102; 108; 97; 116; 101]%N); (6%Z, [115; 110; 97; 112; 112; 121]%N)].
Definition c12_connect_max_digits : Z := 10%Z.
Definition c12_grpc_max_digits : Z := 8%Z.
Definition c12_grpc_units : list (N * Z) := [(72%N, 3600000000000%Z); (77%N, 60000000000%Z); (83%N, 1000000000%Z); (109%N, 1000000%Z); (110%N, 1%Z); (117%N, 1000%Z)].
Definition c12_client_cert_name : list N := [67; 111; 110; 102; 111; 114; 109; 97; 110; 99; 101; 32; 67; 108; 105; 101; 110; 116]%N.
