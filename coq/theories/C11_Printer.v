(* C11_Printer.v — executable model of internal/printer.go (safePrinter.PrefixPrintf), the helper
   through which a reference server writes its feedback lines to stderr (feedbackPrinter ->
   PrefixPrintf(test name, format, args)) and through which the runner passes other stderr
   output on (errPrinter.PrefixPrintf("referenceserver", "%s", line)).

   Several goroutines call PrefixPrintf concurrently (one per request being handled).  A call is
       mu.Lock · write(prefix ++ ": ") · write(formatted message) · newline if the last byte written
       is not one · mu.Unlock
   Each of these is one atomic step of the model; a SCHEDULE (a list of goroutine numbers) says
   who moves next; a goroutine that wants the mutex while another holds it does not move.
   The prefix is written through "%s", i.e. VERBATIM — it is never part of a format string — so a
   call is the pair (prefix, formatted message).
   `split = true` is the variant that lets go of the mutex between prefix and message (kept for
   the counter-example only; the table uses false).  No proofs here. *)
From V Require Export Base.
Open Scope N_scope.

Record pcall := mkCall { pc_prefix : bytes; pc_msg : bytes }.

Definition colon_sp : bytes := [58; 32].
(* peekWriter.last after the message has been written is the message's last byte, or the blank of
   ": " for an empty message *)
Definition ends_nl (m : bytes) : bool := List.last m 0 =? 10.
Definition nl_if_missing (m : bytes) : bytes := if ends_nl m then [] else [10].
(* what one call puts on the stream *)
Definition line_of (c : pcall) : bytes :=
  pc_prefix c ++ colon_sp ++ pc_msg c ++ nl_if_missing (pc_msg c).

(* where a goroutine is inside its current call *)
Inductive ppc := PIdle | PHeld | PWant | PPrefixed | PMsged.
Record thread := mkT { t_pc : ppc; t_todo : list pcall }.

Record prst := mkPS {
  ps_out : bytes;               (* what has reached the underlying writer *)
  ps_lock : option nat;         (* who holds mu *)
  ps_thr : list thread;
  ps_done : list pcall }.       (* history: the calls that have returned, in that order *)

Fixpoint upd {A} (g : nat) (x : A) (l : list A) : list A :=
  match l, g with
  | [], _ => []
  | _ :: r, O => x :: r
  | y :: r, S k => y :: upd k x r
  end.

Definition pstep (split : bool) (s : prst) (g : nat) : prst :=
  match nth_error s.(ps_thr) g with
  | None => s
  | Some t =>
    match t.(t_todo) with
    | [] => s
    | c :: rest =>
      let set pc := upd g (mkT pc t.(t_todo)) s.(ps_thr) in
      match t.(t_pc) with
      | PIdle =>
        match s.(ps_lock) with
        | None => mkPS s.(ps_out) (Some g) (set PHeld) s.(ps_done)
        | Some _ => s
        end
      | PHeld =>
        let out := s.(ps_out) ++ pc_prefix c ++ colon_sp in
        if split then mkPS out None (set PWant) s.(ps_done)
        else mkPS out s.(ps_lock) (set PPrefixed) s.(ps_done)
      | PWant =>
        match s.(ps_lock) with
        | None => mkPS s.(ps_out) (Some g) (set PPrefixed) s.(ps_done)
        | Some _ => s
        end
      | PPrefixed => mkPS (s.(ps_out) ++ pc_msg c) s.(ps_lock) (set PMsged) s.(ps_done)
      | PMsged =>
        let nl := if List.last s.(ps_out) 0 =? 10 then [] else [10] in
        mkPS (s.(ps_out) ++ nl) None (upd g (mkT PIdle rest) s.(ps_thr)) (s.(ps_done) ++ [c])
      end
    end
  end.

Definition prun (split : bool) (sched : list nat) (s : prst) : prst :=
  fold_left (pstep split) sched s.
Definition pinit (progs : list (list pcall)) : prst :=
  mkPS [] None (map (mkT PIdle) progs) [].
Definition pfinished (s : prst) : bool :=
  forallb (fun t => match t.(t_todo) with [] => true | _ => false end) s.(ps_thr).

(* one goroutine after the other, each call in four steps: a schedule under which everybody
   finishes (used by the case decoder; the theorems are about ALL schedules) *)
Fixpoint seq_sched (g : nat) (progs : list (list pcall)) : list nat :=
  match progs with
  | [] => []
  | p :: r => repeat g (4 * length p) ++ seq_sched (S g) r
  end.
