(* C16_Hdr.v — the request-header store of a client-side trace (builder.go newBuilder, client
   branch) and what the delivered trace's first event hands out.

   On the client side the request headers are not read from the request: net/http reports
   every header field it writes through the httptrace hook WroteHeaderField, from the
   TRANSPORT's goroutine, and the hook stores it (under headersMu) in one map, the LIVE map.
   The hook is not tied to the builder: it goes on storing fields after the trace was
   completed (a cancellation completes the trace at once, while the transport may still be
   writing the header block).  The RequestStart event of the trace does not hold headers but
   a function, getHeaders, which the consumers call (Trace.Print -> printHeaders iterates
   the map it returns, without any lock): it must therefore hand out a value that nobody
   writes any more - a CLONE of the live map taken under the lock.

   Memory is explicit here, as in the trailer part of C16_Mw: maps are cells; reference 0 is
   the live map, references 1, 2, ... are the clones in order of allocation.  `h_got` records
   every value handed out by the delivered trace (the reference and the contents at that
   moment): the first by the collector at completion, the others by later reads.
   No proofs here (C16_HdrProofs.v). *)
From V Require Export C16_Run.
Open Scope N_scope.

(* a header map in its canonical projection: sorted by key, one value per key (last write wins) *)
Definition hmap := list (N * N).

Fixpoint hset (k v : N) (m : hmap) : hmap :=
  match m with
  | [] => [(k, v)]
  | (k', v') :: m' =>
    if k =? k' then (k, v) :: m'
    else if k <? k' then (k, v) :: m
    else (k', v') :: hset k v m'
  end.

Inductive hact :=
| HField (k v : N)   (* the transport reports a header field (key 0 = an HTTP/2 pseudo-header, ":path") *)
| HComplete          (* the operation is cancelled: the trace completes, the collector takes the request headers *)
| HRead.             (* a consumer calls getHeaders of the delivered trace's RequestStart *)

(* what getHeaders hands out: a clone taken under the lock (the code), or the live map itself *)
Inductive hpolicy := HClone | HLive.

Record hstate := mkH {
  h_live : hmap;               (* cell 0 *)
  h_clones : list hmap;        (* cells 1.. *)
  h_done : bool;               (* the trace was delivered *)
  h_got : list (nat * hmap)    (* handed out: (reference, contents when handed out) *)
}.

Definition h_init : hstate := mkH [] [] false [].

Definition deref (s : hstate) (r : nat) : hmap :=
  match r with O => s.(h_live) | S i => nth i s.(h_clones) [] end.

Definition get_headers (p : hpolicy) (s : hstate) : hstate :=
  match p with
  | HLive => mkH s.(h_live) s.(h_clones) s.(h_done) (s.(h_got) ++ [(O, s.(h_live))])
  | HClone => mkH s.(h_live) (s.(h_clones) ++ [s.(h_live)]) s.(h_done)
                  (s.(h_got) ++ [(S (length s.(h_clones)), s.(h_live))])
  end.

Definition hstep (p : hpolicy) (s : hstate) (a : hact) : hstate :=
  match a with
  | HField k v =>
    if k =? 0 then s   (* pseudo-headers are ignored by the hook *)
    else mkH (hset k v s.(h_live)) s.(h_clones) s.(h_done) s.(h_got)   (* also AFTER completion *)
  | HComplete =>
    if s.(h_done) then s   (* finish-once: C16_Model *)
    else get_headers p (mkH s.(h_live) s.(h_clones) true s.(h_got))
  | HRead => if s.(h_done) then get_headers p s else s   (* nothing to read before the delivery *)
  end.

Definition hrun (p : hpolicy) (acts : list hact) : hstate := fold_left (hstep p) acts h_init.

(* the fields reported so far *)
Definition fields_of (acts : list hact) : hmap :=
  fold_left (fun m a => match a with HField k v => if k =? 0 then m else hset k v m | _ => m end) acts [].

Definition is_hcomplete (a : hact) : bool := match a with HComplete => true | _ => false end.

(* ---- case decoding / result encoding ---- *)
Definition un_hact (s : sx) : option hact :=
  match s with
  | L [I 0%Z; I k; I v] => Some (HField (Z.to_N k) (Z.to_N v))
  | L [I 1%Z] => Some HComplete
  | L [I 2%Z] => Some HRead
  | _ => None
  end.

Definition sx_hmap (m : hmap) : sx := L (map (fun kv => L [sx_N (fst kv); sx_N (snd kv)]) m).

(* (actions) -> for every value the delivered trace handed out, in order: (its contents when handed
   out, the contents of THE SAME value after the whole script).  The harness cancels at the end
   of every script (a second cancellation does nothing). *)
Definition run_c16_hdr (args : list sx) : sx :=
  or_bad (match args with
  | [acts] =>
    do acts <- un_listof un_hact acts;
    let s := hrun HClone (acts ++ [HComplete]) in
    ret (L (map (fun rc => L [sx_hmap (snd rc); sx_hmap (deref s (fst rc))]) s.(h_got)))
  | _ => None end).

Definition c16_table : list (bytes * (list sx -> sx)) :=
  C16_Run.c16_table ++ [ (bs "c16.hdr", run_c16_hdr) ].
