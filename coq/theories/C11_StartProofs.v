(* C11_StartProofs.v — the start phase over a real OS process (C11_Start.v) ends in bounded
   time whenever the child lets go of its stdin in a way the plumbing notices. *)
From Coq Require Import Lia.
From V Require Import C11_Spec.
Open Scope N_scope.

(* the request is taken in full, or the child lets go of its stdin in a way that wakes the writer *)
Definition lets_go (pl : plumbing) (cap len : N) (sc : schild) : Prop :=
  sc_all sc = true \/
  (fits cap len sc = true /\ sc_release sc = None) \/
  exists how, sc_release sc = Some how /\ wakes pl how = true.

Lemma release_time_bounds sd sc : release_time sd sc <= N.max sd (sc_delay sc).
Proof. unfold release_time. destruct (sc_reads sc =? 0); lia. Qed.

Lemma start_write_returns_proof : forall pl cap len sd sc, lets_go pl cap len sc ->
  exists t, (start_write pl cap len sd sc = WDone t \/ start_write pl cap len sd sc = WFail t) /\
            sd <= t /\ t <= N.max sd (sc_delay sc).
Proof.
  intros pl cap len sd sc H. unfold start_write.
  destruct (sc_all sc) eqn:A; [exists sd; split; [left; reflexivity|lia]|].
  destruct H as [H|[[F R]|(how & R & W)]]; [congruence| |].
  - rewrite R, F. exists sd. split; [left; reflexivity|lia].
  - rewrite R, W. pose proof (release_time_bounds sd sc) as B.
    destruct ((sc_reads sc =? 0) && (release_time sd sc <=? sd)) eqn:E.
    + exists sd. split; [right; reflexivity|lia].
    + destruct (fits cap len sc); [exists sd; split; [left; reflexivity|lia]|].
      exists (release_time sd sc). split; [right; reflexivity|]. split; [|exact B].
      unfold release_time in *. destruct (sc_reads sc =? 0); simpl in E; [|lia].
      destruct (N.leb_spec (sc_delay sc) sd); [discriminate|lia].
Qed.

Lemma cmd_stop_ret_bounded P ch : p_giveup P = true ->
  returns_by (pr_ret (cmd_stop P ch)) (p_grace P + p_grace2 P).
Proof.
  intros Hg. unfold cmd_stop, returns_by. destruct (ch_pre ch).
  - simpl. exists 0. split; [reflexivity|lia].
  - rewrite Hg. unfold give_up_at. destruct (waited P ch) as [t|]; simpl.
    + exists (N.min t (p_grace P + p_grace2 P)). split; [reflexivity|lia].
    + exists (p_grace P + p_grace2 P). split; [reflexivity|lia].
Qed.

Lemma start_failed_bounded pl cap len sd rt sc : lets_go pl cap len sc ->
  returns_by (start_failed_at pl cap len sd rt sc) (N.max sd (sc_delay sc) + rt).
Proof.
  intros H. destruct (start_write_returns_proof pl cap len sd sc H) as (t & [E|E] & L1 & L2);
    unfold start_failed_at, returns_by; rewrite E.
  - destruct (self_exit sd sc) as [[te c]|].
    + eexists. split; [reflexivity|lia].
    + eexists. split; [reflexivity|lia].
  - exists t. split; [reflexivity|lia].
Qed.

(* runTestCasesForServer returns from a failed start within: the moment the child lets go (or the
   starter's delay) + the response time-out + the two waits of abort's goroutine *)
Theorem start_fault_bounded_proof : forall pl P cap len sd rt sc ch,
  p_giveup P = true -> lets_go pl cap len sc ->
  returns_by (start_fault_return pl P cap len sd rt sc ch)
             (N.max sd (sc_delay sc) + rt + (p_grace P + p_grace2 P)).
Proof.
  intros pl P cap len sd rt sc ch Hg H. unfold start_fault_return.
  destruct (start_failed_bounded pl cap len sd rt sc H) as (t & -> & Lt).
  destruct (cmd_stop_ret_bounded P (child_at sd t sc ch) Hg) as (s & -> & Ls).
  exists (t + s). split; [reflexivity|lia].
Qed.

(* the code's plumbing (the reading end is closed after the child EXITED) is enough for every child
   that lets go of its stdin by exiting — dead before the write, after k bytes, whenever — and for every
   child that takes the whole request *)
Theorem start_fault_bounded_code_proof : forall P cap len sd rt sc ch,
  p_giveup P = true ->
  (sc_all sc = true \/ (fits cap len sc = true /\ sc_release sc = None) \/ exists c, sc_release sc = Some (RExit c)) ->
  returns_by (start_fault_return code_plumbing P cap len sd rt sc ch)
             (N.max sd (sc_delay sc) + rt + (p_grace P + p_grace2 P)).
Proof.
  intros P cap len sd rt sc ch Hg H. apply start_fault_bounded_proof; [exact Hg|].
  destruct H as [H|[H|(c & H)]]; [left; exact H|right; left; exact H|].
  right; right. exists (RExit c). split; [exact H|reflexivity].
Qed.

(* a plumbing that wakes nobody: the writer of a request the dead child did not take is never woken *)
Lemma unwoken_write_never_proof : forall cap len sd sc how,
  sc_all sc = false -> sc_release sc = Some how -> sc_reads sc = 0 -> sc_delay sc <= sd ->
  start_write (mkPl false false) cap len sd sc = WNever.
Proof.
  intros cap len sd sc how A R K D. unfold start_write, release_time. rewrite A, R, K. simpl.
  destruct (N.leb_spec (sc_delay sc) sd); [|lia]. destruct how; reflexivity.
Qed.
