(* C09_ProofsG.v - the glue around the readers: which reader of the runner gets which size limit
   (reader_limit), proved against the documented limits through the one-message lemma read_msg_post. *)
From Coq Require Import Lia.
From V Require Import C09_Spec C09_Proofs C09_ProofsW.
Open Scope N_scope.

Lemma reader_limit_documented r : reader_limit r = documented_limit r.
Proof. destruct r; vm_compute; reflexivity. Qed.

Lemma take4_prefixed size body : take 4 (be32 size ++ body) = TkDone (be32 size) body.
Proof. change 4 with (N.of_nat (length (be32 size))). apply take_app. Qed.

(* one call of the reader on a stream that announces `size`, every schedule and ending *)
Lemma reader_read_prefixed r size body sch eg t :
  size < 4294967296 ->
  if documented_limit r <? size
  then exists sch', reader_read r (mk_src (be32 size ++ body) sch eg t) = MErr MOversize (mk_src body sch' eg t)
  else match take size body with
       | TkShort n => short_post t true n size eg (reader_read r (mk_src (be32 size ++ body) sch eg t))
       | TkDone m rest => exists sch', reader_read r (mk_src (be32 size ++ body) sch eg t) = Msg m (mk_src rest sch' eg t)
       end.
Proof.
  intros Hsz. unfold reader_read.
  pose proof (read_msg_post (reader_limit r) (be32 size ++ body) sch eg t) as H.
  unfold step_post in H. rewrite take4_prefixed in H. cbv zeta in H.
  rewrite be_decode_be32 in H by exact Hsz. cbn [over] in H.
  rewrite reader_limit_documented in *. exact H.
Qed.

Lemma reader_bufs_prefixed r size body sch eg t :
  size < 4294967296 ->
  reader_bufs r (mk_src (be32 size ++ body) sch eg t) = if documented_limit r <? size then [4] else [4; size].
Proof.
  intros Hsz. unfold reader_bufs, msg_bufs. rewrite prefix_len_is_4, reader_limit_documented.
  pose proof (read_n_closed 4 (be32 size ++ body) sch eg t) as H. unfold loop_post in H.
  rewrite app_length, be32_length in H.
  replace (4 <=? N.of_nat (4 + length body)) with true in H by (symmetry; apply N.leb_le; lia).
  destruct H as [sch' ->]. cbn [app]. cbv zeta.
  change (N.to_nat 4) with (length (be32 size)). rewrite firstn_app, Nat.sub_diag, firstn_all. cbn [firstn].
  rewrite app_nil_r, be_decode_be32 by exact Hsz. reflexivity.
Qed.

(* THE wiring statement: each of the runner's two readers rejects exactly the announcements above ITS
   documented limit - at the prefix, all of the body unread, no buffer but the 4 prefix bytes made -
   and takes every announcement up to that limit (a complete body is returned as the message) *)
Lemma limits_wired_proof : forall r size body sch eg t,
  size < 4294967296 ->
  let s := mk_src (be32 size ++ body) sch eg t in
  (documented_limit r < size ->
     (exists sch', reader_read r s = MErr MOversize (mk_src body sch' eg t)) /\ reader_bufs r s = [4]) /\
  (size <= documented_limit r ->
     (forall s', reader_read r s <> MErr MOversize s') /\ reader_bufs r s = [4; size] /\
     (size <= N.of_nat (length body) ->
        exists sch', reader_read r s =
          Msg (firstn (N.to_nat size) body) (mk_src (skipn (N.to_nat size) body) sch' eg t))).
Proof.
  intros r size body sch eg t Hsz s. subst s.
  pose proof (reader_read_prefixed r size body sch eg t Hsz) as H.
  pose proof (reader_bufs_prefixed r size body sch eg t Hsz) as HB.
  split.
  - intros Hgt. replace (documented_limit r <? size) with true in * by (symmetry; apply N.ltb_lt; exact Hgt).
    split; [exact H|exact HB].
  - intros Hle. replace (documented_limit r <? size) with false in * by (symmetry; apply N.ltb_ge; exact Hle).
    split; [|split; [exact HB|]].
    + intros s' E. unfold take in H. destruct (size <=? N.of_nat (length body)).
      * destruct H as [sch' H]. rewrite H in E. discriminate.
      * unfold short_post in H. destruct t.
        -- destruct H as [sch' H]. rewrite H in E. discriminate.
        -- rewrite H in E. discriminate.
        -- destruct H as [sch' H]. rewrite H in E. discriminate.
    + intros Hav. unfold take in H.
      replace (size <=? N.of_nat (length body)) with true in H by (symmetry; apply N.leb_le; exact Hav).
      exact H.
Qed.

(* the closed form the model is RUN with (no body is built for a 16 MB announcement) is the reader:
   for every body of `avail` <= size bytes that ends with EOF or an I/O error, every schedule *)
Definition rm_class (x : rm) : option (lim_verdict * option merr) :=
  match x with
  | MErr MOversize _ => Some (LvOversize, None)
  | Msg _ _ => Some (LvMsg, None)
  | MErr e _ => Some (LvShort, Some e)
  | _ => None
  end.

Lemma limits_closed_form_proof : forall r size body sch eg t,
  size < 4294967296 -> N.of_nat (length body) <= size -> t <> TBlock ->
  let s := mk_src (be32 size ++ body) sch eg t in
  let avail := N.of_nat (length body) in
  rm_class (reader_read r s) =
    Some (limit_verdict r size avail,
          match limit_verdict r size avail with
          | LvShort => Some (match t with TFail => MIO | _ => MUnexpected end)
          | _ => None end) /\
  reader_bufs r s = limit_bufs r size.
Proof.
  intros r size body sch eg t Hsz Hav Ht s avail. subst s avail.
  pose proof (reader_read_prefixed r size body sch eg t Hsz) as H.
  rewrite (reader_bufs_prefixed r size body sch eg t Hsz).
  unfold limit_verdict, limit_bufs. rewrite prefix_len_is_4, reader_limit_documented.
  destruct (documented_limit r <? size).
  - destruct H as [sch' ->]. split; reflexivity.
  - split; [|reflexivity]. unfold take in H.
    destruct (size <=? N.of_nat (length body)).
    + destruct H as [sch' ->]. reflexivity.
    + unfold short_post in H. destruct t; [| congruence |].
      * destruct H as [sch' ->]. reflexivity.
      * destruct H as [sch' ->]. reflexivity.
Qed.

Lemma grpc_peers_run_the_same_loops_proof :
  In (bs "c09.grpcclient", run_c09_client) c09_table /\ In (bs "c09.client", run_c09_client) c09_table /\
  In (bs "c09.grpcserver", run_c09_server) c09_table /\ In (bs "c09.server", run_c09_server) c09_table.
Proof. unfold c09_table. repeat split; cbn [In]; tauto. Qed.
