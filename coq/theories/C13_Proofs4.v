(* C13_Proofs4.v — acceptance for the Connect protocol: the JSON that the reference server
   (its handlers + connect-go) puts on the wire for ANY error (16 codes, any message, any
   details) and ANY well-formed metadata — the unary error body [wire_error] and the
   end-of-stream message [wire_end_stream], with and without error — satisfies the declarative
   well-formedness predicates, hence (C13_Proofs3) is examined without feedback. *)
From Coq Require Import Lia Permutation.
From V Require Import C13_Consts C13_Model C13_Spec C13_Proofs C13_Proofs3.
Open Scope N_scope.

Ltac not_in := cbn [In]; intuition discriminate.
(* Forall (fun kv => clean_json (snd kv)) over an explicit member list: strings, or a hypothesis *)
Ltac cl_members :=
  repeat first [apply Forall_nil | apply Forall_cons; [cbn [snd]; first [assumption | apply cj_str]|]].

(* ====================================================================== *)
(* error details                                                           *)
(* ====================================================================== *)
Lemma wire_detail_wf d : wf_wdetail d -> wf_detail (wire_detail d).
Proof.
  destruct d as [[ty v] dbg]. unfold wf_wdetail. cbn [fst snd]. intros (FN & HB & DB).
  destruct (b64_roundtrip v HB) as (R & _ & _).
  unfold wire_detail. eexists. split; [reflexivity|].
  destruct dbg as [j|]; cbn [app].
  - split; [|split; [|split]].
    + constructor.
      * cbn [map fst]. repeat constructor; not_in.
      * assert (CJ : clean_json j) by (apply DB; reflexivity). cl_members.
    + intros k x [E|[E|[E|[]]]]; inversion E; subst.
      * left. split; [reflexivity|]. eauto.
      * right. left. split; [reflexivity|]. eauto.
      * right. right. reflexivity.
    + cbn. auto.
    + cbn. auto.
  - split; [|split; [|split]].
    + constructor.
      * cbn [map fst]. repeat constructor; not_in.
      * cl_members.
    + intros k x [E|[E|[]]]; inversion E; subst.
      * left. split; [reflexivity|]. eauto.
      * right. left. split; [reflexivity|]. eauto.
    + cbn. auto.
    + cbn. auto.
Qed.

Lemma wf_detail_clean d : wf_detail d -> clean_json d.
Proof. intros (ms & -> & CL & _). exact CL. Qed.

(* ====================================================================== *)
(* the error                                                               *)
(* ====================================================================== *)
Lemma code_name_in c : 1 <= c <= 16 -> In (code_name c) c13_code_names.
Proof.
  intros [H1 H2]. unfold code_name.
  assert (L : length c13_code_names = 16%nat) by reflexivity. rewrite L.
  destruct (N.leb_spec 1 c); [|lia]. destruct (N.leb_spec c (N.of_nat 16)); [|lia]. cbn [andb].
  apply nth_In. rewrite L. lia.
Qed.

Lemma wire_error_wf c m ds : 1 <= c <= 16 -> Forall wf_wdetail ds -> wf_connect_error (wire_error c m ds).
Proof.
  intros HC HD. pose proof (code_name_in c HC) as CN.
  assert (WD : Forall wf_detail (map wire_detail ds)).
  { apply Forall_forall. intros x Hx. apply in_map_iff in Hx as (d & <- & Hd).
    rewrite Forall_forall in HD. apply wire_detail_wf, HD, Hd. }
  assert (CD : clean_json (JArr (map wire_detail ds))).
  { constructor. eapply Forall_impl; [|exact WD]. apply wf_detail_clean. }
  unfold wire_error. eexists. split; [reflexivity|].
  destruct (is_nil m); destruct (is_nil ds); cbn [app].
  - split; [|split].
    + constructor; [cbn [map fst]; repeat constructor; not_in|cl_members].
    + intros k x [E|[]]; inversion E; subst. left. split; [reflexivity|]. eauto.
    + cbn. auto.
  - split; [|split].
    + constructor; [cbn [map fst]; repeat constructor; not_in|cl_members].
    + intros k x [E|[E|[]]]; inversion E; subst.
      * left. split; [reflexivity|]. eauto.
      * right. right. split; [reflexivity|]. eauto.
    + cbn. auto.
  - split; [|split].
    + constructor; [cbn [map fst]; repeat constructor; not_in|cl_members].
    + intros k x [E|[E|[]]]; inversion E; subst.
      * left. split; [reflexivity|]. eauto.
      * right. left. split; [reflexivity|]. eauto.
    + cbn. auto.
  - split; [|split].
    + constructor; [cbn [map fst]; repeat constructor; not_in|cl_members].
    + intros k x [E|[E|[E|[]]]]; inversion E; subst.
      * left. split; [reflexivity|]. eauto.
      * right. left. split; [reflexivity|]. eauto.
      * right. right. split; [reflexivity|]. eauto.
    + cbn. auto.
Qed.

Lemma connect_error_wire_clean_proof : forall code msg details,
  wf_wire_error (code, msg, details) ->
  examine_connect_error (Some (wire_error code msg details)) = [].
Proof.
  intros c m ds [HC HD]. apply error_iff_proof. eexists. split; [reflexivity|]. apply wire_error_wf; assumption.
Qed.

(* ====================================================================== *)
(* metadata: the trailers as an http.Header, keys sorted                    *)
(* ====================================================================== *)
Definition good_entry (kv : bytes * list bytes) : Prop :=
  valid_field_name (fst kv) = true /\ Forall (fun v => valid_field_value v = true) (snd kv).
Definition hm_ok (m : hmap) : Prop := NoDup (map fst m) /\ Forall good_entry m.

Lemma hput_keys_in m k vs x : In x (map fst (hput m k vs)) -> x = k \/ In x (map fst m).
Proof.
  induction m as [|[k' vs'] m IH]; cbn [hput map fst In].
  - intros [<-|[]]. auto.
  - destruct (bytes_eqb_spec k k') as [->|NE]; cbn [map fst In]; [tauto|].
    intros [<-|H]; [auto|]. destruct (IH H); auto.
Qed.

Lemma hput_ok m k vs : hm_ok m -> good_entry (k, vs) -> hm_ok (hput m k vs).
Proof.
  intros [ND F] G. induction m as [|[k' vs'] m IH]; cbn [hput].
  - split; [cbn [map fst]; apply NoDup_cons; [intros []|apply NoDup_nil]|apply Forall_cons; [exact G|apply Forall_nil]].
  - cbn [map fst] in ND. inversion ND as [|? ? NI ND']; subst. inversion F as [|? ? G' F']; subst.
    destruct (bytes_eqb_spec k k') as [->|NE].
    + split; [exact ND|]. constructor; [exact G|exact F'].
    + destruct (IH ND' F') as [ND2 F2]. split.
      * cbn [map fst]. constructor; [|exact ND2]. intros HI. destruct (hput_keys_in _ _ _ _ HI); [congruence|contradiction].
      * constructor; assumption.
Qed.

Lemma hget_good m k : Forall good_entry m -> Forall (fun v => valid_field_value v = true) (hget m k).
Proof.
  induction 1 as [|[k' vs'] m [_ G] _ IH]; cbn [hget]; [constructor|].
  destruct (bytes_eqb k k'); assumption.
Qed.

Lemma happend_ok m k v : hm_ok m -> valid_field_name k = true -> valid_field_value v = true -> hm_ok (happend m k v).
Proof.
  intros OK HK HV. unfold happend. apply hput_ok; [exact OK|]. split; [exact HK|]. cbn [snd].
  apply Forall_app. split; [apply hget_good, OK|repeat constructor; exact HV].
Qed.

(* canonical keys of token names are token names *)
Definition token_fact2 (c : N) : bool :=
  is_token_char c && is_token_char (upper_byte c) && is_token_char (lower_byte c).
Lemma tchar_fact2 c : tchar c -> token_fact2 c = true.
Proof.
  unfold tchar. intros H.
  assert (F : forallb token_fact2 (bs "!#$%&'*+-.^_`|~0123456789abcdefghijklmnopqrstuvwxyzABCDEFGHIJKLMNOPQRSTUVWXYZ") = true)
    by (vm_compute; reflexivity).
  rewrite forallb_forall in F. apply F, H.
Qed.

Lemma canon_go_token : forall s up, Forall tchar s -> forallb is_token_char (canon_go up s) = true.
Proof.
  induction s as [|c r IH]; intros up H; [reflexivity|]. inversion H as [|? ? Hc Hr]; subst.
  pose proof (tchar_fact2 c Hc) as F. unfold token_fact2 in F.
  apply andb_true_iff in F as [F F3]. apply andb_true_iff in F as [F1 F2].
  cbn [canon_go forallb]. rewrite IH by exact Hr. destruct up; [rewrite F2|rewrite F3]; reflexivity.
Qed.

Lemma canonical_token n : Forall tchar n -> valid_field_name (canonical_key n) = true.
Proof.
  intros H. unfold canonical_key, valid_field_name.
  assert (T : forallb is_token_char n = true).
  { apply forallb_forall. intros c Hc. rewrite Forall_forall in H. pose proof (tchar_fact2 c (H c Hc)) as F.
    unfold token_fact2 in F. apply andb_true_iff in F as [F _]. apply andb_true_iff in F as [F _]. exact F. }
  rewrite T. apply canon_go_token, H.
Qed.

Lemma vchar_value v : Forall vchar v -> valid_field_value v = true.
Proof.
  intros H. apply forallb_forall. intros c Hc. rewrite Forall_forall in H. apply vchar_fact, H, Hc.
Qed.

Lemma to_map_ok trs : Forall wf_field trs -> hm_ok (to_map trs).
Proof.
  unfold to_map. assert (G : forall trs m, hm_ok m -> Forall wf_field trs ->
    hm_ok (fold_left (fun m h => fold_left (fun m v => happend m (canonical_key (fst h)) v) (snd h) m) trs m)).
  { clear trs. induction trs as [|h trs IH]; intros m OK F; [exact OK|]. inversion F as [|? ? [HN HV] F']; subst.
    cbn [fold_left]. apply IH; [|exact F'].
    clear IH F F'. revert m OK. induction (snd h) as [|v vs IHv]; intros m OK; [exact OK|].
    inversion HV; subst. cbn [fold_left]. apply IHv; [assumption|].
    apply happend_ok; [exact OK|apply canonical_token, HN|apply vchar_value; assumption]. }
  intros F. apply G; [|exact F]. split; constructor.
Qed.

Lemma insert_hdr_perm h l : Permutation (insert_hdr h l) (h :: l).
Proof.
  induction l as [|y l IH]; cbn [insert_hdr]; [apply Permutation_refl|].
  destruct (bytes_leb (fst h) (fst y)); [apply Permutation_refl|].
  eapply perm_trans; [apply perm_skip, IH|apply perm_swap].
Qed.
Lemma sort_hmap_perm m : Permutation (sort_hmap m) m.
Proof.
  induction m as [|h m IH]; [apply Permutation_refl|]. unfold sort_hmap in *. cbn [fold_right].
  eapply perm_trans; [apply insert_hdr_perm|apply perm_skip, IH].
Qed.

Lemma sort_hmap_ok m : hm_ok m -> hm_ok (sort_hmap m).
Proof.
  intros [ND F]. pose proof (sort_hmap_perm m) as P. split.
  - eapply Permutation_NoDup; [apply Permutation_sym, Permutation_map, P|exact ND].
  - apply Forall_forall. intros kv Hkv. rewrite Forall_forall in F. apply F. eapply Permutation_in; [exact P|exact Hkv].
Qed.

Lemma wire_metadata_wf trs : Forall wf_field trs ->
  NoDup (map fst (wire_metadata trs)) /\ Forall wf_metadata_entry (wire_metadata trs) /\
  Forall (fun kv => clean_json (snd kv)) (wire_metadata trs).
Proof.
  intros F. destruct (sort_hmap_ok _ (to_map_ok trs F)) as [ND G]. unfold wire_metadata.
  split; [|split].
  - rewrite map_map. cbn [fst]. exact ND.
  - apply Forall_forall. intros x Hx. apply in_map_iff in Hx as (kv & <- & Hkv).
    rewrite Forall_forall in G. destruct (G kv Hkv) as [GN GV]. split; [exact GN|]. cbn [snd].
    eexists. split; [reflexivity|]. apply Forall_forall. intros j Hj. apply in_map_iff in Hj as (v & <- & Hv).
    exists v. split; [reflexivity|]. rewrite Forall_forall in GV. apply GV, Hv.
  - apply Forall_forall. intros x Hx. apply in_map_iff in Hx as (kv & <- & Hkv). cbn [snd].
    constructor. apply Forall_forall. intros j Hj. apply in_map_iff in Hj as (v & <- & _). constructor.
Qed.

(* ====================================================================== *)
(* the end-of-stream message                                               *)
(* ====================================================================== *)
Lemma wire_end_stream_wf err trs :
  match err with Some e => wf_wire_error e | None => True end -> Forall wf_field trs ->
  wf_end_stream (wire_end_stream err trs).
Proof.
  intros HE HT. destruct (wire_metadata_wf trs HT) as (ND & WM & CM).
  assert (CMJ : clean_json (JObj (wire_metadata trs))) by (constructor; assumption).
  unfold wire_end_stream. eexists. split; [reflexivity|].
  destruct err as [[[c m] ds]|].
  - destruct HE as [HC HD]. cbn [fst snd] in HC, HD. pose proof (wire_error_wf c m ds HC HD) as WE.
    assert (CE : clean_json (wire_error c m ds)) by (destruct WE as (ms & -> & CL & _); exact CL).
    destruct (is_nil (wire_metadata trs)); cbn [app].
    + split.
      * constructor; [cbn [map fst]; repeat constructor; not_in|cl_members].
      * intros k x [E|[]]; inversion E; subst. left. split; [reflexivity|exact WE].
    + split.
      * constructor; [cbn [map fst]; repeat constructor; not_in|cl_members].
      * intros k x [E|[E|[]]]; inversion E; subst.
        -- left. split; [reflexivity|exact WE].
        -- right. split; [reflexivity|]. eauto.
  - destruct (is_nil (wire_metadata trs)); cbn [app].
    + split; [constructor; constructor|intros k x []].
    + split.
      * constructor; [cbn [map fst]; repeat constructor; not_in|cl_members].
      * intros k x [E|[]]; inversion E; subst. right. split; [reflexivity|]. eauto.
Qed.

Lemma connect_end_stream_clean_proof : forall err trailers,
  match err with Some e => wf_wire_error e | None => True end -> Forall wf_field trailers ->
  examine_connect_end_stream (Some (wire_end_stream err trailers)) = [].
Proof.
  intros err trs HE HT. apply end_stream_iff_proof. eexists. split; [reflexivity|].
  apply wire_end_stream_wf; assumption.
Qed.
