From V Require Export C17_Model.
