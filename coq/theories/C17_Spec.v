(* C17_Spec.v — the declarative side of C17, written from the property text:
   what the wire must carry for a raw body, what reaches the inner response writer for a
   history of handler actions and raw-response choices, and which values a header list denotes.
   None of this mentions the two branches of the stream encoder, the rawResponseWriter's
   fields or the order of the statements in finish(). *)
From V Require Export C17_Model.
Open Scope N_scope.

(* ---------- bodies ---------- *)
Section BodySpec.
  Variable compress : N -> bytes -> bytes.
  Variable decompress : N -> bytes -> option bytes.

  (* the compressor library behaves: the only thing asked of it *)
  Definition codec_ok : Prop := forall c d, decompress c (compress c d) = Some d.

  (* a message is well-formed when its compression is one of the seven enum values
     (only looked at when there is data to compress) *)
  Definition contents_ok (oc : option contents) : Prop :=
    match oc with
    | Some c => match data_bytes (c_data c) with Some _ => comp_known (c_comp c) = true | None => True end
    | None => True
    end.
  (* the data a message stands for, and the bytes that represent it on the wire *)
  Definition data_of (oc : option contents) : bytes :=
    match oc with
    | Some c => match data_bytes (c_data c) with Some d => d | None => [] end
    | None => []
    end.
  Definition payload_of (oc : option contents) : bytes :=
    match oc with
    | Some c => match data_bytes (c_data c) with Some d => compress_with compress (c_comp c) d | None => [] end
    | None => []
    end.

  Definition item_ok (it : item) : Prop := i_flags it <= 255 /\ contents_ok (i_payload it).
  (* the value of the 4-byte length field: the explicit one if given, else the payload's size *)
  Definition declared (it : item) : N :=
    match i_len it with
    | Some n => n
    | None => N.of_nat (length (payload_of (i_payload it))) mod 4294967296
    end.
  (* one enveloped item: flags byte, big-endian length, payload *)
  Definition frame (it : item) : bytes := i_flags it :: be32 (declared it) ++ payload_of (i_payload it).
  Definition wire (items : list item) : bytes := concat (map frame items).

  (* the length field tells the truth *)
  Definition honest (it : item) : Prop :=
    N.of_nat (length (payload_of (i_payload it))) < 4294967296 /\
    match i_len it with Some n => n = N.of_nat (length (payload_of (i_payload it))) | None => True end.
End BodySpec.

(* ---------- header lists ---------- *)
(* the values a header list gives to the (canonical) name k, in order of appearance *)
Definition values_of (k : bytes) (hs : list header) : list bytes :=
  flat_map (fun hd => if bytes_eqb k (canon (h_name hd)) then h_vals hd else []) hs.
(* same for query parameters, whose names are case-sensitive *)
Definition qvalues_of (k : bytes) (hs : list header) : list bytes :=
  flat_map (fun hd => if bytes_eqb k (h_name hd) then h_vals hd else []) hs.
Definition token (s : bytes) : Prop := forallb is_token_char s = true.

(* ---------- raw or normal: histories ---------- *)
(* actions that start a normal response *)
Definition starts (o : op) : bool :=
  match o with OWriteHeader _ | OWrite _ | OFlush | OCanSend => true | _ => false end.

(* which came first: a stored raw response, or the start of a normal one? *)
Fixpoint decided_raw (ops : list op) : bool :=
  match ops with
  | [] => false
  | OSetRaw _ :: _ => true
  | o :: r => if starts o then false else decided_raw r
  end.
Fixpoint last_raw (ops : list op) (acc : option resp) : option resp :=
  match ops with
  | [] => acc
  | OSetRaw r :: rest => last_raw rest (Some r)
  | _ :: rest => last_raw rest acc
  end.
(* the raw response that is to be sent, if any *)
Definition raw_choice (ops : list op) : option resp :=
  if decided_raw ops then last_raw ops None else None.

(* the handler alone: every action applied straight to the inner writer *)
Fixpoint direct (w : iw) (ops : list op) : option iw :=
  match ops with
  | [] => Some w
  | o :: r =>
    match o with
    | OAdd k v => direct (iw_with_hdr (hm_add k v (iw_hdr w)) w) r
    | OSet k v => direct (iw_with_hdr (hm_set k v (iw_hdr w)) w) r
    | ODel k => direct (iw_with_hdr (hm_del k (iw_hdr w)) w) r
    | OWriteHeader c => match iw_write_header c w with Some w' => direct w' r | None => None end
    | OWrite b => direct (iw_write b w) r
    | OFlush => direct (iw_flush w) r
    | OSetRaw _ | OCanSend => direct w r
    end
  end.

(* what the calls return: Write reports the full length whether or not the bytes went anywhere;
   setRawResponse succeeds unless a normal response has started; canSendResponse refuses once a
   raw response is stored *)
Inductive mode := Undecided | Raw | Normal.
Definition begin (m : mode) : mode := match m with Undecided => Normal | _ => m end.
Fixpoint returns (m : mode) (ops : list op) : list Z :=
  match ops with
  | [] => []
  | o :: r =>
    match o with
    | OSetRaw _ => match m with Normal => 0%Z :: returns Normal r | _ => 1%Z :: returns Raw r end
    | OWrite b => Z.of_nat (length b) :: returns (begin m) r
    | OCanSend => (match m with Raw => 0%Z | _ => 1%Z end) :: returns (begin m) r
    | OWriteHeader _ | OFlush => returns (begin m) r
    | _ => returns m r
    end
  end.

(* ---------- raw request ---------- *)
(* the parts of a URI reference: fragment after the first '#', query after the first '?' before it *)
Definition uri_nofrag (uri : bytes) : bytes := fst (split_first 35 uri).
Definition uri_frag (uri : bytes) : option bytes := snd (split_first 35 uri).
Definition uri_path (uri : bytes) : bytes := fst (split_first 63 (uri_nofrag uri)).
Definition uri_rawquery (uri : bytes) : option bytes := snd (split_first 63 (uri_nofrag uri)).

(* every '%' is followed by two hex digits *)
Fixpoint escapes_ok (s : bytes) : bool :=
  match s with
  | [] => true
  | c :: r => if c =? 37 then match r with a :: b :: r' => ishex a && ishex b && escapes_ok r' | _ => false end
              else escapes_ok r
  end.
(* a URI that can be sent at all: no control byte before the fragment, well-formed escapes in path and fragment *)
Definition uri_wellformed (uri : bytes) : bool :=
  negb (existsb is_ctl (uri_nofrag uri)) && escapes_ok (uri_path uri) &&
  match uri_frag uri with Some f => escapes_ok f | None => true end.

(* the path on the request line / in :path.  A path made of characters that may stand in a path
   (unreserved, sub-delims, ':' '@' '/' '[' ']', well-formed %XX) is sent byte for byte: no escape is
   decoded, no hex digit changes case.  Any other path (space, double quote, '<', non-ASCII, ...) is
   percent-decoded and re-encoded as a whole by net/url.  An empty path is "/". *)
Definition path_on_wire (p : bytes) : bytes :=
  or_slash (if valid_encoded EPath p then p
            else match unescape false p with Some t => escape EPath t | None => p end).

(* the query on the wire: without listed parameters whatever follows the first '?' of the URI, untouched;
   with parameters the merged multimap in url.Values.Encode form (sorted keys, key=value joined by '&',
   both query-escaped) - a lone '?' only if the URI ended in its only '?' *)
Definition query_on_wire (uri : bytes) (vals : option hmap) : bytes :=
  match vals with
  | None => match uri_rawquery uri with Some q => 63 :: q | None => [] end
  | Some m => if opt_bytes_eqb (uri_rawquery uri) [] || nonempty (values_encode m) then 63 :: values_encode m else []
  end.

Section RequestSpec.
  Variable compress : N -> bytes -> bytes.
  (* the text an encoded query parameter contributes *)
  Definition enc_text (e : encq) : bytes :=
    if e_b64 e then b64url (payload_of compress (e_value e)) else payload_of compress (e_value e).
  Definition enc_values_of (k : bytes) (es : list encq) : list bytes :=
    flat_map (fun e => if bytes_eqb k (e_name e) then [enc_text e] else []) es.
  (* the (decoded) query parameters written in the URI itself *)
  Definition uri_query (uri : bytes) : hmap :=
    parse_query (match uri_rawquery uri with Some q => q | None => [] end).
End RequestSpec.
