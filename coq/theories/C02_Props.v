(* C02_Props.v — the property theorems of C02 and nothing else.
   expected / load        : model of test_case_library.go's expectation generator and loader validations
   ref_server/grpc_server : models of the four handlers of referenceserver/impl.go and grpcserver/impl.go
   ref_client/grpc_client : models of what referenceclient/impl.go and grpcclient/impl.go report
   assert_errs            : C03's model of results.go assert (nil outcome iff the list is empty)
   transport_ok           : the explicit hypotheses on connect-go / grpc-go / net/http (C02_Spec) - assumed, sampled on
                            every check run, NOT proved.
   A permutation of a test case is (tc, codec, comp): the expectation is the one derived FOR THAT codec (for a
   Connect GET case it names the codec in the echoed query params), the run is the one under the same codec. *)
From V Require Import C02_Spec C02_Proofs.

(* For every well-formed test case of the deterministic fragment - any stream type, any number of requests, responses,
   headers, trailers, details, any payload bytes, code and message, Connect GET cases included - outside the known
   class fd-immediate-error-multi, for every permutation of it (codec proto or json, any compression) and for each of
   the four peer pairs that runs it (a GET case: the reference pair), the runner's assertion of the expectation derived
   for that permutation against what the client reports under that permutation records nothing. *)
Theorem expectation_met :
  forall tr_req tr_query tr_rsp, transport_ok tr_req tr_query tr_rsp ->
  forall tc codec comp e, wf tc = true -> fd_immediate_error_multi tc = false -> known_codec codec ->
  expected codec tc = Ok e ->
  forall sv cl, peers_apply sv cl tc ->
  assert_errs (case_def tc) e (observed tr_req tr_query tr_rsp (server_of sv) (client_of cl) codec comp tc) = [].
Proof. exact expectation_met_proof. Qed.
Print Assumptions expectation_met.

(* the same against the declarative agreement relation of C03_Spec *)
Theorem expectation_agrees : expectation_met_statement.
Proof. exact expectation_agrees_proof. Qed.
Print Assumptions expectation_agrees.

(* a well-formed case always has a derived expectation (the hypothesis of expectation_met is never vacuous) *)
Theorem expected_defined : forall codec tc, wf tc = true -> exists e, expected codec tc = Ok e.
Proof. exact expected_defined_proof. Qed.
Print Assumptions expected_defined.

(* deriving the expectation never crashes, on any shape, well-formed or not *)
Theorem expected_total : forall codec tc, expected codec tc <> Crash.
Proof. exact expected_total_proof. Qed.
Print Assumptions expected_total.

(* loading a suite (expandCases' validations + expectations) never crashes: result or error.
   Partial with respect to the property's last sentence: protoyaml parsing, expandRequestData (C19) and the
   config-case expansion (C06/C07) are not part of this model. *)
Theorem load_total_partial : forall codecs tcs, load codecs tcs <> Crash.
Proof. exact load_total_proof. Qed.
Print Assumptions load_total_partial.

(* the grpc-go handlers put the same thing on the wire as the connect-go handlers do for a request without query
   string (grpc-go has none), for every input *)
Theorem grpc_server_same : forall st hs reqs, grpc_server st hs reqs = ref_server st [] hs reqs.
Proof. exact grpc_server_same_proof. Qed.
Print Assumptions grpc_server_same.

(* ---------- the reference client's set-up of the HTTP method (glue: referenceclient/client.go) ---------- *)
(* under the documented set-up a call goes out as GET exactly when the case sets use_get_http_method, whatever the
   length of the URL (= whatever the size of the request message) *)
Theorem get_case_sent_as_get : forall use_get len, sent_as_get documented_get_setup use_get len = use_get.
Proof. exact get_case_sent_as_get_proof. Qed.
Print Assumptions get_case_sent_as_get.

(* a cap on the URL length, whatever its value, sends some GET case out as POST *)
Theorem url_cap_falls_back : forall cap, exists len, sent_as_get (mkGS true (Some cap)) true len = false.
Proof. exact url_cap_falls_back_proof. Qed.
Print Assumptions url_cap_falls_back.

(* the GET options the reference client installs now (C02_Consts.v, regenerated from the sources of
   internal/app/referenceclient on every run) are the documented set-up *)
Theorem installed_get_setup_documented : forall cap, setup_of c02_client_get_options cap = documented_get_setup.
Proof. exact installed_get_setup_documented_proof. Qed.
Print Assumptions installed_get_setup_documented.

(* expectation_agrees with that set-up between the test case and the transport: for every URL length *)
Theorem expectation_met_any_url_length :
  forall len tr_req tr_query tr_rsp, transport_ok tr_req tr_query tr_rsp ->
  forall tc codec comp e, wf tc = true -> fd_immediate_error_multi tc = false -> known_codec codec ->
  expected codec tc = Ok e ->
  forall sv cl, peers_apply sv cl tc ->
  passes tr_req (fun g => tr_query (sent_as_get documented_get_setup g len)) tr_rsp sv cl codec comp tc e.
Proof. exact expectation_met_any_url_length_proof. Qed.
Print Assumptions expectation_met_any_url_length.

Example ex_url_cap : sent_as_get (mkGS true (Some 8192%Z)) true 5500%Z = true /\
                     sent_as_get (mkGS true (Some 8192%Z)) true 16500%Z = false /\
                     setup_of [1; 2]%Z 8192%Z = mkGS true (Some 8192%Z).
Proof. vm_compute. auto. Qed.

(* ---------- examples ---------- *)
Definition ex_hdr := mkH (bs "X-Custom") [bs "v1"; bs "v2"].
Definition ex_def (datas : list bytes) (e : option xerr) := mkRD [ex_hdr] [mkH (bs "x-t") [bs "t"]] datas e.
Definition ex_err := mkX 8 (Some (bs "oops")) [(0, bs "abc")].
(* full duplex, two requests, three responses (more responses than requests), error after them *)
Definition ex_full := mkT (bs "fd") 5 [mkH (bs "x-q") [bs "1"]]
  [mkRq 3 true (bs "a") (Some (ex_def [bs "r0"; bs "r1"; bs "r2"] (Some ex_err))); mkRq 3 true (bs "b") None] false.
(* the known class: full duplex, two requests, no response, an error *)
Definition ex_known := mkT (bs "k") 5 [] [mkRq 3 true (bs "a") (Some (ex_def [] (Some ex_err))); mkRq 3 true (bs "b") None] false.
(* unary error with a name that is both header and trailer *)
Definition ex_unary := mkT (bs "u") 1 [] [mkRq 0 false (bs "a") (Some (mkRD [ex_hdr] [mkH (bs "x-custom") [bs "t"]] [] (Some ex_err)))] false.

(* the hypotheses wf / outside-the-class / expected = Ok are inhabited, for a shape the shipped corpus lacks *)
Example wf_inhabited : wf ex_full = true /\ fd_immediate_error_multi ex_full = false /\ exists e, expected 1 ex_full = Ok e.
Proof. split; [vm_compute; reflexivity|]. split; [vm_compute; reflexivity|]. eexists. vm_compute. reflexivity. Qed.

(* with the identity transport the model's own assert is silent on it, for all four pairs (computation) *)
Example ex_full_passes :
  forall sv cl, verdict_errs id_hdrs std_query id_wire (server_of sv) (client_of cl) 1 1 ex_full = Ok [].
Proof. intros [|] [|]; vm_compute; reflexivity. Qed.
Example ex_unary_passes :
  forall sv cl, verdict_errs id_hdrs std_query id_wire (server_of sv) (client_of cl) 1 1 ex_unary = Ok [].
Proof. intros [|] [|]; vm_compute; reflexivity. Qed.

(* the Section hypotheses of expectation_met are satisfiable (the theorem is not vacuous in its transport): the
   identity transport satisfies transport_ok, and so does a transport that behaves like an HTTP stack - names arrive in
   lower case, the values of one field joined into one with ", " (C03's canon_join is what makes the joined form agree) *)
Example transport_ok_identity : transport_ok id_hdrs std_query id_wire.
Proof. exact transport_id_proof. Qed.
Example transport_ok_joining : transport_ok join_hdrs std_query join_wire.
Proof. exact transport_join_proof. Qed.
(* ... and the second one really changes what the peers see *)
Example joining_changes_headers :
  join_hdrs [ex_hdr] = [mkH (bs "x-custom") [bs "v1, v2"]].
Proof. vm_compute. reflexivity. Qed.
(* hence the verdict theorem applies to both, e.g. on the full-duplex example with the joining transport, all pairs *)
Example ex_full_passes_joined :
  forall sv cl, verdict_errs join_hdrs std_query join_wire (server_of sv) (client_of cl) 2 2 ex_full = Ok [].
Proof. intros [|] [|]; vm_compute; reflexivity. Qed.
Example ex_unary_passes_joined :
  forall sv cl, verdict_errs join_hdrs std_query join_wire (server_of sv) (client_of cl) 2 2 ex_unary = Ok [].
Proof. intros [|] [|]; vm_compute; reflexivity. Qed.

(* only the first message's definition (and full_duplex flag) counts: a client stream whose definition sits on the second
   message only is well-formed, its expectation is the bare echo, and all four pairs meet it; the same for a full-duplex
   stream whose later messages carry other definitions and another full_duplex flag *)
Definition ex_later := mkT (bs "cl") 2 [] [mkRq 1 false (bs "a") None; mkRq 1 false (bs "b") (Some (ex_def [bs "r"] (Some ex_err)))] false.
Definition ex_several := mkT (bs "fs") 5 []
  [mkRq 3 true (bs "a") (Some (ex_def [bs "r0"; bs "r1"] None)); mkRq 3 false (bs "b") (Some (ex_def [] (Some ex_err)))] false.
Example later_definition_ignored :
  wf ex_later = true /\ expected 1 ex_later = Ok (mkR [] [] [mkP [] (info [] (reqs_any (t_requests ex_later)))] None None 0) /\
  forall sv cl, verdict_errs id_hdrs std_query id_wire (server_of sv) (client_of cl) 1 1 ex_later = Ok [].
Proof. split; [vm_compute; reflexivity|]. split; [vm_compute; reflexivity|]. intros [|] [|]; vm_compute; reflexivity. Qed.
Example several_definitions_first_wins :
  wf ex_several = true /\ forall sv cl, verdict_errs id_hdrs std_query id_wire (server_of sv) (client_of cl) 1 1 ex_several = Ok [].
Proof. split; [vm_compute; reflexivity|]. intros [|] [|]; vm_compute; reflexivity. Qed.

(* the excluded class is not excluded for convenience: there the modelled peers do NOT satisfy the expectation
   (both servers have seen one request when they must fail, the expectation lists two) *)
Example ex_known_fails :
  wf ex_known = true /\ fd_immediate_error_multi ex_known = true /\
  forall sv cl, verdict_errs id_hdrs std_query id_wire (server_of sv) (client_of cl) 1 1 ex_known = Ok [EReqCount].
Proof. split; [vm_compute; reflexivity|]. split; [vm_compute; reflexivity|]. intros [|] [|]; vm_compute; reflexivity. Qed.

(* the unrepaired generator indexed RequestMessages[idx] without the guard: the shape that crashed it *)
Example more_responses_than_requests_is_handled :
  exists e, expected 1 ex_full = Ok e /\ length (r_payloads e) = 3%nat /\ nth_error (r_payloads e) 2 = Some (mkP (bs "r2") empty_ri).
Proof. eexists. split; [vm_compute; reflexivity|]. split; vm_compute; reflexivity. Qed.

(* malformed shapes are rejected with an error, not a crash *)
Example wrong_message_type_rejected : expected 1 (mkT (bs "x") 4 [] [mkRq 0 false [] None] false) = Err.
Proof. vm_compute. reflexivity. Qed.
Example duplicate_names_rejected : load [1; 2] [ex_full; ex_full] = Err.
Proof. vm_compute. reflexivity. Qed.

(* ---------- Connect GET cases: the expectation is per permutation ---------- *)
(* IdempotentUnary with use_get_http_method: data, and an error with a detail *)
Definition ex_get := mkT (bs "get") 1 [mkH (bs "X-Q") [bs "1"; bs "2"]] [mkRq 0 false (bs "a") (Some (ex_def [bs "r0"] None))] true.
Definition ex_get_err := mkT (bs "get-err") 1 [] [mkRq 0 false (bs "a") (Some (ex_def [] (Some ex_err)))] true.

(* they are well-formed, and the reference pair is the pair that runs them *)
Example get_inhabited :
  wf ex_get = true /\ wf ex_get_err = true /\ peers_apply RefServer RefClient ex_get /\ ~ peers_apply GrpcServer RefClient ex_get.
Proof.
  split; [vm_compute; reflexivity|]. split; [vm_compute; reflexivity|]. split.
  - intros _. split; reflexivity.
  - intros H. destruct (H eq_refl) as [E _]. discriminate.
Qed.

(* the expectation names the codec: the two permutations of ONE definition expect different things ... *)
Example get_expectation_depends_on_codec :
  expected 1 ex_get <> expected 2 ex_get /\
  (exists e, expected 1 ex_get = Ok e /\
             map p_info (r_payloads e) = [infoq (expected_query 1) (t_reqheaders ex_get) [req_any (mkRq 0 false (bs "a") None)]]) /\
  expected_query 1 = [mkH (bs "encoding") [bs "proto"]; mkH (bs "connect") [bs "v1"]] /\
  expected_query 2 = [mkH (bs "encoding") [bs "json"]; mkH (bs "connect") [bs "v1"]].
Proof.
  split; [vm_compute; discriminate|]. split; [eexists; split; vm_compute; reflexivity|]. split; vm_compute; reflexivity.
Qed.

(* ... each permutation meets its own expectation (both codecs, identity and gzip, data and error, either transport) ... *)
Example get_passes_under_both_codecs :
  forall tc, In tc [ex_get; ex_get_err] -> forall codec, In codec [1; 2] -> forall comp, In comp [1; 2] ->
  verdict_errs id_hdrs std_query id_wire ref_server ref_client codec comp tc = Ok [] /\
  verdict_errs join_hdrs std_query join_wire ref_server ref_client codec comp tc = Ok [].
Proof.
  intros tc [<-|[<-|[]]] codec [<-|[<-|[]]] comp [<-|[<-|[]]]; split; vm_compute; reflexivity.
Qed.

(* ... and an expectation shared among the permutations of one definition would not do: the one derived under json,
   asserted against the run under proto (and the other way round), is a mismatch of the "encoding" param, for a
   response and for an error alike *)
Example get_expectation_not_shareable :
  forall tc, In tc [ex_get; ex_get_err] ->
  (exists e, expected 2 tc = Ok e /\
     assert_errs (case_def tc) e (observed id_hdrs std_query id_wire ref_server ref_client 1 1 tc) = [EHdrValues WQuery (bs "encoding")]) /\
  (exists e, expected 1 tc = Ok e /\
     assert_errs (case_def tc) e (observed id_hdrs std_query id_wire ref_server ref_client 2 1 tc) = [EHdrValues WQuery (bs "encoding")]).
Proof.
  intros tc [<-|[<-|[]]]; split; eexists; split; vm_compute; reflexivity.
Qed.

(* a case that is not a GET case expects no query param, under either codec *)
Example non_get_expectation_is_codec_free : expected 1 ex_unary = expected 2 ex_unary /\ expected 1 ex_full = expected 2 ex_full.
Proof. split; vm_compute; reflexivity. Qed.

(* a GET case whose stream type is not unary is outside the fragment *)
Example get_needs_unary : wf (mkT (bs "g") 2 [] [mkRq 1 false (bs "a") None] true) = false.
Proof. vm_compute. reflexivity. Qed.
